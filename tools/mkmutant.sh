#!/bin/bash
# usage: mkmutant.sh <name> <property> <expected-rule|silent> "<description>"
# Captures the uncommitted diff of /repo as /verif/mutants/<name>.patch and reverts /repo.
set -eu
name="$1"; prop="$2"; expect="$3"; descr="${4:-}"
out="/verif/mutants/$name.patch"
{ echo "# property: $prop"; echo "# expect: $expect"; echo "# $descr"; git -C /repo diff; } > "$out"
git -C /repo checkout -- .
echo "wrote $out ($(grep -c '^[-+][^-+]' "$out") changed lines)"
