#!/bin/bash
# Self-test of the checker: applies each /verif/mutants/*.patch to a scratch
# copy of /repo (under a temporary directory, removed afterwards), runs the
# property's check against the copy and verifies that it reports a VIOLATION
# naming the expected rule (or, for "expect: silent", that it stays silent).
# usage: tools/mutants.sh [pattern]
set -u
cd "$(dirname "$0")/.."
export GOFLAGS=-mod=mod GOPROXY=off GOSUMDB=off GOTOOLCHAIN=local GOWORK=off
./setup.sh >/dev/null || exit 2
pat="${1:-}"
pass=0; fail=0
for m in mutants/*${pat}*.patch; do
  [ -f "$m" ] || continue
  prop=$(sed -n 's/^# property: *//p' "$m" | head -1)
  expect=$(sed -n 's/^# expect: *//p' "$m" | head -1)
  tmp=$(mktemp -d /tmp/fpsa-mut.XXXXXX)
  rsync -a --exclude .git /repo/ "$tmp/repo/"
  if ! (cd "$tmp/repo" && patch -p1 -s < "$OLDPWD/$m"); then echo "FAIL $m: patch does not apply"; fail=$((fail+1)); rm -rf "$tmp"; continue; fi
  if ! (cd "$tmp/repo" && go build ./... 2>"$tmp/build.log"); then echo "FAIL $m: mutant does not compile"; head -5 "$tmp/build.log"; fail=$((fail+1)); rm -rf "$tmp"; continue; fi
  out=$(FPSA_REPO="$tmp/repo" FPSA_OUT="$tmp/out" bin/fpsa check -property "$prop" -tier quick 2>&1)
  if [ "$expect" = "silent" ]; then
    if echo "$out" | grep -q "^VIOLATION"; then echo "FAIL $m: expected silence, got:"; echo "$out" | grep -E "^\s+\[(VIOLATION|undecided|floor)" | head -5; fail=$((fail+1)); else echo "ok   $m (silent)"; pass=$((pass+1)); fi
  else
    if echo "$out" | grep -E "^\s+\[(VIOLATION|undecided)\] $expect " >/dev/null; then echo "ok   $m ($prop/$expect)"; pass=$((pass+1)); else echo "FAIL $m: expected $prop/$expect to fire"; echo "$out" | tail -5; fail=$((fail+1)); fi
  fi
  rm -rf "$tmp"
done
echo "mutants: $pass ok, $fail failed"
[ $fail -eq 0 ]
