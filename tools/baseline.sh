#!/bin/bash
# Runs the repository's own test suite (hooks guard OFF — there are no hooks)
# and checks that every test of BASELINE.json's stable_pass list passes.
# usage: baseline.sh [repo-dir]
set -u
export GOFLAGS=-mod=mod GOPROXY=off GOSUMDB=off GOTOOLCHAIN=local GOWORK=off
REPO="${1:-/repo}"
OUT="$(mktemp)"
(cd "$REPO" && go test -mod=mod -json -vet=off -count=1 -timeout 25m ./... > "$OUT" 2>/dev/null)
python3 - "$OUT" <<'PY'
import json,sys
res={}
for l in open(sys.argv[1]):
    try: e=json.loads(l)
    except Exception: continue
    if e.get('Test') and e.get('Action') in ('pass','fail','skip'):
        res[e['Package']+'::'+e['Test']]=e['Action']
base=json.load(open('/root/.vp/BASELINE.json'))['stable_pass']
bad=[t for t in base if res.get(t)!='pass']
print(f"baseline: {len(base)} stable tests, {len(base)-len(bad)} pass, {len(bad)} not passing")
for t in bad[:40]: print("  NOT PASSING:",t,res.get(t))
sys.exit(1 if bad else 0)
PY
rc=$?
rm -f "$OUT"
exit $rc
