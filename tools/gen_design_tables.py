#!/usr/bin/env python3
"""Regenerates the generated tables of DESIGN.md §10 (between the BEGIN/END GENERATED markers)
from seeded/*/meta.json, mutants/*.patch, known_findings.json and fpsa/reviewed.json."""
import json,glob,os,re,subprocess
V=os.path.dirname(os.path.dirname(os.path.abspath(__file__)))
out=[]
out.append("#### Seeded changes (independent sub-agents) and the checks that report them\n")
out.append("| Seed | Breaks | Change (one line) | Reported by (VIOLATION line printed) | Rules naming the construct |")
out.append("|---|---|---|---|---|")
for d in sorted(glob.glob(V+"/seeded/*")):
    m=json.load(open(d+"/meta.json"))
    notes=open(d+"/notes.md").read() if os.path.exists(d+"/notes.md") else ""
    title=""
    for l in notes.splitlines():
        if l.startswith("# "):
            title=l[2:].strip(); break
    title=re.sub(r"^Seed\s+\S+\s*[—:-]\s*","",title)
    rep=open(d+"/check_report.txt").read() if os.path.exists(d+"/check_report.txt") else ""
    rules=sorted(set(re.findall(r"\[(?:VIOLATION|undecided)\] ([A-Za-z0-9-]+)",rep)))
    out.append("| %s | %s | %s | %s | %s |"%(m["seed"],m["breaks_property"],title[:110].replace("|","/"),", ".join(m["checks_reporting_violation"]) or "—",", ".join(rules)))
out.append("")
out.append("#### Mutant corpus (`tools/mutants.sh`, scratch copies; `silent` = behaviour-preserving edit that must not alarm)\n")
out.append("| Mutant | Property | Expected rule | Edit |")
out.append("|---|---|---|---|")
for f in sorted(glob.glob(V+"/mutants/*.patch")):
    L=open(f).read().splitlines()
    prop=L[0].split(":",1)[1].strip(); exp=L[1].split(":",1)[1].strip(); descr=L[2].lstrip("# ").strip()
    out.append("| %s | %s | %s | %s |"%(os.path.basename(f)[:-6],prop,exp,descr.replace("|","/")))
out.append("")
out.append("#### Behaviour-preserving refactorings (independent sub-agents; `tools/refactors.sh`; every claimed check must stay silent)\n")
out.append("| Refactoring | Files touched | What was restructured (first line of the agent's notes) | Suite with it | Checks alarming now |")
out.append("|---|---|---|---|---|")
def vkey(d):
    m=re.search(r"R(\d+)$",d); return int(m.group(1)) if m else 0
for d in sorted(glob.glob(V+"/refactors/R*"),key=vkey):
    m=json.load(open(d+"/meta.json"))
    notes=open(d+"/notes.md").read() if os.path.exists(d+"/notes.md") else ""
    first=""
    for l in notes.splitlines():
        l=l.strip()
        if l and not l.startswith("#"):
            first=l; break
    files=sorted(set(re.findall(r"^\+\+\+ b/(\S+)",open(d+"/patch.diff").read(),re.M)))
    out.append("| %s | %s | %s | %s | %s |"%(m["refactor"],", ".join(os.path.basename(f) for f in files),first[:160].replace("|","/"),"green" if m.get("suite_green_with_change") else "NOT GREEN",", ".join(m["checks_reporting_violation"]) or "none (silent)"))
out.append("")
k=json.load(open(V+"/known_findings.json"))
out.append("#### Known findings (genuine defects recorded, not repaired)\n")
out.append("| Property | Obligation key | What fails | Why not repaired |")
out.append("|---|---|---|---|")
for e in k["known_findings"]:
    out.append("| %s | `%s` | %s | %s |"%(e.get("property"),e.get("key"),((e.get("what") or "")+" — "+(e.get("failing_input") or "")).replace("|","/")[:200],(e.get("why_not_fixed") or e.get("why") or "see §10.4").replace("|","/")[:200]))
out.append("")
out.append("#### Repaired defects (`fix:` commits in /repo; each is a `fixed:` entry of known_findings.json and suppresses nothing)\n")
out.append("| Property | Commit | What failed |")
out.append("|---|---|---|")
for e in k["fixed"]:
    w=e["what"]; w=re.sub(r"^fixed: property=\S+ \S+ ","",w)
    out.append("| %s | %s | %s |"%(e["property"],e["commit"],w.replace("|","/")[:260]))
out.append("")
r=json.load(open(V+"/fpsa/reviewed.json"))
out.append("#### Reviewed obligations (%d entries of fpsa/reviewed.json, one named construct each)\n"%len(r))
out.append("| Key | Reason |")
out.append("|---|---|")
for e in r:
    out.append("| `%s` | %s |"%(e["key"].replace("|","¦"),e["reason"].replace("|","/")[:240]))
txt="\n".join(out)
p=V+"/DESIGN.md"
s=open(p).read()
b="<!-- BEGIN GENERATED -->"; e="<!-- END GENERATED -->"
if b in s:
    s=s[:s.index(b)+len(b)]+"\n"+txt+"\n"+s[s.index(e):]
    open(p,"w").write(s)
    print("tables regenerated")
else:
    print("markers not found")
