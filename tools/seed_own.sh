#!/bin/bash
# usage: seed_own.sh [seed-id ...] (default: all) — for each seed, applies the patch to /repo, runs only the check of the
# property the seed breaks (quick tier), undoes the patch and reports whether that check caught it.
# Never run concurrently with other checks (it edits /repo's working tree).
set -u
cd "$(dirname "$0")/.."
ids="$@"; [ -z "$ids" ] && ids=$(ls seeded)
miss=0
for id in $ids; do
  [ -f "seeded/$id/patch.diff" ] || continue
  prop=$(python3 -c "import json;print(json.load(open('seeded/$id/meta.json'))['breaks_property'])")
  if ! git -C /repo apply "/verif/seeded/$id/patch.diff" 2>/dev/null; then echo "$id: patch no longer applies"; miss=$((miss+1)); continue; fi
  out=$(FPSA_OUT=/tmp/fpsa-own ./check.sh $prop quick 2>&1)
  git -C /repo checkout -- . ; git -C /repo clean -fdq -- . 2>/dev/null
  if echo "$out" | grep -q "^VIOLATION property=$prop"; then
    echo "$id: caught by $prop ($(echo "$out" | grep -E '^\s+\[(VIOLATION|undecided|floor)' | sed -E 's/^\s+\[[a-zA-Z]+\] ([A-Za-z0-9-]+).*/\1/' | sort | uniq -c | tr '\n' ' '))"
  else
    echo "$id: MISSED by $prop"; miss=$((miss+1))
  fi
done
rm -rf /tmp/fpsa-own
echo "missed: $miss"
[ $miss -eq 0 ]
