#!/bin/bash
# usage: seed_recheck.sh [seed-id ...]   (default: all) — re-runs every claimed check against /repo with the
# seeded change applied (git apply; undone afterwards) and updates seeded/<id>/meta.json + check_report.txt
set -u
cd "$(dirname "$0")/.."
ids="$@"; [ -z "$ids" ] && ids=$(ls seeded)
for id in $ids; do
  [ -f "seeded/$id/patch.diff" ] || continue
  if ! git -C /repo apply "/verif/seeded/$id/patch.diff" 2>/dev/null; then echo "$id: patch no longer applies"; continue; fi
  out=$(FPSA_OUT=/tmp/fpsa-recheck ./check.sh all quick 2>&1)
  git -C /repo checkout -- . ; git -C /repo clean -fdq -- . 2>/dev/null
  echo "$out" | grep -E "^\s+\[(VIOLATION|undecided|floor)" | cut -c1-400 > "seeded/$id/check_report.txt"
  caught=$(echo "$out" | grep -E "^VIOLATION" | sed 's/VIOLATION property=\([A-Z0-9]*\).*/\1/' | tr '\n' ' ')
  python3 - "$id" "$caught" <<'PY'
import json,sys
id,caught=sys.argv[1],sys.argv[2]
p=f"/verif/seeded/{id}/meta.json"
m=json.load(open(p)); m["checks_reporting_violation"]=caught.split(); json.dump(m,open(p,"w"),indent=1)
print(f"{id}: breaks {m['breaks_property']}; caught by: {caught or 'NONE'}")
PY
done
rm -rf /tmp/fpsa-recheck
