#!/bin/bash
# usage: seed_eval.sh <worktree-dir> <seed-id> <property>
# Confirms a sub-agent's seeded change (suite green with it; demo fails with it and passes
# without it) in a scratch copy, then applies it to /repo, runs every claimed check, undoes it,
# and stores the seed under /verif/seeded/<seed-id>/.
set -u
WT="$1"; ID="$2"; PROP="$3"
export GOFLAGS=-mod=mod GOPROXY=off GOSUMDB=off GOTOOLCHAIN=local GOWORK=off
S="$WT/SEED"
[ -f "$S/patch.diff" ] || { echo "no patch.diff in $S"; exit 2; }
demo_path=$(cat "$S/demo_path.txt" | tr -d '[:space:]')
tmp=$(mktemp -d /tmp/seedeval.XXXXXX)
rsync -a --exclude .git /repo/ "$tmp/repo/"
cd "$tmp/repo"
mkdir -p "$(dirname "$demo_path")"; cp "$S/demo_test.go" "$demo_path"
pkg="./$(dirname "$demo_path")"
echo "== demo WITHOUT change (must pass)"
go test -vet=off -count=1 "$pkg" -run 'Seed|seed|Demo' 2>&1 | tail -3; r_without=${PIPESTATUS[0]}
if ! patch -p1 -s < "$S/patch.diff"; then echo "PATCH DOES NOT APPLY to current /repo"; rm -rf "$tmp"; exit 3; fi
echo "== build WITH change"
go build ./... 2>&1 | tail -3
echo "== demo WITH change (must fail)"
go test -vet=off -count=1 "$pkg" -run 'Seed|seed|Demo' 2>&1 | tail -6; r_with=${PIPESTATUS[0]}
rm -f "$demo_path"
echo "== suite WITH change (must be green)"
/verif/tools/baseline.sh "$tmp/repo" | tail -5; r_suite=${PIPESTATUS[0]}
cd /verif
rm -rf "$tmp"
echo "== checks against /repo with the change applied"
git -C /repo apply "$S/patch.diff" || { echo "git apply failed"; exit 3; }
out=$(./check.sh all quick 2>&1)
git -C /repo checkout -- . ; git -C /repo clean -fdq -- . 2>/dev/null
echo "$out" | grep -E "^C[0-9]+:|^VIOLATION|^\s+\[(VIOLATION|undecided|floor)" | cut -c1-260
caught=$(echo "$out" | grep -E "^VIOLATION" | sed 's/VIOLATION property=\([A-Z0-9]*\).*/\1/' | tr '\n' ' ')
mkdir -p "seeded/$ID"
cp "$S/patch.diff" "seeded/$ID/patch.diff"; cp "$S/demo_test.go" "seeded/$ID/demo_test.go"; cp "$S/notes.md" "seeded/$ID/notes.md" 2>/dev/null
echo "$out" | grep -E "^\s+\[(VIOLATION|undecided|floor)" | cut -c1-400 > "seeded/$ID/check_report.txt"
python3 - "$ID" "$PROP" "$demo_path" "$r_without" "$r_with" "$r_suite" "$caught" <<'PY'
import json,sys
id,prop,demo,rwo,rw,rs,caught=sys.argv[1:8]
json.dump({"seed":id,"breaks_property":prop,"demo_test_path":demo,
 "confirmed":{"demo_passes_without_change":rwo=="0","demo_fails_with_change":rw!="0","suite_green_with_change":rs=="0"},
 "what_it_needs_to_manifest":"see notes.md",
 "checks_reporting_violation":caught.split(),
 "ran":"tools/seed_eval.sh: scratch copy for suite+demo; git -C /repo apply patch.diff; ./check.sh all quick; git -C /repo checkout -- ."},
 open(f"/verif/seeded/{id}/meta.json","w"),indent=1)
print("confirmed: without=%s with=%s suite=%s ; caught by: %s"%(rwo,rw,rs,caught or "NONE"))
PY
