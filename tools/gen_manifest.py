#!/usr/bin/env python3
"""Generates /verif/MANIFEST.json from the table below (kept in one place so the
claimed / not-applicable lists stay consistent with the analyser's property list)."""
import json, subprocess, os
V = os.path.dirname(os.path.dirname(os.path.abspath(__file__)))

claimed = {
 "C19": dict(tech="constant propagation through the reference/identity formatters and parsers (regexp, strings, fmt, net/url folded on constants; heap snapshots of returned allocations), finite-language extraction from the REST regexp, SCCP with the oneof field name pinned",
    text="The REST URL regexp names exactly the R4 resource types; every strong Reference member's field name is turned into its resource type in identityOfStrong and in FHIRPath's reference synthesis; URIString∘LiteralInfoFromURI, Identity renderings∘NewIdentityFromURL/HistoryURL and CanonicalIdentity.String∘canonical regexp are evaluated on pools covering all 146 resource types x id/version/base forms and return the same components; a pool of ill-formed references is rejected with an error on every path; no index in these parsers can go out of range.",
    note="Not decided: weak→strong normalisation (jsonformat, third-party), comparison laws on run-time values, strings outside the pools (the parsers are loop-free compositions of library calls).", ref="§3-C19"),
 "C20": dict(tech="schema-relative table checks (generated Go types vs registries), constant propagation through the snake-casing, loop-exit analysis, oneof-name typing, value provenance of the wrapped message",
    text="Registries list exactly the 146 resource types and cover the 49 extension value types; the type-name → oneof-field conversion is evaluated for each of them and equals the generated field name; registry construction, path labelling, SetByURL, UnwrapMap and slices.Map examine every item; oneof names exist in their message types; Wrap/FromElement store the argument itself under its own type's descriptor and Unwrap reads the populated member.",
    note="Not decided: identity of wrapped/unwrapped messages on values, exactly-once extraction (protorange, third-party), agreement of path labels with FHIRPath evaluation.", ref="§3-C20"),
 "C14": dict(tech="constant propagation through the string functions with pure library models (strings/utf8 folded on constants) compared with a rune-based reference model; byte-indexing inventory; bounds obligations",
    text="length, upper, lower, startsWith, endsWith, contains, indexOf, substring and replace are evaluated from source on a pool of 9 strings mixing 1- to 4-byte code points with all short patterns and boundary positions and compared with a character-based reference; no byte-indexed operation remains in the 13 string functions; out-of-range positions cannot crash.",
    note="Not decided: strings outside the pool (functions are loop-free compositions of library calls, trusted on other strings), toChars/matches/replaceMatches values.", ref="§3-C14"),
 "C09": dict(tech="constant propagation through Date/DateTime/Time Add and Sub with package time folded on known values (TIM-EVAL) compared with a civil-day reference calendar; dimension rule on time.Duration arithmetic; layout/time-value provenance (who-may-produce table); SCCP with the quantity unit pinned",
    text="Add/Sub of the three temporal types are evaluated from source on month ends, leap days, years 0001/9999, every precision, offsets none/Z/+05:30/-11:00, all calendar keywords and the amount pool of the property, and agree with the reference calendar (clamping, 1 year = 365 days, 1 month = 30 days, truncation to the value's precision, wrap around midnight). For all paths: truncation helpers multiply the unit back; results carry the receiver's layout; constructed values derive from parsing or AddDate/Add; non-temporal units are errors; singular/plural keywords are equivalent; Quantity Add/Sub/Less report a mismatch exactly for different units.",
    note="Decided on the pool (quick ≈6k cells, thorough ≈30k); off the pool the functions are loop-free compositions of package time calls. Not decided: monotonicity and (x+q)-q=x as separate laws (they follow from agreement with the reference on the pool only). Sub-day units on a Date and calendar units on a Time may be errors (unsupported unit).", ref="§10.2, §10.5b"),
 "C15": dict(tech="constant propagation through ParseString / extractTimezone / fhirconv renderers (package time folded) / narrowing helpers (regexp, fmt, strconv folded on constants; all generic instantiations built through an in-memory overlay), writer/reader layout-table agreement, SCCP of the precision mappings, float-detour inventory",
    text="String-literal escapes are decoded correctly on all sequences of up to 3 tokens over every escape; UTC offsets render as ±hh:mm for every quarter-hour offset; each fhirconv renderer layout is a parser row of the same precision; System parsers and precision maps agree; FromProto/ToProto precision mappings are mutually inverse; narrow.ToInteger (121 instantiations) and fhirconv.ToInteger (33) succeed exactly for representable values on the boundary pool on amd64 and 386; no Decimal conversion goes through float64; the fhirconv renderers of Date/DateTime/Instant/Time print the instant, precision and offset the element holds for years 0001-9999.",
    note="Not decided: round trips of temporal texts through package time (incl. hidden fraction digits), agreement with the jsonformat marshaller, Decimal/Quantity literal texts.", ref="§3-C15"),
 "C10": dict(tech="SCCP on symbolic collections (positional algebra), value provenance of appended items, dropped-error dataflow, loop-verdict placement",
    text="first/last/tail/skip/take and the indexer are evaluated from source on symbolic collections of 0..4 items for boundary n and compared with the positional specification; exists/empty/count, the where/all criterion handling, the provenance of filtered items and the absence of null items are decided for all paths.",
    note="Not decided: equality-based membership of distinct/exclude/intersect on run-time values. Known finding (test-pinned): exclude() appends the argument's extra items.", ref="§3-C10"),
 "C11": dict(tech="grammar (.g4) reader + AST of the generated parser (precedence/associativity numbers, token-set masks, literal table), SCCP of the visitors with the operator token pinned, dominance in compile.Tree",
    text="Decides that parser and visitor have the shape that makes the property hold: N1 precedence order and operator sets, position-derived Precpred levels, K+1 right operands (left associativity), operand order and root-flag reset in every binary visitor, operator→node/operation map, EOF-terminated start rule with collecting listeners on lexer and parser, String() = stored source.",
    note="Not decided: behavioural equality of two renderings; the serialized ATN (prediction tables, lexer channel actions) is opaque without the ANTLR tool and trusted to match the readable parser code.", ref="§3-C11"),
 "C12": dict(tech="SCCP of parent()/Is()/NewTypeSpecifier with registry lookups modelled from the dummy lists, compared with a frozen R4 hierarchy; schema-derived nested component names",
    text="The parent of every primitive, datatype, resource, base type and nested backbone component name is computed from source and compared with R4; `is` is evaluated on 28 specifier pairs through the recursive walk; name resolution order and rejection on 31 names; choice look-through constants; `as` returns the item iff `is`.",
    note="Not decided: the run-time type of each element (TypeOf reads the descriptor name). Trusted: the frozen R4 excerpt.", ref="§3-C12"),
 "C17": dict(tech="loop-exit and value-flow analysis of ApplyOptions, dominance by the err==nil edge in its callers, SCCP of the option callbacks / validateType / variable lookup / reflective wrapper with pinned sub-results",
    text="All options applied and their errors joined and returned; nothing evaluated or visited after a failing option; duplicate/predefined/unsupported variables fail with the documented sentinels and insert nothing; variable lookup splices collections; the custom-function wrapper validates arity, singleton-ness and types before the reflective call.",
    note="Not decided: behaviour behind reflect.Value.Call (what the user function observes and returns).", ref="§3-C17"),
 "C18": dict(tech="nothing-after path queries over the CFG of every mutating patch function (mutator table, detached-list and closure-target resolution), SCCP for Move/Delete/Add guards, receiver provenance, comparison inventory",
    text="Every error return of every patch function precedes its mutation points; Move always reports not-implemented; deleting an absent element is a no-op success; the value is never a mutator receiver; Add cannot reach a mutation with a populated scalar; the target is found by identity; nil arguments are rejected first; protoreflect index/kind/validity obligations hold.",
    note="Not decided: the frame condition of successful operations on run-time proto state. Assumes Mutable() on a repeated field is equality preserving.", ref="§3-C18"),
 "C02": dict(tech="schema-relative table checks (generated R4 Go types vs the name mapping), SCCP of the admission test, taint analysis of identifier text, type-switch agreement",
    text="Decides structural necessary conditions of navigation exhaustively over the R4 schema as present in the generated Go types: every one of the ~5000 message-valued element fields is admitted by isEvaluable and resolves to its proto field under the modelled lookups (ByName(ToSnake) / _value retry / ByJSONName); the choice discriminator holds for all 186 choice wrappers and agrees between expr and patch; proto-only pseudo fields are refused on the four time primitives only; identifier text is unquoted before use; IsPrimitive/From cover every schema primitive.",
    note="Not decided: equality of results with the JSON tree, document order, reference string synthesis, date/time rendering. The strcase functions are modelled by the library itself (pure functions).", ref="§3-C02"),
 "C13": dict(tech="SCCP with the conversion call / input item type pinned; table name agreement",
    text="For 8 targets x 11 input item forms: toT never errors for a single item and every non-empty result has dynamic type T; convertsToT is true iff toT is non-empty; multi-item input is an error; the table binds the names to the same-named implementations.",
    note="Not decided: which texts convert, round trips through strings. Known findings (test-pinned): 'abc'.toInteger() errors; Patient.toString() = [false].", ref="§3-C13"),
 "C05": dict(tech="SCCP with comparison results pinned (operator orientation / negation tables), loop-verdict placement, type-switch sibling agreement against the R4 schema, reflective method-shape table",
    text="Decides the structural clauses of the comparison machinery for all paths: quantifier verdicts are returned outside their loops; `!=` is `=` negated with a shared empty path; the four inequalities are oriented correctly over normalised operands with precision/unit mismatch mapped to empty; IsPrimitive/From agree and cover every schema primitive; Equal/TryEqual method shapes match what the reflective dispatcher assumes; Integer/String/Boolean comparisons are evaluated exhaustively over a boundary pool.",
    note="Not decided: agreement of Date/DateTime/Time/Quantity/Decimal Less/TryEqual with a reference model on values; transitivity on values. Trusted: SCCP engine, operator semantics table.", ref="§3-C05"),
 "C08": dict(tech="exhaustive abstract evaluation (constant propagation with fixed-width integer semantics) over the boundary pool + who-may-do tables + dominance guards",
    text="Integer.Add/Sub/Mul and the six arithmetic operators on Integer operands are evaluated from source on all 225 ordered pairs of the property's boundary set and compared with math/big; zero divisors, overflow mapping to empty, unary minus, raw int32 arithmetic outside the helpers, unchecked float→Integer conversions and float64 detours are decided for all paths.",
    note="Decimal arithmetic itself is trusted to shopspring/decimal. Known findings: float64 detour in abs/ceiling/floor/truncate; powInt32 overflow (uncallable).", ref="§3-C08"),
 "C01": dict(tech="crash-class inventory over the VTA-reachable repository functions: dominance/guard analysis, SCCP over operand-length classes, operator-token enumeration, visitor dispatch typing",
    text="Every instruction of a recognised crash class (explicit panic / panic helper, integer and decimal division, index and slice, unchecked type assertion, non-finite float into decimal, nil patch argument, nil expression node) and every loop in the repository functions reachable from Compile/Evaluate/Patch is an obligation that must be discharged by a guard holding on every path, a reviewed entry or a known finding. Decides the absence of these crash classes for all inputs; nil dereferences in general, third-party panics and stack exhaustion are not decided.",
    note="Trusted: go/ssa, VTA call graph (reflection-only callees added as roots), library panic table (shopspring/decimal, regexp), reviewed.json (about 30 entries for this property: reflect results, protopath invariants; the grammar token positions and the reference split are checked facts now). Assumes years 0..9999 and collections of System values / FHIR messages.", ref="§3-C01"),
 "C07": dict(tech="SCCP over SSA under len(input)=0 / operand=empty hypotheses for every table entry and operator node",
    text="For every non-aggregate name of both function tables x every admitted arity, and every operator node x operand position, conditional constant propagation shows the only executable outcomes on an empty input/operand are (Empty, nil) or an argument-dependent error, and no crash site is executable. Exhaustive over the tables and nodes of the working tree.",
    note="Trusted: SCCP engine; aggregate list from the property statement. The producer of the empty collection (literal, path, variable) is not distinguished.", ref="§3-C07"),
 "C03": dict(tech="static effect analysis (VTA call-graph reachability + SSA value provenance/freshness)",
    text="Decides, for all paths of all repository functions reachable from the Evaluate entry points, that no proto mutator, no write through a non-fresh slice, no store to a compiled node and no unlisted Context write exists. Structural necessary-and-nearly-sufficient condition of the property (minus reflection and third-party internals); not a proof of the behavioural statement.",
    note="Trusted: go/ssa + VTA call graph (over-approximate), frozen protoreflect mutator table, reviewed.json entries. Not covered: mutation behind reflect (user functions) and inside libraries other than the summarised entry points.", ref="§3-C03"),
 "C04": dict(tech="static effect / who-may-write analysis (globals, map updates, clock and zone calls, Context provenance)",
    text="Decides 'no write to state two evaluations or compilations can share, no clock/zone/env/random read other than the one in InitializeContext' for everything reachable from the API. Race freedom inside libraries and value-level determinism are not decided.",
    note="Trusted: VTA call graph, generated grammar package's sync.Once initialisation, reviewed.json entries (per-compile error listener, input-driven \"Local\" zone arm).", ref="§3-C04"),
 "C06": dict(tech="conditional constant propagation (SCCP) over SSA under exhaustively enumerated operand-form hypotheses",
    text="Exhaustive abstract evaluation of the branch-only Boolean machinery for every operator x operand-form pair, compared with the frozen FHIRPath N1 tables; the abstract domain is exact for these functions, so every cell of the property's exhaustive quantifier over {true,false,empty,non-Boolean,multi-item} operands is decided from source.",
    note="Trusted: the SCCP engine, N1 truth tables frozen in the checker. Operand *sources* (literal, element, variable, function result) are not distinguished: the node only sees the operand collection.", ref="§3-C06"),
 "C16": dict(tech="constant-table extraction + SCCP under len(args)=n per table entry, compared with frozen N1 arities",
    text="Exhaustive over both function tables as they stand: name<->implementation agreement, table bounds vs the implementation's own arity guards vs the specification for n=0..5, the placeholder, and the compile-time lookup/arity guard.",
    note="Trusted: SCCP engine; N1 arity list frozen in the checker; implementations signal arity rejection through impl.ErrWrongArity. Known findings: power/log registered with arity 0..0.", ref="§3-C16"),
}

not_applicable_reason = "not claimed yet: rules for this property are still being built (see DESIGN.md §3 for the planned structural clauses)"

props = [json.loads(l) for l in open(os.path.join(V, "properties.jsonl"))]
checks = []
na = []
for p in props:
    pid = p["id"]
    if pid in claimed:
        c = claimed[pid]
        checks.append({
            "property_id": pid,
            "quick_cmd": f"./check.sh {pid} quick",
            "thorough_cmd": f"./check.sh {pid} thorough",
            "evidence_file": f"evidence/{pid}.json",
            "replay_cmd_template": f"./check.sh {pid} quick -v  # violations are also written to {{path}}",
            "engine": "fpsa",
            "level_claimed": {"category": "other", "text": c["text"], "design_ref": c["ref"]},
            "level_note": c["note"],
            "technique": c["tech"],
        })
    else:
        na.append({"property_id": pid, "reason": NA.get(pid, not_applicable_reason) if 'NA' in globals() else not_applicable_reason})

m = {
 "version": 1,
 "setup_cmd": "./setup.sh",
 "hooks": {"guard": "verif", "enable": "none needed: the analysis reads source only and instruments nothing", "baseline_off_cmd": "./tools/baseline.sh", "source_commits": [], "add_only": True},
 "engines": [{"name": "fpsa", "path": "fpsa/", "serves_properties": sorted(claimed), "kind_free_text": "purpose-built Go static analyser (go/packages + go/ssa + VTA call graph; SCCP, provenance, path and table-extraction engines; ~60 repository-specific rules)"}],
 "checks": checks,
 "not_applicable": na,
 "notes": "Static analysis only: every check re-loads /repo's working tree (go/packages, offline), builds SSA and decides obligations; nothing under /repo is executed. Known findings: known_findings.json; reviewed obligations: fpsa/reviewed.json; fingerprints of unexported anchors (rename tolerance): fpsa/anchors.json (read-only in checks). Self-tests of the checker: tools/mutants.sh (61 property-breaking mutants must be reported), tools/seed_own.sh (72 independent seeded changes), tools/refactors.sh (40 independent behaviour-preserving refactorings must stay silent; 39 do, see DESIGN 10.5c).",
}
json.dump(m, open(os.path.join(V, "MANIFEST.json"), "w"), indent=1)
print("claimed", sorted(claimed), "n/a", [x["property_id"] for x in na])
