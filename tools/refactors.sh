#!/bin/bash
# usage: refactors.sh [ids...] — every behaviour-preserving refactoring kept under /verif/refactors/<id>/ is
# applied to /repo in turn (git apply; undone afterwards) and every claimed check must stay silent.
# Never run concurrently with other checks (it edits /repo's working tree).
set -u
cd "$(dirname "$0")/.."
ids="$@"; [ -z "$ids" ] && ids=$(ls refactors | sort -V)
bad=0
for id in $ids; do
  [ -f "refactors/$id/patch.diff" ] || continue
  if ! git -C /repo apply "/verif/refactors/$id/patch.diff" 2>/dev/null; then echo "$id: patch no longer applies (re-base it)"; bad=$((bad+1)); continue; fi
  out=$(FPSA_OUT=/tmp/fpsa-refac ./check.sh all quick 2>&1)
  git -C /repo checkout -- . ; git -C /repo clean -fdq -- . 2>/dev/null
  echo "$out" | grep -E "^\s+\[(VIOLATION|undecided|floor)" | cut -c1-500 > "refactors/$id/check_report.txt"
  alarms=$(echo "$out" | grep -E "^VIOLATION" | sed 's/VIOLATION property=\([A-Z0-9]*\).*/\1/' | tr '\n' ' ')
  python3 - "$id" "$alarms" <<'PY'
import json,sys
id,al=sys.argv[1:3]
p=f"/verif/refactors/{id}/meta.json"
m=json.load(open(p)); m["checks_reporting_violation"]=al.split(); json.dump(m,open(p,"w"),indent=1)
PY
  if [ -n "$alarms" ]; then echo "$id: ALARM from $alarms"; bad=$((bad+1)); else echo "$id: silent"; fi
done
rm -rf /tmp/fpsa-refac
echo "refactors raising an alarm: $bad"
[ $bad -eq 0 ]
