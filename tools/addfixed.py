#!/usr/bin/env python3
# addfixed.py PROP COMMIT "what failed"
import json,sys
p='/verif/known_findings.json'
d=json.load(open(p))
prop,commit,what=sys.argv[1:4]
d['fixed'].append({"property":prop,"commit":commit,"what":"fixed: property=%s %s %s"%(prop,commit,what)})
json.dump(d,open(p,'w'),indent=1,ensure_ascii=False); open(p,'a').write("\n")
