#!/bin/bash
# usage: refactor_eval.sh <worktree-dir> <id>
# A behaviour-preserving refactoring produced by a sub-agent: confirm the suite is green with it
# (scratch copy), apply it to /repo, run every claimed check (they must stay silent), undo it, and
# keep it under /verif/refactors/<id>/ as a must-stay-silent case.
set -u
WT="$1"; ID="$2"
export GOFLAGS=-mod=mod GOPROXY=off GOSUMDB=off GOTOOLCHAIN=local GOWORK=off
S="$WT/SEED"
[ -f "$S/patch.diff" ] || { echo "no patch.diff in $S"; exit 2; }
tmp=$(mktemp -d /tmp/refeval.XXXXXX)
rsync -a --exclude .git /repo/ "$tmp/repo/"
cd "$tmp/repo"
if ! patch -p1 -s < "$S/patch.diff"; then echo "PATCH DOES NOT APPLY to current /repo"; rm -rf "$tmp"; exit 3; fi
go build ./... 2>&1 | tail -3
/verif/tools/baseline.sh "$tmp/repo" | tail -2; r_suite=${PIPESTATUS[0]}
cd /verif; rm -rf "$tmp"
git -C /repo apply "$S/patch.diff" || { echo "git apply failed"; exit 3; }
out=$(./check.sh all quick 2>&1)
git -C /repo checkout -- . ; git -C /repo clean -fdq -- . 2>/dev/null
alarms=$(echo "$out" | grep -E "^VIOLATION" | sed 's/VIOLATION property=\([A-Z0-9]*\).*/\1/' | tr '\n' ' ')
mkdir -p "refactors/$ID"
cp "$S/patch.diff" "refactors/$ID/patch.diff"; cp "$S/notes.md" "refactors/$ID/notes.md" 2>/dev/null
echo "$out" | grep -E "^\s+\[(VIOLATION|undecided|floor)" | cut -c1-500 > "refactors/$ID/check_report.txt"
python3 - "$ID" "$r_suite" "$alarms" <<'PY'
import json,sys
id,rs,al=sys.argv[1:4]
json.dump({"refactor":id,"suite_green_with_change":rs=="0","checks_reporting_violation":al.split(),"expected":"silent"},open(f"/verif/refactors/{id}/meta.json","w"),indent=1)
print("suite=%s ; alarms: %s"%(rs,al or "NONE (silent)"))
PY
echo "$out" | grep -E "^\s+\[(VIOLATION|undecided)" | cut -c1-330 | head -12
