#!/bin/bash
# refactor_quick.sh <Rn> [props...]: apply /verif/refactors/<Rn>/patch.diff to /repo, run the checks, undo.
# A behaviour-preserving refactor must leave every check silent.
id=$1; shift
props=${@:-all}
cd /verif
git -C /repo apply /verif/refactors/$id/patch.diff || exit 2
for p in $props; do
  ./check.sh $p quick 2>&1 | grep -E "\[(VIOLATION|undecided|floor)\]|^VIOLATION|unresolved" | cut -c1-${CUT:-400}
done
git -C /repo checkout -- . ; git -C /repo clean -fdq -- . 2>/dev/null
