#!/usr/bin/env python3
"""usage: rev.py KEY REASON  — add/replace one entry of fpsa/reviewed.json"""
import json,sys,os
p=os.path.join(os.path.dirname(os.path.dirname(os.path.abspath(__file__))),'fpsa','reviewed.json')
d=json.load(open(p))
k,r=sys.argv[1],sys.argv[2]
d=[e for e in d if e['key']!=k]+[{'key':k,'reason':r}]
d.sort(key=lambda e:e['key'])
json.dump(d,open(p,'w'),indent=1,ensure_ascii=False)
