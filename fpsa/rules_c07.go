package main

// C07 — empty collections propagate.  EMP1 every non-aggregate table
// function, EMP2 every operator node, EMP3 empty arguments (index sites on
// argument results; shares PAN3's engine).

import (
	"fmt"
	"strings"

	"golang.org/x/tools/go/ssa"
)

// documented aggregates: functions defined on the empty collection
var aggregates = map[string]bool{
	"exists": true, "empty": true, "count": true, "all": true, "allTrue": true, "anyTrue": true,
	"allFalse": true, "anyFalse": true, "isDistinct": true, "iif": true, "now": true, "today": true, "timeOfDay": true,
}

func isEmptyColl(v aval) bool {
	n, ok := lenOf(v)
	return ok && n == 0
}

// classifyReturn: "empty" (Empty,nil) | "error" | "value" | "unknown"
func classifyReturn(ri retInfo) string {
	if len(ri.vals) != 2 {
		return "unknown"
	}
	c, e := ri.vals[0], ri.vals[1]
	switch {
	case e.k == kNonNil:
		return "error"
	case e.k == kNil:
		if isEmptyColl(c) {
			return "empty"
		}
		if n, ok := lenOf(c); ok && n > 0 {
			return "value"
		}
		return "unknown-collection"
	default:
		// error unknown (e.g. the error result of an argument evaluation)
		if isEmptyColl(c) {
			return "empty-or-error"
		}
		return "unknown"
	}
}

func ruleEMP1(p *Program) *RuleResult {
	r := newResult("EMP1")
	base, exp, err := readBothTables(p)
	if err != nil {
		return r.anchorFail(err)
	}
	for ti, tab := range [][]funcEntry{base, exp} {
		tname := []string{"baseTable", "experimentalTable"}[ti]
		for _, e := range tab {
			if e.Placeholder {
				continue
			}
			if aggregates[e.Name] {
				r.count("aggregates_skipped", 1)
				continue
			}
			fn := p.ssaFuncOf(e.Impl)
			if fn == nil || len(fn.Blocks) == 0 || len(fn.Params) != 3 {
				r.undecided(tname+"["+e.Name+"]|impl", "implementation body", p.pos(e.Pos), "no SSA body / unexpected signature")
				continue
			}
			r.count("functions", 1)
			for n := e.Min; n <= e.Max && n <= 5; n++ {
				r.count("hypotheses", 1)
				an := newAnalyzer()
				an.maxBlocks = 200
				// argument evaluations succeed with an unknown collection: the
				// property speaks about well-formed arguments
				res := an.analyze(fn, []aval{nonnil("ctx"), coll(), sliceLen(n)})
				key := fmt.Sprintf("%s[%s]|n=%d", tname, e.Name, n)
				desc := fmt.Sprintf("{}.%s(%d args) via %s", e.Name, n, e.ImplName)
				var problems []string
				if res.nonconverged {
					r.undecided(key, desc, p.pos(fn.Pos()), "analysis did not converge")
					continue
				}
				for _, h := range res.hazards {
					problems = append(problems, "crash site executable on empty input: "+h.what+" at "+p.instrPos(h.leaf))
				}
				if len(res.rets) == 0 && len(res.hazards) == 0 {
					problems = append(problems, "no executable return")
				}
				for _, ri := range res.rets {
					switch cl := classifyReturn(ri); cl {
					case "empty", "empty-or-error":
					case "error":
						// an error that is forced by the emptiness of the input alone
						if res.decidedEntry(ri.instr.Block(), 0) {
							problems = append(problems, fmt.Sprintf("error %s forced by the empty input at %s", ri.vals[1], p.instrPos(ri.instr)))
						}
					case "value":
						problems = append(problems, fmt.Sprintf("returns the value %s at %s", ri.vals[0], p.instrPos(ri.instr)))
					default:
						// unknown collection: acceptable only if it cannot be
						// non-empty — we cannot tell, so it is undecided unless the
						// return is not reachable without an argument-dependent branch
						if res.decidedEntry(ri.instr.Block(), 0) {
							problems = append(problems, fmt.Sprintf("returns an undetermined collection %s at %s", ri.vals[0], p.instrPos(ri.instr)))
						}
					}
				}
				if len(problems) == 0 {
					r.ok(key, desc+" → empty", p.pos(fn.Pos()), "SCCP under len(input)=0 ∧ len(args)=n: every executable return is (Empty, nil) or an argument-dependent error; no hazard", true)
				} else {
					r.bad(key, desc, p.pos(fn.Pos()), strings.Join(problems, "; "))
				}
			}
		}
	}
	r.floor("functions", 35)
	return r
}

// scalarArgs: argument positions that require a single value (FHIRPath N1 signatures).
var scalarArgs = map[string][]int{
	"indexOf": {0}, "substring": {0, 1}, "startsWith": {0}, "endsWith": {0}, "contains": {0},
	"replace": {0, 1}, "matches": {0}, "replaceMatches": {0, 1}, "skip": {0}, "take": {0},
	"round": {0}, "log": {0}, "power": {0}, "toQuantity": {0}, "join": {0},
}

// argEvaluateCalls: Evaluate calls, in fn and the closures defined in it, whose
// receiver is args[i] (args = the variadic parameter, directly or captured).
func argEvaluateCalls(fn *ssa.Function, i int) []*ssa.Call {
	var out []*ssa.Call
	var visit func(f *ssa.Function, depth int)
	isArgs := func(f *ssa.Function, v ssa.Value) bool {
		for d := 0; d < 4; d++ {
			switch x := v.(type) {
			case *ssa.Parameter:
				return len(fn.Params) == 3 && x == fn.Params[2]
			case *ssa.UnOp:
				v = x.X
			case *ssa.Alloc:
				// spilled parameter cell: initialised from the parameter
				for _, ref := range *x.Referrers() {
					if st, ok := ref.(*ssa.Store); ok && st.Addr == ssa.Value(x) {
						if pr, ok := st.Val.(*ssa.Parameter); ok && len(fn.Params) == 3 && pr == fn.Params[2] {
							return true
						}
					}
				}
				return false
			case *ssa.FreeVar:
				if al := capturedCell(x); al != nil {
					v = al
				} else {
					return false
				}
			default:
				return false
			}
		}
		return false
	}
	visit = func(f *ssa.Function, depth int) {
		if depth > 2 {
			return
		}
		for _, b := range f.Blocks {
			for _, ins := range b.Instrs {
				c, ok := ins.(*ssa.Call)
				if !ok || !c.Common().IsInvoke() || c.Common().Method.Name() != "Evaluate" {
					continue
				}
				ld, ok := c.Common().Value.(*ssa.UnOp)
				if !ok {
					continue
				}
				ia, ok := ld.X.(*ssa.IndexAddr)
				if !ok {
					continue
				}
				k, ok := ia.Index.(*ssa.Const)
				if !ok || k.Value == nil || k.Value.ExactString() != fmt.Sprint(i) {
					continue
				}
				if isArgs(f, ia.X) {
					out = append(out, c)
				}
			}
		}
		for _, af := range f.AnonFuncs {
			visit(af, depth+1)
		}
	}
	visit(fn, 0)
	return out
}

// EMP3: an empty argument where a single value is required yields empty or an
// error, never a value.
func ruleEMP3(p *Program) *RuleResult {
	r := newResult("EMP3")
	base, exp, err := readBothTables(p)
	if err != nil {
		return r.anchorFail(err)
	}
	for ti, tab := range [][]funcEntry{base, exp} {
		tname := []string{"baseTable", "experimentalTable"}[ti]
		for _, e := range tab {
			pos, ok := scalarArgs[e.Name]
			if !ok || e.Placeholder {
				continue
			}
			fn := p.ssaFuncOf(e.Impl)
			if fn == nil || len(fn.Blocks) == 0 || len(fn.Params) != 3 {
				continue
			}
			r.count("functions", 1)
			for _, i := range pos {
				// the arity range of the implementation itself (the table may admit fewer, C16)
				hi := e.Max
				if hi < i+1 {
					hi = i + 1 // the table admits fewer arguments than the implementation (C16): test the implementation's own arity
				}
				for n := i + 1; n <= hi && n <= 4; n++ {
					key := fmt.Sprintf("%s[%s]|arg %d of %d", tname, e.Name, i, n)
					desc := fmt.Sprintf("x.%s(…) with argument %d of %d empty, via %s", e.Name, i, n, e.ImplName)
					r.count("hypotheses", 1)
					an := newAnalyzer()
					an.maxBlocks = 300
					oe := newOperandEnv()
					oe.results[fmt.Sprintf("args[%d]", i)] = okTuple(coll())
					an.callModel = oe.model()
					res := an.analyze(fn, []aval{nonnil("ctx"), aval{k: kSlice, n: 1}, argsValue(n)})
					if res.nonconverged {
						r.undecided(key, desc, p.pos(fn.Pos()), "analysis did not converge")
						continue
					}
					var problems []string
					nret := 0
					for _, ri := range res.rets {
						if classifyReturn(ri) == "error" && hasNote(ri.vals[1], "impl.ErrWrongArity") {
							continue
						}
						nret++
						switch classifyReturn(ri) {
						case "value":
							problems = append(problems, fmt.Sprintf("returns the value %s at %s", ri.vals[0], p.instrPos(ri.instr)))
						case "unknown-collection":
							problems = append(problems, fmt.Sprintf("returns an undetermined collection %s at %s", ri.vals[0], p.instrPos(ri.instr)))
						}
					}
					if nret == 0 {
						continue // arity not accepted by the implementation
					}
					if len(problems) == 0 {
						r.ok(key, desc+" → empty or error", p.pos(fn.Pos()), "SCCP with the argument's evaluation pinned to the empty collection and a one-item input: no executable return carries a value", true)
					} else if oe.untagged > 0 {
						r.undecided(key, desc, p.pos(fn.Pos()), "the arguments are evaluated through a loop or another indirection the operand tags do not survive: "+strings.Join(problems, "; "))
					} else {
						r.bad(key, desc, p.pos(fn.Pos()), strings.Join(problems, "; "))
					}
				}
			}
		}
	}
	r.floor("functions", 10)
	return r
}

// operator nodes: (type name, operand fields)
var operatorNodes = []struct {
	typ      string
	operands []string
	unary    bool
}{
	{"EqualityExpression", []string{"Left", "Right"}, false},
	{"ComparisonExpression", []string{"Left", "Right"}, false},
	{"ArithmeticExpression", []string{"Left", "Right"}, false},
	{"IsExpression", []string{"Expr"}, true},
	{"AsExpression", []string{"Expr"}, true},
	{"NegationExpression", []string{"Expr"}, true},
	{"IndexExpression", []string{"Index"}, true},
}

func ruleEMP2(p *Program) *RuleResult {
	r := newResult("EMP2")
	st, err := systemTypes(p)
	if err != nil {
		return r.anchorFail(err)
	}
	for _, node := range operatorNodes {
		fn, err := p.Method("fhirpath/internal/expr", node.typ, "Evaluate")
		if err != nil {
			return r.anchorFail(err)
		}
		runNode := func(results map[string]aval) (*result, *operandEnv) {
			an := newAnalyzer()
			an.maxBlocks = 200
			oe := newOperandEnv()
			for f, v := range results {
				oe.results["field:"+f] = v
			}
			an.callModel = oe.model()
			return an.analyze(fn, []aval{nodeReceiver(fn, nil), nonnil("ctx"), top}), oe
		}
		{
			probe := map[string]aval{}
			for _, f := range node.operands {
				probe[f] = okTuple(sliceLen(1))
			}
			_, oe := runNode(probe)
			missing := false
			for _, f := range node.operands {
				if !oe.evaluated["field:"+f] {
					missing = true
				}
			}
			if missing {
				r.undecided(node.typ+"|shape", "the operands are not all evaluated on singleton operands", p.pos(fn.Pos()), "unsupported shape")
				continue
			}
		}
		for _, emptyOp := range node.operands {
			// the other operand: unknown singleton / unknown collection
			for _, other := range []string{"singleton", "unknown", "empty"} {
				if node.unary && other != "singleton" {
					continue
				}
				r.count("hypotheses", 1)
				results := map[string]aval{}
				for _, f := range node.operands {
					if f == emptyOp {
						results[f] = okTuple(coll())
					} else {
						switch other {
						case "singleton":
							results[f] = okTuple(sliceLen(1))
						case "empty":
							results[f] = okTuple(coll())
						default:
							results[f] = okTuple(top)
						}
					}
				}
				res, _ := runNode(results)
				key := fmt.Sprintf("%s|%s empty|other=%s", node.typ, emptyOp, other)
				desc := fmt.Sprintf("%s with %s = {} (other operand %s)", node.typ, emptyOp, other)
				var problems []string
				for _, h := range res.hazards {
					problems = append(problems, "crash site executable: "+h.what)
				}
				if len(res.rets) == 0 {
					problems = append(problems, "no executable return")
				}
				for _, ri := range res.rets {
					if cl := classifyReturn(ri); cl != "empty" {
						problems = append(problems, fmt.Sprintf("%s return %v at %s", cl, ri.vals, p.instrPos(ri.instr)))
					}
				}
				if len(problems) == 0 {
					r.ok(key, desc+" → empty", p.pos(fn.Pos()), "SCCP with operand results pinned: the only executable return is (Empty, nil)", true)
				} else {
					r.bad(key, desc, p.pos(fn.Pos()), strings.Join(problems, "; "))
				}
			}
		}
	}
	// `&` alone treats empty as the empty string
	concat, err := p.Method("fhirpath/internal/expr", "ConcatExpression", "Evaluate")
	if err != nil {
		return r.anchorFail(err)
	}
	runConcat := func(l, rr aval) (*result, *operandEnv) {
		an := newAnalyzer()
		an.maxBlocks = 200
		oe := newOperandEnv()
		oe.results["field:Left"], oe.results["field:Right"] = l, rr
		an.callModel = oe.model()
		return an.analyze(concat, []aval{nodeReceiver(concat, nil), nonnil("ctx"), top}), oe
	}
	if _, oe := runConcat(okTuple(coll(st.strItem("x"))), okTuple(coll(st.strItem("x")))); !oe.evaluated["field:Left"] || !oe.evaluated["field:Right"] {
		r.undecided("ConcatExpression|shape", "the operands are not both evaluated", p.pos(concat.Pos()), "unsupported shape")
	} else {
		type tc struct{ l, r aval; want string }
		x := coll(st.strItem("x"))
		for name, c := range map[string]tc{
			"left empty":  {coll(), x, "x"},
			"right empty": {x, coll(), "x"},
			"both empty":  {coll(), coll(), ""},
			"none empty":  {x, x, "xx"},
		} {
			r.count("hypotheses", 1)
			res, _ := runConcat(okTuple(c.l), okTuple(c.r))
			got := "?"
			if len(res.rets) == 1 && len(res.hazards) == 0 && retIsOK(res.rets[0]) {
				v := res.rets[0].vals[0]
				if v.k == kSlice && len(v.elems) == 1 && v.elems[0].k == kConst {
					got = unquote(v.elems[0].c.ExactString())
				}
			}
			key := "ConcatExpression|" + name
			desc := fmt.Sprintf("& with %s = %q (want %q)", name, got, c.want)
			if got == c.want {
				r.ok(key, desc, p.pos(concat.Pos()), "SCCP with operand results pinned", true)
			} else {
				r.bad(key, desc+hazardText(res), p.pos(concat.Pos()), "`&` must treat an empty operand as the empty string and yield a single string")
			}
		}
	}
	r.floor("hypotheses", 16)
	return r
}
