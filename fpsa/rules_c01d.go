package main

// C01 (part d) — protoreflect crash classes on the FHIRPatch / navigation
// paths: PAN3b List.Get/Set index, PAN9 Value accessor kind, PAN10 invalid
// (zero) Value handed to Set/Append.

import (
	"fmt"
	"go/constant"
	"go/token"
	"go/types"
	"strings"

	"golang.org/x/tools/go/ssa"
)

const prPkg = "google.golang.org/protobuf/reflect/protoreflect"

func isPRInvoke(c *ssa.CallCommon, typ, meth string) bool {
	return c.IsInvoke() && namedPkgPath(c.Value.Type()) == prPkg && namedName(c.Value.Type()) == typ && c.Method.Name() == meth
}

func isPRValueMethod(c *ssa.CallCommon, meth string) bool {
	sc := c.StaticCallee()
	return sc != nil && sc.RelString(nil) == "("+prPkg+".Value)."+meth
}

// fdGuard: is `at` dominated by a test on field descriptor fd that implies want?
//
//	want = "message": fd.Kind() == MessageKind (or GroupKind) / fd.Message() != nil
//	want = "list":    fd.IsList() / fd.Cardinality() == Repeated
//	want = "map":     fd.IsMap()
func fdGuard(fn *ssa.Function, fd ssa.Value, want string, at ssa.Instruction) bool {
	isCallOn := func(v ssa.Value, meth string) bool {
		c, ok := v.(*ssa.Call)
		return ok && c.Common().IsInvoke() && c.Common().Method.Name() == meth && sameAccess(c.Common().Value, fd)
	}
	constName := func(v ssa.Value) string {
		if c, ok := v.(*ssa.Const); ok && c.Value != nil {
			return c.Value.ExactString()
		}
		return ""
	}
	for _, b := range fn.Blocks {
		ifi, ok := b.Instrs[len(b.Instrs)-1].(*ssa.If)
		if !ok {
			continue
		}
		cond := ifi.Cond
		neg := false
		if u, ok := cond.(*ssa.UnOp); ok && u.Op == token.NOT {
			cond, neg = u.X, true
		}
		yesEdge := -1
		switch c := cond.(type) {
		case *ssa.Call:
			switch want {
			case "list":
				if isCallOn(c, "IsList") {
					yesEdge = 0
				}
			case "map":
				if isCallOn(c, "IsMap") {
					yesEdge = 0
				}
			}
		case *ssa.BinOp:
			if c.Op != token.EQL && c.Op != token.NEQ {
				break
			}
			x, y := c.X, c.Y
			if _, isC := x.(*ssa.Const); isC {
				x, y = y, x
			}
			match := false
			switch want {
			case "message":
				// protoreflect.MessageKind = 11, GroupKind = 10
				if isCallOn(x, "Kind") && (constName(y) == "11") {
					match = true
				}
			case "list":
				// protoreflect.Repeated = 3
				if isCallOn(x, "Cardinality") && constName(y) == "3" {
					match = true
				}
			}
			if match {
				if c.Op == token.EQL {
					yesEdge = 0
				} else {
					yesEdge = 1
				}
			}
		}
		if yesEdge < 0 {
			continue
		}
		if neg {
			yesEdge = 1 - yesEdge
		}
		if edgeDominates(b, yesEdge, at.Block()) {
			return true
		}
	}
	return fdGuardAcross(fn, fd, want, at, 0)
}

// fdGuardAcross: the kind test was made on the other side of a call boundary:
// the descriptor is the result of an in-repo helper all of whose successful
// returns (nil error) hand back a descriptor tested in the helper, used here
// where that error is nil; or it is a parameter of an unexported, only directly
// called function every call site of which passes a tested descriptor.
func fdGuardAcross(fn *ssa.Function, fd ssa.Value, want string, at ssa.Instruction, depth int) bool {
	if depth > 2 {
		return false
	}
	switch x := fd.(type) {
	case *ssa.Extract:
		call, ok := x.Tuple.(*ssa.Call)
		if !ok || call.Referrers() == nil {
			return false
		}
		h := call.Common().StaticCallee()
		if h == nil || !inRepoFn(h) || len(h.Blocks) == 0 {
			return false
		}
		nres := h.Signature.Results().Len()
		if nres < 2 || !isErrorType(h.Signature.Results().At(nres-1).Type()) {
			return false
		}
		var errv ssa.Value
		for _, ref := range *call.Referrers() {
			if ex, ok := ref.(*ssa.Extract); ok && ex.Index == nres-1 {
				errv = ex
			}
		}
		if errv == nil || !valueNilGuarded(fn, errv, at) {
			return false
		}
		found := false
		for _, b := range h.Blocks {
			ret, ok := b.Instrs[len(b.Instrs)-1].(*ssa.Return)
			if !ok || len(ret.Results) != nres {
				continue
			}
			if c, isC := ret.Results[nres-1].(*ssa.Const); !isC || !c.IsNil() {
				continue // an error return
			}
			if !fdGuard(h, ret.Results[x.Index], want, ret) {
				return false
			}
			found = true
		}
		return found
	case *ssa.Parameter:
		if theProgram == nil {
			return false
		}
		sites, ok := theProgram.directCallSites(fn)
		if !ok {
			return false
		}
		pi := -1
		for i, q := range fn.Params {
			if q == x {
				pi = i
			}
		}
		if pi < 0 {
			return false
		}
		for _, c := range sites {
			if pi >= len(c.Common().Args) || !fdGuard(c.Parent(), c.Common().Args[pi], want, c) {
				return false
			}
		}
		return true
	}
	return false
}

// valueOrigin classifies where a protoreflect.Value comes from.
//
//	("get", msg, fd)       M.Get(fd) / M.Mutable(fd) / M.NewField(fd)
//	("elem", listValue)    L.Get(i) / L.NewElement() / L.AppendMutable()
//	("valueof", kind)      protoreflect.ValueOfX
func valueOrigin(v ssa.Value) (kind string, a, b ssa.Value) {
	c, ok := v.(*ssa.Call)
	if !ok {
		return "other", nil, nil
	}
	cc := c.Common()
	switch {
	case isPRInvoke(cc, "Message", "Get"), isPRInvoke(cc, "Message", "Mutable"), isPRInvoke(cc, "Message", "NewField"):
		return "get", cc.Value, cc.Args[0]
	case isPRInvoke(cc, "List", "Get"), isPRInvoke(cc, "List", "NewElement"), isPRInvoke(cc, "List", "AppendMutable"):
		return "elem", cc.Value, nil
	}
	if sc := cc.StaticCallee(); sc != nil && fnPkgPath(sc) == prPkg && strings.HasPrefix(sc.Name(), "ValueOf") {
		return "valueof:" + strings.TrimPrefix(sc.Name(), "ValueOf"), nil, nil
	}
	return "other", nil, nil
}

// listFieldOf: the field descriptor a protoreflect.List value was obtained with.
func listFieldOf(l ssa.Value) ssa.Value {
	for i := 0; i < 4; i++ {
		switch x := l.(type) {
		case *ssa.Call:
			if isPRValueMethod(x.Common(), "List") {
				k, _, fd := valueOrigin(x.Common().Args[0])
				if k == "get" {
					return fd
				}
				return nil
			}
			return nil
		case *ssa.UnOp:
			// load of a captured / local cell holding the list: single store
			if al, ok := x.X.(*ssa.Alloc); ok {
				var st ssa.Value
				n := 0
				for _, ref := range *al.Referrers() {
					if s, ok := ref.(*ssa.Store); ok && s.Addr == ssa.Value(al) {
						st = s.Val
						n++
					}
				}
				if n == 1 {
					l = st
					continue
				}
			}
			return nil
		default:
			return nil
		}
	}
	return nil
}

func rulePAN9(p *Program) *RuleResult {
	r := newResult("PAN9")
	fns := apiRepoFuncs(p, r)
	// schema fact: the R4 protos have no repeated scalar/enum fields, so every
	// element of a protoreflect.List of an R4 message is a message
	rsf, nmsg, err := repeatedScalarFields(p)
	if err != nil {
		return r.anchorFail(err)
	}
	r.count("schema_messages_scanned", nmsg)
	listsHoldMessages := len(rsf) == 0
	if !listsHoldMessages {
		r.note("repeated scalar fields exist in the schema: %v", rsf)
	}
	for _, fn := range fns {
		for _, b := range fn.Blocks {
			for _, ins := range b.Instrs {
				call, ok := ins.(*ssa.Call)
				if !ok {
					continue
				}
				cc := call.Common()
				var want string
				switch {
				case isPRValueMethod(cc, "Message"):
					want = "message"
				case isPRValueMethod(cc, "List"):
					want = "list"
				case isPRValueMethod(cc, "Map"):
					want = "map"
				default:
					continue
				}
				r.count("value_accessor_sites", 1)
				recv := cc.Args[0]
				kind, a, fd := valueOrigin(recv)
				key := short(fn) + "|Value." + strings.Title(want) + "() of " + prOriginDescr(recv)
				desc := "protoreflect.Value." + strings.Title(want) + "() on " + prOriginDescr(recv)
				switch {
				case kind == "get":
					if fdGuard(fn, fd, want, call) || (want == "message" && fdMessageByConstruction(fn, fd)) {
						r.ok(key, desc, p.instrPos(ins), "dominated by a kind/cardinality test of the same field descriptor", true)
					} else {
						r.bad(key, desc, p.instrPos(ins), "Value."+strings.Title(want)+"() panics when the field is not of that kind; no dominating test of the field descriptor (Kind()/IsList()/IsMap())")
					}
				case kind == "elem":
					lfd := listFieldOf(a)
					if want == "message" && lfd != nil && (fdGuard(fn, lfd, "message", call) || fdMessageByConstruction(fn, lfd)) {
						r.ok(key, desc, p.instrPos(ins), "list element of a field tested to be of message kind", true)
					} else if want == "message" && listsHoldMessages {
						r.ok(key, desc, p.instrPos(ins), fmt.Sprintf("EN-SCHEMA: none of the %d R4 message types has a repeated scalar/enum field, so list elements are messages", nmsg), true)
					} else if want == "message" {
						r.bad(key, desc, p.instrPos(ins), "element of a list whose field is not tested to be of message kind: panics for repeated scalar/enum fields")
					} else {
						r.bad(key, desc, p.instrPos(ins), "nested list/map access on a list element")
					}
				case strings.HasPrefix(kind, "valueof:"):
					got := strings.ToLower(strings.TrimPrefix(kind, "valueof:"))
					if got == want {
						r.ok(key, desc, p.instrPos(ins), "value constructed with ValueOf"+strings.Title(want), false)
					} else {
						r.bad(key, desc, p.instrPos(ins), "value constructed as "+got)
					}
				default:
					r.bad(key, desc, p.instrPos(ins), "origin of the Value is not recognised")
				}
			}
		}
	}
	r.floor("value_accessor_sites", 8)
	return r
}

// fdMessageByConstruction: fd was obtained in a way that implies message kind
// (e.g. Fields().ByName of a FHIR message other than a primitive is not known
// statically) — currently only: fd is the result of WhichOneof on a FHIR
// choice/reference oneof, whose members are all messages.
func fdMessageByConstruction(fn *ssa.Function, fd ssa.Value) bool {
	c, ok := fd.(*ssa.Call)
	if !ok {
		return false
	}
	return isPRInvoke(c.Common(), "Message", "WhichOneof")
}

func prOriginDescr(v ssa.Value) string {
	kind, a, fd := valueOrigin(v)
	switch {
	case kind == "get":
		c := v.(*ssa.Call)
		return c.Common().Method.Name() + "(" + originDescr(fd) + ")"
	case kind == "elem":
		c := v.(*ssa.Call)
		_ = a
		return "List." + c.Common().Method.Name()
	case strings.HasPrefix(kind, "valueof:"):
		return "ValueOf" + strings.TrimPrefix(kind, "valueof:")
	}
	return originDescr(v)
}

// PAN3b: List.Get(i) / List.Set(i, v) need 0 <= i < Len() of the same list.
func rulePAN3b(p *Program) *RuleResult {
	r := newResult("PAN3b")
	fns := apiRepoFuncs(p, r)
	for _, fn := range fns {
		for _, b := range fn.Blocks {
			for _, ins := range b.Instrs {
				call, ok := ins.(*ssa.Call)
				if !ok {
					continue
				}
				cc := call.Common()
				if !isPRInvoke(cc, "List", "Get") && !isPRInvoke(cc, "List", "Set") {
					continue
				}
				r.count("list_index_sites", 1)
				idx := stripIntConv(cc.Args[0])
				list := cc.Value
				key := short(fn) + "|List." + cc.Method.Name() + "(" + valDescr(cc.Args[0]) + ") on " + originDescr(list)
				desc := "protoreflect.List." + cc.Method.Name() + "(" + valDescr(cc.Args[0]) + ")"
				upper, why := listIndexBounded(fn, idx, list, call)
				lower := lowerBoundNonNeg(idx, 0)
				if upper && lower {
					r.ok(key, desc, p.instrPos(ins), why, true)
				} else {
					r.bad(key, desc, p.instrPos(ins), fmt.Sprintf("List.%s panics when the index is outside [0, Len()): upper bound against the same list's Len() proved=%v, non-negative proved=%v", cc.Method.Name(), upper, lower))
				}
			}
		}
	}
	r.floor("list_index_sites", 2)
	return r
}

// listIndexBounded: a dominating `idx < L.Len()` on the same list value, or
// `idx < B` with a dominating `B <= L.Len()` / `B > L.Len()` (leaving) test.
func listIndexBounded(fn *ssa.Function, idx, list ssa.Value, at ssa.Instruction) (bool, string) {
	isLenOfList := func(v ssa.Value) bool {
		c, ok := stripIntConv(v).(*ssa.Call)
		return ok && c.Common().IsInvoke() && c.Common().Method.Name() == "Len" && sameListValue(c.Common().Value, list)
	}
	boundedByLen := func(v ssa.Value, strict bool, at2 ssa.Instruction) bool {
		// v < Len (strict) or v <= Len
		for _, b := range fn.Blocks {
			ifi, ok := b.Instrs[len(b.Instrs)-1].(*ssa.If)
			if !ok {
				continue
			}
			cmp, ok := ifi.Cond.(*ssa.BinOp)
			if !ok {
				continue
			}
			x, y, op := stripIntConv(cmp.X), stripIntConv(cmp.Y), cmp.Op
			if sameAccess(y, v) && !sameAccess(x, v) {
				x, y = y, x
				op = flipOp(op)
			}
			if !sameAccess(x, v) || !isLenOfList(y) {
				continue
			}
			switch {
			case op == token.LSS && edgeDominates(b, 0, at2.Block()):
				return true
			case op == token.GEQ && edgeDominates(b, 1, at2.Block()):
				return true
			case !strict && op == token.LEQ && edgeDominates(b, 0, at2.Block()):
				return true
			case !strict && op == token.GTR && edgeDominates(b, 1, at2.Block()):
				return true
			}
		}
		return false
	}
	if boundedByLen(idx, true, at) {
		return true, "dominating test index < Len() of the same list"
	}
	// idx < B with B <= Len()
	for _, b := range fn.Blocks {
		ifi, ok := b.Instrs[len(b.Instrs)-1].(*ssa.If)
		if !ok {
			continue
		}
		cmp, ok := ifi.Cond.(*ssa.BinOp)
		if !ok || cmp.Op != token.LSS || !sameAccess(stripIntConv(cmp.X), idx) {
			continue
		}
		if !edgeDominates(b, 0, at.Block()) {
			continue
		}
		if boundedByLen(stripIntConv(cmp.Y), false, at) {
			return true, "index < B and a dominating test B <= Len() of the same list"
		}
	}
	return false, ""
}

// sameListValue: two SSA values denote the same protoreflect.List (same SSA
// value, or loads of the same local/captured cell).
func sameListValue(a, b ssa.Value) bool {
	if sameAccess(a, b) {
		return true
	}
	la, ok1 := a.(*ssa.UnOp)
	lb, ok2 := b.(*ssa.UnOp)
	if ok1 && ok2 && la.X == lb.X {
		return true
	}
	return false
}

// PAN10: a protoreflect.Value handed to Message.Set / List.Append / List.Set
// is assigned on every path (the zero Value is invalid and panics).
func rulePAN10(p *Program) *RuleResult {
	r := newResult("PAN10")
	fns := apiRepoFuncs(p, r)
	for _, fn := range fns {
		for _, b := range fn.Blocks {
			for _, ins := range b.Instrs {
				call, ok := ins.(*ssa.Call)
				if !ok {
					continue
				}
				cc := call.Common()
				var arg ssa.Value
				switch {
				case isPRInvoke(cc, "Message", "Set"):
					arg = cc.Args[1]
				case isPRInvoke(cc, "List", "Append"):
					arg = cc.Args[0]
				case isPRInvoke(cc, "List", "Set"):
					arg = cc.Args[1]
				default:
					continue
				}
				r.count("value_sink_sites", 1)
				key := short(fn) + "|" + namedName(cc.Value.Type()) + "." + cc.Method.Name() + "(" + prOriginDescr(arg) + ")"
				desc := "protoreflect." + namedName(cc.Value.Type()) + "." + cc.Method.Name() + " with value from " + prOriginDescr(arg)
				if phi, isPhi := arg.(*ssa.Phi); isPhi {
					bad := false
					for _, e := range phi.Edges {
						if k, _, _ := valueOrigin(e); k == "other" {
							bad = true
						}
					}
					if bad {
						r.bad(key, desc, p.instrPos(ins), "on some path the Value is the zero protoreflect.Value (never assigned): Set/Append panics on an invalid value")
					} else {
						r.ok(key, desc, p.instrPos(ins), "every incoming value is produced by a protoreflect constructor/accessor", true)
					}
					continue
				}
				ld, isLoad := arg.(*ssa.UnOp)
				if !isLoad {
					k, _, _ := valueOrigin(arg)
					if k == "other" {
						if _, isParam := arg.(*ssa.Parameter); isParam {
							r.ok(key, desc, p.instrPos(ins), "value supplied by the caller (obligation at the call sites)", false)
							continue
						}
						r.bad(key, desc, p.instrPos(ins), "origin of the Value is not a constructor / accessor")
						continue
					}
					r.ok(key, desc, p.instrPos(ins), "value produced by a protoreflect constructor/accessor", false)
					continue
				}
				al, isAlloc := ld.X.(*ssa.Alloc)
				if !isAlloc {
					r.bad(key, desc, p.instrPos(ins), "value loaded from a non-local location")
					continue
				}
				// every path from entry to the call passes a store into the cell
				storeBlocks := map[*ssa.BasicBlock]bool{}
				for _, ref := range *al.Referrers() {
					if st, ok := ref.(*ssa.Store); ok && st.Addr == ssa.Value(al) {
						// the initial zeroing `*t = Value{}` is not an assignment of a valid value
						if c, isC := st.Val.(*ssa.Const); isC && c.Value == nil {
							continue
						}
						storeBlocks[st.Block()] = true
					}
				}
				if reachableAvoiding(fn, call.Block(), func(bb *ssa.BasicBlock) bool { return storeBlocks[bb] }) && !storeBlocks[call.Block()] {
					r.bad(key, desc, p.instrPos(ins), "a path reaches the call on which the local protoreflect.Value was never assigned: the zero Value is invalid and Set/Append panics")
				} else {
					r.ok(key, desc, p.instrPos(ins), "every path to the call assigns the local Value (must-pass-through)", true)
				}
			}
		}
	}
	r.floor("value_sink_sites", 4)
	return r
}

// ---------- PAN12 nil dereference classes ----------

// mayReturnNilAt: fn has a return whose idx-th result is a nil constant;
// pairedWithErr: every such return carries a non-nil error as last result.
// nilOnlyWithFalseOK: every return whose idx-th result is nil has the constant false as its last (bool) result.
func nilOnlyWithFalseOK(fn *ssa.Function, idx int) bool {
	found := false
	for _, b := range fn.Blocks {
		ret, ok := b.Instrs[len(b.Instrs)-1].(*ssa.Return)
		if !ok || idx >= len(ret.Results) {
			continue
		}
		c, ok := ret.Results[idx].(*ssa.Const)
		if !ok || !c.IsNil() {
			continue
		}
		found = true
		last, ok := ret.Results[len(ret.Results)-1].(*ssa.Const)
		if !ok || last.Value == nil || last.Value.ExactString() != "false" {
			return false
		}
	}
	return found
}

// trueGuarded: `at` is only reachable when the bool value v is true.
func trueGuarded(fn *ssa.Function, v ssa.Value, at ssa.Instruction, succ ...*ssa.BasicBlock) bool {
	for _, b := range fn.Blocks {
		ifi, ok := b.Instrs[len(b.Instrs)-1].(*ssa.If)
		if !ok {
			continue
		}
		cond := ifi.Cond
		edge := 0
		if u, ok := cond.(*ssa.UnOp); ok && u.Op == token.NOT {
			cond, edge = u.X, 1
		}
		if cond == v && domOrOnEdge(b, edge, at, succ) {
			return true
		}
	}
	return false
}

// nilReturnSentinels: every return of fn whose idx-th result is the nil constant
// also carries a sentinel in another result: a non-nil error (errIdx) or the
// constant false (okIdx). -1 when no return relies on that kind of sentinel.
func nilReturnSentinels(fn *ssa.Function, idx int) (errIdx, okIdx int, all bool) {
	errIdx, okIdx = -1, -1
	for _, b := range fn.Blocks {
		ret, ok := b.Instrs[len(b.Instrs)-1].(*ssa.Return)
		if !ok || idx >= len(ret.Results) {
			continue
		}
		c, ok := ret.Results[idx].(*ssa.Const)
		if !ok || !c.IsNil() {
			continue
		}
		covered := false
		for i := len(ret.Results) - 1; i >= 0 && !covered; i-- {
			if i == idx || !isErrorType(ret.Results[i].Type()) {
				continue
			}
			if lc, isC := ret.Results[i].(*ssa.Const); isC && lc.IsNil() {
				continue
			}
			if errIdx != -1 && errIdx != i {
				return -1, -1, false
			}
			errIdx, covered = i, true
		}
		for i := len(ret.Results) - 1; i >= 0 && !covered; i-- {
			if i == idx || !isBool(ret.Results[i].Type()) {
				continue
			}
			lc, isC := ret.Results[i].(*ssa.Const)
			if !isC || lc.Value == nil || lc.Value.ExactString() != "false" {
				continue
			}
			if okIdx != -1 && okIdx != i {
				return -1, -1, false
			}
			okIdx, covered = i, true
		}
		if !covered {
			return -1, -1, false
		}
	}
	return errIdx, okIdx, errIdx != -1 || okIdx != -1
}

func mayReturnNilAt(fn *ssa.Function, idx int) (may bool, pairedWithErr bool) {
	pairedWithErr = true
	for _, b := range fn.Blocks {
		ret, ok := b.Instrs[len(b.Instrs)-1].(*ssa.Return)
		if !ok || idx >= len(ret.Results) {
			continue
		}
		c, ok := ret.Results[idx].(*ssa.Const)
		if !ok || !c.IsNil() {
			continue
		}
		may = true
		last := ret.Results[len(ret.Results)-1]
		if len(ret.Results) < 2 || !isErrorType(last.Type()) {
			pairedWithErr = false
			continue
		}
		if lc, ok := last.(*ssa.Const); ok && lc.IsNil() {
			pairedWithErr = false
		}
	}
	return
}

func rulePAN12(p *Program) *RuleResult {
	r := newResult("PAN12")
	fns := apiRepoFuncs(p, r)
	r.count("functions", len(fns))
	for _, fn := range fns {
		for _, b := range fn.Blocks {
			for _, ins := range b.Instrs {
				// (a) x.F.G where x.F is a message pointer loaded from a proto message field
				if fa, ok := ins.(*ssa.FieldAddr); ok {
					ld, ok := fa.X.(*ssa.UnOp)
					if !ok || ld.Op != token.MUL {
						continue
					}
					inner, ok := ld.X.(*ssa.FieldAddr)
					if !ok || !isProtoMessagePtr(inner.X.Type()) || !isProtoMessagePtr(ld.Type()) {
						continue
					}
					r.count("chained_field_sites", 1)
					key := short(fn) + "|" + typeShort(inner.X.Type()) + "." + fieldName(inner) + "." + fieldName(fa)
					if nilGuarded(fn, ld, ins) {
						r.ok(key, "field of a nested message pointer, nil-tested", p.instrPos(ins), "dominating nil test of the loaded pointer", true)
					} else {
						r.bad(key, "direct field access through the message pointer "+fieldName(inner)+" of "+typeShort(inner.X.Type())+" without a nil test", p.instrPos(ins),
							"an element whose sub-element is absent (nil) crashes the evaluation; the generated getters are nil-safe, direct field access is not")
					}
				}
				// (c) protoreflect lookups that yield nil for an absent name / number / unset oneof, used as a receiver
				if lk, ok := ins.(*ssa.Call); ok && lk.Common().IsInvoke() && lk.Referrers() != nil {
					switch lk.Common().Method.Name() {
					case "ByName", "ByNumber", "ByJSONName", "ByTextName", "WhichOneof":
						if strings.Contains(typeShort(lk.Common().Value.Type()), "protoreflect.") {
							n := 0
							for _, ref := range *lk.Referrers() {
								use, ok := ref.(*ssa.Call)
								if !ok || !use.Common().IsInvoke() || use.Common().Value != ssa.Value(lk) {
									continue
								}
								n++
								r.count("descriptor_lookup_uses", 1)
								key := fmt.Sprintf("%s|%s.%s(…).%s", short(fn), typeShort(lk.Common().Value.Type()), lk.Common().Method.Name(), use.Common().Method.Name())
								if nilGuarded(fn, lk, use) {
									r.ok(key, "result of a descriptor lookup used after a nil test", p.instrPos(use), "dominating nil test of the lookup result", true)
								} else if g := guardedByPredicate(fn, lk, use); g != "" {
									r.ok(key, "result of a descriptor lookup used under a predicate that fails when the lookup is nil", p.instrPos(use), g, true)
								} else {
									r.bad(key, fmt.Sprintf("%s is called on the result of %s.%s without a nil test", use.Common().Method.Name(), typeShort(lk.Common().Value.Type()), lk.Common().Method.Name()), p.instrPos(use),
										"the lookup yields nil for an undeclared enum number / absent field name / unset oneof: a method call on the nil descriptor crashes")
								}
							}
						}
					}
				}
				// (b) results of in-repo functions that may return nil, used as a receiver
				call, ok := ins.(*ssa.Call)
				if !ok {
					continue
				}
				sc := call.Common().StaticCallee()
				if sc == nil || !inRepoFn(sc) || len(sc.Blocks) == 0 {
					continue
				}
				nres := sc.Signature.Results().Len()
				for idx := 0; idx < nres; idx++ {
					rt := sc.Signature.Results().At(idx).Type()
					if !isNilable(rt) || isErrorType(rt) {
						continue
					}
					if _, isSlice := rt.Underlying().(*types.Slice); isSlice {
						continue
					}
					if _, isMap := rt.Underlying().(*types.Map); isMap {
						continue
					}
					may, paired := mayReturnNilAt(sc, idx)
					if !may {
						continue
					}
					var v ssa.Value = call
					var errv ssa.Value
					if nres > 1 {
						v = nil
						for _, ref := range *call.Referrers() {
							if ex, ok := ref.(*ssa.Extract); ok {
								if ex.Index == idx {
									v = ex
								}
								if ex.Index == nres-1 {
									errv = ex
								}
							}
						}
					}
					if v == nil {
						continue
					}
					// uses as a receiver
					for _, du := range derefUses(v) {
						use := du.ins
						r.count("nilable_result_uses", 1)
						key := short(fn) + "|" + short(sc) + " result used at " + useDescr(use)
						switch {
						case nilGuarded(fn, v, du.at, du.succ) || nilGuarded(fn, du.recv, use):
							r.ok(key, "nilable result of "+short(sc)+" is nil-tested before use", p.instrPos(use), "dominating nil test", true)
						case paired && errv != nil && valueNilGuarded(fn, errv, du.at, du.succ):
							r.ok(key, "nilable result of "+short(sc)+" used only after its error was tested nil", p.instrPos(use), "the callee returns nil only together with a non-nil error", true)
						case errv != nil && isBool(errv.Type()) && nilOnlyWithFalseOK(sc, idx) && trueGuarded(fn, errv, du.at, du.succ):
							r.ok(key, "nilable result of "+short(sc)+" used only after its ok result was tested true", p.instrPos(use), "the callee returns nil only together with ok == false", true)
						case sentinelGuarded(fn, sc, call, idx, du.at, du.succ):
							r.ok(key, "nilable result of "+short(sc)+" used only after its error was tested nil and its ok result true", p.instrPos(use), "every return of the callee with a nil result carries a non-nil error or ok == false", true)
						default:
							r.bad(key, "result of "+short(sc)+" (which can be nil) is dereferenced without a nil test", p.instrPos(use), "nil dereference when the callee returns nil")
						}
					}
				}
			}
		}
	}
	r.floor("functions", 250)
	return r
}

// sentinelGuarded: the use is reachable only when the sentinels that accompany a
// nil idx-th result of sc (non-nil error, false ok) were tested and found absent.
func sentinelGuarded(fn, sc *ssa.Function, call *ssa.Call, idx int, at ssa.Instruction, succ *ssa.BasicBlock) bool {
	errIdx, okIdx, all := nilReturnSentinels(sc, idx)
	if !all || call.Referrers() == nil {
		return false
	}
	extract := func(i int) ssa.Value {
		for _, ref := range *call.Referrers() {
			if ex, ok := ref.(*ssa.Extract); ok && ex.Index == i {
				return ex
			}
		}
		return nil
	}
	if errIdx >= 0 {
		ev := extract(errIdx)
		if ev == nil || !valueNilGuarded(fn, ev, at, succ) {
			return false
		}
	}
	if okIdx >= 0 {
		ov := extract(okIdx)
		if ov == nil || !trueGuarded(fn, ov, at, succ) {
			return false
		}
	}
	return true
}

// derefUses: instructions that dereference v (method invoke on it, field access through it).
type derefUse struct {
	ins  ssa.Instruction
	recv ssa.Value
	at   ssa.Instruction // where the value must be known non-nil (the phi's incoming edge for merged values)
	succ *ssa.BasicBlock // for merged values: the phi's block (the value is needed on the edge at.Block() -> succ)
}

func derefUses(v ssa.Value) []derefUse {
	var out []derefUse
	seen := map[ssa.Value]bool{}
	var walk func(x ssa.Value, depth int, at ssa.Instruction, succ *ssa.BasicBlock)
	loc := func(use ssa.Instruction, at ssa.Instruction) ssa.Instruction {
		if at != nil {
			return at
		}
		return use
	}
	walk = func(x ssa.Value, depth int, at ssa.Instruction, succ *ssa.BasicBlock) {
		if depth > 3 || seen[x] || x.Referrers() == nil {
			return
		}
		seen[x] = true
		for _, ref := range *x.Referrers() {
			switch y := ref.(type) {
			case *ssa.Call:
				if y.Common().IsInvoke() && y.Common().Value == x {
					out = append(out, derefUse{y, x, loc(y, at), succ})
				}
			case *ssa.FieldAddr:
				if y.X == x {
					out = append(out, derefUse{y, x, loc(y, at), succ})
				}
			case *ssa.ChangeInterface:
				walk(y, depth+1, at, succ)
			case *ssa.Phi:
				// the value enters the phi along one edge: it must be non-nil there
				for i, e := range y.Edges {
					if e == x {
						pred := y.Block().Preds[i]
						walk(y, depth+1, pred.Instrs[len(pred.Instrs)-1], y.Block())
					}
				}
			case *ssa.UnOp:
				if y.Op == token.MUL && y.X == x {
					out = append(out, derefUse{y, x, loc(y, at), succ})
				}
			}
		}
	}
	walk(v, 0, nil, nil)
	return out
}

func useDescr(ins ssa.Instruction) string {
	switch y := ins.(type) {
	case *ssa.Call:
		return "." + y.Common().Method.Name() + "()"
	case *ssa.FieldAddr:
		return "." + fieldName(y)
	}
	return "deref"
}

// guardedByPredicate: the use is dominated by the true edge of a call to an
// in-repo Boolean predicate that performs the same lookup (same method, same
// constant key) and — evaluated with that lookup pinned to nil — returns false
// on every path.
func guardedByPredicate(fn *ssa.Function, lk *ssa.Call, use ssa.Instruction) string {
	keyOf := func(c *ssa.Call) string {
		if len(c.Common().Args) != 1 {
			return ""
		}
		a := c.Common().Args[0]
		for i := 0; i < 3; i++ {
			switch x := a.(type) {
			case *ssa.Convert:
				a = x.X
			case *ssa.ChangeType:
				a = x.X
			}
		}
		if k, ok := a.(*ssa.Const); ok && k.Value != nil {
			return c.Common().Method.Name() + "(" + k.Value.ExactString() + ")"
		}
		return ""
	}
	want := keyOf(lk)
	if want == "" {
		return ""
	}
	for _, b := range fn.Blocks {
		ifi, ok := b.Instrs[len(b.Instrs)-1].(*ssa.If)
		if !ok {
			continue
		}
		pc, ok := ifi.Cond.(*ssa.Call)
		if !ok || pc.Common().StaticCallee() == nil || !inRepoFn(pc.Common().StaticCallee()) || !edgeDominates(b, 0, use.Block()) {
			continue
		}
		g := pc.Common().StaticCallee()
		var same []*ssa.Call
		for _, gb := range g.Blocks {
			for _, gi := range gb.Instrs {
				if c, ok := gi.(*ssa.Call); ok && c.Common().IsInvoke() && keyOf(c) == want {
					same = append(same, c)
				}
			}
		}
		if len(same) == 0 {
			continue
		}
		an := newAnalyzer()
		an.maxBlocks = 200
		for _, c := range same {
			an.pin[c] = aval{k: kNil}
		}
		res := an.analyze(g, nil)
		allFalse := len(res.rets) > 0
		for _, ri := range res.rets {
			if v := ri.vals[0]; v.k != kConst || v.c.Kind() != constant.Bool || constant.BoolVal(v.c) {
				allFalse = false
			}
		}
		if allFalse {
			return "dominated by the true edge of " + short(g) + ", which performs the lookup " + want + " itself and returns false whenever it is nil (SCCP with the lookup pinned to nil)"
		}
	}
	return ""
}

// ---------- PAN13: no nil item enters a collection ----------

// mayBeNilValue: v can be a nil interface/pointer: a nil constant, the result
// of an in-repo function (or closure) some return of which is nil without an
// accompanying error, or a phi over such values.
func mayBeNilValue(v ssa.Value, depth int, seen map[ssa.Value]bool) (bool, string) {
	if depth > 12 || seen[v] {
		return false, ""
	}
	seen[v] = true
	switch x := v.(type) {
	case *ssa.Const:
		if x.IsNil() {
			return true, "nil constant"
		}
	case *ssa.ChangeInterface:
		return mayBeNilValue(x.X, depth+1, seen)
	case *ssa.Phi:
		for _, e := range x.Edges {
			if m, why := mayBeNilValue(e, depth+1, seen); m {
				return true, why
			}
		}
	case *ssa.Extract:
		if c, ok := x.Tuple.(*ssa.Call); ok {
			return callMayReturnNil(c, x.Index, depth+1)
		}
	case *ssa.Call:
		return callMayReturnNil(x, 0, depth+1)
	}
	return false, ""
}

func callMayReturnNil(c *ssa.Call, idx int, depth int) (bool, string) {
	var callee *ssa.Function
	if sc := c.Common().StaticCallee(); sc != nil {
		callee = sc
	} else {
		// call of a local closure variable: every MakeClosure / function the value can be (phi over closures)
		var fns []*ssa.Function
		var collect func(v ssa.Value, d int)
		collect = func(v ssa.Value, d int) {
			if d > 4 {
				return
			}
			switch y := v.(type) {
			case *ssa.MakeClosure:
				if f, ok := y.Fn.(*ssa.Function); ok {
					fns = append(fns, f)
				}
			case *ssa.Function:
				fns = append(fns, y)
			case *ssa.Phi:
				for _, e := range y.Edges {
					collect(e, d+1)
				}
			case *ssa.UnOp:
				if al, ok := y.X.(*ssa.Alloc); ok {
					for _, ref := range *al.Referrers() {
						if st, ok := ref.(*ssa.Store); ok && st.Addr == ssa.Value(al) {
							collect(st.Val, d+1)
						}
					}
				}
			}
		}
		collect(c.Common().Value, 0)
		for _, f := range fns {
			if m, why := fnMayReturnNil(f, idx, depth); m {
				return true, why
			}
		}
		return false, ""
	}
	if !inRepoFn(callee) || len(callee.Blocks) == 0 {
		return false, ""
	}
	return fnMayReturnNil(callee, idx, depth)
}

func fnMayReturnNil(fn *ssa.Function, idx int, depth int) (bool, string) {
	if depth > 12 || idx >= fn.Signature.Results().Len() || !isNilable(fn.Signature.Results().At(idx).Type()) {
		return false, ""
	}
	for _, b := range fn.Blocks {
		ret, ok := b.Instrs[len(b.Instrs)-1].(*ssa.Return)
		if !ok || idx >= len(ret.Results) {
			continue
		}
		// a nil result next to a non-nil error is the error convention, not a value
		if len(ret.Results) >= 2 {
			last := ret.Results[len(ret.Results)-1]
			if isErrorType(last.Type()) {
				if lc, ok := last.(*ssa.Const); !ok || !lc.IsNil() {
					continue
				}
			}
		}
		if m, why := mayBeNilValue(ret.Results[idx], depth+1, map[ssa.Value]bool{}); m {
			if why == "nil constant" {
				why = "nil returned by " + short(fn)
			}
			return true, why
		}
	}
	return false, ""
}

func rulePAN13(p *Program) *RuleResult {
	r := newResult("PAN13")
	fns := apiRepoFuncs(p, r)
	isCollection := func(t types.Type) bool {
		return namedName(t) == "Collection" && strings.HasSuffix(namedPkgPath(t), "/fhirpath/system")
	}
	for _, fn := range fns {
		for _, b := range fn.Blocks {
			for _, ins := range b.Instrs {
				st, ok := ins.(*ssa.Store)
				if !ok {
					continue
				}
				ia, ok := st.Addr.(*ssa.IndexAddr)
				if !ok {
					continue
				}
				al, ok := ia.X.(*ssa.Alloc)
				if !ok {
					continue
				}
				// the array becomes (part of) a Collection: sliced to Collection type or appended to one
				toColl := false
				for _, ref := range *al.Referrers() {
					sl, ok := ref.(*ssa.Slice)
					if !ok {
						continue
					}
					if isCollection(sl.Type()) {
						toColl = true
					}
					for _, r2 := range *sl.Referrers() {
						if c, ok := r2.(*ssa.Call); ok {
							if bi, ok := c.Common().Value.(*ssa.Builtin); ok && bi.Name() == "append" && isCollection(c.Common().Args[0].Type()) {
								toColl = true
							}
						}
					}
				}
				if !toColl {
					continue
				}
				r.count("collection_items", 1)
				may, why := mayBeNilValue(st.Val, 0, map[ssa.Value]bool{})
				if !may {
					continue
				}
				key := short(fn) + "|item " + valDescr(st.Val)
				if nilGuarded(fn, st.Val, st) {
					r.ok(key, "possibly-nil value placed into a collection after a nil test", p.instrPos(st), "dominating nil test", true)
				} else {
					r.bad(key, "a value that can be nil ("+why+") is placed into a collection without a nil test", p.instrPos(st),
						"collections hold System values and FHIR messages only: a nil item crashes the consumers that rely on that invariant (equality, type operators, conversions)")
				}
			}
		}
	}
	if len(r.Obs) == 0 {
		r.ok("collections|no nil item", fmt.Sprintf("none of the %d values placed into collections by API-reachable code can be nil", r.Analysed["collection_items"]), "fhirpath", "may-be-nil analysis of the stored values (nil constants, nil-returning in-repo functions and closures, phis)", true)
	}
	r.floor("collection_items", 100)
	return r
}
