package main

import "regexp"

func regexpMustCompile(s string) *regexp.Regexp { return regexp.MustCompile(s) }
