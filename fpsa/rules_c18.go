package main

// C18 — FHIRPatch changes the target or nothing.  PAT1 validate before
// mutate, PAT3 Move is not implemented, PAT4 deleting an absent element is a
// no-op success, PAT5 the value is never mutated, PAT6 Add does not overwrite
// a populated scalar, PAT7 the target is found by identity; PAN5 (nil
// arguments) is shared with C01.

import (
	"fmt"
	"go/constant"
	"go/token"
	"sort"
	"strings"

	"golang.org/x/tools/go/ssa"
)

// detachedList: the List value was created by Message.NewField (not attached
// to the message until Set): appending to it does not change the resource.
func detachedList(l ssa.Value, depth int) bool {
	if depth > 5 {
		return false
	}
	switch x := l.(type) {
	case *ssa.Call:
		if isPRValueMethod(x.Common(), "List") {
			k, _, _ := valueOrigin(x.Common().Args[0])
			if k == "get" {
				c := x.Common().Args[0].(*ssa.Call)
				return c.Common().Method.Name() == "NewField"
			}
		}
	case *ssa.UnOp:
		// load of a local / captured cell: every store must be detached
		var cell ssa.Value = x.X
		if fv, ok := cell.(*ssa.FreeVar); ok {
			// find the binding in the parent
			fn := fv.Parent()
			idx := -1
			for i, f := range fn.FreeVars {
				if f == fv {
					idx = i
				}
			}
			if par := fn.Parent(); par != nil {
				for _, b := range par.Blocks {
					for _, ins := range b.Instrs {
						if mc, ok := ins.(*ssa.MakeClosure); ok && mc.Fn == ssa.Value(fn) && idx < len(mc.Bindings) {
							cell = mc.Bindings[idx]
						}
					}
				}
			}
		}
		al, ok := cell.(*ssa.Alloc)
		if !ok {
			return false
		}
		n := 0
		for _, ref := range *al.Referrers() {
			if st, ok := ref.(*ssa.Store); ok && st.Addr == ssa.Value(al) {
				n++
				if !detachedList(st.Val, depth+1) {
					return false
				}
			}
		}
		return n > 0
	}
	return false
}

// directMutators: instructions of fn that change a message reachable from the resource.
func directMutators(fn *ssa.Function) []ssa.Instruction {
	var out []ssa.Instruction
	for _, b := range fn.Blocks {
		for _, ins := range b.Instrs {
			c, ok := ins.(*ssa.Call)
			if !ok {
				continue
			}
			cc := c.Common()
			switch {
			case isPRInvoke(cc, "Message", "Set"), isPRInvoke(cc, "Message", "Clear"), isPRInvoke(cc, "Message", "SetUnknown"):
				// Set on a freshly created container (msg.New()) is construction, not mutation
				if rc, ok := cc.Value.(*ssa.Call); ok && rc.Common().IsInvoke() && rc.Common().Method.Name() == "New" {
					continue
				}
				out = append(out, ins)
			case isPRInvoke(cc, "List", "Append"), isPRInvoke(cc, "List", "Set"), isPRInvoke(cc, "List", "Truncate"), isPRInvoke(cc, "List", "AppendMutable"):
				if detachedList(cc.Value, 0) {
					continue
				}
				out = append(out, ins)
			case isPRInvoke(cc, "Map", "Set"), isPRInvoke(cc, "Map", "Clear"):
				out = append(out, ins)
			}
		}
	}
	return out
}

type patFacts struct {
	p        *Program
	mutates  map[*ssa.Function]bool // contains (transitively) a mutator
	cleanErr map[*ssa.Function]bool // every error return precedes any mutation
}

func patchFunctions(p *Program) []*ssa.Function {
	var out []*ssa.Function
	for _, fn := range p.RepoFuncs() {
		if strings.HasSuffix(fnPkgPath(fn), "/fhirpath/patch") {
			out = append(out, fn)
		}
	}
	return out
}

// closureTargets: the functions a call of a local func value may invoke.
func closureTargets(v ssa.Value, depth int) []*ssa.Function {
	if depth > 6 {
		return nil
	}
	switch x := v.(type) {
	case *ssa.MakeClosure:
		return []*ssa.Function{x.Fn.(*ssa.Function)}
	case *ssa.Function:
		return []*ssa.Function{x}
	case *ssa.Phi:
		var out []*ssa.Function
		for _, e := range x.Edges {
			out = append(out, closureTargets(e, depth+1)...)
		}
		return out
	case *ssa.UnOp:
		if al, ok := x.X.(*ssa.Alloc); ok {
			var out []*ssa.Function
			for _, ref := range *al.Referrers() {
				if st, ok := ref.(*ssa.Store); ok && st.Addr == ssa.Value(al) {
					out = append(out, closureTargets(st.Val, depth+1)...)
				}
			}
			return out
		}
	}
	return nil
}

func calleesOf(c *ssa.Call) []*ssa.Function {
	cc := c.Common()
	if cc.IsInvoke() {
		return nil
	}
	if sc := cc.StaticCallee(); sc != nil {
		return []*ssa.Function{sc}
	}
	return closureTargets(cc.Value, 0)
}

func computePatFacts(p *Program) *patFacts {
	pf := &patFacts{p: p, mutates: map[*ssa.Function]bool{}, cleanErr: map[*ssa.Function]bool{}}
	fns := patchFunctions(p)
	for _, fn := range fns {
		if len(directMutators(fn)) > 0 {
			pf.mutates[fn] = true
		}
	}
	for changed := true; changed; {
		changed = false
		for _, fn := range fns {
			if pf.mutates[fn] {
				continue
			}
			for _, b := range fn.Blocks {
				for _, ins := range b.Instrs {
					if c, ok := ins.(*ssa.Call); ok {
						for _, t := range calleesOf(c) {
							if pf.mutates[t] && !pf.mutates[fn] {
								pf.mutates[fn] = true
								changed = true
							}
						}
					}
				}
			}
		}
	}
	return pf
}

// mutationPoints: direct mutators plus calls to mutating functions.
func (pf *patFacts) mutationPoints(fn *ssa.Function) []ssa.Instruction {
	out := directMutators(fn)
	for _, b := range fn.Blocks {
		for _, ins := range b.Instrs {
			if c, ok := ins.(*ssa.Call); ok {
				for _, t := range calleesOf(c) {
					if pf.mutates[t] {
						out = append(out, ins)
						break
					}
				}
			}
		}
	}
	return out
}

// errorFromCall: the returned error value is (a phi of) results of the given calls.
func errorFromCalls(v ssa.Value, calls map[ssa.Value]bool, depth int) bool {
	if depth > 6 {
		return false
	}
	switch x := v.(type) {
	case *ssa.Call:
		return calls[x]
	case *ssa.Extract:
		return calls[x.Tuple]
	case *ssa.Phi:
		for _, e := range x.Edges {
			if c, ok := e.(*ssa.Const); ok && c.IsNil() {
				continue
			}
			if !errorFromCalls(e, calls, depth+1) {
				return false
			}
		}
		return true
	}
	return false
}

func rulePAT1(p *Program) *RuleResult {
	r := newResult("PAT1")
	pf := computePatFacts(p)
	fns := patchFunctions(p)
	sort.Slice(fns, func(i, j int) bool { return fnKey(fns[i]) < fnKey(fns[j]) })
	for _, fn := range fns {
		if !pf.mutates[fn] {
			continue
		}
		r.count("mutating_functions", 1)
		mps := pf.mutationPoints(fn)
		// calls to mutating callees: their own error is allowed to be returned afterwards
		mcalls := map[ssa.Value]bool{}
		for _, m := range mps {
			if c, ok := m.(*ssa.Call); ok && !c.Common().IsInvoke() {
				mcalls[c] = true
			}
		}
		bad := 0
		for _, m := range mps {
			after := reachableFrom(m.Block())
			check := func(ret *ssa.Return) {
				if len(ret.Results) == 0 {
					return
				}
				e := ret.Results[len(ret.Results)-1]
				if !isErrorType(e.Type()) {
					return
				}
				if c, ok := e.(*ssa.Const); ok && c.IsNil() {
					return
				}
				if errorFromCalls(e, mcalls, 0) {
					return
				}
				bad++
				r.bad(short(fn)+"|error after "+mutDescr(m), fmt.Sprintf("%s: an error return at %s is reachable after %s", short(fn), p.instrPos(ret), mutDescr(m)), p.instrPos(m),
					"an operation that fails must leave the resource unchanged: validation has to precede the mutating call")
			}
			// later in the same block
			past := false
			for _, ins := range m.Block().Instrs {
				if ins == m {
					past = true
					continue
				}
				if ret, ok := ins.(*ssa.Return); ok && past {
					check(ret)
				}
			}
			for b := range after {
				if ret, ok := b.Instrs[len(b.Instrs)-1].(*ssa.Return); ok {
					check(ret)
				}
			}
		}
		if bad == 0 {
			r.ok(short(fn)+"|validate-before-mutate", fmt.Sprintf("%s: no error return is reachable after any of its %d mutation point(s)", short(fn), len(mps)), p.pos(fn.Pos()),
				"nothing-after path query over the CFG (errors of mutating callees themselves excepted: those callees satisfy the same rule)", true)
		}
	}
	r.floor("mutating_functions", 5)
	return r
}

func mutDescr(m ssa.Instruction) string {
	if c, ok := m.(*ssa.Call); ok {
		cc := c.Common()
		if cc.IsInvoke() {
			return "protoreflect." + namedName(cc.Value.Type()) + "." + cc.Method.Name()
		}
		ts := calleesOf(c)
		var names []string
		for _, t := range ts {
			names = append(names, t.Name())
		}
		return "call of " + strings.Join(names, "/")
	}
	return "mutation"
}

func rulePAT345(p *Program) *RuleResult {
	r := newResult("PAT3")
	// PAT3: Move
	for _, loc := range [][2]string{{"Expression", "Move"}, {"", "Move"}} {
		var fn *ssa.Function
		var err error
		if loc[0] != "" {
			fn, err = p.Method("fhirpath/patch", loc[0], loc[1])
		} else {
			fn, err = p.Func("fhirpath/patch", loc[1])
		}
		if err != nil {
			return r.anchorFail(err)
		}
		an := newAnalyzer()
		compile, _ := p.Func("fhirpath/patch", "Compile")
		for _, b := range fn.Blocks {
			for _, ins := range b.Instrs {
				if c, ok := ins.(*ssa.Call); ok && c.Common().StaticCallee() == compile {
					an.pin[c] = okTuple(nonnil("expr"))
				}
			}
		}
		res := an.analyze(fn, nil)
		okAll := len(res.rets) > 0
		for _, ri := range res.rets {
			if !(ri.vals[0].k == kNonNil && hasNote(ri.vals[0], "patch.ErrNotImplemented")) {
				okAll = false
			}
		}
		r.count("move", 1)
		if okAll {
			r.ok(short(fn)+"|not-implemented", short(fn)+" returns ErrNotImplemented on every path", p.pos(fn.Pos()), "SCCP: provenance of every returned error", true)
		} else {
			r.bad(short(fn)+"|not-implemented", short(fn)+" may return something other than ErrNotImplemented", p.pos(fn.Pos()), "Move must always report not-implemented")
		}
	}
	// PAT4: Delete on an absent element
	del, err := p.Method("fhirpath/patch", "Expression", "Delete")
	if err != nil {
		return r.anchorFail(err)
	}
	pf := computePatFacts(p)
	var evalCall *ssa.Call
	for _, b := range del.Blocks {
		for _, ins := range b.Instrs {
			if c, ok := ins.(*ssa.Call); ok {
				if sc := c.Common().StaticCallee(); sc != nil && sc.Name() == "evaluate" {
					evalCall = c
				}
			}
		}
	}
	if evalCall == nil {
		r.undecided("Delete|shape", "evaluate call not found", p.pos(del.Pos()), "unsupported shape")
	} else {
		an := newAnalyzer()
		an.noInline = map[*ssa.Function]bool{}
		an.pin[evalCall] = aval{k: kTuple, tup: []aval{nonnil("ctx"), coll(), {k: kNil}}}
		res := an.analyze(del, []aval{nonnil("e"), nonnil("res"), top})
		nilRet := len(res.rets) == 1 && res.rets[0].vals[0].k == kNil
		mutated := false
		for _, m := range pf.mutationPoints(del) {
			if res.executable(m) {
				mutated = true
			}
		}
		if nilRet && !mutated {
			r.ok("Delete|absent element", "deleting an absent element returns nil and reaches no mutation", p.pos(del.Pos()), "SCCP with the evaluation result pinned to the empty collection", true)
		} else {
			r.bad("Delete|absent element", fmt.Sprintf("deleting an absent element: returns nil=%v, mutation reachable=%v", nilRet, mutated), p.pos(del.Pos()), "deleting an absent element must succeed without change")
		}
		// an evaluation error is returned, nothing mutated
		an = newAnalyzer()
		an.pin[evalCall] = aval{k: kTuple, tup: []aval{{k: kNil}, {k: kNil}, nonnil("eval-error")}}
		res = an.analyze(del, []aval{nonnil("e"), nonnil("res"), top})
		okE := len(res.rets) == 1 && res.rets[0].vals[0].k == kNonNil
		for _, m := range pf.mutationPoints(del) {
			if res.executable(m) {
				okE = false
			}
		}
		if okE {
			r.ok("Delete|evaluation error", "an evaluation error is returned before any mutation", p.pos(del.Pos()), "SCCP", true)
		} else {
			r.bad("Delete|evaluation error", "an evaluation error does not stop Delete", p.pos(del.Pos()), "bad paths must fail without change")
		}
	}
	// PAT5: the value parameter is never the receiver of a mutator, and is
	// handed to the resource only via ValueOfMessage(value.ProtoReflect())
	for _, name := range []string{"Add", "Insert", "Replace", "tryReplace", "newSetOneof", "normalizeAdd"} {
		fn, err := p.Method("fhirpath/patch", "Expression", name)
		if err != nil {
			return r.anchorFail(err)
		}
		var vparam *ssa.Parameter
		for _, prm := range fn.Params {
			if prm.Name() == "value" {
				vparam = prm
			}
		}
		if vparam == nil {
			continue
		}
		r.count("value_params", 1)
		bad := ""
		all := append([]*ssa.Function{fn}, fn.AnonFuncs...)
		for _, f := range all {
			for _, m := range directMutators(f) {
				c := m.(*ssa.Call)
				if derivesFromParam(c.Common().Value, vparam, 0, map[ssa.Value]bool{}) {
					bad = "a mutator is applied to the value (" + mutDescr(m) + " at " + p.instrPos(m) + ")"
				}
			}
		}
		key := short(fn) + "|value untouched"
		if bad == "" {
			r.ok(key, short(fn)+": no mutator receiver derives from the value parameter", p.pos(fn.Pos()), "provenance of every mutator receiver", true)
		} else {
			r.bad(key, short(fn)+": "+bad, p.pos(fn.Pos()), "the supplied value must be left exactly as it was")
		}
	}
	// PAT6: Add does not overwrite a populated scalar
	add, err := p.Method("fhirpath/patch", "Expression", "Add")
	if err != nil {
		return r.anchorFail(err)
	}
	{
		var has, isList *ssa.Call
		for _, b := range add.Blocks {
			for _, ins := range b.Instrs {
				if c, ok := ins.(*ssa.Call); ok && c.Common().IsInvoke() {
					switch c.Common().Method.Name() {
					case "Has":
						has = c
					case "IsList":
						if isList == nil {
							isList = c
						}
					}
				}
			}
		}
		if has == nil || isList == nil {
			r.bad("Add|populated scalar", "Add does not test Has(field)", p.pos(add.Pos()), "Add would overwrite a populated non-repeating element")
		} else {
			an := newAnalyzer()
			an.maxBlocks = 300
			an.maxDepth = 1
			an.pin[has] = cBool(true)
			for _, b := range add.Blocks {
				for _, ins := range b.Instrs {
					if c, ok := ins.(*ssa.Call); ok && c.Common().IsInvoke() && c.Common().Method.Name() == "IsList" {
						an.pin[c] = cBool(false)
					}
				}
			}
			res := an.analyze(add, nil)
			pf := computePatFacts(p)
			reach := false
			for _, m := range pf.mutationPoints(add) {
				if res.executable(m) {
					reach = true
				}
			}
			for _, f := range add.AnonFuncs {
				_ = f
			}
			if !reach {
				r.ok("Add|populated scalar", "with a populated non-repeating field no mutation point of Add is reachable", p.instrPos(has), "SCCP with Has=true, IsList=false pinned", true)
			} else {
				r.bad("Add|populated scalar", "Add can reach a mutation with a populated non-repeating field", p.instrPos(has), "Add must not overwrite an existing element")
			}
		}
	}
	// PAT7: the target is found by identity
	gf, err := p.Method("fhirpath/patch", "Expression", "getFieldForCollection")
	if err != nil {
		return r.anchorFail(err)
	}
	{
		deep := ""
		ident := 0
		for _, b := range gf.Blocks {
			for _, ins := range b.Instrs {
				switch x := ins.(type) {
				case *ssa.Call:
					if sc := x.Common().StaticCallee(); sc != nil {
						n := sc.RelString(nil)
						if strings.HasSuffix(n, "proto.Equal") || n == "reflect.DeepEqual" || strings.HasSuffix(n, "cmp.Equal") {
							deep = shortName(n)
						}
						if inRepoFn(sc) && sc.Name() != "unwrapOneof" {
							// helpers that compare by value
							for _, bb := range sc.Blocks {
								for _, i2 := range bb.Instrs {
									if c2, ok := i2.(*ssa.Call); ok {
										if s2 := c2.Common().StaticCallee(); s2 != nil && (strings.HasSuffix(s2.RelString(nil), "proto.Equal") || s2.RelString(nil) == "reflect.DeepEqual") {
											deep = short(sc) + " → " + shortName(s2.RelString(nil))
										}
									}
								}
							}
						}
					}
				case *ssa.BinOp:
					if x.Op.String() == "==" {
						if _, isIface := x.X.Type().Underlying().(interface{ NumMethods() int }); isIface {
							ident++
						}
					}
				}
			}
		}
		if deep == "" && ident >= 2 {
			r.ok("getFieldForCollection|identity", fmt.Sprintf("the patch target is located by interface identity (%d comparisons), no structural equality", ident), p.pos(gf.Pos()), "comparison inventory of the function", true)
		} else {
			r.bad("getFieldForCollection|identity", fmt.Sprintf("the patch target is located with structural equality (%s) / identity comparisons=%d", deep, ident), p.pos(gf.Pos()), "an equal-valued sibling that comes first is patched instead of the selected element")
		}
	}
	r.floor("value_params", 2)
	return r
}

// derivesFromParam: v is obtained from the parameter through calls/loads (value.ProtoReflect() etc.).
func derivesFromParam(v ssa.Value, prm *ssa.Parameter, depth int, seen map[ssa.Value]bool) bool {
	if depth > 8 || seen[v] {
		return false
	}
	seen[v] = true
	switch x := v.(type) {
	case *ssa.Parameter:
		return x == prm
	case *ssa.Call:
		cc := x.Common()
		if cc.IsInvoke() {
			return derivesFromParam(cc.Value, prm, depth+1, seen)
		}
		if len(cc.Args) > 0 && cc.StaticCallee() != nil && cc.StaticCallee().Signature.Recv() != nil {
			return derivesFromParam(cc.Args[0], prm, depth+1, seen)
		}
	case *ssa.ChangeInterface:
		return derivesFromParam(x.X, prm, depth+1, seen)
	case *ssa.MakeInterface:
		return derivesFromParam(x.X, prm, depth+1, seen)
	case *ssa.TypeAssert:
		return derivesFromParam(x.X, prm, depth+1, seen)
	case *ssa.Extract:
		return derivesFromParam(x.Tuple, prm, depth+1, seen)
	case *ssa.Phi:
		for _, e := range x.Edges {
			if derivesFromParam(e, prm, depth+1, seen) {
				return true
			}
		}
	case *ssa.UnOp:
		if al, ok := x.X.(*ssa.Alloc); ok {
			for _, ref := range *al.Referrers() {
				if st, ok := ref.(*ssa.Store); ok && st.Addr == ssa.Value(al) && derivesFromParam(st.Val, prm, depth+1, seen) {
					return true
				}
			}
		}
		if fv, ok := x.X.(*ssa.FreeVar); ok {
			_ = fv
		}
	}
	return false
}

// PAT8: message type compatibility of the supplied value is decided by
// descriptor identity, never by comparing (short) type names of two messages.
func rulePAT8(p *Program) *RuleResult {
	r := newResult("PAT8")
	isDescCall := func(v ssa.Value, meth string) bool {
		c, ok := v.(*ssa.Call)
		return ok && c.Common().IsInvoke() && c.Common().Method.Name() == meth
	}
	fromDescriptorName := func(v ssa.Value) bool {
		v = stripConv(v)
		if isDescCall(v, "Name") || isDescCall(v, "FullName") {
			c := v.(*ssa.Call)
			return strings.Contains(typeShort(c.Common().Value.Type()), "Descriptor")
		}
		return false
	}
	identityIn := func(fn *ssa.Function) int {
		n := 0
		for _, b := range fn.Blocks {
			for _, ins := range b.Instrs {
				if bo, ok := ins.(*ssa.BinOp); ok && (bo.Op == token.EQL || bo.Op == token.NEQ) {
					if isDescCall(bo.X, "Descriptor") && isDescCall(bo.Y, "Descriptor") {
						n++
					}
				}
			}
		}
		return n
	}
	for _, fn := range patchFunctions(p) {
		for _, b := range fn.Blocks {
			for _, ins := range b.Instrs {
				if bo, ok := ins.(*ssa.BinOp); ok && (bo.Op == token.EQL || bo.Op == token.NEQ) {
					if fromDescriptorName(bo.X) && fromDescriptorName(bo.Y) {
						r.bad(short(fn)+"|name-vs-name", "two messages' descriptor names are compared in "+short(fn), p.instrPos(ins),
							"nested messages of different resources share short names (Patient.Contact / Organization.Contact): a wrongly typed value passes and protoreflect panics on Set/Append")
					}
				}
			}
		}
	}
	for _, name := range []string{"Add", "Insert", "tryReplace", "newSetOneof"} {
		fn, err := p.Method("fhirpath/patch", "Expression", name)
		if err != nil {
			return r.anchorFail(err)
		}
		r.count("operations", 1)
		n := identityIn(fn)
		for _, b := range fn.Blocks {
			for _, ins := range b.Instrs {
				if c, ok := ins.(*ssa.Call); ok {
					if sc := c.Common().StaticCallee(); sc != nil && inRepoFn(sc) && strings.HasSuffix(fnPkgPath(sc), "/fhirpath/patch") && sc.Name() != "newSetOneof" && sc.Name() != "evaluate" {
						n += identityIn(sc)
					}
				}
			}
		}
		key := short(fn) + "|descriptor identity"
		if n > 0 {
			r.ok(key, fmt.Sprintf("%s compares message descriptors by identity (%d comparison(s))", short(fn), n), p.pos(fn.Pos()), "BinOp on two Descriptor() results", true)
		} else {
			r.bad(key, short(fn)+" has no descriptor-identity comparison between the target element type and the value", p.pos(fn.Pos()), "a wrongly typed value is not rejected before the mutating call (protoreflect panics on a type mismatch)")
		}
	}
	r.floor("operations", 4)
	return r
}

// PAT9: the element being replaced is not a data source for its replacement:
// the patch package never copies or merges an existing message (proto.Merge /
// proto.Clone / Range over its fields) — new elements are built from the
// supplied value only, so a Replace substitutes the whole element.
func rulePAT9(p *Program) *RuleResult {
	r := newResult("PAT9")
	forbidden := map[string]bool{
		"google.golang.org/protobuf/proto.Merge": true, "google.golang.org/protobuf/proto.Clone": true,
		"google.golang.org/protobuf/proto.CloneOf": true,
	}
	n := 0
	for _, fn := range p.RepoFuncs() {
		if !strings.HasSuffix(fnPkgPath(fn), "/fhirpath/patch") || len(fn.Blocks) == 0 {
			continue
		}
		n++
		for _, b := range fn.Blocks {
			for _, ins := range b.Instrs {
				c, ok := ins.(ssa.CallInstruction)
				if !ok {
					continue
				}
				name := ""
				if sc := c.Common().StaticCallee(); sc != nil {
					name = sc.RelString(nil)
				} else if c.Common().IsInvoke() && c.Common().Method.Name() == "Range" && strings.HasSuffix(typeShort(c.Common().Value.Type()), "protoreflect.Message") {
					name = "protoreflect.Message.Range"
				}
				if forbidden[name] || name == "protoreflect.Message.Range" {
					r.bad(short(fn)+"|"+shortName(name), short(fn)+" calls "+shortName(name), p.instrPos(ins),
						"content of an existing element (id, extension, other fields) can leak into the element that replaces it: the target is only partially substituted")
				}
			}
		}
	}
	r.count("patch_functions", n)
	if len(r.Obs) == 0 {
		r.ok("patch|no-merge", fmt.Sprintf("none of the %d patch functions copies or merges an existing message", n), "fhirpath/patch", "call inventory (proto.Merge, proto.Clone, Message.Range)", true)
	}
	r.floor("patch_functions", 12)
	return r
}

// PAT10: the node wrapper that records the last results for patch target
// location is transparent — it evaluates the wrapped node on the very input it
// was given — and slice identity means same first element *and* same length
// (a prefix re-slice such as take(n) is a different collection).
func rulePAT10(p *Program) *RuleResult {
	r := newResult("PAT10")
	fn, err := p.Method("fhirpath/patch", "storeLastExpression", "Evaluate")
	if err != nil {
		return r.anchorFail(err)
	}
	n := 0
	for _, b := range fn.Blocks {
		for _, ins := range b.Instrs {
			c, ok := ins.(*ssa.Call)
			if !ok || !c.Common().IsInvoke() || c.Common().Method.Name() != "Evaluate" {
				continue
			}
			n++
			okArgs := len(c.Common().Args) == 2 && len(fn.Params) == 3 && rootParam(c.Common().Args[0]) == fn.Params[1] && rootParam(c.Common().Args[1]) == fn.Params[2]
			if okArgs {
				r.ok("patch.storeLastExpression.Evaluate|delegate", "the wrapped node is evaluated on the wrapper's own context and input", p.instrPos(ins), "argument provenance", true)
			} else {
				r.bad("patch.storeLastExpression.Evaluate|delegate", "the wrapped node is not evaluated on the wrapper's own input collection", p.instrPos(ins),
					"a step of the path sees another collection than the one the expression produced: the patch is applied to the wrong element")
			}
		}
	}
	if n != 1 {
		r.undecided("patch.storeLastExpression.Evaluate|delegate", fmt.Sprintf("%d delegate evaluations found (1 expected)", n), p.pos(fn.Pos()), "shape changed")
	}
	// slices.IsIdentical on lengths
	m := 0
	for f := range p.AllFns {
		if o := f.Origin(); o == nil || short(o) != "internal/slices.IsIdentical" || len(f.Blocks) == 0 {
			continue
		}
		m++
		if m > 1 {
			continue
		}
		for _, c := range [][2]int{{0, 1}, {1, 0}, {1, 2}, {2, 1}, {3, 1}, {0, 0}} {
			r.count("length_pairs", 1)
			an := newAnalyzer()
			j := an.analyze(f, []aval{sliceLen(c[0]), sliceLen(c[1])}).joinedReturn()
			want := c[0] == c[1]
			key := fmt.Sprintf("slices.IsIdentical|len %d,%d", c[0], c[1])
			if j.k == kConst && j.c.Kind() == constant.Bool && constant.BoolVal(j.c) == want {
				r.ok(key, fmt.Sprintf("IsIdentical of slices of length %d and %d is %v", c[0], c[1], want), p.pos(f.Pos()), "SCCP under the two lengths", true)
			} else {
				r.bad(key, fmt.Sprintf("IsIdentical of slices of length %d and %d is %s (want %v)", c[0], c[1], j.String(), want), p.pos(f.Pos()),
					"a re-slice sharing the first element (take(n)) is taken for the same collection: the recorded container of the patch target is wrong")
			}
		}
	}
	if m == 0 {
		return r.anchorFail(fmt.Errorf("anchor: no instantiation of slices.IsIdentical"))
	}
	return r
}
