package main

// C02 — path navigation.  NAV1 choice discriminator vs schema, NAV4
// non-evaluable proto-only names are refused on the date/time primitives
// only, NAV6 element-name → proto-field mapping exhaustive over the schema,
// NAV5 list flattening bounds, ORD5 primitive coverage, PARSE3 (C11).

import (
	"fmt"
	"go/constant"
	"go/types"
	"reflect"
	"sort"
	"strings"
	"unicode"

	"github.com/iancoleman/strcase"
	"golang.org/x/tools/go/ssa"
)

type schemaField struct {
	Msg, GoField, Proto, JSON string
	Oneof                    string
	IsMessage                bool
}

// schemaFields lists the proto fields of every message type of the R4 protos.
func schemaFields(p *Program) ([]schemaField, error) {
	var out []schemaField
	var paths []string
	for path := range p.ByPath {
		if strings.HasPrefix(path, fhirProtoPrefix) {
			paths = append(paths, path)
		}
	}
	sort.Strings(paths)
	for _, path := range paths {
		tp := p.ByPath[path].Types
		if tp == nil {
			continue
		}
		for _, n := range tp.Scope().Names() {
			tn, ok := tp.Scope().Lookup(n).(*types.TypeName)
			if !ok {
				continue
			}
			st, ok := tn.Type().Underlying().(*types.Struct)
			if !ok || !isProtoMessagePtr(types.NewPointer(tn.Type())) {
				continue
			}
			for i := 0; i < st.NumFields(); i++ {
				f := st.Field(i)
				tag := reflect.StructTag(st.Tag(i))
				pb := tag.Get("protobuf")
				if pb == "" {
					continue
				}
				sf := schemaField{Msg: n, GoField: f.Name()}
				for _, part := range strings.Split(pb, ",") {
					switch {
					case strings.HasPrefix(part, "name="):
						sf.Proto = strings.TrimPrefix(part, "name=")
					case strings.HasPrefix(part, "json="):
						sf.JSON = strings.TrimPrefix(part, "json=")
					}
				}
				if sf.JSON == "" {
					sf.JSON = protoJSONName(sf.Proto)
				}
				if pt, ok := f.Type().(*types.Pointer); ok {
					_, sf.IsMessage = pt.Elem().Underlying().(*types.Struct)
				}
				if sl, ok := f.Type().(*types.Slice); ok {
					if pt, ok := sl.Elem().(*types.Pointer); ok {
						_, sf.IsMessage = pt.Elem().Underlying().(*types.Struct)
					}
				}
				out = append(out, sf)
			}
		}
	}
	if len(out) < 3000 {
		return nil, fmt.Errorf("schema: only %d proto fields found", len(out))
	}
	return out, nil
}

// protoJSONName: protobuf's default JSON name (lowerCamel of the proto name).
func protoJSONName(s string) string {
	var b strings.Builder
	up := false
	for _, r := range s {
		if r == '_' {
			up = true
			continue
		}
		if up {
			b.WriteString(strings.ToUpper(string(r)))
			up = false
		} else {
			b.WriteRune(r)
		}
	}
	return b.String()
}

// usesCallOn: fn calls callee (by RelString) with an argument that is the load of field `field` of its receiver.
func usesCallOn(fn *ssa.Function, callee, field string) bool {
	for _, b := range fn.Blocks {
		for _, ins := range b.Instrs {
			c, ok := ins.(*ssa.Call)
			if !ok {
				continue
			}
			sc := c.Common().StaticCallee()
			if sc == nil || sc.RelString(nil) != callee {
				continue
			}
			for _, a := range c.Common().Args {
				if ld, ok := a.(*ssa.UnOp); ok {
					if fa, ok := ld.X.(*ssa.FieldAddr); ok && fieldName(fa) == field {
						return true
					}
				}
			}
		}
	}
	return false
}

func ruleNAV6(p *Program) *RuleResult {
	r := newResult("NAV6")
	ev, err := p.Method("fhirpath/internal/expr", "FieldExpression", "Evaluate")
	if err != nil {
		return r.anchorFail(err)
	}
	// (a) the lookups Evaluate performs on Descriptor().Fields() for a given element
	// name: Evaluate is analysed with FieldName pinned and every lookup answering
	// "absent", so that each fallback is reached; the names handed to ByName /
	// ByJSONName are read off the observed calls (wherever in Evaluate or its
	// helpers they are made)
	dt0, err := p.typesPkg(dtPkgPath)
	if err != nil {
		return r.anchorFail(err)
	}
	hn0 := dt0.Scope().Lookup("HumanName")
	if hn0 == nil {
		return r.anchorFail(fmt.Errorf("anchor: datatypes HumanName not found"))
	}
	type lookups struct{ byName, byJSON map[string]bool }
	lookupCache := map[string]lookups{}
	lookupsFor := func(name string) lookups {
		if l, ok := lookupCache[name]; ok {
			return l
		}
		l := lookups{map[string]bool{}, map[string]bool{}}
		an := newAnalyzer()
		an.maxBlocks = 300
		an.callModel = func(c *ssa.CallCommon, args []aval) (aval, bool) {
			if c.IsInvoke() && namedName(c.Value.Type()) == "FieldDescriptors" && len(args) == 2 {
				switch c.Method.Name() {
				case "ByName", "ByJSONName":
					if args[1].k == kConst && args[1].c.Kind() == constant.String {
						if c.Method.Name() == "ByName" {
							l.byName[constant.StringVal(args[1].c)] = true
						} else {
							l.byJSON[constant.StringVal(args[1].c)] = true
						}
					} else {
						l.byName["?"] = true
					}
					return aval{k: kNil}, true
				}
			}
			return stringLibModel(c, args)
		}
		recv := nodeReceiver(ev, map[string]aval{"FieldName": cStr(name), "Permissive": cBool(false)})
		item := aval{k: kNonNil, dyn: types.NewPointer(hn0.Type())}
		an.analyze(ev, []aval{recv, nonnil("ctx"), coll(item)})
		lookupCache[name] = l
		return l
	}
	probe := lookupsFor("lethalDose50")
	usesSnake, usesJSON, hasRetry := probe.byName["lethal_dose_50"], probe.byJSON["lethalDose50"], probe.byName["lethal_dose_50_value"]
	if !usesSnake && !usesJSON {
		r.undecided("FieldExpression.Evaluate|lookup", fmt.Sprintf("no recognised lookup of the element name (ByName(strcase.ToSnake(FieldName)) / ByJSONName(FieldName)); observed ByName%v ByJSONName%v", keysOf(probe.byName), keysOf(probe.byJSON)), p.pos(ev.Pos()), "unsupported shape: the name mapping cannot be modelled")
		return r
	}
	r.note("lookups observed for the probe name: ByName(ToSnake(name))=%v, \"_value\" retry=%v, ByJSONName(name)=%v", usesSnake, hasRetry, usesJSON)
	// (b) admission test: isEvaluable evaluated by SCCP per name, on a message
	// type that is not one of the date/time primitives
	dt, err := p.typesPkg(dtPkgPath)
	if err != nil {
		return r.anchorFail(err)
	}
	hnObj := dt.Scope().Lookup("HumanName")
	if hnObj == nil {
		return r.anchorFail(fmt.Errorf("anchor: datatypes HumanName not found"))
	}
	hn := types.NewPointer(hnObj.Type())
	admitCache := map[string]int{}
	admit := func(json string) int { // 1 yes, 0 no, -1 undecided
		if v, ok := admitCache[json]; ok {
			return v
		}
		out := fieldAdmission(p, ev, hn, json, false)
		admitCache[json] = out
		return out
	}
	admitDescr := "Evaluate analysed with the name pinned: only ErrInvalidField returns"
	fields, err := schemaFields(p)
	if err != nil {
		return r.anchorFail(err)
	}
	cw, err := choiceWrappers(p)
	if err != nil {
		return r.anchorFail(err)
	}
	skipMsg := map[string]bool{"ContainedResource": true, "ReferenceId": true}
	for _, c := range cw {
		skipMsg[c.Name] = true
	}
	protoOnly := map[string]bool{"value_us": true, "timezone": true, "precision": true}
	timeTypes := map[string]bool{"Date": true, "DateTime": true, "Time": true, "Instant": true}
	bad := map[string][]string{}
	n := 0
	for _, f := range fields {
		if skipMsg[f.Msg] {
			continue
		}
		if timeTypes[f.Msg] && protoOnly[f.Proto] {
			continue
		}
		if !f.IsMessage {
			// scalar fields are the `value` of primitives (handled by system.From) and enum values
			continue
		}
		n++
		snake := strcase.ToSnake(f.JSON)
		resolves := snake == f.Proto || (hasRetry && snake+"_value" == f.Proto)
		resolves = (usesSnake && resolves) || usesJSON
		if snake != f.Proto || thoroughTier || n%40 == 0 {
			// the names that do not snake-case to their proto name (and a sample of the
			// others; all of them in the thorough tier) are decided on their own lookups
			l := lookupsFor(f.JSON)
			resolves = l.byName[f.Proto] || l.byJSON[f.JSON]
			r.count("names_probed", 1)
		}
		switch a := admit(f.JSON); {
		case a < 0:
			bad[f.JSON] = append(bad[f.JSON], fmt.Sprintf("%s.%s: the admission test could not be evaluated", f.Msg, f.JSON))
		case a == 0:
			bad[f.JSON] = append(bad[f.JSON], fmt.Sprintf("%s.%s is refused by the admission test (%s)", f.Msg, f.JSON, admitDescr))
		case !resolves:
			bad[f.JSON] = append(bad[f.JSON], fmt.Sprintf("%s.%s: ToSnake gives %q, proto field is %q", f.Msg, f.JSON, snake, f.Proto))
		}
	}
	r.count("schema_fields_checked", n)
	var names []string
	for k := range bad {
		names = append(names, k)
	}
	sort.Strings(names)
	for _, k := range names {
		r.bad("element-name|"+k, fmt.Sprintf("element name %q cannot be navigated (%d element(s), e.g. %s)", k, len(bad[k]), bad[k][0]), p.pos(ev.Pos()),
			"an element of the R4 schema is unreachable by its FHIR name: the path fails with ErrInvalidField instead of yielding the element")
	}
	if len(names) == 0 {
		r.ok("element-names|schema", fmt.Sprintf("all %d element fields of the R4 schema are admitted and resolve to their proto field", n), p.pos(ev.Pos()),
			"exhaustive over the generated R4 types: strcase.ToSnake(jsonName) (+\"_value\" retry) == proto field name and the admission test accepts jsonName", true)
	}
	r.floor("schema_fields_checked", 3000)
	return r
}

// fieldAdmission: does FieldExpression.Evaluate admit the element name on a
// message of the given datatypes type?  Evaluate is analysed with the name and
// the Permissive flag pinned and every descriptor lookup answering "found": a
// refused name yields only ErrInvalidField returns, an admitted one none.
// 1 admitted, 0 refused, -1 not decided.
func fieldAdmission(p *Program, ev *ssa.Function, msgType types.Type, name string, permissive bool) int {
	an := newAnalyzer()
	an.maxBlocks = 300
	an.callModel = func(c *ssa.CallCommon, args []aval) (aval, bool) {
		if c.IsInvoke() && namedName(c.Value.Type()) == "FieldDescriptors" && len(args) == 2 {
			switch c.Method.Name() {
			case "ByName", "ByJSONName":
				return nonnil("field-descriptor"), true
			}
		}
		return stringLibModel(c, args)
	}
	recv := nodeReceiver(ev, map[string]aval{"FieldName": cStr(name), "Permissive": cBool(permissive)})
	item := aval{k: kNonNil, dyn: msgType}
	res := an.analyze(ev, []aval{recv, nonnil("ctx"), coll(item)})
	if res.nonconverged || len(res.rets) == 0 {
		return -1
	}
	invalid, other := 0, 0
	for _, ri := range res.rets {
		e := ri.vals[len(ri.vals)-1]
		isInvalid := false
		for _, n := range e.notes {
			if strings.HasSuffix(n, "ErrInvalidField") {
				isInvalid = true
			}
		}
		if isInvalid {
			invalid++
		} else {
			other++
		}
	}
	switch {
	case invalid > 0 && other == 0:
		return 0
	case invalid == 0:
		return 1
	}
	return -1
}

func keysOf(m map[string]bool) []string {
	var out []string
	for k := range m {
		out = append(out, k)
	}
	sort.Strings(out)
	return out
}

// derivesFromSnake: v is strcase.ToSnake(FieldName) or that plus "_value" (through a local cell).
func derivesFromSnake(v ssa.Value, depth int, retry *bool) bool {
	if depth > 6 {
		return false
	}
	switch x := v.(type) {
	case *ssa.ChangeType:
		return derivesFromSnake(x.X, depth+1, retry)
	case *ssa.Convert:
		return derivesFromSnake(x.X, depth+1, retry)
	case *ssa.Call:
		if sc := x.Common().StaticCallee(); sc != nil && sc.RelString(nil) == "github.com/iancoleman/strcase.ToSnake" {
			if ld, ok := x.Common().Args[0].(*ssa.UnOp); ok {
				if fa, ok := ld.X.(*ssa.FieldAddr); ok && fieldName(fa) == "FieldName" {
					return true
				}
			}
		}
	case *ssa.BinOp:
		if s, ok := constString(x.Y); ok && s == "_value" && derivesFromSnake(x.X, depth+1, retry) {
			*retry = true
			return true
		}
	case *ssa.Phi:
		for _, e := range x.Edges {
			if derivesFromSnake(e, depth+1, retry) {
				return true
			}
		}
	case *ssa.UnOp:
		if al, ok := x.X.(*ssa.Alloc); ok {
			for _, ref := range *al.Referrers() {
				if st, ok := ref.(*ssa.Store); ok && st.Addr == ssa.Value(al) && derivesFromSnake(st.Val, depth+1, retry) {
					return true
				}
			}
		}
	}
	return false
}

// stringLibModel: exact models of pure string functions (the library functions themselves).
func stringLibModel(c *ssa.CallCommon, args []aval) (aval, bool) {
	sc := c.StaticCallee()
	if sc == nil {
		return aval{}, false
	}
	str := func(i int) (string, bool) {
		if i < len(args) && args[i].k == kConst && args[i].c.Kind() == constant.String {
			return constant.StringVal(args[i].c), true
		}
		return "", false
	}
	if (sc.Name() == "Includes" || (sc.Origin() != nil && sc.Origin().Name() == "Includes")) && strings.HasSuffix(fnPkgPath(sc), "/internal/slices") && len(c.Args) == 2 {
		if ld, ok := c.Args[0].(*ssa.UnOp); ok {
			if g, ok := ld.X.(*ssa.Global); ok {
				if elems, ok := globalStringSlice(g); ok {
					if s, ok := str(1); ok {
						for _, e := range elems {
							if e == s {
								return cBool(true), true
							}
						}
						return cBool(false), true
					}
				}
			}
		}
	}
	switch sc.RelString(nil) {
	case "github.com/iancoleman/strcase.ToLowerCamel":
		if s, ok := str(0); ok {
			return cStr(strcase.ToLowerCamel(s)), true
		}
	case "github.com/iancoleman/strcase.ToSnake":
		if s, ok := str(0); ok {
			return cStr(strcase.ToSnake(s)), true
		}
	case "github.com/iancoleman/strcase.ToCamel":
		if s, ok := str(0); ok {
			return cStr(strcase.ToCamel(s)), true
		}
	case "unicode.IsUpper":
		if len(args) == 1 && args[0].k == kConst && args[0].c.Kind() == constant.Int {
			v, _ := constant.Int64Val(args[0].c)
			return cBool(unicode.IsUpper(rune(v))), true
		}
	case "unicode.IsLower":
		if len(args) == 1 && args[0].k == kConst && args[0].c.Kind() == constant.Int {
			v, _ := constant.Int64Val(args[0].c)
			return cBool(unicode.IsLower(rune(v))), true
		}
	}
	return aval{}, false
}

// globalStringSlice: the constant contents of a package-level []string
// initialised by a composite literal.
func globalStringSlice(g *ssa.Global) ([]string, bool) {
	init := g.Pkg.Func("init")
	if init == nil {
		return nil, false
	}
	for _, b := range init.Blocks {
		for _, ins := range b.Instrs {
			st, ok := ins.(*ssa.Store)
			if !ok || st.Addr != ssa.Value(g) {
				continue
			}
			sl, ok := st.Val.(*ssa.Slice)
			if !ok {
				return nil, false
			}
			al, ok := sl.X.(*ssa.Alloc)
			if !ok {
				return nil, false
			}
			n := int(al.Type().(*types.Pointer).Elem().Underlying().(*types.Array).Len())
			out := make([]string, n)
			seen := 0
			for _, ref := range *al.Referrers() {
				ia, ok := ref.(*ssa.IndexAddr)
				if !ok {
					continue
				}
				ic, ok := ia.Index.(*ssa.Const)
				if !ok {
					return nil, false
				}
				for _, r2 := range *ia.Referrers() {
					if s2, ok := r2.(*ssa.Store); ok {
						v, ok := constString(s2.Val)
						if !ok {
							return nil, false
						}
						out[int(ic.Int64())] = v
						seen++
					}
				}
			}
			return out, seen == n
		}
	}
	return nil, false
}

// NAV4: the proto-only pseudo fields of the date/time primitives are refused
// there and nowhere else.
func ruleNAV4(p *Program) *RuleResult {
	r := newResult("NAV4")
	ev, err := p.Method("fhirpath/internal/expr", "FieldExpression", "Evaluate")
	if err != nil {
		return r.anchorFail(err)
	}
	dt, err := p.typesPkg(dtPkgPath)
	if err != nil {
		return r.anchorFail(err)
	}
	eval := func(typ, name string, permissive bool) string {
		o := dt.Scope().Lookup(typ)
		if o == nil {
			return "?type"
		}
		switch fieldAdmission(p, ev, types.NewPointer(o.Type()), name, permissive) {
		case 1:
			return "true"
		case 0:
			return "false"
		}
		return "?"
	}
	for _, typ := range []string{"Date", "DateTime", "Time", "Instant", "HumanName", "String", "Period"} {
		timeT := typ == "Date" || typ == "DateTime" || typ == "Time" || typ == "Instant"
		for _, name := range []string{"valueUs", "precision", "timezone", "value", "id", "extension", "value_us", "Value"} {
			r.count("hypotheses", 1)
			want := "true"
			if strings.Contains(name, "_") || name == "Value" {
				want = "false"
			}
			if timeT && (name == "valueUs" || name == "precision" || name == "timezone") {
				want = "false"
			}
			got := eval(typ, name, false)
			key := fmt.Sprintf("isEvaluable|%s.%s", typ, name)
			desc := fmt.Sprintf("%s.%s admitted=%s (want %s)", typ, name, got, want)
			if got == want {
				r.ok(key, desc, p.pos(ev.Pos()), "SCCP with the name and the message's dynamic type pinned", true)
			} else {
				r.bad(key, desc, p.pos(ev.Pos()), "the proto-only pseudo fields must be refused on Date/DateTime/Time/Instant and only there; snake_case and UpperCamel names are refused everywhere")
			}
		}
	}
	// permissive mode admits everything
	if got := eval("Date", "value_us", true); got == "true" {
		r.ok("isEvaluable|permissive", "permissive mode admits any name", p.pos(ev.Pos()), "SCCP", true)
	} else {
		r.bad("isEvaluable|permissive", "permissive mode refuses a name ("+got+")", p.pos(ev.Pos()), "Permissive() must disable the admission test")
	}
	r.floor("hypotheses", 50)
	return r
}

// NAV1: the predicate unwrapOneof uses to recognise a choice wrapper holds for
// every choice wrapper of the schema; the copy in patch agrees.
func ruleNAV1(p *Program) *RuleResult {
	r := newResult("NAV1")
	cw, err := choiceWrappers(p)
	if err != nil {
		return r.anchorFail(err)
	}
	r.count("schema_choice_wrappers", len(cw))
	type pred struct {
		kind string // "oneof", "suffix", "equals"
		c    string
	}
	extract := func(fn *ssa.Function) ([]pred, string) {
		var out []pred
		for _, b := range fn.Blocks {
			for _, ins := range b.Instrs {
				c, ok := ins.(*ssa.Call)
				if !ok {
					continue
				}
				cc := c.Common()
				if cc.IsInvoke() && namedName(cc.Value.Type()) == "OneofDescriptors" && cc.Method.Name() == "ByName" {
					if cv, ok := stripConv(cc.Args[0]).(*ssa.Const); ok && cv.Value != nil {
						out = append(out, pred{"oneof", constant.StringVal(cv.Value)})
					}
				}
				if sc := cc.StaticCallee(); sc != nil && sc.RelString(nil) == "strings.HasSuffix" {
					if s, ok := constString(cc.Args[1]); ok {
						out = append(out, pred{"suffix", s})
					}
				}
			}
		}
		if len(out) == 0 {
			return nil, "no recognised discriminator (Oneofs().ByName(const) / strings.HasSuffix(name, const))"
		}
		return out, ""
	}
	var first []pred
	for i, loc := range [][3]string{{"fhirpath/internal/expr", "FieldExpression", "unwrapOneof"}, {"fhirpath/patch", "Expression", "unwrapOneof"}} {
		fn, err := p.Method(loc[0], loc[1], loc[2])
		if err != nil {
			return r.anchorFail(err)
		}
		preds, why := extract(fn)
		key := short(fn) + "|choice discriminator"
		if preds == nil {
			r.undecided(key, "choice discriminator of "+short(fn), p.pos(fn.Pos()), why)
			continue
		}
		missed := 0
		var example string
		for _, w := range cw {
			hit := false
			for _, pr := range preds {
				switch pr.kind {
				case "oneof":
					if pr.c == w.OneofName {
						hit = true
					}
				case "suffix":
					if strings.HasSuffix(protoMessageName(w.Name), pr.c) {
						hit = true
					}
				}
			}
			if !hit {
				missed++
				if example == "" {
					example = w.Name
				}
			}
		}
		desc := fmt.Sprintf("%s recognises a choice wrapper by %v", short(fn), preds)
		if missed == 0 {
			r.ok(key, desc+fmt.Sprintf(": holds for all %d choice wrappers of the schema", len(cw)), p.pos(fn.Pos()), "EN-SCHEMA: structs with a protobuf_oneof:\"choice\" field", true)
		} else {
			r.bad(key, desc+fmt.Sprintf(": misses %d of %d choice wrappers (e.g. %s)", missed, len(cw), example), p.pos(fn.Pos()), "choice elements of the missed wrappers evaluate to the wrapper message instead of the chosen value")
		}
		if i == 0 {
			first = preds
		} else if fmt.Sprint(first) != fmt.Sprint(preds) {
			r.bad("unwrapOneof|siblings", fmt.Sprintf("the two copies of unwrapOneof disagree: %v vs %v", first, preds), p.pos(fn.Pos()), "navigation and patch target discovery unwrap different sets of elements")
		} else {
			r.ok("unwrapOneof|siblings", "the expr and patch copies of unwrapOneof use the same discriminator", p.pos(fn.Pos()), "sibling agreement", false)
		}
	}
	// TypeOf and AsExpression look through the same oneof
	r.floor("schema_choice_wrappers", 150)
	return r
}

// NAV2: identifier text obtained from the parse tree passes a delimiter-stripping
// sanitiser before it is used as a field name, type name, function-table key or
// variable name.
func isSanitiser(fn *ssa.Function, depth int) bool {
	if fn == nil || depth > 2 {
		return false
	}
	name := fn.RelString(nil)
	if strings.HasSuffix(name, "system.ParseString") {
		return true
	}
	if !inRepoFn(fn) {
		return false
	}
	// an in-repo helper that strips a leading/trailing ` or ' (slice [1:len-1]
	// guarded by comparisons with the delimiter, or strings.Trim* with it)
	hasDelimCmp, hasSlice := false, false
	for _, b := range fn.Blocks {
		for _, ins := range b.Instrs {
			switch x := ins.(type) {
			case *ssa.BinOp:
				if c, ok := x.Y.(*ssa.Const); ok && c.Value != nil && c.Value.Kind() == constant.Int {
					if v, _ := constant.Int64Val(c.Value); v == '`' {
						hasDelimCmp = true
					}
				}
			case *ssa.Slice:
				hasSlice = true
			case *ssa.Call:
				if sc := x.Common().StaticCallee(); sc != nil {
					if strings.HasPrefix(sc.RelString(nil), "strings.Trim") && len(x.Common().Args) == 2 {
						if s, ok := constString(x.Common().Args[1]); ok && strings.Contains(s, "`") {
							return true
						}
					}
					if isSanitiser(sc, depth+1) {
						return true
					}
				}
			}
		}
	}
	return hasDelimCmp && hasSlice
}

// taintedByGetText: does v derive from a GetText() call without passing a sanitiser?
func taintedByGetText(v ssa.Value, depth int, seen map[ssa.Value]bool) (bool, string) {
	if depth > 10 || seen[v] {
		return false, ""
	}
	seen[v] = true
	switch x := v.(type) {
	case *ssa.Call:
		cc := x.Common()
		if cc.IsInvoke() && cc.Method.Name() == "GetText" {
			return true, "GetText() of " + typeShort(cc.Value.Type())
		}
		sc := cc.StaticCallee()
		if sc != nil && isSanitiser(sc, 0) {
			return false, ""
		}
		if sc != nil && (strings.HasPrefix(sc.RelString(nil), "strings.") || inRepoFn(sc)) {
			for _, a := range cc.Args {
				if t, w := taintedByGetText(a, depth+1, seen); t {
					return true, w
				}
			}
		}
	case *ssa.Phi:
		for _, e := range x.Edges {
			if t, w := taintedByGetText(e, depth+1, seen); t {
				return true, w
			}
		}
	case *ssa.ChangeType:
		return taintedByGetText(x.X, depth+1, seen)
	case *ssa.Convert:
		return taintedByGetText(x.X, depth+1, seen)
	case *ssa.MakeInterface:
		return taintedByGetText(x.X, depth+1, seen)
	case *ssa.Extract:
		return taintedByGetText(x.Tuple, depth+1, seen)
	case *ssa.UnOp:
		if al, ok := x.X.(*ssa.Alloc); ok {
			for _, ref := range *al.Referrers() {
				if st, ok := ref.(*ssa.Store); ok && st.Addr == ssa.Value(al) {
					if t, w := taintedByGetText(st.Val, depth+1, seen); t {
						return true, w
					}
				}
			}
		}
	case *ssa.BinOp:
		if t, w := taintedByGetText(x.X, depth+1, seen); t {
			return true, w
		}
		return taintedByGetText(x.Y, depth+1, seen)
	}
	return false, ""
}

func ruleNAV2(p *Program) *RuleResult {
	r := newResult("NAV2")
	vm, err := visitorMethods(p)
	if err != nil {
		return r.anchorFail(err)
	}
	sinkFields := map[string]bool{"FieldName": true, "Type": true, "Identifier": true}
	var names []string
	for n := range vm {
		names = append(names, n)
	}
	sort.Strings(names)
	for _, n := range names {
		top := vm[n]
		if !strings.HasSuffix(fnPkgPath(top), "/fhirpath/internal/parser") {
			continue
		}
		fns := append([]*ssa.Function{top}, top.AnonFuncs...)
		for _, fn := range fns {
			for _, b := range fn.Blocks {
				for _, ins := range b.Instrs {
					var sink ssa.Value
					var what string
					switch x := ins.(type) {
					case *ssa.Store:
						if fa, ok := x.Addr.(*ssa.FieldAddr); ok && sinkFields[fieldName(fa)] && strings.Contains(typeShort(fa.X.Type()), "expr.") {
							if bt, ok := x.Val.Type().Underlying().(*types.Basic); ok && bt.Info()&types.IsString != 0 {
								sink, what = x.Val, typeShort(fa.X.Type())+"."+fieldName(fa)
							}
						}
					case *ssa.Lookup:
						if strings.HasSuffix(x.X.Type().String(), "funcs.FunctionTable") {
							sink, what = x.Index, "function table key"
						}
					case *ssa.Call:
						if sc := x.Common().StaticCallee(); sc != nil && (sc.Name() == "NewTypeSpecifier" || sc.Name() == "NewQualifiedTypeSpecifier") {
							// arguments come from VisitQualifiedIdentifier's result: checked at its return
						}
					case *ssa.Return:
						if strings.HasPrefix(short(fn), "(*fhirpath/internal/parser.FHIRPathVisitor).VisitQualifiedIdentifier$") && len(x.Results) == 1 {
							sink, what = x.Results[0], "qualified identifier component"
						}
					}
					if sink == nil {
						continue
					}
					r.count("identifier_sinks", 1)
					key := short(fn) + "|" + what
					if t, w := taintedByGetText(sink, 0, map[ssa.Value]bool{}); t {
						r.bad(key, what+" receives raw token text ("+w+")", p.instrPos(ins), "a delimited identifier (`name`) or quoted name keeps its delimiters and can never resolve")
					} else {
						r.ok(key, what+" is unquoted or not token text", p.instrPos(ins), "taint analysis: every GetText() flow passes a delimiter-stripping sanitiser", true)
					}
				}
			}
		}
	}
	r.floor("identifier_sinks", 2)
	return r
}

// NAV7: flattening a repeated field yields every element: in the loops of
// FieldExpression.Evaluate that read a protoreflect List by index, no path from
// the read to the next iteration avoids the append to the output (a skipped
// element changes the count and shifts the indexes of the result).
func ruleNAV7(p *Program) *RuleResult {
	r := newResult("NAV7")
	fn, err := p.Method("fhirpath/internal/expr", "FieldExpression", "Evaluate")
	if err != nil {
		return r.anchorFail(err)
	}
	isAppendBlock := func(b *ssa.BasicBlock) bool {
		for _, ins := range b.Instrs {
			if c, ok := ins.(*ssa.Call); ok {
				if bi, ok := c.Common().Value.(*ssa.Builtin); ok && bi.Name() == "append" {
					return true
				}
			}
		}
		return false
	}
	n := 0
	for li, lp := range naturalLoops(fn) {
		// innermost loops reading a list element
		var getBlock *ssa.BasicBlock
		var getIns ssa.Instruction
		for b := range lp.body {
			for _, ins := range b.Instrs {
				if c, ok := ins.(*ssa.Call); ok && c.Common().IsInvoke() && c.Common().Method.Name() == "Get" && strings.HasSuffix(typeShort(c.Common().Value.Type()), "protoreflect.List") {
					getBlock, getIns = b, ins
				}
			}
		}
		if getBlock == nil {
			continue
		}
		n++
		r.count("flatten_loops", 1)
		key := fmt.Sprintf("expr.FieldExpression.Evaluate|list loop %d", n)
		_ = li
		// search from the read, inside the loop, without crossing an append
		seen := map[*ssa.BasicBlock]bool{}
		stack := []*ssa.BasicBlock{getBlock}
		skip := false
		for len(stack) > 0 {
			b := stack[len(stack)-1]
			stack = stack[:len(stack)-1]
			if seen[b] {
				continue
			}
			seen[b] = true
			if b != getBlock && isAppendBlock(b) {
				continue
			}
			if b == getBlock && isAppendBlock(b) {
				// append in the same block after the read: fine
				continue
			}
			for _, s := range b.Succs {
				if s == lp.header {
					skip = true
				}
				if lp.body[s] && s != lp.header {
					stack = append(stack, s)
				}
			}
		}
		if skip {
			r.bad(key, "an element of a repeated field can be skipped: a path from List.Get to the next iteration avoids the append to the result", p.instrPos(getIns),
				"navigation must return exactly the elements of the JSON array; a dropped element changes the count and shifts later indexes")
		} else {
			r.ok(key, "every element read from the repeated field is appended to the result (or the evaluation fails)", p.instrPos(getIns), "no path from the element read to the loop latch avoids the append", true)
		}
	}
	if n == 0 {
		r.undecided("expr.FieldExpression.Evaluate|list loop", "no loop reading a protoreflect List by index found", p.pos(fn.Pos()), "shape changed")
	}
	return r
}
