package main

// EN-SCCP — hypothesis-driven sparse conditional constant propagation over
// go/ssa (Wegman–Zadeck), with a small fresh-heap model for composite
// literals and context-sensitive analysis of small static in-repo callees.
//
// The engine never executes repository code: it folds constants, slice
// lengths, nil-ness, dynamic types and error provenance through the SSA graph
// under a hypothesis (values pinned to abstract values) and reports which
// blocks, returns, calls and hazard instructions are executable.

import (
	"fmt"
	"go/constant"
	"go/token"
	"go/types"
	"math/big"
	"net/url"
	"os"
	"regexp"
	"sort"
	"strconv"
	"strings"
	"time"
	"unicode/utf8"

	"golang.org/x/tools/go/ssa"
)

type kind int

const (
	kBot    kind = iota
	kConst       // constant.Value
	kNil         // nil pointer/interface/slice/map/func/error
	kSlice       // slice/array with known length n (+ optional contents)
	kNonNil      // definitely non-nil (pointer / error / interface / func)
	kTuple       // tuple of values
	kStruct      // struct value with (partially) known fields
	kTime        // a known time.Time value (instant + zone), see sccp_time.go
	kTop
)

type aval struct {
	k     kind
	c     constant.Value
	n     int
	tup   []aval
	elems []aval          // slice contents, or struct fields for kStruct
	ptrOf *aval           // for pointers into the fresh heap: pointee
	notes []string        // provenance notes (sorted set), e.g. error sentinels
	dyn   types.Type      // dynamic type when the value sits in an interface
	fn    *ssa.Function   // function value
	fns   []*ssa.Function // one of several known functions (join of distinct function values; sorted)
	alloc *ssa.Alloc      // identity of the fresh cell a pointer refers to
	tm    time.Time       // kTime
}

var (
	bot = aval{k: kBot}
	top = aval{k: kTop}
)

func cBool(b bool) aval   { return aval{k: kConst, c: constant.MakeBool(b)} }
func cInt(i int64) aval   { return aval{k: kConst, c: constant.MakeInt64(i)} }
func cStr(s string) aval  { return aval{k: kConst, c: constant.MakeString(s)} }
func sliceLen(n int) aval { return aval{k: kSlice, n: n} }
func nonnil(note string) aval {
	if note == "" {
		return aval{k: kNonNil}
	}
	return aval{k: kNonNil, notes: []string{note}}
}

func (a aval) String() string {
	switch a.k {
	case kBot:
		return "⊥"
	case kConst:
		s := a.c.ExactString()
		if a.dyn != nil {
			return typeShort(a.dyn) + "(" + s + ")"
		}
		return s
	case kNil:
		return "nil"
	case kSlice:
		if a.elems != nil {
			var s []string
			for _, e := range a.elems {
				s = append(s, e.String())
			}
			return "[" + strings.Join(s, ", ") + "]"
		}
		return fmt.Sprintf("len=%d", a.n)
	case kNonNil:
		s := "nonnil"
		if a.fn != nil {
			s = "func:" + a.fn.Name()
		}
		if len(a.notes) > 0 {
			s += "(" + strings.Join(a.notes, "|") + ")"
		}
		if a.dyn != nil {
			s += ":" + typeShort(a.dyn)
		}
		return s
	case kTuple:
		var s []string
		for _, t := range a.tup {
			s = append(s, t.String())
		}
		return "(" + strings.Join(s, ", ") + ")"
	case kStruct:
		var s []string
		for _, t := range a.elems {
			s = append(s, t.String())
		}
		return "{" + strings.Join(s, ", ") + "}"
	case kTime:
		return "time(" + a.tm.Format(time.RFC3339Nano) + ")"
	}
	return "⊤"
}

func typeShort(t types.Type) string {
	return types.TypeString(t, func(p *types.Package) string { return p.Name() })
}

func eqNotes(a, b []string) bool {
	if len(a) != len(b) {
		return false
	}
	for i := range a {
		if a[i] != b[i] {
			return false
		}
	}
	return true
}

func unionNotes(a, b []string) []string {
	m := map[string]bool{}
	for _, x := range a {
		m[x] = true
	}
	for _, x := range b {
		m[x] = true
	}
	var out []string
	for x := range m {
		out = append(out, x)
	}
	sort.Strings(out)
	return out
}

func eqDyn(a, b types.Type) bool {
	if a == nil || b == nil {
		return a == nil && b == nil
	}
	return types.Identical(a, b)
}

func fnSet(a aval) []*ssa.Function {
	if a.fn != nil {
		return []*ssa.Function{a.fn}
	}
	return a.fns
}

func eqFns(a, b []*ssa.Function) bool {
	if len(a) != len(b) {
		return false
	}
	for i := range a {
		if a[i] != b[i] {
			return false
		}
	}
	return true
}

func unionFns(a, b []*ssa.Function) []*ssa.Function {
	out := append([]*ssa.Function{}, a...)
	for _, f := range b {
		dup := false
		for _, g := range out {
			if f == g {
				dup = true
			}
		}
		if !dup {
			out = append(out, f)
		}
	}
	sort.Slice(out, func(i, j int) bool { return fnKey(out[i]) < fnKey(out[j]) })
	return out
}

func eqVals(a, b []aval) bool {
	if len(a) != len(b) {
		return false
	}
	for i := range a {
		if !eq(a[i], b[i]) {
			return false
		}
	}
	return true
}

func eq(a, b aval) bool {
	if a.k != b.k {
		return false
	}
	switch a.k {
	case kConst:
		if a.c.Kind() != b.c.Kind() {
			return false
		}
		return constant.Compare(a.c, token.EQL, b.c) && eqDyn(a.dyn, b.dyn)
	case kSlice:
		if a.n != b.n || (a.elems == nil) != (b.elems == nil) {
			return false
		}
		return eqVals(a.elems, b.elems)
	case kNonNil:
		if (a.ptrOf == nil) != (b.ptrOf == nil) {
			return false
		}
		if a.ptrOf != nil && !eq(*a.ptrOf, *b.ptrOf) {
			return false
		}
		return eqNotes(a.notes, b.notes) && eqDyn(a.dyn, b.dyn) && a.fn == b.fn && a.alloc == b.alloc && eqFns(a.fns, b.fns)
	case kTuple:
		return eqVals(a.tup, b.tup)
	case kStruct:
		return eqVals(a.elems, b.elems)
	case kTime:
		return a.n == b.n && a.tm.Equal(b.tm) && a.tm.Format(time.RFC3339Nano) == b.tm.Format(time.RFC3339Nano)
	}
	return true
}

func join(a, b aval) aval {
	if a.k == kBot {
		return b
	}
	if b.k == kBot {
		return a
	}
	if a.k == kTop || b.k == kTop {
		return top
	}
	if eq(a, b) {
		return a
	}
	if a.k == kSlice && b.k == kSlice && a.n == b.n {
		if a.elems == nil || b.elems == nil || len(a.elems) != len(b.elems) {
			return aval{k: kSlice, n: a.n}
		}
		r := aval{k: kSlice, n: a.n, elems: make([]aval, len(a.elems))}
		for i := range a.elems {
			r.elems[i] = join(a.elems[i], b.elems[i])
		}
		return r
	}
	if a.k == kNonNil && b.k == kNonNil {
		r := aval{k: kNonNil, notes: unionNotes(a.notes, b.notes)}
		// two (sets of) known functions: still one of a few known functions
		if fa, fb := fnSet(a), fnSet(b); fa != nil && fb != nil {
			if u := unionFns(fa, fb); len(u) <= 4 {
				r.fns = u
			}
		}
		if a.dyn != nil && b.dyn != nil && types.Identical(a.dyn, b.dyn) {
			r.dyn = a.dyn
		}
		return r
	}
	// a typed constant in an interface joined with a non-nil interface
	if (a.k == kConst && a.dyn != nil && b.k == kNonNil) || (b.k == kConst && b.dyn != nil && a.k == kNonNil) {
		r := aval{k: kNonNil, notes: unionNotes(a.notes, b.notes)}
		if a.dyn != nil && b.dyn != nil && types.Identical(a.dyn, b.dyn) {
			r.dyn = a.dyn
		}
		return r
	}
	if a.k == kConst && b.k == kConst && a.dyn != nil && b.dyn != nil && types.Identical(a.dyn, b.dyn) {
		return aval{k: kNonNil, dyn: a.dyn}
	}
	if a.k == kTuple && b.k == kTuple && len(a.tup) == len(b.tup) {
		r := aval{k: kTuple}
		for i := range a.tup {
			r.tup = append(r.tup, join(a.tup[i], b.tup[i]))
		}
		return r
	}
	if a.k == kStruct && b.k == kStruct && len(a.elems) == len(b.elems) {
		r := aval{k: kStruct}
		for i := range a.elems {
			r.elems = append(r.elems, join(a.elems[i], b.elems[i]))
		}
		return r
	}
	return top
}

// ---- results ----

type retInfo struct {
	instr *ssa.Return
	vals  []aval
}

type hazard struct {
	instr ssa.Instruction // instruction in the analysed (root) function
	leaf  ssa.Instruction // the hazardous instruction itself (may be in a callee)
	what  string
}

type callObs struct {
	site   ssa.CallInstruction
	callee *ssa.Function // static callee or nil
	name   string
	args   []aval
	depth  int
}

type result struct {
	fn           *ssa.Function
	rets         []retInfo
	hazards      []hazard
	calls        []callObs
	execBlock    map[int]bool
	execEdge     map[[2]int]bool
	unknownIfs   int // executable Ifs whose condition is not constant
	env          map[ssa.Value]aval
	pin          map[ssa.Value]aval
	nonconverged bool
	// versionedConst: for a value defined inside an unrolled loop, whether it was a
	// constant in every iteration copy that ran (the joined value in env may be ⊤)
	versionedConst map[ssa.Value]bool
	// siteDecided / siteUndecided: how often an index or slice instruction (here or
	// in an inlined callee) was evaluated with its operand length and bounds known
	// (then a hazard is recorded if it is out of range) / not all known
	siteDecided   map[ssa.Instruction]int
	siteUndecided map[ssa.Instruction]int
}

func (r *result) noteSite(ins ssa.Instruction, decided bool) {
	if r.siteDecided == nil {
		r.siteDecided, r.siteUndecided = map[ssa.Instruction]int{}, map[ssa.Instruction]int{}
	}
	if decided {
		r.siteDecided[ins]++
	} else {
		r.siteUndecided[ins]++
	}
}

// val returns the abstract value of v at the fixpoint (pins first).
func (r *result) val(v ssa.Value) aval {
	if p, ok := r.pin[v]; ok {
		return p
	}
	switch c := v.(type) {
	case *ssa.Const:
		if c.Value != nil {
			return aval{k: kConst, c: c.Value}
		}
		return aval{k: kNil}
	case *ssa.Function:
		return aval{k: kNonNil, fn: c}
	case *ssa.Global:
		return nonnil("&" + c.Name())
	}
	if a, ok := r.env[v]; ok {
		return a
	}
	return bot
}

func (r *result) executable(ins ssa.Instruction) bool {
	b := ins.Block()
	return b != nil && b.Parent() == r.fn && r.execBlock[b.Index]
}

// joined return value (tuple for multi-result functions); bot if none.
func (r *result) joinedReturn() aval {
	j := bot
	for _, ri := range r.rets {
		var v aval
		if len(ri.vals) == 1 {
			v = ri.vals[0]
		} else {
			v = aval{k: kTuple, tup: ri.vals}
		}
		j = join(j, v)
	}
	return j
}

// ---- analyzer ----

type analyzer struct {
	pin            map[ssa.Value]aval
	maxDepth       int
	maxBlocks      int
	inlineAll      bool                                              // inline any static callee with a body (used for pure library helpers on request)
	callModel      func(c *ssa.CallCommon, args []aval) (aval, bool) // optional rule-specific summaries
	noInline       map[*ssa.Function]bool
	stack          []*ssa.Function
	allowRecursion bool                                             // bounded by maxDepth (structural recursion over a finite chain)
	dynModel       func(fv aval, args []aval) (aval, bool)          // calls of a function value that is not a known function
	fnModel        func(sc *ssa.Function, args []aval) (aval, bool) // summaries by resolved callee (static, or a known function value)
	cellValue      func(*ssa.Alloc) (aval, bool)                    // current content of a non-escaping local cell of the activation being analysed
	globalMaps     map[string]map[string]aval                       // constant package-level maps with string keys ("pkg.name" -> key -> value)
	snapshots      bool                                             // returned pointers to fresh allocations carry a snapshot of the pointee (ptrOf)
	regex          map[*ssa.Global]string                           // package-level regexps with a constant pattern (load gives "regexp:<pattern>")
	unroll         int                                              // iterations of an innermost loop kept apart (trace partitioning); the last one summarises the rest
}

func newAnalyzer() *analyzer {
	an := newAnalyzer0()
	if theProgram != nil {
		// package-level maps of the repository that are built once from constant keys
		// and never written afterwards are looked up exactly
		an.globalMaps = theProgram.allConstMaps()
	}
	return an
}

func newAnalyzer0() *analyzer {
	return &analyzer{pin: map[ssa.Value]aval{}, maxDepth: 7, maxBlocks: 80, noInline: map[*ssa.Function]bool{}, unroll: 4}
}

func lenOf(v aval) (int, bool) {
	switch v.k {
	case kSlice:
		return v.n, true
	case kNil:
		return 0, true
	case kConst:
		if v.c.Kind() == constant.String {
			return len(constant.StringVal(v.c)), true
		}
	}
	return 0, false
}

func constInt(v aval) (int64, bool) {
	if v.k == kConst && v.c.Kind() == constant.Int {
		return constant.Int64Val(v.c)
	}
	return 0, false
}

// allocEscapes: the address of a struct Alloc is used by anything other than
// field addressing, loads and stores *to* it.
func allocEscapes(al *ssa.Alloc) bool {
	refs := al.Referrers()
	if refs == nil {
		return true
	}
	for _, r := range *refs {
		switch x := r.(type) {
		case *ssa.FieldAddr, *ssa.IndexAddr:
			// the element pointer must itself only be loaded/stored
			v := r.(ssa.Value)
			if vr := v.Referrers(); vr != nil {
				for _, r2 := range *vr {
					switch y := r2.(type) {
					case *ssa.Store:
						if y.Addr != v {
							return true
						}
					case *ssa.UnOp:
					case *ssa.DebugRef:
					default:
						return true
					}
				}
			}
		case *ssa.Store:
			if x.Addr != al {
				return true
			}
		case *ssa.UnOp, *ssa.DebugRef:
		case *ssa.MakeClosure:
			// captured by a closure that only reads the variable
			if !readOnlyCapture(x, al, 0) {
				return true
			}
		case *ssa.Slice:
			// arrays: slicing a fresh array is how composite slice literals are built
			if _, ok := al.Type().(*types.Pointer).Elem().Underlying().(*types.Array); !ok {
				return true
			}
		default:
			return true
		}
	}
	return false
}

// readOnlyCapture: the closure (and closures nested in it) only loads from the
// captured variable cell.
func readOnlyCapture(mc *ssa.MakeClosure, cell ssa.Value, depth int) bool {
	if depth > 3 {
		return false
	}
	fn, ok := mc.Fn.(*ssa.Function)
	if !ok {
		return false
	}
	for i, b := range mc.Bindings {
		if b != cell || i >= len(fn.FreeVars) {
			continue
		}
		fv := fn.FreeVars[i]
		if fv.Referrers() == nil {
			continue
		}
		for _, ref := range *fv.Referrers() {
			switch x := ref.(type) {
			case *ssa.UnOp, *ssa.DebugRef:
			case *ssa.MakeClosure:
				if !readOnlyCapture(x, fv, depth+1) {
					return false
				}
			default:
				return false
			}
		}
	}
	return true
}

func (an *analyzer) analyze(fn *ssa.Function, params []aval) *result {
	return an.run(fn, params, nil, 0)
}

func (an *analyzer) run(fn *ssa.Function, params []aval, free []aval, depth int) *result {
	// cut[h]: the first iteration of the loop headed by h in which a branch inside
	// the loop is not decided; iterations before it are analysed one by one, that
	// one and the later ones together. Found by re-running.
	cut := map[int]int{}
	for {
		res, again := an.runOnce(fn, params, free, depth, cut)
		if !again {
			return res
		}
	}
}

func (an *analyzer) runOnce(fn *ssa.Function, params []aval, free []aval, depth int, cut map[int]int) (*result, bool) {
	res := &result{fn: fn, execBlock: map[int]bool{}, pin: an.pin}
	if len(fn.Blocks) == 0 {
		return res, false
	}
	env := map[ssa.Value]aval{}
	for i, p := range fn.Params {
		if i < len(params) {
			env[p] = params[i]
		} else {
			env[p] = top
		}
	}
	for i, fv := range fn.FreeVars {
		if i < len(free) {
			env[fv] = free[i]
		} else {
			env[fv] = top
		}
	}
	execEdge := map[[2]int]bool{}
	res.execEdge = execEdge
	res.execBlock[0] = true
	// trace partitioning of innermost loops: iteration k of a loop is analysed as
	// its own copy of the body (version k); version K summarises every later one
	loops := map[int]*uloop{}
	K := an.unroll
	if K > 0 {
		loops = innermostLoops(fn)
	}
	type verKey struct {
		v ssa.Value
		k int
	}
	envV := map[verKey]aval{}               // values defined inside an unrolled loop, per version
	execBV := map[[2]int]bool{{0, 0}: true} // (block, version)
	execEV := map[[4]int]bool{}             // (from, fromVersion, to, toVersion)
	exitV := map[[2]int]bool{}              // (loop header, version): an edge leaving the loop from that version is executable
	exitFrom := map[[3]int]bool{}           // (loop header, version, block): an edge leaving the loop from that block at that version is executable
	// per-iteration contents of local cells that are stored inside an unrolled loop
	// (a variable reassigned every iteration): see loadCell
	type cellKey struct {
		al   *ssa.Alloc
		h, k int
	}
	memV := map[cellKey][]aval{}
	memNL := map[*ssa.Alloc][]aval{} // what was stored outside the unrolled loops
	storeRoot := func(st *ssa.Store) *ssa.Alloc {
		switch a := st.Addr.(type) {
		case *ssa.Alloc:
			return a
		case *ssa.FieldAddr:
			al, _ := a.X.(*ssa.Alloc)
			return al
		case *ssa.IndexAddr:
			al, _ := a.X.(*ssa.Alloc)
			return al
		}
		return nil
	}
	storeField := func(st *ssa.Store) int { // -1: the whole cell
		switch a := st.Addr.(type) {
		case *ssa.FieldAddr:
			return a.Field
		case *ssa.IndexAddr:
			if c, ok := a.Index.(*ssa.Const); ok && c.Value != nil {
				if v, exact := constant.Int64Val(c.Value); exact {
					return int(v)
				}
			}
			return -2 // unknown element
		}
		return -1
	}
	allStores := map[*ssa.Alloc][]*ssa.Store{}
	if len(loops) > 0 {
		for _, b := range fn.Blocks {
			for _, ins := range b.Instrs {
				if st, ok := ins.(*ssa.Store); ok {
					if al := storeRoot(st); al != nil {
						allStores[al] = append(allStores[al], st)
					}
				}
			}
		}
	}
	var curB *ssa.BasicBlock
	curK := 0
	defLoop := func(v ssa.Value) *uloop {
		if len(loops) == 0 {
			return nil
		}
		if ins, ok := v.(ssa.Instruction); ok && ins.Block() != nil && ins.Parent() == fn {
			return loops[ins.Block().Index]
		}
		return nil
	}
	// fresh heap: per Alloc, per element/field index
	mem := map[*ssa.Alloc][]aval{}
	escaped := map[*ssa.Alloc]bool{}
	escapes := func(al *ssa.Alloc) bool {
		e, ok := escaped[al]
		if !ok {
			e = allocEscapes(al)
			if e && an.snapshots && onlyFreshEscapes(al, 0) {
				// the address only flows into fresh allocations of this activation and to the
				// caller at return: until then this function's stores are the only writes
				e = false
			}
			escaped[al] = e
		}
		return e
	}
	get := func(v ssa.Value) aval {
		if p, ok := an.pin[v]; ok {
			return p
		}
		switch c := v.(type) {
		case *ssa.Const:
			if c.Value == nil {
				// nil or zero value of aggregate
				switch c.Type().Underlying().(type) {
				case *types.Pointer, *types.Interface, *types.Slice, *types.Map, *types.Signature, *types.Chan:
					return aval{k: kNil}
				case *types.Basic:
					if c.IsNil() {
						return aval{k: kNil}
					}
				}
				return top
			}
			return aval{k: kConst, c: c.Value}
		case *ssa.Global:
			return nonnil("&" + c.Pkg.Pkg.Name() + "." + c.Name())
		case *ssa.Function:
			return aval{k: kNonNil, fn: c}
		case *ssa.Builtin:
			return nonnil("builtin")
		}
		if L := defLoop(v); L != nil {
			if curB != nil && loops[curB.Index] == L {
				if a, ok := envV[verKey{v, curK}]; ok {
					return a
				}
				return bot
			}
			// used after the loop: control left the loop from some iteration k, in which
			// the definition (it dominates the exit) was last executed
			db := v.(ssa.Instruction).Block().Index
			j := bot
			for k := 0; k <= K; k++ {
				if execBV[[2]int{db, k}] && exitV[[2]int{L.header, k}] {
					j = join(j, envV[verKey{v, k}])
				}
			}
			return j
		}
		if a, ok := env[v]; ok {
			return a
		}
		return bot
	}
	// the version an edge leads to, taken from version k of its source
	toVer := func(from, to *ssa.BasicBlock, k int) int {
		L := loops[to.Index]
		if L == nil || loops[from.Index] != L {
			return 0
		}
		if to.Index == L.header {
			if c, ok := cut[L.header]; (ok && k >= c) || k+1 > K {
				return K
			}
			return k + 1
		}
		return k
	}
	versionsOf := func(b *ssa.BasicBlock) int {
		if loops[b.Index] != nil {
			return K
		}
		return 0
	}
	memSize := func(al *ssa.Alloc) int {
		switch t := al.Type().(*types.Pointer).Elem().Underlying().(type) {
		case *types.Array:
			return int(t.Len())
		case *types.Struct:
			return t.NumFields()
		}
		return 1
	}
	// loadCell: a load, inside an unrolled loop, of a non-escaping local cell that the
	// loop stores to: the value of the current iteration when a store of this
	// iteration dominates the load, else the value the previous iteration left
	// (what was stored before the loop for the first one).
	loadCell := func(x *ssa.UnOp, a aval, b *ssa.BasicBlock, ver int) (aval, bool) {
		if len(loops) == 0 || a.k != kNonNil || a.alloc == nil || a.ptrOf != nil || escapes(a.alloc) {
			return aval{}, false
		}
		al := a.alloc
		L := loops[b.Index]
		after := false // the load comes after the loop that stores the cell
		if L == nil {
			for _, st := range allStores[al] {
				if SL := loops[st.Block().Index]; SL != nil {
					if L != nil && SL != L {
						return aval{}, false
					}
					L = SL
				}
			}
			if L == nil || !fn.Blocks[L.header].Dominates(b) {
				return aval{}, false
			}
			for _, st := range allStores[al] {
				if loops[st.Block().Index] == nil && !(st.Block().Index == L.header || st.Block().Dominates(fn.Blocks[L.header])) {
					return aval{}, false // also stored after / beside the loop
				}
			}
			after = true
		}
		var inLoop []*ssa.Store
		for _, st := range allStores[al] {
			switch SL := loops[st.Block().Index]; {
			case SL == L:
				inLoop = append(inLoop, st)
			case SL != nil:
				return aval{}, false // stored in another unrolled loop too: not tracked
			}
			if storeField(st) == -2 {
				return aval{}, false
			}
		}
		if len(inLoop) == 0 {
			return aval{}, false
		}
		var latches []*ssa.BasicBlock
		for _, bb := range fn.Blocks {
			if L.body[bb.Index] {
				for _, sc := range bb.Succs {
					if sc.Index == L.header {
						latches = append(latches, bb)
					}
				}
			}
		}
		affects := func(st *ssa.Store, i int) bool { f := storeField(st); return f == -1 || f == i }
		var entry func(i, k int) aval
		entry = func(i, k int) aval {
			if k <= 0 {
				if m := memNL[al]; m != nil && i < len(m) && m[i].k != kBot {
					return m[i]
				}
				return top // zero value: unknown to this domain
			}
			strong := false
			for _, st := range inLoop {
				if !affects(st, i) {
					continue
				}
				all := len(latches) > 0
				for _, l := range latches {
					if !(st.Block() == l || st.Block().Dominates(l)) {
						all = false
					}
				}
				if all {
					strong = true
				}
			}
			v := bot
			if prev := memV[cellKey{al, L.header, k - 1}]; prev != nil && i < len(prev) {
				v = prev[i]
			}
			if strong {
				return v // bot until the store of the previous iteration was evaluated
			}
			return join(v, entry(i, k-1))
		}
		cell := func(i int) aval {
			if after {
				// the value at the moment the loop was left: over every executable exit edge
				// (block p, iteration k), what iteration k stored before p, else what it started with
				v := bot
				for k := 0; k <= K; k++ {
					for _, p := range fn.Blocks {
						if !L.body[p.Index] || !exitFrom[[3]int{L.header, k, p.Index}] {
							continue
						}
						stored := false
						for _, st := range inLoop {
							if affects(st, i) && (st.Block() == p || st.Block().Dominates(p)) {
								stored = true
							}
						}
						if stored {
							if cur := memV[cellKey{al, L.header, k}]; cur != nil && i < len(cur) {
								v = join(v, cur[i])
							}
							continue
						}
						e := entry(i, k)
						if k == K {
							if cur := memV[cellKey{al, L.header, K}]; cur != nil && i < len(cur) {
								e = join(e, cur[i])
							}
						}
						v = join(v, e)
					}
				}
				return v
			}
			for _, st := range inLoop {
				if affects(st, i) && dominatesInstr(st, x) {
					if cur := memV[cellKey{al, L.header, ver}]; cur != nil && i < len(cur) {
						return cur[i]
					}
					return bot
				}
			}
			v := entry(i, ver)
			if ver == K {
				// the summary iteration follows itself
				if cur := memV[cellKey{al, L.header, K}]; cur != nil && i < len(cur) {
					v = join(v, cur[i])
				}
			}
			return v
		}
		if a.n > 0 {
			return cell(a.n - 1), true
		}
		if st, ok := al.Type().(*types.Pointer).Elem().Underlying().(*types.Struct); ok {
			r := aval{k: kStruct, elems: make([]aval, st.NumFields())}
			for i := range r.elems {
				r.elems[i] = cell(i)
				if r.elems[i].k == kBot {
					return bot, true
				}
			}
			return r, true
		}
		if memSize(al) == 1 {
			return cell(0), true
		}
		return aval{}, false
	}
	changed := true
	iter := 0
	for changed {
		changed = false
		iter++
		if iter > 400 {
			res.nonconverged = true
			break
		}
		res.rets, res.hazards, res.calls, res.unknownIfs = nil, nil, nil, 0
		res.siteDecided, res.siteUndecided = nil, nil
		mark := func(from, to int) {
			tk := toVer(fn.Blocks[from], fn.Blocks[to], curK)
			if !execEV[[4]int{from, curK, to, tk}] {
				execEV[[4]int{from, curK, to, tk}] = true
				changed = true
			}
			if !execBV[[2]int{to, tk}] {
				execBV[[2]int{to, tk}] = true
				changed = true
			}
			execEdge[[2]int{from, to}] = true
			res.execBlock[to] = true
			if L := loops[from]; L != nil && loops[to] != L {
				if !exitV[[2]int{L.header, curK}] {
					exitV[[2]int{L.header, curK}] = true
					changed = true
				}
				if !exitFrom[[3]int{L.header, curK, from}] {
					exitFrom[[3]int{L.header, curK, from}] = true
					changed = true
				}
			}
		}
		for _, b := range fn.Blocks {
			for ver := 0; ver <= versionsOf(b); ver++ {
				if !execBV[[2]int{b.Index, ver}] {
					continue
				}
				curB, curK = b, ver
				for _, ins := range b.Instrs {
					var nv aval
					val, isVal := ins.(ssa.Value)
					switch x := ins.(type) {
					case *ssa.Phi:
						nv = bot
						for i, p := range b.Preds {
							for pk := 0; pk <= versionsOf(p); pk++ {
								if toVer(p, b, pk) != ver || !execEV[[4]int{p.Index, pk, b.Index, ver}] {
									continue
								}
								// the operand is read in the context of the edge's source
								curB, curK = p, pk
								nv = join(nv, get(x.Edges[i]))
								curB, curK = b, ver
							}
						}
					case *ssa.BinOp:
						nv = evalBinTyped(x, get(x.X), get(x.Y), res)
					case *ssa.UnOp:
						a := get(x.X)
						switch {
						case a.k == kBot:
							nv = bot
						case x.Op == token.NOT && a.k == kConst:
							nv = cBool(!constant.BoolVal(a.c))
						case x.Op == token.SUB && a.k == kConst:
							nv = aval{k: kConst, c: wrapInt(constant.UnaryOp(token.SUB, a.c, 0), x.Type())}
						case x.Op == token.MUL:
							if v, ok := loadCell(x, a, b, ver); ok {
								nv = v
							} else {
								nv = an.load(x, a, mem, escapes)
							}
						default:
							nv = top
						}
					case *ssa.Alloc:
						switch al := x.Type().(*types.Pointer).Elem().Underlying().(type) {
						case *types.Array:
							nv = aval{k: kSlice, n: int(al.Len()), alloc: x}
							if al.Len() <= 64 {
								nv.elems = make([]aval, al.Len())
								copy(nv.elems, mem[x])
							}
						default:
							nv = aval{k: kNonNil, alloc: x}
						}
					case *ssa.FieldAddr:
						a := get(x.X)
						if a.k == kBot {
							nv = bot
						} else if a.k == kNonNil && a.alloc != nil && a.n == 0 {
							nv = aval{k: kNonNil, alloc: a.alloc, n: x.Field + 1} // n-1 = field index within the cell
						} else if a.k == kNonNil && a.ptrOf != nil && a.ptrOf.k == kStruct && x.Field < len(a.ptrOf.elems) {
							e := a.ptrOf.elems[x.Field]
							if e.k == kBot {
								e = top
							}
							nv = aval{k: kNonNil, ptrOf: &e}
						} else {
							nv = aval{k: kNonNil}
						}
					case *ssa.Field:
						a := get(x.X)
						switch {
						case a.k == kBot:
							nv = bot
						case a.k == kStruct && x.Field < len(a.elems):
							nv = a.elems[x.Field]
							if nv.k == kBot {
								nv = top
							}
						default:
							nv = top
						}
					case *ssa.Slice:
						nv = an.evalSlice(x, get, res)
					case *ssa.IndexAddr:
						a := get(x.X)
						i := get(x.Index)
						if a.k == kBot || i.k == kBot {
							nv = bot
							break
						}
						an.indexHazard(x, a, i, res)
						nv = aval{k: kNonNil}
						if iv, ok := constInt(i); ok {
							if a.alloc != nil && a.k == kSlice {
								nv = aval{k: kNonNil, alloc: a.alloc, n: int(iv) + 1}
							} else if a.elems != nil && iv >= 0 && int(iv) < len(a.elems) {
								e := a.elems[iv]
								if e.k == kBot {
									e = top
								}
								nv = aval{k: kNonNil, ptrOf: &e}
							}
						} else if a.alloc == nil && a.k == kSlice && len(a.elems) > 0 && len(a.elems) == a.n {
							// unknown position in a slice value whose elements are all known: one of them
							nv = aval{k: kNonNil, ptrOf: joinedElem(a)}
						}
					case *ssa.Index:
						a := get(x.X)
						i := get(x.Index)
						if a.k == kBot || i.k == kBot {
							nv = bot
							break
						}
						an.indexHazard(x, a, i, res)
						nv = top
						if iv, ok := constInt(i); ok && a.elems != nil && iv >= 0 && int(iv) < len(a.elems) {
							nv = a.elems[iv]
						} else if !ok && a.k == kSlice && len(a.elems) > 0 && len(a.elems) == a.n {
							nv = *joinedElem(a)
						}
						if a.k == kConst && a.c.Kind() == constant.String {
							if iv, ok := constInt(i); ok {
								sv := constant.StringVal(a.c)
								if iv >= 0 && int(iv) < len(sv) {
									nv = cInt(int64(sv[iv]))
								} else {
									nv = bot
								}
							}
						}
					case *ssa.Lookup:
						a := get(x.X)
						i := get(x.Index)
						if a.k == kBot || i.k == kBot {
							nv = bot
							break
						}
						if _, isStr := x.X.Type().Underlying().(*types.Basic); isStr {
							an.indexHazard(x, a, i, res)
							if a.k == kConst && a.c.Kind() == constant.String {
								if iv, ok := constInt(i); ok {
									sv := constant.StringVal(a.c)
									if iv >= 0 && int(iv) < len(sv) {
										nv = cInt(int64(sv[iv]))
										break
									}
									nv = bot
									break
								}
							}
							nv = top
							break
						}
						if v, ok := an.globalMapLookup(a, i, x); ok {
							nv = v
							break
						}
						if x.CommaOk {
							nv = aval{k: kTuple, tup: []aval{top, top}}
						} else {
							nv = top
						}
					case *ssa.Store:
						a := get(x.Addr)
						v := get(x.Val)
						if a.ptrOf != nil {
							res.hazards = append(res.hazards, hazard{ins, ins, "store through a snapshot pointer (not modelled)"})
						}
						if a.k == kNonNil && a.alloc != nil && v.k != kBot {
							al := a.alloc
							idx := a.n - 1
							if a.n == 0 { // store to the cell itself
								idx = -1
							}
							size := memSize(al)
							if mem[al] == nil {
								mem[al] = make([]aval, size)
							}
							if idx == -1 {
								// whole-value store: scalar cell (size 1) or struct value
								if _, isStruct := al.Type().(*types.Pointer).Elem().Underlying().(*types.Struct); isStruct {
									for fi := range mem[al] {
										var fv aval = top
										if v.k == kStruct && fi < len(v.elems) {
											fv = v.elems[fi]
										}
										if j := join(mem[al][fi], fv); !eq(j, mem[al][fi]) {
											mem[al][fi] = j
											changed = true
										}
									}
								} else if size == 1 {
									if j := join(mem[al][0], v); !eq(j, mem[al][0]) {
										mem[al][0] = j
										changed = true
									}
								}
							} else if idx >= 0 && idx < size {
								if j := join(mem[al][idx], v); !eq(j, mem[al][idx]) {
									mem[al][idx] = j
									changed = true
								}
							}
							// the same store, filed under the iteration it belongs to
							if len(loops) > 0 {
								var dst []aval
								if L := loops[b.Index]; L != nil {
									ck := cellKey{al, L.header, ver}
									if memV[ck] == nil {
										memV[ck] = make([]aval, size)
									}
									dst = memV[ck]
								} else {
									if memNL[al] == nil {
										memNL[al] = make([]aval, size)
									}
									dst = memNL[al]
								}
								_, isStruct := al.Type().(*types.Pointer).Elem().Underlying().(*types.Struct)
								for fi := range dst {
									var fv aval
									switch {
									case idx == fi:
										fv = v
									case idx == -1 && isStruct:
										fv = top
										if v.k == kStruct && fi < len(v.elems) {
											fv = v.elems[fi]
										}
									case idx == -1 && size == 1:
										fv = v
									default:
										continue
									}
									if j := join(dst[fi], fv); !eq(j, dst[fi]) {
										dst[fi] = j
										changed = true
									}
								}
							}
							// keep the array value in step with its contents so that a
							// later `slice t[:]` in the same block sees them at once
							if old, ok := env[al]; ok && defLoop(al) == nil && old.k == kSlice && old.elems != nil && len(old.elems) == len(mem[al]) {
								nw := old
								nw.elems = make([]aval, len(old.elems))
								for i := range nw.elems {
									nw.elems[i] = join(old.elems[i], mem[al][i])
								}
								env[al] = nw
							}
						}
					case *ssa.MakeInterface:
						a := get(x.X)
						switch a.k {
						case kBot:
							nv = bot
						case kConst:
							nv = a
							nv.dyn = x.X.Type()
						case kNil:
							// typed nil in an interface is a non-nil interface
							nv = aval{k: kNonNil, dyn: x.X.Type()}
						default:
							nv = aval{k: kNonNil, notes: a.notes, dyn: x.X.Type(), fn: a.fn, ptrOf: a.ptrOf}
							if an.snapshots && a.k == kNonNil && a.alloc != nil && a.n == 0 && a.ptrOf == nil {
								// a freshly built object handed on as an interface value: keep what
								// this function stored into it
								sn := snapshotOfAs(a.alloc, mem, res.execBlock, 0, true)
								if sn.k == kBot {
									nv = bot
								} else {
									nv.ptrOf = sn.ptrOf
								}
							}
						}
					case *ssa.ChangeInterface:
						nv = get(x.X)
					case *ssa.ChangeType:
						nv = get(x.X)
						if nv.k == kConst || nv.k == kNonNil {
							nv.dyn = nil
						}
					case *ssa.Convert:
						a := get(x.X)
						switch {
						case a.k == kBot:
							nv = bot
						case a.k == kConst && a.c.Kind() == constant.String && isRuneOrByteSlice(x.Type()) != 0:
							sv := constant.StringVal(a.c)
							var es []aval
							if isRuneOrByteSlice(x.Type()) == 'r' {
								for _, r := range sv {
									es = append(es, cInt(int64(r)))
								}
							} else {
								for i := 0; i < len(sv); i++ {
									es = append(es, cInt(int64(sv[i])))
								}
							}
							if es == nil {
								es = []aval{}
							}
							nv = aval{k: kSlice, n: len(es), elems: es}
						case a.k == kSlice && a.elems != nil && isStringType(x.Type()) && isRuneOrByteSlice(x.X.Type()) != 0:
							kindc := isRuneOrByteSlice(x.X.Type())
							okc := true
							var rs []rune
							var bs []byte
							for _, e := range a.elems {
								iv, ok := constInt(e)
								if !ok {
									okc = false
									break
								}
								if kindc == 'r' {
									rs = append(rs, rune(iv))
								} else {
									bs = append(bs, byte(iv))
								}
							}
							if okc {
								if kindc == 'r' {
									nv = cStr(string(rs))
								} else {
									nv = cStr(string(bs))
								}
							} else {
								nv = top
							}
						case a.k == kConst:
							nv = convertConst(a, x.Type())
							if nv.k == kConst {
								nv.c = wrapInt(nv.c, x.Type())
							}
						default:
							nv = top
						}
					case *ssa.MakeSlice:
						if l, ok := constInt(get(x.Len)); ok {
							nv = sliceLen(int(l))
						} else {
							nv = aval{k: kTop}
						}
					case *ssa.MakeMap, *ssa.MakeChan:
						nv = aval{k: kNonNil}
					case *ssa.MakeClosure:
						nv = aval{k: kNonNil, fn: x.Fn.(*ssa.Function)}
					case *ssa.Extract:
						t := get(x.Tuple)
						switch {
						case t.k == kTuple && x.Index < len(t.tup):
							nv = t.tup[x.Index]
						case t.k == kBot:
							nv = bot
						default:
							nv = top
						}
					case *ssa.TypeAssert:
						nv = an.typeAssert(x, get(x.X), res)
					case *ssa.Call:
						prevCell := an.cellValue
						an.cellValue = func(al *ssa.Alloc) (aval, bool) {
							if escapes(al) {
								return aval{}, false
							}
							if m := mem[al]; m != nil && len(m) == 1 && m[0].k != kBot {
								return m[0], true
							}
							return aval{}, false
						}
						nv = an.call(x, get, depth, res)
						an.cellValue = prevCell
					case *ssa.Defer:
						// deferred calls are not followed
					case *ssa.Go:
					case *ssa.If:
						c := get(x.Cond)
						t, f := b.Succs[0].Index, b.Succs[1].Index
						switch {
						case c.k == kConst && c.c.Kind() == constant.Bool:
							if constant.BoolVal(c.c) {
								mark(b.Index, t)
							} else {
								mark(b.Index, f)
							}
						case c.k == kBot:
						default:
							if L := loops[b.Index]; L != nil && ver < K && dependsOnLoopPhi(x.Cond, L, fn, 0) {
								if c, ok := cut[L.header]; !ok || c > ver {
									cut[L.header] = ver
									return nil, true
								}
							}
							res.unknownIfs++
							mark(b.Index, t)
							mark(b.Index, f)
						}
					case *ssa.Jump:
						mark(b.Index, b.Succs[0].Index)
					case *ssa.Return:
						ri := retInfo{instr: x}
						dead := false
						for _, r := range x.Results {
							v := get(r)
							if an.snapshots && v.k == kNonNil && v.alloc != nil && v.n == 0 && v.ptrOf == nil {
								v = snapshotOf(v.alloc, mem, res.execBlock, 0)
							}
							if v.k == kBot {
								dead = true
							}
							// a value of unknown nil-ness returned only where a dominating test found it non-nil
							if v.k == kTop && isNilable(r.Type()) && nilGuarded(fn, r, x) {
								v = aval{k: kNonNil, notes: v.notes}
							}
							ri.vals = append(ri.vals, v)
						}
						if !dead {
							res.rets = append(res.rets, ri)
						}
					case *ssa.Panic:
						res.hazards = append(res.hazards, hazard{ins, ins, "panic"})
					case *ssa.Range:
						nv = top
					case *ssa.Next:
						nv = aval{k: kTuple, tup: []aval{top, top, top}}
					default:
						if isVal {
							nv = top
						}
					}
					if isVal {
						if loops[b.Index] != nil {
							old := envV[verKey{val, ver}]
							j := join(old, nv)
							if !eq(old, j) {
								envV[verKey{val, ver}] = j
								changed = true
							}
						} else {
							old := env[val]
							j := join(old, nv)
							if !eq(old, j) {
								env[val] = j
								changed = true
							}
						}
					}
				}
			}
		}
	}
	curB = nil
	if os.Getenv("FPSA_TRACE") != "" {
		for vk, a := range envV {
			fmt.Fprintf(os.Stderr, "TRACE %s %s@%d = %s (cut %v)\n", fn.Name(), vk.v.Name(), vk.k, a, cut)
		}
	}
	res.versionedConst = map[ssa.Value]bool{}
	for vk, a := range envV {
		if execBV[[2]int{vk.v.(ssa.Instruction).Block().Index, vk.k}] {
			env[vk.v] = join(env[vk.v], a)
			if _, seen := res.versionedConst[vk.v]; !seen {
				res.versionedConst[vk.v] = true
			}
			if a.k != kConst {
				res.versionedConst[vk.v] = false
			}
		}
	}
	res.env = env
	return res, false
}

// dependsOnLoopPhi: v is computed by comparisons / arithmetic / conversions from
// a phi of the loop's header (the trip count hangs on it); values obtained
// through calls or loads do not count.
func dependsOnLoopPhi(v ssa.Value, L *uloop, fn *ssa.Function, depth int) bool {
	if depth > 6 {
		return true
	}
	switch x := v.(type) {
	case *ssa.Phi:
		if x.Block().Index == L.header {
			return true
		}
		if !L.body[x.Block().Index] {
			return false
		}
		for _, e := range x.Edges {
			if dependsOnLoopPhi(e, L, fn, depth+1) {
				return true
			}
		}
	case *ssa.BinOp:
		return dependsOnLoopPhi(x.X, L, fn, depth+1) || dependsOnLoopPhi(x.Y, L, fn, depth+1)
	case *ssa.UnOp:
		if x.Op != token.MUL {
			return dependsOnLoopPhi(x.X, L, fn, depth+1)
		}
	case *ssa.Convert:
		return dependsOnLoopPhi(x.X, L, fn, depth+1)
	case *ssa.ChangeType:
		return dependsOnLoopPhi(x.X, L, fn, depth+1)
	}
	return false
}

// uloop: an innermost natural loop (header and body block indices).
type uloop struct {
	header int
	body   map[int]bool
}

// innermostLoops maps the blocks of every innermost natural loop of fn (a loop
// whose body contains no other loop's header and that shares no block with
// another loop) to that loop.
func innermostLoops(fn *ssa.Function) map[int]*uloop {
	byHeader := map[int]*uloop{}
	for _, t := range fn.Blocks {
		for _, h := range t.Succs {
			if !h.Dominates(t) {
				continue
			}
			L := byHeader[h.Index]
			if L == nil {
				L = &uloop{header: h.Index, body: map[int]bool{h.Index: true}}
				byHeader[h.Index] = L
			}
			stack := []*ssa.BasicBlock{t}
			for len(stack) > 0 {
				x := stack[len(stack)-1]
				stack = stack[:len(stack)-1]
				if L.body[x.Index] {
					continue
				}
				L.body[x.Index] = true
				stack = append(stack, x.Preds...)
			}
		}
	}
	out := map[int]*uloop{}
	for _, L := range byHeader {
		inner := true
		for _, M := range byHeader {
			if M != L && L.body[M.header] {
				inner = false
			}
		}
		if !inner {
			continue
		}
		for b := range L.body {
			out[b] = L
		}
	}
	return out
}

// joinedElem: the join of the known elements of a slice value (one of them is
// what an access at an unknown position yields).
func joinedElem(a aval) *aval {
	e := bot
	for _, x := range a.elems {
		if x.k == kBot {
			x = top
		}
		e = join(e, x)
	}
	return &e
}

func (an *analyzer) load(x *ssa.UnOp, a aval, mem map[*ssa.Alloc][]aval, escapes func(*ssa.Alloc) bool) aval {
	if a.ptrOf != nil {
		return *a.ptrOf
	}
	if a.k == kNonNil && a.alloc != nil && !escapes(a.alloc) {
		m := mem[a.alloc]
		al := a.alloc
		if a.n == 0 {
			// load of the whole cell
			if st, ok := al.Type().(*types.Pointer).Elem().Underlying().(*types.Struct); ok {
				r := aval{k: kStruct, elems: make([]aval, st.NumFields())}
				for i := range r.elems {
					if m != nil && m[i].k != kBot {
						r.elems[i] = m[i]
					} else {
						r.elems[i] = top // zero value: unknown to this domain
					}
				}
				return r
			}
			if m != nil && len(m) == 1 && m[0].k != kBot {
				return m[0]
			}
			return top
		}
		if m != nil && a.n-1 < len(m) && m[a.n-1].k != kBot {
			return m[a.n-1]
		}
		return top
	}
	if a.k == kSlice && a.alloc != nil {
		// load of a whole array value
		return aval{k: kSlice, n: a.n, elems: a.elems}
	}
	// load of a package-level error sentinel
	if g, ok := x.X.(*ssa.Global); ok {
		if isErrorType(g.Type().(*types.Pointer).Elem()) {
			return nonnil(g.Pkg.Pkg.Name() + "." + g.Name())
		}
		if pat, ok := an.regex[g]; ok {
			return nonnil("regexp:" + pat)
		}
		if g.Pkg.Pkg.Path() == "time" && g.Name() == "UTC" {
			return nonnil("tzloc:UTC|0")
		}
		if theProgram != nil {
			if v, ok := theProgram.constGlobalValue(g); ok {
				return v
			}
		}
		return aval{k: kTop, notes: []string{"global:" + g.Pkg.Pkg.Name() + "." + g.Name()}}
	}
	return top
}

func isErrorType(t types.Type) bool {
	return types.Identical(t, types.Universe.Lookup("error").Type())
}

func (an *analyzer) indexHazard(ins ssa.Instruction, a, i aval, res *result) {
	n, ok := lenOf(a)
	_, idxKnown := constInt(i)
	res.noteSite(ins, ok && idxKnown)
	if !ok {
		return
	}
	if iv, ok := constInt(i); ok {
		if iv < 0 || int(iv) >= n {
			res.hazards = append(res.hazards, hazard{ins, ins, fmt.Sprintf("index %d of len %d", iv, n)})
		}
	} else if n == 0 {
		res.hazards = append(res.hazards, hazard{ins, ins, "index ? of len 0"})
	}
}

func (an *analyzer) evalSlice(x *ssa.Slice, get func(ssa.Value) aval, res *result) aval {
	a := get(x.X)
	if a.k == kBot {
		return bot
	}
	n, ok := lenOf(a)
	{
		known := ok
		if x.Low != nil {
			if _, c := constInt(get(x.Low)); !c {
				known = false
			}
		}
		if x.High != nil {
			if _, c := constInt(get(x.High)); !c {
				known = false
			}
		}
		if x.Low != nil || x.High != nil {
			res.noteSite(x, known)
		}
	}
	if !ok {
		return top
	}
	if a.k == kConst {
		// string slicing
		lo, hi := int64(0), int64(n)
		okb := true
		if x.Low != nil {
			if l, ok := constInt(get(x.Low)); ok {
				lo = l
			} else {
				okb = false
			}
		}
		if x.High != nil {
			if h, ok := constInt(get(x.High)); ok {
				hi = h
			} else {
				okb = false
			}
		}
		if okb {
			if lo < 0 || hi > int64(n) || lo > hi {
				res.hazards = append(res.hazards, hazard{x, x, fmt.Sprintf("slice [%d:%d] of len %d", lo, hi, n)})
				return top
			}
			return cStr(constant.StringVal(a.c)[lo:hi])
		}
		return top
	}
	if x.Low == nil && x.High == nil {
		return aval{k: kSlice, n: n, elems: a.elems}
	}
	lo, hi := 0, n
	okb := true
	if x.Low != nil {
		if l, ok := constInt(get(x.Low)); ok {
			lo = int(l)
		} else {
			okb = false
		}
	}
	if x.High != nil {
		if h, ok := constInt(get(x.High)); ok {
			hi = int(h)
		} else {
			okb = false
		}
	}
	if !okb {
		if n == 0 {
			// any non-trivial bound on an empty slice other than [0:0] is a hazard candidate;
			// left to PAN3's guard patterns
		}
		return top
	}
	if lo < 0 || hi > n || lo > hi {
		res.hazards = append(res.hazards, hazard{x, x, fmt.Sprintf("slice [%d:%d] of len %d", lo, hi, n)})
		return top
	}
	r := aval{k: kSlice, n: hi - lo}
	if a.elems != nil && hi <= len(a.elems) {
		r.elems = a.elems[lo:hi]
	}
	return r
}

func (an *analyzer) typeAssert(x *ssa.TypeAssert, a aval, res *result) aval {
	if a.k == kBot {
		return bot
	}
	decided, okv := false, false
	if a.k == kNil {
		decided, okv = true, false
	} else if a.dyn != nil {
		if _, isIface := x.AssertedType.Underlying().(*types.Interface); isIface {
			decided, okv = true, types.Implements(a.dyn, x.AssertedType.Underlying().(*types.Interface))
		} else {
			decided, okv = true, types.Identical(a.dyn, x.AssertedType)
		}
	}
	if !decided {
		if x.CommaOk {
			return aval{k: kTuple, tup: []aval{top, top}}
		}
		return top
	}
	var v aval = top
	if okv {
		v = a
		if _, isIface := x.AssertedType.Underlying().(*types.Interface); !isIface {
			v.dyn = nil
			if v.k == kNonNil && !isNilable(x.AssertedType) {
				v = top
			}
		}
	}
	if x.CommaOk {
		return aval{k: kTuple, tup: []aval{v, cBool(okv)}}
	}
	if !okv {
		res.hazards = append(res.hazards, hazard{x, x, "type assertion to " + typeShort(x.AssertedType) + " fails"})
		return bot
	}
	return v
}

func isNilable(t types.Type) bool {
	switch t.Underlying().(type) {
	case *types.Pointer, *types.Interface, *types.Slice, *types.Map, *types.Signature, *types.Chan:
		return true
	}
	return false
}

func convertConst(a aval, to types.Type) aval {
	b, ok := to.Underlying().(*types.Basic)
	if !ok {
		return top
	}
	switch {
	case b.Info()&types.IsInteger != 0:
		if a.c.Kind() == constant.Int {
			return aval{k: kConst, c: a.c}
		}
		if a.c.Kind() == constant.Float {
			if v := constant.ToInt(a.c); v.Kind() == constant.Int {
				return aval{k: kConst, c: v}
			}
		}
	case b.Info()&types.IsFloat != 0:
		if a.c.Kind() == constant.Int || a.c.Kind() == constant.Float {
			return aval{k: kConst, c: constant.ToFloat(a.c)}
		}
	case b.Info()&types.IsString != 0:
		if a.c.Kind() == constant.String {
			return aval{k: kConst, c: a.c}
		}
		if a.c.Kind() == constant.Int {
			// string(rune): out-of-range code points become U+FFFD
			v, exact := constant.Int64Val(a.c)
			if !exact || v < 0 || v > 0x10FFFF {
				v = 0xFFFD
			}
			return cStr(string(rune(v)))
		}
	case b.Info()&types.IsBoolean != 0:
		if a.c.Kind() == constant.Bool {
			return aval{k: kConst, c: a.c}
		}
	}
	return top
}

func tupleTop(sig *types.Signature) aval {
	if sig.Results().Len() == 0 {
		return top
	}
	if sig.Results().Len() == 1 {
		return top
	}
	r := aval{k: kTuple}
	for i := 0; i < sig.Results().Len(); i++ {
		r.tup = append(r.tup, top)
	}
	return r
}

func (an *analyzer) call(x *ssa.Call, get func(ssa.Value) aval, depth int, res *result) aval {
	if p, ok := an.pin[x]; ok {
		return p
	}
	c := x.Common()
	var args []aval
	for _, a := range c.Args {
		v := get(a)
		if v.k == kBot {
			return bot
		}
		args = append(args, v)
	}
	if b, ok := c.Value.(*ssa.Builtin); ok {
		return evalBuiltin(b.Name(), args)
	}
	if c.IsInvoke() {
		recv := get(c.Value)
		if recv.k == kBot {
			return bot
		}
		if recv.k == kNil {
			res.hazards = append(res.hazards, hazard{x, x, "method " + c.Method.Name() + " called on a nil " + typeShort(c.Value.Type())})
			return bot
		}
		res.calls = append(res.calls, callObs{site: x, name: "invoke " + typeShort(c.Value.Type()) + "." + c.Method.Name(), args: append([]aval{recv}, args...), depth: depth})
		if an.callModel != nil {
			if v, ok := an.callModel(c, append([]aval{recv}, args...)); ok {
				return v
			}
		}
		// error.Error() etc: unknown
		return tupleTop(c.Signature())
	}
	sc := c.StaticCallee()
	var free []aval
	if sc == nil {
		// call of a function value: resolve through the abstract value
		fv := get(c.Value)
		if fv.k == kBot {
			return bot
		}
		if fv.fn != nil {
			sc = fv.fn
		} else if len(fv.fns) > 0 {
			// one of a few known functions: the join of calling each
			out := bot
			for _, f := range fv.fns {
				out = join(out, an.callResolved(x, c, f, args, nil, depth, res))
			}
			return out
		} else {
			res.calls = append(res.calls, callObs{site: x, name: "dynamic", args: args, depth: depth})
			if an.dynModel != nil {
				if v, ok := an.dynModel(fv, args); ok {
					return v
				}
			}
			return tupleTop(c.Signature())
		}
	}
	if mc, ok := c.Value.(*ssa.MakeClosure); ok {
		for _, b := range mc.Bindings {
			fv := get(b)
			if al, ok := b.(*ssa.Alloc); ok && an.cellValue != nil && readOnlyCapture(mc, al, 0) {
				if cv, ok := an.cellValue(al); ok {
					fv = aval{k: kNonNil, ptrOf: &cv}
				}
			}
			free = append(free, fv)
		}
	}
	return an.callResolved(x, c, sc, args, free, depth, res)
}

// callResolved: the call of a known function (static callee or resolved function value).
func (an *analyzer) callResolved(x *ssa.Call, c *ssa.CallCommon, sc *ssa.Function, args []aval, free []aval, depth int, res *result) aval {
	res.calls = append(res.calls, callObs{site: x, callee: sc, name: short(sc), args: args, depth: depth})
	if an.fnModel != nil {
		if v, ok := an.fnModel(sc, args); ok {
			return v
		}
	}
	if an.callModel != nil {
		if v, ok := an.callModel(c, args); ok {
			return v
		}
	}
	if v, ok := an.funcArgModel(sc, args, depth, res, x); ok {
		return v
	}
	if v, ok := getterModel(sc, args); ok {
		return v
	}
	if v, ok := timeModel(sc, c, args); ok {
		return v
	}
	if v, ok := libModel(sc, c, args, x); ok {
		return v
	}
	recursive := false
	for _, s := range an.stack {
		if s == sc {
			recursive = true
		}
	}
	if (!recursive || an.allowRecursion) && !an.noInline[sc] && (inRepoFn(sc) || an.inlineAll) && depth < an.maxDepth && len(sc.Blocks) > 0 && len(sc.Blocks) <= an.maxBlocks {
		an.stack = append(an.stack, sc)
		r := an.run(sc, args, free, depth+1)
		an.stack = an.stack[:len(an.stack)-1]
		for _, h := range r.hazards {
			res.hazards = append(res.hazards, hazard{x, h.leaf, "in " + short(sc) + ": " + h.what})
		}
		for _, co := range r.calls {
			res.calls = append(res.calls, co)
		}
		for ins, n := range r.siteDecided {
			for k := 0; k < n; k++ {
				res.noteSite(ins, true)
			}
		}
		for ins, n := range r.siteUndecided {
			for k := 0; k < n; k++ {
				res.noteSite(ins, false)
			}
		}
		j := r.joinedReturn()
		if j.k == kBot {
			if len(r.rets) == 0 && !r.nonconverged {
				// callee never returns normally under this context (panics / loops)
				return bot
			}
			return tupleTop(c.Signature())
		}
		return j
	}
	return tupleTop(c.Signature())
}

func evalBuiltin(name string, args []aval) aval {
	switch name {
	case "len", "cap":
		if n, ok := lenOf(args[0]); ok && name == "len" {
			return cInt(int64(n))
		}
		return top
	case "append":
		if len(args) == 1 {
			return args[0]
		}
		n1, ok1 := lenOf(args[0])
		n2, ok2 := lenOf(args[1])
		if ok1 && ok2 {
			r := aval{k: kSlice, n: n1 + n2}
			if (args[0].elems != nil || n1 == 0) && (args[1].elems != nil || n2 == 0) {
				r.elems = append(append([]aval{}, args[0].elems...), args[1].elems...)
			}
			return r
		}
		return top
	case "min", "max":
		return top
	}
	return top
}

// libModel: summaries of a few pure library functions on abstract values.
func libModel(sc *ssa.Function, c *ssa.CallCommon, args []aval, site *ssa.Call) (aval, bool) {
	full := sc.RelString(nil)
	switch full {
	case "errors.New":
		return nonnil("new"), true
	case "fmt.Errorf":
		// provenance: "wrap:<sentinel>" per wrapped error operand, "new" if none
		var notes []string
		if len(args) > 1 {
			if args[1].k != kSlice && args[1].k != kNil {
				return nonnil("?"), true
			}
			verbs := errorfVerbs(args[0])
			for i, e := range args[1].elems {
				if e.k == kBot {
					return bot, true // varargs not yet propagated
				}
				if e.dyn != nil && !isErrorLike(e.dyn) {
					continue
				}
				if verbs != nil && (i >= len(verbs) || verbs[i] != 'w') {
					continue // formatted with %v/%s: the text is kept, the error is not wrapped
				}
				if e.k == kTop || (e.k == kNonNil && len(e.notes) == 0 && e.dyn == nil) {
					notes = append(notes, "?")
				}
				for _, n := range e.notes {
					notes = append(notes, "wrap:"+strings.TrimPrefix(n, "wrap:"))
				}
			}
			if args[1].k == kSlice && args[1].elems == nil && args[1].n > 0 {
				notes = append(notes, "?")
			}
		}
		if len(notes) == 0 {
			notes = []string{"new"}
		}
		return aval{k: kNonNil, notes: unionNotes(notes, nil)}, true
	case "errors.Is":
		// errors.Is(err, S): decidable when err's provenance is fully known
		if len(args) == 2 && len(args[1].notes) == 1 && args[1].k == kNonNil {
			s := args[1].notes[0]
			if args[0].k == kNil {
				return cBool(false), true
			}
			if args[0].k == kNonNil && len(args[0].notes) > 0 {
				all, none := true, true
				for _, n := range args[0].notes {
					switch {
					case n == "?":
						all, none = false, false
					case strings.TrimPrefix(n, "wrap:") == s:
						none = false
					default:
						all = false
					}
				}
				if all {
					return cBool(true), true
				}
				if none {
					return cBool(false), true
				}
			}
		}
		return top, true
	case "strings.HasSuffix", "strings.HasPrefix", "strings.Contains":
		if len(args) == 2 && args[0].k == kConst && args[1].k == kConst && args[0].c.Kind() == constant.String && args[1].c.Kind() == constant.String {
			a, b := constant.StringVal(args[0].c), constant.StringVal(args[1].c)
			switch full {
			case "strings.HasSuffix":
				return cBool(strings.HasSuffix(a, b)), true
			case "strings.HasPrefix":
				return cBool(strings.HasPrefix(a, b)), true
			default:
				return cBool(strings.Contains(a, b)), true
			}
		}
		return top, true
	case "strings.Index", "strings.LastIndex", "strings.Count":
		if len(args) == 2 && args[0].k == kConst && args[1].k == kConst && args[0].c.Kind() == constant.String && args[1].c.Kind() == constant.String {
			a, b := constant.StringVal(args[0].c), constant.StringVal(args[1].c)
			switch full {
			case "strings.Index":
				return cInt(int64(strings.Index(a, b))), true
			case "strings.LastIndex":
				return cInt(int64(strings.LastIndex(a, b))), true
			default:
				return cInt(int64(strings.Count(a, b))), true
			}
		}
		return top, true
	case "unicode/utf8.RuneCountInString":
		if len(args) == 1 && args[0].k == kConst && args[0].c.Kind() == constant.String {
			return cInt(int64(utf8.RuneCountInString(constant.StringVal(args[0].c)))), true
		}
		return top, true
	case "strings.ReplaceAll":
		if len(args) == 3 && args[0].k == kConst && args[1].k == kConst && args[2].k == kConst {
			return cStr(strings.ReplaceAll(constant.StringVal(args[0].c), constant.StringVal(args[1].c), constant.StringVal(args[2].c))), true
		}
		return top, true
	case "strings.Replace":
		if len(args) == 4 && args[0].k == kConst && args[1].k == kConst && args[2].k == kConst {
			if n, ok := constInt(args[3]); ok {
				return cStr(strings.Replace(constant.StringVal(args[0].c), constant.StringVal(args[1].c), constant.StringVal(args[2].c), int(n))), true
			}
		}
		return top, true
	case "strings.TrimPrefix", "strings.TrimSuffix":
		if len(args) == 2 && args[0].k == kConst && args[1].k == kConst && args[0].c.Kind() == constant.String && args[1].c.Kind() == constant.String {
			a, b := constant.StringVal(args[0].c), constant.StringVal(args[1].c)
			if full == "strings.TrimPrefix" {
				return cStr(strings.TrimPrefix(a, b)), true
			}
			return cStr(strings.TrimSuffix(a, b)), true
		}
		return top, true
	case "(*regexp.Regexp).ReplaceAllString":
		if len(args) == 3 && args[1].k == kConst && args[2].k == kConst && args[1].c.Kind() == constant.String && args[2].c.Kind() == constant.String {
			for _, n := range args[0].notes {
				if strings.HasPrefix(n, "regexp:") {
					if re, err := regexp.Compile(strings.TrimPrefix(n, "regexp:")); err == nil {
						return cStr(re.ReplaceAllString(constant.StringVal(args[1].c), constant.StringVal(args[2].c))), true
					}
				}
			}
		}
		return aval{}, false
	case "(*regexp.Regexp).MatchString", "(*regexp.Regexp).FindStringSubmatchIndex", "(*regexp.Regexp).FindStringSubmatch", "(*regexp.Regexp).FindString":
		pat := ""
		if len(args) == 2 {
			for _, n := range args[0].notes {
				if strings.HasPrefix(n, "regexp:") {
					pat = strings.TrimPrefix(n, "regexp:")
				}
			}
		}
		if pat != "" && args[1].k == kConst && args[1].c.Kind() == constant.String {
			if re, err := regexp.Compile(pat); err == nil {
				in := constant.StringVal(args[1].c)
				switch sc.Name() {
				case "MatchString":
					return cBool(re.MatchString(in)), true
				case "FindString":
					return cStr(re.FindString(in)), true
				case "FindStringSubmatchIndex":
					idx := re.FindStringSubmatchIndex(in)
					if idx == nil {
						return aval{k: kNil}, true
					}
					r := aval{k: kSlice, n: len(idx), elems: []aval{}}
					for _, v := range idx {
						r.elems = append(r.elems, cInt(int64(v)))
					}
					return r, true
				case "FindStringSubmatch":
					ms := re.FindStringSubmatch(in)
					if ms == nil {
						return aval{k: kNil}, true
					}
					r := aval{k: kSlice, n: len(ms), elems: []aval{}}
					for _, v := range ms {
						r.elems = append(r.elems, cStr(v))
					}
					return r, true
				}
			}
		}
		return aval{}, false
	case "net/url.Parse":
		if len(args) == 1 && args[0].k == kConst && args[0].c.Kind() == constant.String {
			u, err := url.Parse(constant.StringVal(args[0].c))
			if err != nil {
				return aval{k: kTuple, tup: []aval{{k: kNil}, nonnil("url")}}, true
			}
			pt, ok := sc.Signature.Results().At(0).Type().(*types.Pointer)
			if !ok {
				return aval{}, false
			}
			st, ok := pt.Elem().Underlying().(*types.Struct)
			if !ok {
				return aval{}, false
			}
			strs := map[string]string{"Scheme": u.Scheme, "Opaque": u.Opaque, "Host": u.Host, "Path": u.Path, "RawPath": u.RawPath, "RawQuery": u.RawQuery, "Fragment": u.Fragment, "RawFragment": u.RawFragment}
			bools := map[string]bool{"OmitHost": u.OmitHost, "ForceQuery": u.ForceQuery}
			pointee := aval{k: kStruct}
			for i := 0; i < st.NumFields(); i++ {
				n := st.Field(i).Name()
				if v, ok := strs[n]; ok {
					pointee.elems = append(pointee.elems, cStr(v))
				} else if v, ok := bools[n]; ok {
					pointee.elems = append(pointee.elems, cBool(v))
				} else if n == "User" && u.User == nil {
					pointee.elems = append(pointee.elems, aval{k: kNil})
				} else {
					pointee.elems = append(pointee.elems, top)
				}
			}
			return aval{k: kTuple, tup: []aval{{k: kNonNil, ptrOf: &pointee}, {k: kNil}}}, true
		}
		return aval{}, false
	case "strings.Split":
		if len(args) == 2 && args[0].k == kConst && args[1].k == kConst && args[0].c.Kind() == constant.String && args[1].c.Kind() == constant.String {
			parts := strings.Split(constant.StringVal(args[0].c), constant.StringVal(args[1].c))
			r := aval{k: kSlice, n: len(parts), elems: []aval{}}
			for _, v := range parts {
				r.elems = append(r.elems, cStr(v))
			}
			return r, true
		}
		return top, true
	case "strings.TrimRight", "strings.TrimLeft", "strings.Trim":
		if len(args) == 2 && args[0].k == kConst && args[1].k == kConst && args[0].c.Kind() == constant.String && args[1].c.Kind() == constant.String {
			a, b := constant.StringVal(args[0].c), constant.StringVal(args[1].c)
			switch full {
			case "strings.TrimRight":
				return cStr(strings.TrimRight(a, b)), true
			case "strings.TrimLeft":
				return cStr(strings.TrimLeft(a, b)), true
			}
			return cStr(strings.Trim(a, b)), true
		}
		return top, true
	case "strings.Cut":
		if len(args) == 2 && args[0].k == kConst && args[1].k == kConst && args[0].c.Kind() == constant.String && args[1].c.Kind() == constant.String {
			a, b, ok := strings.Cut(constant.StringVal(args[0].c), constant.StringVal(args[1].c))
			return aval{k: kTuple, tup: []aval{cStr(a), cStr(b), cBool(ok)}}, true
		}
		return aval{k: kTuple, tup: []aval{top, top, top}}, true
	case "fmt.Sprint":
		if len(args) == 1 && args[0].k == kSlice && len(args[0].elems) == 1 && args[0].elems[0].k == kConst && args[0].elems[0].c.Kind() == constant.String {
			// a single string operand (also of a named string type without a String method of its own)
			if d := args[0].elems[0].dyn; d == nil || !hasStringMethod(d) {
				return cStr(constant.StringVal(args[0].elems[0].c)), true
			}
		}
		return top, true
	case "strings.CutSuffix", "strings.CutPrefix":
		if len(args) == 2 && args[0].k == kConst && args[1].k == kConst && args[0].c.Kind() == constant.String && args[1].c.Kind() == constant.String {
			a, b := constant.StringVal(args[0].c), constant.StringVal(args[1].c)
			var r string
			var ok bool
			if full == "strings.CutSuffix" {
				r, ok = strings.CutSuffix(a, b)
			} else {
				r, ok = strings.CutPrefix(a, b)
			}
			return aval{k: kTuple, tup: []aval{cStr(r), cBool(ok)}}, true
		}
		return aval{k: kTuple, tup: []aval{top, top}}, true
	case "fmt.Sprintf":
		if len(args) == 2 && args[0].k == kConst && args[0].c.Kind() == constant.String && (args[1].k == kNil || (args[1].k == kSlice && (args[1].elems != nil || args[1].n == 0))) {
			var goArgs []any
			for _, e := range args[1].elems {
				if e.k == kBot {
					return bot, true
				}
				if e.k != kConst {
					return top, true
				}
				switch e.c.Kind() {
				case constant.Int:
					v, exact := constant.Int64Val(e.c)
					if !exact {
						return top, true
					}
					goArgs = append(goArgs, v)
				case constant.String:
					goArgs = append(goArgs, constant.StringVal(e.c))
				case constant.Bool:
					goArgs = append(goArgs, constant.BoolVal(e.c))
				default:
					return top, true
				}
			}
			return cStr(fmt.Sprintf(constant.StringVal(args[0].c), goArgs...)), true
		}
		return top, true
	case "strconv.ParseUint", "strconv.ParseInt":
		if len(args) == 3 && args[0].k == kConst && args[0].c.Kind() == constant.String {
			base, ok1 := constInt(args[1])
			bits, ok2 := constInt(args[2])
			if ok1 && ok2 {
				if full == "strconv.ParseUint" {
					v, err := strconv.ParseUint(constant.StringVal(args[0].c), int(base), int(bits))
					if err != nil {
						return aval{k: kTuple, tup: []aval{{k: kConst, c: constant.MakeUint64(v)}, nonnil("strconv")}}, true
					}
					return aval{k: kTuple, tup: []aval{{k: kConst, c: constant.MakeUint64(v)}, {k: kNil}}}, true
				}
				v, err := strconv.ParseInt(constant.StringVal(args[0].c), int(base), int(bits))
				if err != nil {
					return aval{k: kTuple, tup: []aval{cInt(v), nonnil("strconv")}}, true
				}
				return aval{k: kTuple, tup: []aval{cInt(v), {k: kNil}}}, true
			}
		}
		return aval{k: kTuple, tup: []aval{top, top}}, true
	case "strings.ToLower", "strings.ToUpper":
		if len(args) == 1 && args[0].k == kConst && args[0].c.Kind() == constant.String {
			if full == "strings.ToLower" {
				return cStr(strings.ToLower(constant.StringVal(args[0].c))), true
			}
			return cStr(strings.ToUpper(constant.StringVal(args[0].c))), true
		}
		return top, true
	}
	return aval{}, false
}

func evalBin(op token.Token, a, b aval) aval {
	if a.k == kBot || b.k == kBot {
		return bot
	}
	isNilCmp := func(x, y aval) (aval, bool) {
		if y.k == kNil {
			switch x.k {
			case kNil:
				return cBool(op == token.EQL), true
			case kNonNil:
				return cBool(op == token.NEQ), true
			case kConst:
				if x.dyn != nil {
					return cBool(op == token.NEQ), true
				}
			case kSlice:
				if x.n > 0 {
					return cBool(op == token.NEQ), true
				}
			}
		}
		return aval{}, false
	}
	if op == token.EQL || op == token.NEQ {
		if r, ok := isNilCmp(a, b); ok {
			return r
		}
		if r, ok := isNilCmp(b, a); ok {
			return r
		}
	}
	// a length-abstract string against a constant string: decided by the lengths
	if op == token.EQL || op == token.NEQ {
		strLen := func(x, y aval) (aval, bool) {
			if x.k == kSlice && x.elems == nil && y.k == kConst && y.c.Kind() == constant.String {
				ly := len(constant.StringVal(y.c))
				if x.n != ly {
					return cBool(op == token.NEQ), true
				}
				if x.n == 0 {
					return cBool(op == token.EQL), true
				}
			}
			return aval{}, false
		}
		if r, ok := strLen(a, b); ok {
			return r
		}
		if r, ok := strLen(b, a); ok {
			return r
		}
	}
	if (op == token.EQL || op == token.NEQ) && a.k == kStruct && b.k == kStruct && len(a.elems) == len(b.elems) {
		allEq, decided := true, true
		for i := range a.elems {
			r := evalBin(token.EQL, a.elems[i], b.elems[i])
			if r.k != kConst {
				decided = false
				continue
			}
			if !constant.BoolVal(r.c) {
				// one differing field decides inequality
				return cBool(op == token.NEQ)
			}
			_ = allEq
		}
		if decided {
			return cBool(op == token.EQL)
		}
		return top
	}
	if a.k == kConst && b.k == kConst {
		ka, kb := a.c.Kind(), b.c.Kind()
		num := func(k constant.Kind) bool { return k == constant.Int || k == constant.Float }
		switch op {
		case token.EQL, token.NEQ, token.LSS, token.LEQ, token.GTR, token.GEQ:
			if ka == kb || (num(ka) && num(kb)) {
				if ka == constant.Bool && op != token.EQL && op != token.NEQ {
					return top
				}
				return cBool(constant.Compare(a.c, op, b.c))
			}
		case token.ADD, token.SUB, token.MUL:
			if ka == constant.Int && kb == constant.Int {
				return aval{k: kConst, c: constant.BinaryOp(a.c, op, b.c)}
			}
			if ka == constant.String && kb == constant.String && op == token.ADD {
				return aval{k: kConst, c: constant.BinaryOp(a.c, op, b.c)}
			}
		case token.LAND, token.LOR:
			if ka == constant.Bool && kb == constant.Bool {
				return aval{k: kConst, c: constant.BinaryOp(a.c, op, b.c)}
			}
		}
	}
	return top
}

// isErrorLike: could a value of this dynamic type be an error?
func isErrorLike(t types.Type) bool {
	errT := types.Universe.Lookup("error").Type().Underlying().(*types.Interface)
	return types.Implements(t, errT) || types.Implements(types.NewPointer(t), errT)
}

// decidedEntry reports whether every executable way into block b is an edge
// of an If whose condition was folded to a constant (following unconditional
// jumps backwards): the block is entered because of the hypothesis alone.
func (r *result) decidedEntry(b *ssa.BasicBlock, depth int) bool {
	if depth > 6 {
		return false
	}
	n := 0
	for _, p := range b.Preds {
		if !r.execEdge[[2]int{p.Index, b.Index}] {
			continue
		}
		n++
		last := p.Instrs[len(p.Instrs)-1]
		switch x := last.(type) {
		case *ssa.If:
			c, ok := r.env[x.Cond]
			if cc, isC := x.Cond.(*ssa.Const); isC {
				c, ok = aval{k: kConst, c: cc.Value}, true
			}
			if !ok || c.k != kConst {
				return false
			}
		case *ssa.Jump:
			if !r.decidedEntry(p, depth+1) {
				return false
			}
		default:
			return false
		}
	}
	return n > 0
}

// intBits: width and signedness of a basic integer type (int/uint/uintptr are
// taken as 64-bit; the 386 pass only changes untyped-constant folding done by
// the compiler, not these run-time widths for the fixed-width types we care about).
// wordBits is the size of int/uint/uintptr of the architecture the program was
// loaded for (set by Load).
var wordBits = 64

func intBits(t types.Type) (bits int, signed bool, ok bool) {
	b, isB := t.Underlying().(*types.Basic)
	if !isB || b.Info()&types.IsInteger == 0 {
		return 0, false, false
	}
	switch b.Kind() {
	case types.Int8:
		return 8, true, true
	case types.Int16:
		return 16, true, true
	case types.Int32:
		return 32, true, true
	case types.Int64:
		return 64, true, true
	case types.Int:
		return wordBits, true, true
	case types.Uint8:
		return 8, false, true
	case types.Uint16:
		return 16, false, true
	case types.Uint32:
		return 32, false, true
	case types.Uint64:
		return 64, false, true
	case types.Uint, types.Uintptr:
		return wordBits, false, true
	}
	return 0, false, false
}

// wrapInt reduces an integer constant to the two's-complement range of t.
func wrapInt(c constant.Value, t types.Type) constant.Value {
	bits, signed, ok := intBits(t)
	if !ok || c.Kind() != constant.Int {
		return c
	}
	bi, ok := constant.Val(c).(*big.Int)
	if !ok {
		if i, isI := constant.Val(c).(int64); isI {
			bi = big.NewInt(i)
		} else {
			return c
		}
	}
	mod := new(big.Int).Lsh(big.NewInt(1), uint(bits))
	r := new(big.Int).Mod(bi, mod) // [0, 2^bits)
	if signed {
		half := new(big.Int).Lsh(big.NewInt(1), uint(bits-1))
		if r.Cmp(half) >= 0 {
			r.Sub(r, mod)
		}
	}
	return constant.Make(r)
}

// evalBinTyped: evalBin plus Go's fixed-width integer semantics (wrap-around
// on + - *, truncated division, division by a constant zero is a hazard).
func evalBinTyped(x *ssa.BinOp, a, b aval, res *result) aval {
	if a.k == kConst && b.k == kConst && a.c.Kind() == constant.Int && b.c.Kind() == constant.Int {
		if _, _, isInt := intBits(x.X.Type()); isInt {
			switch x.Op {
			case token.QUO, token.REM:
				if constant.Sign(b.c) == 0 {
					res.hazards = append(res.hazards, hazard{x, x, "integer division by zero"})
					return bot
				}
				op := token.QUO_ASSIGN // integer division
				if x.Op == token.REM {
					op = token.REM
				}
				return aval{k: kConst, c: wrapInt(constant.BinaryOp(a.c, op, b.c), x.Type())}
			case token.ADD, token.SUB, token.MUL:
				return aval{k: kConst, c: wrapInt(constant.BinaryOp(a.c, x.Op, b.c), x.Type())}
			case token.AND, token.OR, token.XOR, token.AND_NOT:
				return aval{k: kConst, c: wrapInt(constant.BinaryOp(a.c, x.Op, b.c), x.Type())}
			case token.SHL, token.SHR:
				if s, ok := constant.Uint64Val(b.c); ok && s < 64 {
					return aval{k: kConst, c: wrapInt(constant.Shift(a.c, x.Op, uint(s)), x.Type())}
				}
				return top
			}
		}
	}
	return evalBin(x.Op, a, b)
}

func isStringType(t types.Type) bool {
	b, ok := t.Underlying().(*types.Basic)
	return ok && b.Info()&types.IsString != 0
}

// isRuneOrByteSlice: 'r' for []rune, 'b' for []byte, 0 otherwise.
func isRuneOrByteSlice(t types.Type) byte {
	sl, ok := t.Underlying().(*types.Slice)
	if !ok {
		return 0
	}
	b, ok := sl.Elem().Underlying().(*types.Basic)
	if !ok {
		return 0
	}
	switch b.Kind() {
	case types.Int32:
		return 'r'
	case types.Uint8:
		return 'b'
	}
	return 0
}

// funcArgModel: library functions that take a function argument, evaluated by
// analysing the argument function on each constant it would be applied to.
func (an *analyzer) funcArgModel(sc *ssa.Function, args []aval, depth int, res *result, site *ssa.Call) (aval, bool) {
	switch sc.RelString(nil) {
	case "(*regexp.Regexp).ReplaceAllStringFunc":
		if len(args) != 3 {
			return aval{}, false
		}
		for _, a := range args {
			if a.k == kBot {
				return bot, true
			}
		}
		pat := ""
		for _, n := range args[0].notes {
			if strings.HasPrefix(n, "regexp:") {
				pat = strings.TrimPrefix(n, "regexp:")
			}
		}
		if pat == "" || args[1].k != kConst || args[1].c.Kind() != constant.String || args[2].fn == nil || len(args[2].fn.FreeVars) > 0 || depth >= an.maxDepth+2 {
			return top, true
		}
		re, err := regexp.Compile(pat)
		if err != nil {
			return top, true
		}
		failed := false
		out := re.ReplaceAllStringFunc(constant.StringVal(args[1].c), func(m string) string {
			r := an.run(args[2].fn, []aval{cStr(m)}, nil, depth+1)
			for _, h := range r.hazards {
				res.hazards = append(res.hazards, hazard{site, h.leaf, "in " + short(args[2].fn) + ": " + h.what})
			}
			j := r.joinedReturn()
			if j.k == kConst && j.c.Kind() == constant.String {
				return constant.StringVal(j.c)
			}
			failed = true
			return ""
		})
		if failed {
			return top, true
		}
		return cStr(out), true
	}
	return aval{}, false
}

// errorfVerbs: the verb letter consuming each operand of a constant format
// string; nil when the format is not constant or uses explicit argument indexes.
func errorfVerbs(f aval) []byte {
	if f.k != kConst || f.c.Kind() != constant.String {
		return nil
	}
	s := constant.StringVal(f.c)
	out := []byte{}
	for i := 0; i < len(s); i++ {
		if s[i] != '%' {
			continue
		}
		i++
		for i < len(s) && strings.IndexByte("+-# 0123456789.", s[i]) >= 0 {
			i++
		}
		if i >= len(s) {
			break
		}
		switch s[i] {
		case '%':
			continue
		case '[', '*':
			return nil
		}
		out = append(out, s[i])
	}
	return out
}

// zeroOf: the abstract zero value of a type.
func zeroOf(t types.Type) aval {
	switch u := t.Underlying().(type) {
	case *types.Basic:
		switch {
		case u.Info()&types.IsString != 0:
			return cStr("")
		case u.Info()&types.IsBoolean != 0:
			return cBool(false)
		case u.Info()&types.IsInteger != 0:
			return cInt(0)
		}
		return top
	case *types.Pointer, *types.Interface, *types.Slice, *types.Map, *types.Signature, *types.Chan:
		return aval{k: kNil}
	case *types.Struct:
		r := aval{k: kStruct}
		for i := 0; i < u.NumFields(); i++ {
			r.elems = append(r.elems, zeroOf(u.Field(i).Type()))
		}
		return r
	}
	return top
}

// onlyFreshEscapes: the allocation is referenced only by field addressing with
// loads/stores, loads, stores into it, returns, and stores of its address into
// a field of another allocation of the same kind.
func onlyFreshEscapes(al *ssa.Alloc, depth int) bool {
	return freshEscapes(al, depth, false)
}

// freshEscapes: with asBuilt, conversions of the pointer to an interface are
// accepted too — the snapshot then describes the object as this function built
// it (the join of all its own stores), not what later holders may do to it.
func freshEscapes(al *ssa.Alloc, depth int, asBuilt bool) bool {
	if depth > 3 || al.Referrers() == nil {
		return false
	}
	for _, ref := range *al.Referrers() {
		switch x := ref.(type) {
		case *ssa.MakeInterface:
			if !asBuilt {
				return false
			}
		case *ssa.FieldAddr:
			for _, r2 := range *x.Referrers() {
				switch y := r2.(type) {
				case *ssa.Store:
					if y.Addr != ssa.Value(x) {
						return false
					}
				case *ssa.UnOp, *ssa.DebugRef:
				default:
					return false
				}
			}
		case *ssa.Store:
			if x.Addr == ssa.Value(al) {
				continue
			}
			fa, ok := x.Addr.(*ssa.FieldAddr)
			if !ok {
				return false
			}
			outer, ok := fa.X.(*ssa.Alloc)
			if !ok || !freshEscapes(outer, depth+1, asBuilt) {
				return false
			}
		case *ssa.UnOp, *ssa.DebugRef, *ssa.Return:
		case *ssa.MakeClosure:
			if !readOnlyCapture(x, al, 0) {
				return false
			}
		default:
			return false
		}
	}
	return true
}

// snapshotOf: the pointee of a fresh allocation at a return, as a value.
func snapshotOf(al *ssa.Alloc, mem map[*ssa.Alloc][]aval, exec map[int]bool, depth int) aval {
	return snapshotOfAs(al, mem, exec, depth, false)
}

func snapshotOfAs(al *ssa.Alloc, mem map[*ssa.Alloc][]aval, exec map[int]bool, depth int, asBuilt bool) aval {
	if depth > 3 || !freshEscapes(al, 0, asBuilt) {
		return aval{k: kNonNil}
	}
	elemT := al.Type().(*types.Pointer).Elem()
	// fields with an executable store whose value is not yet known
	stored := map[int]bool{}
	for _, ref := range *al.Referrers() {
		switch x := ref.(type) {
		case *ssa.FieldAddr:
			for _, r2 := range *x.Referrers() {
				if st, ok := r2.(*ssa.Store); ok && exec[st.Block().Index] {
					stored[x.Field] = true
				}
			}
		case *ssa.Store:
			if x.Addr == ssa.Value(al) && exec[x.Block().Index] {
				stored[-1] = true
			}
		}
	}
	fix := func(v aval) aval {
		if v.k == kNonNil && v.alloc != nil && v.n == 0 && v.ptrOf == nil {
			return snapshotOfAs(v.alloc, mem, exec, depth+1, asBuilt)
		}
		return v
	}
	m := mem[al]
	var pointee aval
	if st, ok := elemT.Underlying().(*types.Struct); ok {
		pointee = aval{k: kStruct, elems: make([]aval, st.NumFields())}
		for i := 0; i < st.NumFields(); i++ {
			switch {
			case m != nil && i < len(m) && m[i].k != kBot:
				pointee.elems[i] = fix(m[i])
				if pointee.elems[i].k == kBot {
					return bot
				}
			case stored[i] || stored[-1]:
				return bot // the store has not been evaluated yet
			default:
				pointee.elems[i] = zeroOf(st.Field(i).Type())
			}
		}
	} else {
		switch {
		case m != nil && len(m) == 1 && m[0].k != kBot:
			pointee = fix(m[0])
			if pointee.k == kBot {
				return bot
			}
		case stored[-1]:
			return bot
		default:
			pointee = zeroOf(elemT)
		}
	}
	return aval{k: kNonNil, ptrOf: &pointee}
}

// getterModel: generated protobuf getters GetX on a nil receiver or on a
// snapshot pointer return the zero value / the field X.
func getterModel(sc *ssa.Function, args []aval) (aval, bool) {
	if !strings.HasPrefix(sc.Name(), "Get") || len(args) != 1 || sc.Signature.Recv() == nil || sc.Signature.Results().Len() != 1 {
		return aval{}, false
	}
	if pk := fnPkgPath(sc); !strings.HasPrefix(pk, fhirProtoPrefix) {
		return aval{}, false
	}
	pt, ok := sc.Signature.Recv().Type().(*types.Pointer)
	if !ok {
		return aval{}, false
	}
	st, ok := pt.Elem().Underlying().(*types.Struct)
	if !ok {
		return aval{}, false
	}
	if args[0].k == kNil {
		return zeroOf(sc.Signature.Results().At(0).Type()), true
	}
	if args[0].k != kNonNil || args[0].ptrOf == nil || args[0].ptrOf.k != kStruct {
		return aval{}, false
	}
	want := strings.TrimPrefix(sc.Name(), "Get")
	for i := 0; i < st.NumFields(); i++ {
		if st.Field(i).Name() == want && i < len(args[0].ptrOf.elems) && types.Identical(st.Field(i).Type(), sc.Signature.Results().At(0).Type()) {
			e := args[0].ptrOf.elems[i]
			if e.k == kBot {
				return top, true
			}
			return e, true
		}
	}
	return aval{}, false
}

func hasStringMethod(t types.Type) bool {
	ms := types.NewMethodSet(t)
	for i := 0; i < ms.Len(); i++ {
		if n := ms.At(i).Obj().Name(); n == "String" || n == "Error" || n == "Format" || n == "GoString" {
			return true
		}
	}
	return false
}
