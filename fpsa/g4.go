package main

// EN-G4: a small reader for internal/grammar/fhirpath.g4 (labelled
// alternatives, literal tokens, lexer rules and fragments).

import (
	"fmt"
	"os"
	"path/filepath"
	"strings"
	"unicode"
)

type g4Alt struct {
	Label    string
	Elems    []string // flat token sequence of the alternative (literals quoted as 'x')
	Literals []string // literal tokens in order of appearance
	Refs     []string // referenced rule / token names
	// OpGroup: for `expression ( 'a' | 'b' ) expression` the literals of the
	// parenthesised group or the single operator literal
	OpTokens []string
}

type g4Rule struct {
	Name     string
	Fragment bool
	Lexer    bool
	Alts     []g4Alt
	Body     string
	Hidden   bool // -> channel(HIDDEN)
}

type g4Grammar struct {
	Rules    map[string]*g4Rule
	Order    []string
	Literals []string // all literal tokens of parser rules in order of first appearance
}

func g4Tokens(src string) []string {
	var toks []string
	i := 0
	for i < len(src) {
		c := src[i]
		switch {
		case unicode.IsSpace(rune(c)):
			i++
		case strings.HasPrefix(src[i:], "//"):
			j := strings.IndexByte(src[i:], '\n')
			if j < 0 {
				i = len(src)
			} else {
				i += j
			}
		case strings.HasPrefix(src[i:], "/*"):
			j := strings.Index(src[i+2:], "*/")
			if j < 0 {
				i = len(src)
			} else {
				i += j + 4
			}
		case c == '\'':
			j := i + 1
			for j < len(src) && src[j] != '\'' {
				if src[j] == '\\' {
					j++
				}
				j++
			}
			toks = append(toks, src[i:j+1])
			i = j + 1
		case c == '[':
			j := i + 1
			for j < len(src) && src[j] != ']' {
				if src[j] == '\\' {
					j++
				}
				j++
			}
			toks = append(toks, src[i:j+1])
			i = j + 1
		case unicode.IsLetter(rune(c)) || c == '_' || c == '$':
			j := i
			for j < len(src) && (unicode.IsLetter(rune(src[j])) || unicode.IsDigit(rune(src[j])) || src[j] == '_') {
				j++
			}
			toks = append(toks, src[i:j])
			i = j
		case strings.HasPrefix(src[i:], "->"):
			toks = append(toks, "->")
			i += 2
		case strings.HasPrefix(src[i:], "*?"):
			toks = append(toks, "*?")
			i += 2
		default:
			toks = append(toks, string(c))
			i++
		}
	}
	return toks
}

func g4Unquote(lit string) string {
	s := strings.TrimSuffix(strings.TrimPrefix(lit, "'"), "'")
	s = strings.ReplaceAll(s, `\'`, `'`)
	s = strings.ReplaceAll(s, `\\`, `\`)
	return s
}

func readG4(p *Program) (*g4Grammar, error) {
	path := filepath.Join(p.RepoDir, "fhirpath/internal/grammar/fhirpath.g4")
	b, err := os.ReadFile(path)
	if err != nil {
		return nil, fmt.Errorf("anchor: %v", err)
	}
	toks := g4Tokens(string(b))
	g := &g4Grammar{Rules: map[string]*g4Rule{}}
	i := 0
	if i+2 < len(toks) && toks[i] == "grammar" {
		i += 3 // grammar NAME ;
	}
	seenLit := map[string]bool{}
	for i < len(toks) {
		r := &g4Rule{}
		if toks[i] == "fragment" {
			r.Fragment = true
			i++
		}
		if i >= len(toks) {
			break
		}
		r.Name = toks[i]
		r.Lexer = unicode.IsUpper(rune(r.Name[0]))
		i++
		if i >= len(toks) || toks[i] != ":" {
			return nil, fmt.Errorf("g4: expected ':' after rule %s", r.Name)
		}
		i++
		depth := 0
		cur := g4Alt{}
		flush := func() {
			// operator tokens: literals between two `expression` references, or
			// the leading literals before a single `expression`
			for _, e := range cur.Elems {
				if strings.HasPrefix(e, "'") {
					cur.Literals = append(cur.Literals, g4Unquote(e))
				} else if e != "(" && e != ")" && e != "|" && e != "?" && e != "*" && e != "+" && e != "*?" && !strings.HasPrefix(e, "[") && e != "." && e != "~" {
					cur.Refs = append(cur.Refs, e)
				}
			}
			// find literals that are adjacent (within a group) to an `expression` ref
			first := -1
			for k, e := range cur.Elems {
				if e == "expression" {
					first = k
					break
				}
			}
			if first >= 0 {
				if first == 0 {
					// expression OP ...: take literals until next non-literal/non-group token
					for k := 1; k < len(cur.Elems); k++ {
						e := cur.Elems[k]
						if strings.HasPrefix(e, "'") {
							cur.OpTokens = append(cur.OpTokens, g4Unquote(e))
						} else if e == "(" || e == ")" || e == "|" {
							continue
						} else {
							break
						}
					}
				} else {
					for k := 0; k < first; k++ {
						if strings.HasPrefix(cur.Elems[k], "'") {
							cur.OpTokens = append(cur.OpTokens, g4Unquote(cur.Elems[k]))
						}
					}
				}
			}
			r.Alts = append(r.Alts, cur)
			cur = g4Alt{}
		}
		var body []string
		for i < len(toks) && !(toks[i] == ";" && depth == 0) {
			t := toks[i]
			body = append(body, t)
			switch {
			case t == "(":
				depth++
				cur.Elems = append(cur.Elems, t)
			case t == ")":
				depth--
				cur.Elems = append(cur.Elems, t)
			case t == "|" && depth == 0:
				flush()
			case t == "#" && depth == 0:
				i++
				cur.Label = toks[i]
				body = append(body, toks[i])
			case t == "->":
				// lexer command: -> channel ( HIDDEN )
				for i < len(toks) && toks[i] != ";" {
					if toks[i] == "HIDDEN" {
						r.Hidden = true
					}
					i++
				}
				i--
			default:
				cur.Elems = append(cur.Elems, t)
			}
			i++
		}
		flush()
		i++ // ;
		r.Body = strings.Join(body, " ")
		g.Rules[r.Name] = r
		g.Order = append(g.Order, r.Name)
		if !r.Lexer {
			for _, a := range r.Alts {
				for _, l := range a.Literals {
					if !seenLit[l] {
						seenLit[l] = true
						g.Literals = append(g.Literals, l)
					}
				}
			}
		}
	}
	if g.Rules["expression"] == nil || g.Rules["prog"] == nil {
		return nil, fmt.Errorf("g4: rules prog/expression not found")
	}
	return g, nil
}

// altByLabel finds a labelled alternative of a rule.
func (g *g4Grammar) altByLabel(rule, label string) *g4Alt {
	r := g.Rules[rule]
	if r == nil {
		return nil
	}
	for i := range r.Alts {
		if strings.EqualFold(r.Alts[i].Label, label) {
			return &r.Alts[i]
		}
	}
	return nil
}

// childKinds: the children of a parse-tree node built for this alternative, in
// order: "terminal" (a literal, a group of alternative literals, a lexer rule)
// or "rule" (a parser rule). ok is false when the alternative has optional or
// repeated parts (the child positions then vary).
func (a *g4Alt) childKinds() (kinds []string, ok bool) {
	for i := 0; i < len(a.Elems); i++ {
		e := a.Elems[i]
		switch {
		case e == "(":
			depth, j := 1, i+1
			onlyLits := true
			for ; j < len(a.Elems) && depth > 0; j++ {
				switch t := a.Elems[j]; {
				case t == "(":
					depth++
					onlyLits = false
				case t == ")":
					depth--
				case t == "|":
				case strings.HasPrefix(t, "'"):
				default:
					onlyLits = false
				}
			}
			if depth != 0 || !onlyLits {
				return nil, false
			}
			kinds = append(kinds, "terminal")
			i = j - 1
		case e == "?" || e == "*" || e == "+" || e == "*?" || e == "|" || e == ")":
			return nil, false
		case strings.HasPrefix(e, "'"):
			kinds = append(kinds, "terminal")
		case e == "EOF" || unicode.IsUpper(rune(e[0])):
			kinds = append(kinds, "terminal")
		default:
			kinds = append(kinds, "rule")
		}
	}
	return kinds, true
}

// altForContext finds the alternative a generated context type (XContext) is built for.
func (g *g4Grammar) altForContext(ctxTypeName string) *g4Alt {
	label := strings.TrimSuffix(ctxTypeName, "Context")
	for _, rn := range g.Order {
		r := g.Rules[rn]
		for i := range r.Alts {
			if r.Alts[i].Label != "" && strings.EqualFold(r.Alts[i].Label, label) {
				return &r.Alts[i]
			}
		}
		if len(r.Alts) == 1 && r.Alts[0].Label == "" && strings.EqualFold(rn, label) {
			return &r.Alts[0]
		}
	}
	return nil
}
