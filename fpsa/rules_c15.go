package main

// C15 — literals and value representations.  LIT1 string-literal escapes
// (ParseString evaluated on a token pool), LIT-TZ UTC-offset rendering
// (extractTimezone evaluated on every quarter-hour offset), LIT2 agreement of
// parse and format tables, LIT3 proto <-> System precision mapping, LIT4
// integer narrowing (every instantiation on the boundary pool), LIT5 no
// float64 detour in Decimal conversions.

import (
	"time"
	"fmt"
	"go/ast"
	"go/constant"
	"go/token"
	"go/types"
	"math/big"
	"os"
	"sort"
	"strconv"
	"strings"
	"unicode/utf8"

	"golang.org/x/tools/go/packages"
	"golang.org/x/tools/go/ssa"
)

// ---------- LIT1 ----------

// refUnescape: the FHIRPath N1 escape semantics (independent of the code under
// analysis): \' \" \` \\ \/ stand for the second character, \f \n \r \t for the
// control character, \uXXXX for the code point; any other backslash is dropped
// (the lexer accepts `\p` inside a string, the repository's documented
// behaviour is to drop the backslash).
func refUnescape(s string) string {
	var sb strings.Builder
	for i := 0; i < len(s); {
		if s[i] != '\\' {
			_, n := utf8.DecodeRuneInString(s[i:])
			sb.WriteString(s[i : i+n])
			i += n
			continue
		}
		i++
		if i >= len(s) {
			break
		}
		switch s[i] {
		case 'f':
			sb.WriteByte('\f')
		case 'n':
			sb.WriteByte('\n')
		case 'r':
			sb.WriteByte('\r')
		case 't':
			sb.WriteByte('\t')
		case 'u':
			if i+4 < len(s) {
				if v, err := strconv.ParseUint(s[i+1:i+5], 16, 32); err == nil {
					sb.WriteRune(rune(v))
					i += 5
					continue
				}
			}
			sb.WriteByte('u')
		default:
			_, n := utf8.DecodeRuneInString(s[i:])
			sb.WriteString(s[i : i+n])
			i += n
			continue
		}
		i++
	}
	return sb.String()
}

var lit1Tokens = []string{
	`\'`, `\"`, "\\`", `\\`, `\/`, `\f`, `\n`, `\r`, `\t`, "\\" + "u00e9", "\\" + "u0041", "\\" + "u20AC",
	"a", "u", "0041", "\u00e9", "\"", "`", "/", " ", "n", "\u20ac",
}

func ruleLIT1(p *Program) *RuleResult {
	r := newResult("LIT1")
	fn, err := p.Func("fhirpath/system", "ParseString")
	if err != nil {
		return r.anchorFail(err)
	}
	rg := regexGlobals(p)
	var pool []string
	pool = append(pool, "")
	for _, a := range lit1Tokens {
		pool = append(pool, a)
		for _, b := range lit1Tokens {
			pool = append(pool, a+b)
			for _, c := range lit1Tokens {
				pool = append(pool, a+b+c)
			}
		}
	}
	if thoroughTier {
		// all sequences of four tokens over the escapes and the characters that interact with them
		small := []string{`\'`, "\\" + "\\", `\/`, `\n`, "\\" + "u00e9", "\\" + "u20AC", "u", "\u00e9", "'", "\\"}
		for _, a := range small {
			for _, b := range small {
				for _, c := range small {
					for _, d := range small {
						pool = append(pool, a+b+c+d)
					}
				}
			}
		}
	}
	// the visitor hands over the token text including its quotes
	bad := 0
	perToken := map[string]bool{}
	for _, body := range pool {
		r.count("strings", 1)
		an := newAnalyzer()
		an.maxBlocks = 200
		an.regex = rg
		res := an.analyze(fn, []aval{cStr("'" + body + "'")})
		got := "?"
		if len(res.rets) > 0 {
			j := res.joinedReturn()
			if j.k == kTuple && len(j.tup) == 2 && j.tup[1].k == kNil && j.tup[0].k == kConst && j.tup[0].c.Kind() == constant.String {
				got = strconv.Quote(constant.StringVal(j.tup[0].c))
			} else {
				got = j.String()
			}
		}
		want := strconv.Quote(refUnescape(body))
		if got != want {
			bad++
			if bad <= 6 {
				st := "does not decode to the denoted string"
				if strings.HasPrefix(got, "?") || !strings.HasPrefix(got, `"`) {
					r.undecided("system.ParseString|"+strconv.Quote(body), fmt.Sprintf("ParseString('%s') could not be evaluated: %s", body, got), p.pos(fn.Pos()), "the function is no longer a composition of foldable library calls")
					continue
				}
				r.bad("system.ParseString|"+strconv.Quote(body), fmt.Sprintf("ParseString('%s') = %s, the literal denotes %s", body, got, want), p.pos(fn.Pos()), st)
			}
		} else if len(body) <= 6 {
			perToken[body] = true
		}
	}
	if bad == 0 {
		r.ok("system.ParseString|pool", fmt.Sprintf("ParseString decodes %d literals (all sequences of up to 3 tokens over %d escapes and plain characters) to the denoted string", len(pool), len(lit1Tokens)), p.pos(fn.Pos()), "constant propagation through ParseString (regexp/strings/strconv folded on constants, the per-escape function analysed on each match) compared with the reference decoder", true)
	}
	r.floor("strings", 10000)
	// the literal visitor passes the STRING token text to ParseString
	vis, err := p.Method("fhirpath/internal/parser", "FHIRPathVisitor", "VisitStringLiteral")
	if err != nil {
		return r.anchorFail(err)
	}
	found := false
	for _, b := range vis.Blocks {
		for _, ins := range b.Instrs {
			if c, ok := ins.(*ssa.Call); ok && c.Common().StaticCallee() == fn {
				if gt, ok := c.Common().Args[0].(*ssa.Call); ok && gt.Common().IsInvoke() && gt.Common().Method.Name() == "GetText" {
					found = true
					r.ok("parser.VisitStringLiteral|ParseString(STRING.GetText())", "the string-literal visitor decodes the STRING token text with ParseString", p.instrPos(ins), "argument is the token's GetText()", true)
				}
			}
		}
	}
	if !found {
		r.bad("parser.VisitStringLiteral|ParseString(STRING.GetText())", "the string-literal visitor does not hand the STRING token text to ParseString", p.pos(vis.Pos()), "string literals must be decoded by ParseString")
	}
	return r
}

// ---------- LIT-TZ ----------

func ruleLITTZ(p *Program) *RuleResult {
	r := newResult("LIT-TZ")
	fn, err := p.Func("internal/fhir", "extractTimezone")
	if err != nil {
		return r.anchorFail(err)
	}
	var zoneCall *ssa.Call
	for _, b := range fn.Blocks {
		for _, ins := range b.Instrs {
			if c, ok := ins.(*ssa.Call); ok && c.Common().StaticCallee() != nil && c.Common().StaticCallee().RelString(nil) == "(time.Time).Zone" {
				zoneCall = c
			}
		}
	}
	if zoneCall == nil {
		return r.anchorFail(fmt.Errorf("anchor: extractTimezone no longer reads (time.Time).Zone"))
	}
	bad := 0
	n := 0
	step := 900
	if thoroughTier {
		step = 60 // every whole-minute offset
	}
	for off := -14 * 3600; off <= 14*3600; off += step {
		n++
		r.count("offsets", 1)
		an := newAnalyzer()
		an.pin[zoneCall] = aval{k: kTuple, tup: []aval{top, cInt(int64(off))}}
		res := an.analyze(fn, []aval{top})
		j := res.joinedReturn()
		sign, a := "+", off
		if off < 0 {
			sign, a = "-", -off
		}
		want := fmt.Sprintf("%s%02d:%02d", sign, a/3600, a%3600/60)
		got := j.String()
		if j.k == kConst && j.c.Kind() == constant.String {
			got = constant.StringVal(j.c)
		}
		if got != want {
			bad++
			if bad <= 4 {
				key := fmt.Sprintf("fhir.extractTimezone|offset=%d", off)
				if j.k != kConst {
					r.undecided(key, fmt.Sprintf("extractTimezone could not be evaluated for a zone offset of %d s: %s", off, got), p.pos(fn.Pos()), "not foldable")
				} else {
					r.bad(key, fmt.Sprintf("a zone offset of %d s is rendered %q, FHIR requires %q", off, got, want), p.pos(fn.Pos()), "the timezone string of every Date/DateTime/Instant built from a time.Time is wrong for this offset")
				}
			}
		}
	}
	if bad == 0 {
		r.ok("fhir.extractTimezone|offsets", fmt.Sprintf("extractTimezone renders all %d quarter-hour offsets in -14:00..+14:00 as ±hh:mm", n), p.pos(fn.Pos()), "constant propagation with the Zone() offset pinned, fmt.Sprintf folded", true)
	}
	r.floor("offsets", 100)
	// every constructor of a zoned FHIR temporal element uses extractTimezone of the same time value
	fp, err := p.Pkg("internal/fhir")
	if err != nil {
		return r.anchorFail(err)
	}
	for _, name := range []string{"Date", "DateTime", "Instant", "ParseDate", "ParseDateTime", "ParseInstant"} {
		f := fp.Func(name)
		if f == nil {
			return r.anchorFail(fmt.Errorf("anchor: fhir.%s not found", name))
		}
		r.count("constructors", 1)
		// stores to fields ValueUs and Timezone of the same allocation derive from the same time value
		type pair struct{ us, tz ssa.Value }
		allocs := map[ssa.Value]*pair{}
		for _, b := range f.Blocks {
			for _, ins := range b.Instrs {
				st, ok := ins.(*ssa.Store)
				if !ok {
					continue
				}
				fa, ok := st.Addr.(*ssa.FieldAddr)
				if !ok {
					continue
				}
				pr := allocs[fa.X]
				if pr == nil {
					pr = &pair{}
					allocs[fa.X] = pr
				}
				switch fieldName(fa) {
				case "ValueUs":
					pr.us = st.Val
				case "Timezone":
					pr.tz = st.Val
				}
			}
		}
		okC, n := true, 0
		for _, pr := range allocs {
			if pr.us == nil && pr.tz == nil {
				continue
			}
			n++
			var t1, t2 ssa.Value
			if c, ok := pr.us.(*ssa.Call); ok && c.Common().StaticCallee() != nil && c.Common().StaticCallee().RelString(nil) == "(time.Time).UnixMicro" {
				t1 = c.Common().Args[0]
			}
			if c, ok := pr.tz.(*ssa.Call); ok && c.Common().StaticCallee() == fn {
				t2 = c.Common().Args[0]
			}
			if t1 == nil || t2 == nil || !sameAccess(t1, t2) {
				okC = false
			}
		}
		key := "fhir." + name + "|ValueUs,Timezone"
		if okC && n > 0 {
			r.ok(key, "fhir."+name+" stores UnixMicro() and extractTimezone() of the same time value", p.pos(f.Pos()), "both field stores of the constructed element derive from one time.Time", true)
		} else {
			r.bad(key, "fhir."+name+" does not store UnixMicro() and extractTimezone() of one time value", p.pos(f.Pos()), "the element's instant and offset would describe different times")
		}
	}
	return r
}

// ---------- LIT2: parse / format table agreement ----------

type fmtRow struct {
	layout    string
	precision string
}

// composite-literal rows {"layout", dtpb.X_PRECISION} of a function
func parseTableRows(p *Program, pkgRel, fn string) ([]fmtRow, token.Pos, error) {
	fd, pkg, err := funcDeclOf(p, pkgRel, fn)
	if err != nil {
		return nil, 0, err
	}
	var rows []fmtRow
	ast.Inspect(fd, func(n ast.Node) bool {
		cl, ok := n.(*ast.CompositeLit)
		if !ok || len(cl.Elts) != 2 || cl.Type != nil {
			return true
		}
		tv, ok := pkg.TypesInfo.Types[cl.Elts[0]]
		if !ok || tv.Value == nil || tv.Value.Kind() != constant.String {
			return true
		}
		sel := ""
		switch e := cl.Elts[1].(type) {
		case *ast.SelectorExpr:
			sel = e.Sel.Name
		case *ast.Ident:
			sel = e.Name
		}
		rows = append(rows, fmtRow{constant.StringVal(tv.Value), sel})
		return true
	})
	return rows, fd.Pos(), nil
}

// switch rows of XToString: precision constant -> layout used with Format / Sprintf
func formatSwitchRows(p *Program, pkgRel, fn string) (map[string]string, token.Pos, error) {
	fd, pkg, err := funcDeclOf(p, pkgRel, fn)
	if err != nil {
		return nil, 0, err
	}
	out := map[string]string{}
	ast.Inspect(fd, func(n ast.Node) bool {
		sw, ok := n.(*ast.SwitchStmt)
		if !ok {
			return true
		}
		var pending []string
		for _, st := range sw.Body.List {
			cc := st.(*ast.CaseClause)
			names := pending
			pending = nil
			for _, e := range cc.List {
				if se, ok := e.(*ast.SelectorExpr); ok {
					names = append(names, se.Sel.Name)
				}
			}
			if cc.List == nil {
				names = append(names, "default")
			}
			if len(cc.Body) == 1 {
				if bs, ok := cc.Body[0].(*ast.BranchStmt); ok && bs.Tok == token.FALLTHROUGH {
					pending = names
					continue
				}
			}
			layout := ""
			for _, b := range cc.Body {
				ast.Inspect(b, func(m ast.Node) bool {
					if bl, ok := m.(*ast.BasicLit); ok && bl.Kind == token.STRING && layout == "" {
						if tv, ok := pkg.TypesInfo.Types[bl]; ok && tv.Value != nil {
							layout = constant.StringVal(tv.Value)
						}
					}
					return true
				})
			}
			for _, nm := range names {
				out[nm] = layout
			}
		}
		return false
	})
	return out, fd.Pos(), nil
}

// sprintfToLayout converts "%02d:%02d:%02d.%03d" to the Go layout it prints.
func sprintfToLayout(f string) string {
	parts := []string{"15", "04", "05"}
	i := 0
	out := f
	for _, pp := range parts {
		if strings.Contains(out, "%02d") {
			out = strings.Replace(out, "%02d", pp, 1)
			i++
		}
	}
	out = strings.Replace(out, "%03d", "000", 1)
	out = strings.Replace(out, "%06d", "000000", 1)
	return out
}

// candidateLayouts: the FHIR text forms of an element type, as Go layouts.
func candidateLayouts(typ string) []string {
	switch typ {
	case "Date":
		return []string{"2006-01-02", "2006-01", "2006"}
	case "Time":
		return []string{"15:04:05.000000", "15:04:05.000", "15:04:05"}
	}
	var out []string
	for _, frac := range []string{".000000", ".000", ""} {
		for _, zone := range []string{"-07:00", "Z"} {
			out = append(out, "2006-01-02T15:04:05"+frac+zone)
		}
	}
	if typ == "DateTime" {
		out = append(out, "2006-01-02", "2006-01", "2006")
	}
	return out
}

// parsePrecisionOf: the precision (enum name) of the element that the fhir parser
// hands back for a sample text written in the given layout; ok is false when
// the parser rejects the text or the result does not fold.
func parsePrecisionOf(p *Program, pfn *ssa.Function, typ, lay string) (string, bool) {
	sample := time.Date(2020, 2, 29, 13, 5, 9, 120000000, time.FixedZone("", 19800))
	text := sample.Format(lay)
	if strings.HasSuffix(lay, "Z") && !strings.HasSuffix(lay, "-07:00") {
		text = sample.UTC().Format(lay)
	}
	an := newAnalyzer()
	an.maxBlocks = 300
	an.maxDepth = 6
	an.unroll = 16
	an.snapshots = true
	res := an.analyze(pfn, []aval{cStr(text)})
	if res.nonconverged {
		return "", false
	}
	t := typeByName(p, dtPkgPath, typ)
	if t == nil {
		return "", false
	}
	pi := structFieldIndex(t, "Precision")
	prec := ""
	for _, ri := range res.rets {
		if len(ri.vals) != 2 || ri.vals[1].k != kNil {
			continue
		}
		v := ri.vals[0]
		if v.ptrOf == nil || v.ptrOf.k != kStruct || pi < 0 || pi >= len(v.ptrOf.elems) || v.ptrOf.elems[pi].k != kConst {
			return "", false
		}
		name := ""
		for _, pv := range precisionEnum(p, typ) {
			if pk := p.SSAPkg[dtPkgPath]; pk != nil {
				if c, ok := pk.Pkg.Scope().Lookup(pv).(*types.Const); ok && constant.Compare(c.Val(), token.EQL, v.ptrOf.elems[pi].c) {
					name = pv
				}
			}
		}
		if name == "" || (prec != "" && prec != name) {
			return "", false
		}
		prec = name
	}
	return prec, prec != ""
}

// formatLayoutFor: the distinct layouts (Time.Format) or patterns (fmt.Sprintf
// with %d verbs) a fhirconv formatter uses for an element whose precision is
// pv; n is their number.
func formatLayoutFor(p *Program, fn *ssa.Function, typ, pv string) (string, int, error) {
	t := typeByName(p, dtPkgPath, typ)
	if t == nil {
		return "", 0, fmt.Errorf("anchor: datatypes %s not found", typ)
	}
	var cv constant.Value
	if pk := p.SSAPkg[dtPkgPath]; pk != nil {
		if c, ok := pk.Pkg.Scope().Lookup(pv).(*types.Const); ok {
			cv = c.Val()
		}
	}
	if cv == nil {
		return "", 0, fmt.Errorf("anchor: enum value %s not found", pv)
	}
	st := t.Underlying().(*types.Struct)
	e := aval{k: kStruct}
	for i := 0; i < st.NumFields(); i++ {
		switch st.Field(i).Name() {
		case "ValueUs":
			e.elems = append(e.elems, cInt(1582981509120000)) // 2020-02-29T13:05:09.12Z
		case "Timezone":
			e.elems = append(e.elems, cStr("UTC"))
		case "Precision":
			e.elems = append(e.elems, aval{k: kConst, c: cv})
		default:
			e.elems = append(e.elems, zeroOf(st.Field(i).Type()))
		}
	}
	an := newAnalyzer()
	an.maxBlocks = 300
	an.maxDepth = 6
	res := an.analyze(fn, []aval{ptrTo(e)})
	seen := map[string]bool{}
	for _, co := range res.calls {
		if co.callee == nil {
			continue
		}
		switch co.callee.RelString(nil) {
		case "(time.Time).Format":
			if len(co.args) == 2 && co.args[1].k == kConst && co.args[1].c.Kind() == constant.String {
				seen[constant.StringVal(co.args[1].c)] = true
			} else {
				seen["?"] = true
			}
		case "fmt.Sprintf":
			if len(co.args) >= 1 && co.args[0].k == kConst && co.args[0].c.Kind() == constant.String {
				if f := constant.StringVal(co.args[0].c); strings.Contains(f, "%0") {
					seen[f] = true
				}
			}
		}
	}
	lay := ""
	for k := range seen {
		lay = k
	}
	return lay, len(seen), nil
}

func ruleLIT2(p *Program) *RuleResult {
	r := newResult("LIT2")
	for _, t := range []struct{ typ, parse, format string }{
		{"Date", "ParseDate", "DateToString"},
		{"DateTime", "ParseDateTime", "DateTimeToString"},
		{"Instant", "ParseInstant", "InstantToString"},
		{"Time", "ParseTime", "TimeToString"},
	} {
		rows, pos, err := parseTableRows(p, "internal/fhir", t.parse)
		if err != nil {
			return r.anchorFail(err)
		}
		ffn, err := p.Func("internal/fhirconv", t.format)
		if err != nil {
			return r.anchorFail(err)
		}
		fpos := ffn.Pos()
		if len(rows) == 0 {
			// the parser's table is not a literal in its body (package-level table, helper):
			// the rows are obtained by *evaluating* the parser on a text in each candidate
			// layout and reading the precision of the element it hands back
			pfn, err := p.Func("internal/fhir", t.parse)
			if err != nil {
				return r.anchorFail(err)
			}
			pos = pfn.Pos()
			for _, lay := range candidateLayouts(t.typ) {
				if prec, ok := parsePrecisionOf(p, pfn, t.typ, lay); ok {
					rows = append(rows, fmtRow{lay, prec})
				}
			}
			if len(rows) == 0 {
				return r.anchorFail(fmt.Errorf("anchor: fhir.%s accepts none of the candidate layouts (not evaluable)", t.parse))
			}
		}
		// enum values of the precision type
		enum := precisionEnum(p, t.typ)
		if len(enum) == 0 {
			return r.anchorFail(fmt.Errorf("anchor: no precision enum for %s", t.typ))
		}
		// the layout the formatter hands to Time.Format (or the pattern it hands to
		// Sprintf) for an element of each precision, observed with the precision pinned
		frows := map[string]string{}
		undecidedRow := false
		for _, pv := range enum {
			if strings.HasSuffix(pv, "PRECISION_UNSPECIFIED") {
				continue
			}
			lay, n, err := formatLayoutFor(p, ffn, t.typ, pv)
			if err != nil {
				return r.anchorFail(err)
			}
			switch n {
			case 1:
				frows[pv] = lay
			case 0:
				// no rendering observed: reported below
			default:
				r.undecided(fmt.Sprintf("fhirconv.%s|%s", t.format, pv), fmt.Sprintf("%s uses %d different layouts for precision %s", t.format, n, pv), p.pos(fpos), "the rendering could not be attributed to the precision")
				undecidedRow = true
			}
		}
		if undecidedRow {
			continue
		}
		for _, pv := range enum {
			if strings.HasSuffix(pv, "PRECISION_UNSPECIFIED") {
				continue
			}
			r.count("precisions", 1)
			key := fmt.Sprintf("fhirconv.%s|%s", t.format, pv)
			lay, ok := frows[pv]
			if !ok {
				lay, ok = frows["default"]
			}
			if !ok {
				r.bad(key, fmt.Sprintf("%s has no rendering for precision %s", t.format, pv), p.pos(fpos), "every precision of the element must be rendered")
				continue
			}
			if strings.Contains(lay, "%") {
				lay = sprintfToLayout(lay)
			}
			// the rendered form must be accepted by the parser with the same precision: some row
			// with this precision whose layout is the rendered layout (the zone form -07:00 is a parse row too)
			found, wrongPrec := false, ""
			for _, row := range rows {
				if row.layout == lay {
					if row.precision == pv {
						found = true
					} else {
						wrongPrec = row.precision
					}
				}
			}
			switch {
			case found:
				r.ok(key, fmt.Sprintf("%s renders %s with layout %q, which %s reads back with the same precision", t.format, pv, lay, t.parse), p.pos(fpos), "writer and reader tables agree", true)
			case wrongPrec != "":
				r.bad(key, fmt.Sprintf("%s renders %s with layout %q, which %s reads back as %s", t.format, pv, lay, t.parse, wrongPrec), p.pos(pos), "parse after format must be the identity (precision changes)")
			default:
				r.bad(key, fmt.Sprintf("%s renders %s with layout %q, which is not a layout of %s", t.format, pv, lay, t.parse), p.pos(pos), "parse after format must be the identity")
			}
		}
		// every parse row's precision is an enum value and rows are ordered from the longest form to the shortest per zone form
		for i, row := range rows {
			okE := false
			for _, pv := range enum {
				if pv == row.precision {
					okE = true
				}
			}
			r.count("parse_rows", 1)
			key := fmt.Sprintf("fhir.%s|row %q", t.parse, row.layout)
			if !okE {
				r.bad(key, fmt.Sprintf("layout %q is bound to %s, not a precision of %s", row.layout, row.precision, t.typ), p.pos(pos), "layout/precision table")
				continue
			}
			// the precision bound to a layout is the finest field of the layout
			want := layoutPrecision(t.typ, row.layout)
			if want != "" && want != row.precision {
				r.bad(key, fmt.Sprintf("layout %q is bound to %s but its finest field is %s", row.layout, row.precision, want), p.pos(pos), "a parsed element must carry the precision its text has")
				continue
			}
			// an earlier layout must not be a prefix-compatible superset hiding a later one: earlier rows have more fields
			for j := 0; j < i; j++ {
				if rows[j].layout == row.layout {
					r.bad(key, fmt.Sprintf("layout %q appears twice", row.layout), p.pos(pos), "ambiguous table")
				}
			}
			r.ok(key, fmt.Sprintf("layout %q ↔ %s", row.layout, row.precision), p.pos(pos), "finest field of the layout equals the bound precision", true)
		}
	}
	// System layer: the layout lists tried by the parsers are exactly the keys of the precision maps
	for _, t := range []struct{ parse, mp string }{{"ParseDate", "dateMap"}, {"ParseDateTime", "dateTimeMap"}, {"ParseTime", "timeMap"}} {
		lst, pos, err := layoutListOf(p, t.parse)
		if err != nil {
			return r.anchorFail(err)
		}
		keys, vals, mpos, err := layoutMap(p, t.mp)
		if err != nil {
			return r.anchorFail(err)
		}
		r.count("system_tables", 1)
		a := append([]string{}, lst...)
		b := append([]string{}, keys...)
		sort.Strings(a)
		sort.Strings(b)
		key := "system." + t.parse + "|layouts=" + t.mp
		if strings.Join(a, "|") == strings.Join(b, "|") {
			r.ok(key, fmt.Sprintf("system.%s tries exactly the %d layouts that %s assigns a precision to", t.parse, len(a), t.mp), p.pos(pos), "set equality of the layout list and the map keys", true)
		} else {
			r.bad(key, fmt.Sprintf("system.%s tries layouts %v but %s knows %v", t.parse, a, t.mp, b), p.pos(mpos), "a value parsed with a layout outside the map has precision 0 (year/hour) in comparisons")
		}
		// the map's precision is the finest field of the layout
		for i, k := range keys {
			want := systemLayoutPrecision(k)
			kk := "system." + t.mp + "|" + strconv.Quote(k)
			if want == vals[i] {
				r.ok(kk, fmt.Sprintf("%s[%q] = %s", t.mp, k, vals[i]), p.pos(mpos), "finest field of the layout", true)
			} else {
				r.bad(kk, fmt.Sprintf("%s[%q] = %s, the layout's finest field is %s", t.mp, k, vals[i], want), p.pos(mpos), "comparison precision differs from the text's precision")
			}
		}
		// longer layouts are tried first (a shorter layout never shadows a longer one: Go's Parse requires the whole text)
	}
	r.floor("precisions", 14)
	r.floor("parse_rows", 20)
	r.floor("system_tables", 3)
	return r
}

func layoutPrecision(typ, l string) string {
	fin := ""
	switch {
	case strings.Contains(l, ".000000"):
		fin = "MICROSECOND"
	case strings.Contains(l, ".000"):
		fin = "MILLISECOND"
	case strings.Contains(l, "05"):
		fin = "SECOND"
	case strings.Contains(l, "04") || strings.Contains(l, "15"):
		return "" // not a FHIR precision
	case strings.Contains(l, "-02"):
		fin = "DAY"
	case strings.Contains(l, "-01"):
		fin = "MONTH"
	case strings.Contains(l, "2006"):
		fin = "YEAR"
	}
	return typ + "_" + fin
}

func systemLayoutPrecision(l string) string {
	isDT := strings.Contains(l, "T")
	isTime := !strings.Contains(l, "2006")
	switch {
	case strings.Contains(l, "05"):
		if isTime {
			return "second"
		}
		return "dtSecond"
	case strings.Contains(l, "04"):
		if isTime {
			return "minute"
		}
		return "dtMinute"
	case strings.Contains(l, "15"):
		if isTime {
			return "hour"
		}
		return "dtHour"
	case strings.Contains(l, "-02"):
		if isDT {
			return "dtDay"
		}
		return "day"
	case strings.Contains(l, "-01"):
		if isDT {
			return "dtMonth"
		}
		return "month"
	}
	if isDT {
		return "dtYear"
	}
	return "year"
}

func precisionEnum(p *Program, typ string) []string {
	var out []string
	for path, sp := range p.SSAPkg {
		if path != dtPkgPath {
			continue
		}
		sc := sp.Pkg.Scope()
		for _, n := range sc.Names() {
			c, ok := sc.Lookup(n).(*types.Const)
			if !ok {
				continue
			}
			if namedName(c.Type()) == typ+"_Precision" {
				out = append(out, n)
			}
		}
	}
	sort.Strings(out)
	return out
}

// layoutListOf: the []string{...} literal of layout constants in system.ParseX
func layoutListOf(p *Program, fn string) ([]string, token.Pos, error) {
	f, err := p.Func("fhirpath/system", fn)
	if err != nil {
		return nil, 0, err
	}
	out, ok := layoutsTriedBy(f, nil, 0)
	if !ok || len(out) == 0 {
		return nil, 0, fmt.Errorf("anchor: the layouts system.%s hands to time.Parse could not be enumerated", fn)
	}
	return out, f.Pos(), nil
}

// layoutsTriedBy: the constant layouts that fn (and the in-repo functions it
// calls) hand to time.Parse as elements of constant string tables — a local
// or package-level []string / [N]string literal, possibly passed down as an
// argument (args: the values bound to fn's parameters by the caller).
func layoutsTriedBy(fn *ssa.Function, args []ssa.Value, depth int) ([]string, bool) {
	if depth > 3 {
		return nil, false
	}
	var out []string
	for _, b := range fn.Blocks {
		for _, ins := range b.Instrs {
			c, ok := ins.(*ssa.Call)
			if !ok {
				continue
			}
			sc := c.Common().StaticCallee()
			if sc == nil {
				continue
			}
			if sc.RelString(nil) == "time.Parse" {
				tab := tableOfElement(c.Common().Args[0])
				if tab == nil {
					if k, ok := c.Common().Args[0].(*ssa.Const); ok && k.Value != nil && k.Value.Kind() == constant.String {
						out = append(out, constant.StringVal(k.Value))
						continue
					}
					return nil, false
				}
				if prm, ok := tab.(*ssa.Parameter); ok {
					found := false
					for i, q := range fn.Params {
						if q == prm && i < len(args) {
							tab, found = args[i], true
						}
					}
					if !found {
						return nil, false
					}
				}
				elems, ok := constStringElems(tab, 0)
				if !ok {
					return nil, false
				}
				out = append(out, elems...)
				continue
			}
			if inRepoFn(sc) && len(sc.Blocks) > 0 && strings.HasSuffix(fnPkgPath(sc), "/fhirpath/system") && callsTimeParse(sc, 0) {
				sub, ok := layoutsTriedBy(sc, c.Common().Args, depth+1)
				if !ok {
					return nil, false
				}
				out = append(out, sub...)
			}
		}
	}
	return out, true
}

func callsTimeParse(fn *ssa.Function, depth int) bool {
	if depth > 3 {
		return false
	}
	for _, b := range fn.Blocks {
		for _, ins := range b.Instrs {
			if c, ok := ins.(*ssa.Call); ok {
				if sc := c.Common().StaticCallee(); sc != nil {
					if sc.RelString(nil) == "time.Parse" {
						return true
					}
					if inRepoFn(sc) && sc != fn && callsTimeParse(sc, depth+1) {
						return true
					}
				}
			}
		}
	}
	return false
}

// tableOfElement: v is (a conversion of) an element of a slice/array: that slice/array value.
func tableOfElement(v ssa.Value) ssa.Value {
	for {
		switch x := v.(type) {
		case *ssa.ChangeType:
			v = x.X
			continue
		case *ssa.Convert:
			v = x.X
			continue
		case *ssa.UnOp:
			if ia, ok := x.X.(*ssa.IndexAddr); ok && x.Op == token.MUL {
				return ia.X
			}
		case *ssa.Index:
			return x.X
		}
		return nil
	}
}

// constStringElems: the string constants stored into a table built from a
// composite literal: a slice of a fresh array, the array itself, or a load of a
// package-level variable initialised (once) with such a literal.
func constStringElems(v ssa.Value, depth int) ([]string, bool) {
	if depth > 4 {
		return nil, false
	}
	switch x := v.(type) {
	case *ssa.Slice:
		return constStringElems(x.X, depth+1)
	case *ssa.ChangeType:
		return constStringElems(x.X, depth+1)
	case *ssa.Alloc:
		if x.Referrers() == nil {
			return nil, false
		}
		byIdx := map[int64]string{}
		for _, ref := range *x.Referrers() {
			switch y := ref.(type) {
			case *ssa.IndexAddr:
				k, ok := y.Index.(*ssa.Const)
				if !ok || k.Value == nil || y.Referrers() == nil {
					continue // a read with a variable index
				}
				for _, r2 := range *y.Referrers() {
					if st, ok := r2.(*ssa.Store); ok && st.Addr == ssa.Value(y) {
						c, ok := st.Val.(*ssa.Const)
						if !ok || c.Value == nil || c.Value.Kind() != constant.String {
							return nil, false
						}
						ki, _ := constant.Int64Val(k.Value)
						byIdx[ki] = constant.StringVal(c.Value)
					}
				}
			case *ssa.Store:
				if y.Addr == ssa.Value(x) {
					return nil, false
				}
			}
		}
		var out []string
		for i := int64(0); i < int64(len(byIdx)); i++ {
			s, ok := byIdx[i]
			if !ok {
				return nil, false
			}
			out = append(out, s)
		}
		return out, len(out) > 0
	case *ssa.UnOp:
		if x.Op != token.MUL {
			return nil, false
		}
		switch y := x.X.(type) {
		case *ssa.Alloc:
			return constStringElems(y, depth+1)
		case *ssa.Global:
			init := y.Pkg.Func("init")
			if init == nil {
				return nil, false
			}
			var src ssa.Value
			n := 0
			for _, b := range init.Blocks {
				for _, ins := range b.Instrs {
					if st, ok := ins.(*ssa.Store); ok && st.Addr == ssa.Value(y) {
						src = st.Val
						n++
					}
				}
			}
			if n != 1 || globalStoredOutsideInit(y) {
				return nil, false
			}
			return constStringElems(src, depth+1)
		}
	}
	return nil, false
}

// globalStoredOutsideInit: some function other than the package initialiser stores to g.
func globalStoredOutsideInit(g *ssa.Global) bool {
	for _, m := range g.Pkg.Members {
		fns := []*ssa.Function{}
		switch x := m.(type) {
		case *ssa.Function:
			fns = append(fns, x)
		case *ssa.Type:
			for _, t := range []types.Type{x.Type(), types.NewPointer(x.Type())} {
				ms := g.Pkg.Prog.MethodSets.MethodSet(t)
				for i := 0; i < ms.Len(); i++ {
					if f := g.Pkg.Prog.MethodValue(ms.At(i)); f != nil {
						fns = append(fns, f)
					}
				}
			}
		}
		for k := 0; k < len(fns); k++ {
			f := fns[k]
			fns = append(fns, f.AnonFuncs...)
			if f.Name() == "init" && f.Signature.Recv() == nil {
				continue
			}
			for _, b := range f.Blocks {
				for _, ins := range b.Instrs {
					if st, ok := ins.(*ssa.Store); ok && st.Addr == ssa.Value(g) {
						return true
					}
				}
			}
		}
	}
	return false
}

func layoutMap(p *Program, name string) (keys, vals []string, pos token.Pos, err error) {
	pkg := p.ByPath[mod+"/fhirpath/system"]
	if pkg == nil {
		return nil, nil, 0, fmt.Errorf("anchor: package system not loaded")
	}
	init, _ := findVarDecl(pkg, name)
	if init == nil {
		return nil, nil, 0, fmt.Errorf("anchor: system.%s not found", name)
	}
	for _, v := range []ast.Expr{init} {
		cl, ok := v.(*ast.CompositeLit)
		if !ok {
			continue
		}
		for _, el := range cl.Elts {
			kv, ok := el.(*ast.KeyValueExpr)
			if !ok {
				continue
			}
			tv, ok := pkg.TypesInfo.Types[kv.Key]
			if !ok || tv.Value == nil {
				continue
			}
			keys = append(keys, constant.StringVal(tv.Value))
			vals = append(vals, types.ExprString(kv.Value))
		}
	}
	if len(keys) == 0 {
		return nil, nil, 0, fmt.Errorf("anchor: system.%s is not a map literal", name)
	}
	return keys, vals, init.Pos(), nil
}

// ---------- LIT3: proto <-> System precision mapping ----------

func ruleLIT3(p *Program) *RuleResult {
	r := newResult("LIT3")
	sp, err := p.Pkg("fhirpath/system")
	if err != nil {
		return r.anchorFail(err)
	}
	enumVal := func(name string) (constant.Value, bool) {
		for path, pk := range p.SSAPkg {
			if path == dtPkgPath {
				if c, ok := pk.Pkg.Scope().Lookup(name).(*types.Const); ok {
					return c.Val(), true
				}
			}
		}
		return nil, false
	}
	// the layouts System uses for a proto precision (element forms carry a zone for time-of-day precisions)
	want := map[string][]string{
		"Date_DAY": {"2006-01-02"}, "Date_MONTH": {"2006-01"}, "Date_YEAR": {"2006"},
		"DateTime_YEAR": {"2006T"}, "DateTime_MONTH": {"2006-01T"}, "DateTime_DAY": {"2006-01-02T"},
		"DateTime_SECOND":      {"2006-01-02T15:04:05Z07:00"},
		"DateTime_MILLISECOND": {"2006-01-02T15:04:05.000Z07:00"},
		"DateTime_MICROSECOND": {"2006-01-02T15:04:05.000Z07:00"}, // documented: System keeps milliseconds
		"Time_SECOND":          {"15:04:05"}, "Time_MILLISECOND": {"15:04:05.000"}, "Time_MICROSECOND": {"15:04:05.000"},
	}
	back := map[string]string{"Time_MICROSECOND": "Time_MILLISECOND", "DateTime_MICROSECOND": "DateTime_MILLISECOND"}
	for _, t := range dtTypes {
		from := sp.Func(t.name + "FromProto")
		to, err2 := p.Method("fhirpath/system", t.name, "ToProto"+t.name)
		if from == nil || err2 != nil {
			return r.anchorFail(fmt.Errorf("anchor: system.%sFromProto / ToProto%s not found", t.name, t.name))
		}
		// loads of the Precision field / GetPrecision calls in FromProto
		var precReads []ssa.Value
		for _, b := range from.Blocks {
			for _, ins := range b.Instrs {
				switch x := ins.(type) {
				case *ssa.UnOp:
					if fa, ok := x.X.(*ssa.FieldAddr); ok && x.Op == token.MUL && fieldName(fa) == "Precision" {
						precReads = append(precReads, x)
					}
				case *ssa.Call:
					if sc := x.Common().StaticCallee(); sc != nil && sc.Name() == "GetPrecision" {
						precReads = append(precReads, x)
					}
				}
			}
		}
		if len(precReads) == 0 {
			return r.anchorFail(fmt.Errorf("anchor: %sFromProto does not read the proto precision", t.name))
		}
		// stores to the Precision field in ToProto
		var precStores []*ssa.Store
		for _, b := range to.Blocks {
			for _, ins := range b.Instrs {
				if st, ok := ins.(*ssa.Store); ok {
					if fa, ok := st.Addr.(*ssa.FieldAddr); ok && fieldName(fa) == "Precision" {
						precStores = append(precStores, st)
					}
				}
			}
		}
		if len(precStores) == 0 {
			return r.anchorFail(fmt.Errorf("anchor: ToProto%s does not set the proto precision", t.name))
		}
		for _, pv := range precisionEnum(p, t.name) {
			if strings.HasSuffix(pv, "PRECISION_UNSPECIFIED") {
				continue
			}
			r.count("precisions", 1)
			cv, _ := enumVal(pv)
			an := newAnalyzer()
			an.maxBlocks = 200
			for _, pr := range precReads {
				an.pin[pr] = aval{k: kConst, c: cv}
			}
			res := an.analyze(from, []aval{nonnil("proto")})
			var lays []string
			okEval := true
			for _, ri := range res.rets {
				if len(ri.vals) == 2 && ri.vals[1].k == kNonNil {
					continue // conversion error (invalid zone)
				}
				if c, ok := ri.instr.Results[0].(*ssa.Const); ok && c.Value == nil && len(ri.vals) == 2 && ri.vals[1].k != kNil {
					continue // zero value returned together with the conversion error
				}
				v := ri.vals[0]
				if v.k == kStruct && len(v.elems) == 2 && v.elems[1].k == kConst {
					lays = append(lays, constant.StringVal(v.elems[1].c))
				} else {
					okEval = false
					if os.Getenv("FPSA_DEBUG") != "" {
						fmt.Fprintf(os.Stderr, "LIT3 %s %s: ret %s\n", t.name, pv, v.String())
					}
				}
			}
			key := fmt.Sprintf("system.%sFromProto|%s", t.name, pv)
			w := want[pv]
			switch {
			case !okEval || len(lays) == 0:
				r.undecided(key, fmt.Sprintf("layout of %sFromProto under precision %s could not be determined", t.name, pv), p.pos(from.Pos()), "SCCP with the precision read pinned")
				continue
			case len(w) == 0:
				r.undecided(key, "no reference layout for "+pv, p.pos(from.Pos()), "reference table of rules_c15.go")
				continue
			case len(lays) == 1 && lays[0] == w[0]:
				r.ok(key, fmt.Sprintf("%sFromProto maps %s to layout %q", t.name, pv, lays[0]), p.pos(from.Pos()), "SCCP with the precision read pinned", true)
			default:
				r.bad(key, fmt.Sprintf("%sFromProto maps %s to layout %q (expected %q)", t.name, pv, lays, w[0]), p.pos(from.Pos()), "a FHIR element of this precision becomes a System value of another precision (empty layout: prints as the empty string)")
				continue
			}
			// and back
			an2 := newAnalyzer()
			an2.maxBlocks = 200
			res2 := an2.analyze(to, []aval{{k: kStruct, elems: []aval{top, cStr(lays[0])}}})
			key2 := fmt.Sprintf("system.ToProto%s|%s", t.name, pv)
			wantBack := pv
			if b, ok := back[pv]; ok {
				wantBack = b
			}
			wv, _ := enumVal(wantBack)
			okBack := true
			got := ""
			nexec := 0
			for _, st := range precStores {
				if !res2.executable(st) {
					continue
				}
				nexec++
				v := res2.val(st.Val)
				got = v.String()
				if !(v.k == kConst && constant.Compare(v.c, token.EQL, wv)) {
					okBack = false
				}
			}
			if okBack && nexec > 0 {
				r.ok(key2, fmt.Sprintf("ToProto%s maps layout %q back to %s", t.name, lays[0], wantBack), p.pos(to.Pos()), "SCCP with the receiver's layout pinned: value stored to the Precision field", true)
			} else {
				r.bad(key2, fmt.Sprintf("ToProto%s maps layout %q to precision %s (expected %s)", t.name, lays[0], got, wantBack), p.pos(to.Pos()), "FromProto followed by ToProto must preserve the precision")
			}
		}
	}
	r.floor("precisions", 12)
	return r
}

// ---------- LIT5: no float64 detour ----------

func ruleLIT5(p *Program) *RuleResult {
	r := newResult("LIT5")
	// every function of package system that converts a Decimal to another representation
	for _, fn := range systemFuncs(p) {
		for _, b := range fn.Blocks {
			for _, ins := range b.Instrs {
				c, ok := ins.(*ssa.Call)
				if !ok || c.Common().StaticCallee() == nil {
					continue
				}
				n := c.Common().StaticCallee().RelString(nil)
				if !strings.Contains(n, "shopspring/decimal") {
					continue
				}
				r.count("decimal_calls", 1)
				if strings.Contains(fn.Name(), "Float") {
					continue // conversions to float64 by name (ToFloat64 feeds the float-valued math functions, C08)
				}
				switch c.Common().StaticCallee().Name() {
				case "InexactFloat64", "Float64", "NewFromFloat", "NewFromFloat32", "NewFromFloatWithExponent":
					r.bad(short(fn)+"|"+c.Common().StaticCallee().Name(), short(fn)+" converts a Decimal through float64 ("+c.Common().StaticCallee().Name()+")", p.instrPos(ins), "digits beyond float64's 15-17 significant digits are lost: the representation does not round-trip")
				}
			}
		}
	}
	if len(r.Obs) == 0 {
		r.ok("system|no-float-detour", fmt.Sprintf("none of the %d shopspring/decimal calls in the System value layer (outside the To*Float* helpers) converts through float64", r.Analysed["decimal_calls"]), "fhirpath/system", "call inventory of package system", true)
	}
	r.floor("decimal_calls", 10)
	return r
}

// ---------- LIT4: integer narrowing ----------

var intTypeNames = []string{"int", "int8", "int16", "int32", "int64", "uint", "uint8", "uint16", "uint32", "uint64", "uintptr"}

func intRange(name string, wordBits int) (lo, hi *big.Int) {
	bits := map[string]int{"int8": 8, "int16": 16, "int32": 32, "int64": 64, "uint8": 8, "uint16": 16, "uint32": 32, "uint64": 64, "int": wordBits, "uint": wordBits, "uintptr": wordBits}[name]
	one := big.NewInt(1)
	if strings.HasPrefix(name, "u") {
		return big.NewInt(0), new(big.Int).Sub(new(big.Int).Lsh(one, uint(bits)), one)
	}
	h := new(big.Int).Lsh(one, uint(bits-1))
	return new(big.Int).Neg(h), new(big.Int).Sub(h, one)
}

func ruleLIT4(p *Program) *RuleResult {
	r := newResult("LIT4")
	word := 64
	if p.Arch == "386" {
		word = 32
	}
	// boundary pool: every bound of every type, ±1, and small values
	poolSet := map[string]*big.Int{}
	add := func(v *big.Int) { poolSet[v.String()] = v }
	for _, n := range intTypeNames {
		lo, hi := intRange(n, word)
		for _, d := range []int64{-1, 0, 1} {
			add(new(big.Int).Add(lo, big.NewInt(d)))
			add(new(big.Int).Add(hi, big.NewInt(d)))
		}
	}
	for _, v := range []int64{-129, -128, -127, -2, 2, 100, 127, 128, 129, 255, 256} {
		add(big.NewInt(v))
	}
	if thoroughTier {
		// every power of two ±1 and the whole 8-bit range (exhaustive for the 8-bit types)
		for sh := uint(0); sh <= 64; sh++ {
			pw := new(big.Int).Lsh(big.NewInt(1), sh)
			for _, d := range []int64{-1, 0, 1} {
				add(new(big.Int).Add(pw, big.NewInt(d)))
				add(new(big.Int).Neg(new(big.Int).Add(pw, big.NewInt(d))))
			}
		}
		for v := int64(-256); v <= 256; v++ {
			add(big.NewInt(v))
		}
	}
	// instantiations of narrow.ToInteger present in the program (the loader adds a synthetic file that references all of them)
	insts := map[string]*ssa.Function{}
	for fn := range p.AllFns {
		if o := fn.Origin(); o != nil && short(o) == "internal/narrow.ToInteger" && len(fn.Blocks) > 0 && len(fn.TypeArgs()) == 2 {
			if _, ok := fn.TypeArgs()[0].(*types.Basic); !ok {
				continue
			}
			if _, ok := fn.TypeArgs()[1].(*types.Basic); !ok {
				continue
			}
			insts[typeShort(fn.TypeArgs()[0])+"<-"+typeShort(fn.TypeArgs()[1])] = fn
		}
	}
	var keys []string
	for k := range insts {
		keys = append(keys, k)
	}
	sort.Strings(keys)
	for _, k := range keys {
		fn := insts[k]
		to, from := typeShort(fn.TypeArgs()[0]), typeShort(fn.TypeArgs()[1])
		flo, fhi := intRange(from, word)
		tlo, thi := intRange(to, word)
		r.count("instantiations", 1)
		bad := 0
		n := 0
		for _, v := range poolSet {
			if v.Cmp(flo) < 0 || v.Cmp(fhi) > 0 {
				continue
			}
			n++
			r.count("evaluations", 1)
			an := newAnalyzer()
			an.maxBlocks = 200
			an.maxDepth = 6
			res := an.analyze(fn, []aval{{k: kConst, c: constant.Make(v)}})
			j := res.joinedReturn()
			fits := v.Cmp(tlo) >= 0 && v.Cmp(thi) <= 0
			okCell := false
			got := j.String()
			if j.k == kTuple && len(j.tup) == 2 && j.tup[1].k == kConst && j.tup[1].c.Kind() == constant.Bool {
				gotOK := constant.BoolVal(j.tup[1].c)
				if gotOK == fits {
					if !fits {
						okCell = true
					} else if j.tup[0].k == kConst && constant.Compare(j.tup[0].c, token.EQL, constant.Make(v)) {
						okCell = true
					}
				}
			}
			if !okCell {
				bad++
				if bad <= 2 {
					key := fmt.Sprintf("narrow.ToInteger[%s,%s]|%s", to, from, v)
					if j.k != kTuple || j.tup[1].k != kConst {
						r.undecided(key, fmt.Sprintf("narrow.ToInteger[%s](%s(%s)) could not be evaluated: %s", to, from, v, got), p.pos(fn.Pos()), "not foldable")
					} else {
						r.bad(key, fmt.Sprintf("narrow.ToInteger[%s](%s(%s)) = %s; representable in %s: %v", to, from, v, got, to, fits), p.pos(fn.Pos()), "narrowing must succeed exactly when the value is representable in the target type, and then return it unchanged")
					}
				}
			}
		}
		if bad == 0 {
			r.ok(fmt.Sprintf("narrow.ToInteger[%s,%s]|pool", to, from), fmt.Sprintf("narrow.ToInteger[%s] from %s succeeds exactly for representable values on %d boundary values", to, from, n), p.pos(fn.Pos()), "constant propagation with fixed-width integer semantics over the boundary pool", true)
		}
	}
	r.floor("instantiations", 121)
	// fhirconv.ToInteger[To, *dtpb.{Integer,UnsignedInt,PositiveInt}]
	finsts := map[string]*ssa.Function{}
	for fn := range p.AllFns {
		if o := fn.Origin(); o != nil && short(o) == "internal/fhirconv.ToInteger" && len(fn.Blocks) > 0 && len(fn.TypeArgs()) == 2 {
			if _, ok := fn.TypeArgs()[0].(*types.Basic); !ok {
				continue
			}
			pt, ok := fn.TypeArgs()[1].(*types.Pointer)
			if !ok {
				continue
			}
			finsts[typeShort(fn.TypeArgs()[0])+"<-"+namedName(pt.Elem())] = fn
		}
	}
	keys = keys[:0]
	for k := range finsts {
		keys = append(keys, k)
	}
	sort.Strings(keys)
	for _, k := range keys {
		fn := finsts[k]
		to := typeShort(fn.TypeArgs()[0])
		elem := namedName(fn.TypeArgs()[1].(*types.Pointer).Elem())
		src := "uint32"
		if elem == "Integer" {
			src = "int32"
		}
		flo, fhi := intRange(src, word)
		tlo, thi := intRange(to, word)
		r.count("fhirconv_instantiations", 1)
		bad, n := 0, 0
		for _, v := range poolSet {
			if v.Cmp(flo) < 0 || v.Cmp(fhi) > 0 {
				continue
			}
			n++
			r.count("evaluations", 1)
			an := newAnalyzer()
			an.maxBlocks = 200
			an.maxDepth = 7
			cv := constant.Make(v)
			an.callModel = func(c *ssa.CallCommon, args []aval) (aval, bool) {
				if c.IsInvoke() && c.Method.Name() == "GetValue" {
					return aval{k: kConst, c: cv}, true
				}
				return aval{}, false
			}
			res := an.analyze(fn, []aval{{k: kNonNil, dyn: fn.TypeArgs()[1]}})
			fits := v.Cmp(tlo) >= 0 && v.Cmp(thi) <= 0
			okCell := len(res.rets) > 0
			got := ""
			for _, ri := range res.rets {
				got += " " + aval{k: kTuple, tup: ri.vals}.String()
				if fits {
					if !(ri.vals[1].k == kNil && ri.vals[0].k == kConst && constant.Compare(ri.vals[0].c, token.EQL, cv)) {
						okCell = false
					}
				} else if !(ri.vals[1].k == kNonNil && hasNote(ri.vals[1], "fhirconv.ErrIntegerTruncated")) {
					okCell = false
				}
			}
			if !okCell {
				bad++
				if bad <= 2 {
					r.bad(fmt.Sprintf("fhirconv.ToInteger[%s,%s]|%s", to, elem, v), fmt.Sprintf("fhirconv.ToInteger[%s] of a FHIR %s holding %s returns%s; representable in %s: %v", to, elem, v, got, to, fits), p.pos(fn.Pos()), "the conversion must return the value when it is representable and ErrIntegerTruncated otherwise")
				}
			}
		}
		if bad == 0 {
			r.ok(fmt.Sprintf("fhirconv.ToInteger[%s,%s]|pool", to, elem), fmt.Sprintf("fhirconv.ToInteger[%s] of a FHIR %s returns the value exactly when representable, ErrIntegerTruncated otherwise (%d boundary values)", to, elem, n), p.pos(fn.Pos()), "constant propagation with GetValue() pinned", true)
		}
	}
	r.floor("fhirconv_instantiations", 33)
	return r
}

func funcDeclOf(p *Program, pkgRel, fn string) (*ast.FuncDecl, *packages.Package, error) {
	pk := p.ByPath[mod+"/"+pkgRel]
	if pk == nil {
		return nil, nil, fmt.Errorf("anchor: package %s not loaded", pkgRel)
	}
	fd := findFuncDecl(pk, "", fn)
	if fd == nil {
		return nil, nil, fmt.Errorf("anchor: %s.%s not found", pkgRel, fn)
	}
	return fd, pk, nil
}

// ---------- LIT6: FHIR temporal elements render as the value they hold ----------

// fhirconv.{Date,DateTime,Instant,Time}ToString are evaluated (package time
// folded on known values) on elements whose fields are constants — instants
// from year 0001 to 9999, every precision, several zone strings — and compared
// with the civil rendering computed by the checker's own calendar.
func ruleLIT6(p *Program) *RuleResult {
	r := newResult("LIT6")
	type civ struct{ y, mo, d, h, mi, s, us int }
	instants := []civ{{1, 1, 1, 0, 0, 0, 0}, {1677, 9, 21, 0, 12, 43, 0}, {1677, 9, 20, 12, 0, 0, 0}, {1969, 12, 31, 23, 59, 59, 999999}, {1970, 1, 1, 0, 0, 0, 0},
		{2020, 2, 29, 13, 5, 9, 120000}, {2262, 4, 11, 23, 47, 16, 0}, {2262, 4, 12, 0, 0, 0, 0}, {9999, 12, 31, 23, 59, 59, 123456}}
	zones := []struct {
		s   string
		off int
	}{{"", 0}, {"Z", 0}, {"UTC", 0}, {"+05:30", 19800}, {"-11:00", -39600}}
	type target struct {
		typ, fn string
		precs   map[string]string // enum name -> FHIR format over tokens Y M D h m s f3 f6 Z
	}
	targets := []target{
		{"Date", "DateToString", map[string]string{"Date_YEAR": "Y", "Date_MONTH": "Y-M", "Date_DAY": "Y-M-D"}},
		{"DateTime", "DateTimeToString", map[string]string{"DateTime_YEAR": "Y", "DateTime_MONTH": "Y-M", "DateTime_DAY": "Y-M-D", "DateTime_SECOND": "Y-M-DTh:m:sZ", "DateTime_MILLISECOND": "Y-M-DTh:m:s.f3Z", "DateTime_MICROSECOND": "Y-M-DTh:m:s.f6Z"}},
		{"Instant", "InstantToString", map[string]string{"Instant_SECOND": "Y-M-DTh:m:sZ", "Instant_MILLISECOND": "Y-M-DTh:m:s.f3Z", "Instant_MICROSECOND": "Y-M-DTh:m:s.f6Z"}},
	}
	enumVal := func(name string) (constant.Value, bool) {
		for path, pk := range p.SSAPkg {
			if path == dtPkgPath {
				if c, ok := pk.Pkg.Scope().Lookup(name).(*types.Const); ok {
					return c.Val(), true
				}
			}
		}
		return nil, false
	}
	render := func(f string, c civ, zone string) string {
		rep := strings.NewReplacer("Y", fmt.Sprintf("%04d", c.y), "M", fmt.Sprintf("%02d", c.mo), "D", fmt.Sprintf("%02d", c.d), "h", fmt.Sprintf("%02d", c.h),
			"m", fmt.Sprintf("%02d", c.mi), "s", fmt.Sprintf("%02d", c.s), "f3", fmt.Sprintf("%03d", c.us/1000), "f6", fmt.Sprintf("%06d", c.us), "Z", zone)
		return rep.Replace(f)
	}
	mkElem := func(typ string, fields map[string]aval) (aval, error) {
		t := typeByName(p, dtPkgPath, typ)
		if t == nil {
			return aval{}, fmt.Errorf("anchor: datatypes %s not found", typ)
		}
		st := t.Underlying().(*types.Struct)
		e := aval{k: kStruct}
		for i := 0; i < st.NumFields(); i++ {
			if v, ok := fields[st.Field(i).Name()]; ok {
				e.elems = append(e.elems, v)
			} else {
				e.elems = append(e.elems, zeroOf(st.Field(i).Type()))
			}
		}
		return ptrTo(e), nil
	}
	for _, tg := range targets {
		fn, err := p.Func("internal/fhirconv", tg.fn)
		if err != nil {
			return r.anchorFail(err)
		}
		for _, pv := range precisionEnum(p, tg.typ) {
			format, known := tg.precs[pv]
			if !known {
				continue // PRECISION_UNSPECIFIED
			}
			cv, _ := enumVal(pv)
			bad, n := 0, 0
			first := ""
			for _, c := range instants {
				for _, z := range zones {
					n++
					r.count("evaluations", 1)
					// the element holds the instant of the civil time c in zone z
					us := (int64(daysFromCivil(c.y, c.mo, c.d))*86400+int64(c.h*3600+c.mi*60+c.s)-int64(z.off))*1000000 + int64(c.us)
					elem, err := mkElem(tg.typ, map[string]aval{"ValueUs": cInt(us), "Timezone": cStr(z.s), "Precision": {k: kConst, c: cv}})
					if err != nil {
						return r.anchorFail(err)
					}
					an := newAnalyzer()
					an.maxBlocks = 300
					an.maxDepth = 6
					got, ok := constStr(an.analyze(fn, []aval{elem}).joinedReturn())
					zs := fmt.Sprintf("%+03d:%02d", z.off/3600, (z.off%3600)/60)
					if z.off < 0 {
						zs = fmt.Sprintf("-%02d:%02d", -z.off/3600, (-z.off%3600)/60)
					}
					want := render(format, c, zs)
					if !ok || got != want {
						bad++
						if first == "" {
							if !ok {
								first = fmt.Sprintf("the element for %s (zone %q) could not be evaluated", render("Y-M-DTh:m:s.f6", c, ""), z.s)
							} else {
								first = fmt.Sprintf("the element holding %s in zone %q renders as %q, FHIR form %q", render("Y-M-DTh:m:s.f6", c, ""), z.s, got, want)
							}
						}
					}
				}
			}
			key := fmt.Sprintf("fhirconv.%s|%s", tg.fn, pv)
			if bad == 0 {
				r.ok(key, fmt.Sprintf("%s renders %s elements as the civil time they hold on %d instants x zones (years 0001–9999)", tg.fn, pv, n), p.pos(fn.Pos()), "constant propagation with the element's fields pinned and package time folded, compared with the checker's calendar", true)
			} else {
				r.bad(key, fmt.Sprintf("%s with precision %s: %d of %d cells differ; first: %s", tg.fn, pv, bad, n, first), p.pos(fn.Pos()), "the string form of a FHIR temporal element must denote the instant, precision and offset the element holds")
			}
		}
	}
	// Time: microseconds of day
	fn, err := p.Func("internal/fhirconv", "TimeToString")
	if err != nil {
		return r.anchorFail(err)
	}
	for pv, format := range map[string]string{"Time_SECOND": "h:m:s", "Time_MILLISECOND": "h:m:s.f3", "Time_MICROSECOND": "h:m:s.f6"} {
		cv, _ := enumVal(pv)
		bad, n := 0, 0
		first := ""
		for _, c := range []civ{{h: 0}, {h: 23, mi: 59, s: 59, us: 999999}, {h: 12, mi: 30, s: 15, us: 250000}, {h: 1, mi: 2, s: 3, us: 4005}} {
			n++
			r.count("evaluations", 1)
			us := int64(c.h*3600+c.mi*60+c.s)*1000000 + int64(c.us)
			elem, err := mkElem("Time", map[string]aval{"ValueUs": cInt(us), "Precision": {k: kConst, c: cv}})
			if err != nil {
				return r.anchorFail(err)
			}
			an := newAnalyzer()
			an.maxBlocks = 300
			got, ok := constStr(an.analyze(fn, []aval{elem}).joinedReturn())
			want := render(format, c, "")
			if !ok || got != want {
				bad++
				if first == "" {
					first = fmt.Sprintf("%q (evaluated=%v), FHIR form %q", got, ok, want)
				}
			}
		}
		key := "fhirconv.TimeToString|" + pv
		if bad == 0 {
			r.ok(key, fmt.Sprintf("TimeToString renders %s elements as the time of day they hold (%d values)", pv, n), p.pos(fn.Pos()), "constant propagation with the element's fields pinned", true)
		} else {
			r.bad(key, fmt.Sprintf("TimeToString with precision %s: %d of %d cells differ; first: %s", pv, bad, n, first), p.pos(fn.Pos()), "the string form must denote the time the element holds")
		}
	}
	r.floor("evaluations", 400)
	return r
}
