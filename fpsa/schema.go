package main

// EN-SCHEMA: R4 schema facts read from the generated Go types of
// github.com/google/fhir/go/proto/... (go/types only; never executed).

import (
	"fmt"
	"go/types"
	"reflect"
	"sort"
	"strings"
)

const fhirProtoPrefix = "github.com/google/fhir/go/proto/google/fhir/proto/r4/core/"
const dtPkgPath = fhirProtoPrefix + "datatypes_go_proto"
const bcrPkgPath = fhirProtoPrefix + "resources/bundle_and_contained_resource_go_proto"

func (p *Program) typesPkg(path string) (*types.Package, error) {
	pk := p.ByPath[path]
	if pk == nil || pk.Types == nil {
		return nil, fmt.Errorf("anchor: package %s not loaded", path)
	}
	return pk.Types, nil
}

// schemaPrimitives: datatype messages with a scalar Value (string, bool,
// int32, uint32, []byte) or ValueUs (int64) field and no enum value.
func schemaPrimitives(p *Program) ([]string, error) {
	tp, err := p.typesPkg(dtPkgPath)
	if err != nil {
		return nil, err
	}
	var out []string
	for _, n := range tp.Scope().Names() {
		tn, ok := tp.Scope().Lookup(n).(*types.TypeName)
		if !ok {
			continue
		}
		st, ok := tn.Type().Underlying().(*types.Struct)
		if !ok || !isProtoMessagePtr(types.NewPointer(tn.Type())) {
			continue
		}
		if n == "ReferenceId" || strings.Contains(n, "_") {
			continue
		}
		for i := 0; i < st.NumFields(); i++ {
			f := st.Field(i)
			switch f.Name() {
			case "Value":
				switch ft := f.Type().(type) {
				case *types.Basic:
					out = append(out, n)
				case *types.Slice:
					if b, ok := ft.Elem().(*types.Basic); ok && b.Kind() == types.Byte {
						out = append(out, n)
					}
				}
			case "ValueUs":
				out = append(out, n)
			}
		}
	}
	sort.Strings(out)
	if len(out) < 15 {
		return nil, fmt.Errorf("schema: only %d primitive datatypes found", len(out))
	}
	return out, nil
}

type oneofMember struct {
	Wrapper   string // Go wrapper struct name, e.g. ContainedResource_Account
	Field     string // Go field name, e.g. Account
	ProtoName string // proto field name from the tag, e.g. account
	FieldType string // e.g. *account_go_proto.Account
	TypeName  string // e.g. Account
}

// oneofMembers lists the wrapper structs implementing the marker interface
// isX_Y of a oneof in the given package.
func oneofMembers(p *Program, pkgPath, marker string) ([]oneofMember, error) {
	tp, err := p.typesPkg(pkgPath)
	if err != nil {
		return nil, err
	}
	mo, ok := tp.Scope().Lookup(marker).(*types.TypeName)
	if !ok {
		return nil, fmt.Errorf("anchor: %s.%s not found", pkgPath, marker)
	}
	iface, ok := mo.Type().Underlying().(*types.Interface)
	if !ok {
		return nil, fmt.Errorf("anchor: %s is not an interface", marker)
	}
	var out []oneofMember
	for _, n := range tp.Scope().Names() {
		tn, ok := tp.Scope().Lookup(n).(*types.TypeName)
		if !ok {
			continue
		}
		st, ok := tn.Type().Underlying().(*types.Struct)
		if !ok || st.NumFields() != 1 {
			continue
		}
		if !types.Implements(types.NewPointer(tn.Type()), iface) {
			continue
		}
		f := st.Field(0)
		m := oneofMember{Wrapper: n, Field: f.Name(), FieldType: typeShort(f.Type()), TypeName: namedName(f.Type())}
		tag := reflect.StructTag(st.Tag(0)).Get("protobuf")
		for _, part := range strings.Split(tag, ",") {
			if strings.HasPrefix(part, "name=") {
				m.ProtoName = strings.TrimPrefix(part, "name=")
			}
		}
		out = append(out, m)
	}
	sort.Slice(out, func(i, j int) bool { return out[i].Wrapper < out[j].Wrapper })
	return out, nil
}

type choiceWrapper struct {
	Pkg, Name string
	OneofName string
}

// choiceWrappers: message structs having a field tagged protobuf_oneof:"choice".
func choiceWrappers(p *Program) ([]choiceWrapper, error) {
	var out []choiceWrapper
	var paths []string
	for path := range p.ByPath {
		if strings.HasPrefix(path, fhirProtoPrefix) {
			paths = append(paths, path)
		}
	}
	sort.Strings(paths)
	for _, path := range paths {
		tp := p.ByPath[path].Types
		if tp == nil {
			continue
		}
		for _, n := range tp.Scope().Names() {
			tn, ok := tp.Scope().Lookup(n).(*types.TypeName)
			if !ok {
				continue
			}
			st, ok := tn.Type().Underlying().(*types.Struct)
			if !ok {
				continue
			}
			for i := 0; i < st.NumFields(); i++ {
				if oo := reflect.StructTag(st.Tag(i)).Get("protobuf_oneof"); oo == "choice" {
					out = append(out, choiceWrapper{Pkg: path, Name: n, OneofName: oo})
				}
			}
		}
	}
	if len(out) < 100 {
		return nil, fmt.Errorf("schema: only %d choice wrappers found (packages loaded: %d)", len(out), len(paths))
	}
	return out, nil
}

// protoMessageName: the proto message name of a generated Go struct
// (Patient_Contact → Contact nested in Patient).
func protoMessageName(goName string) string {
	if i := strings.LastIndex(goName, "_"); i >= 0 {
		return goName[i+1:]
	}
	return goName
}

// repeatedScalarFields: message fields of the R4 protos that are repeated
// scalars/enums (slice types other than []byte whose element is not a message
// pointer).  protoreflect.List elements of such fields are not messages.
func repeatedScalarFields(p *Program) ([]string, int, error) {
	var out []string
	nmsg := 0
	var paths []string
	for path := range p.ByPath {
		if strings.HasPrefix(path, fhirProtoPrefix) {
			paths = append(paths, path)
		}
	}
	sort.Strings(paths)
	for _, path := range paths {
		tp := p.ByPath[path].Types
		if tp == nil {
			continue
		}
		for _, n := range tp.Scope().Names() {
			tn, ok := tp.Scope().Lookup(n).(*types.TypeName)
			if !ok {
				continue
			}
			st, ok := tn.Type().Underlying().(*types.Struct)
			if !ok || !isProtoMessagePtr(types.NewPointer(tn.Type())) {
				continue
			}
			nmsg++
			for i := 0; i < st.NumFields(); i++ {
				f := st.Field(i)
				if !f.Exported() {
					continue
				}
				sl, ok := f.Type().(*types.Slice)
				if !ok {
					continue
				}
				if b, ok := sl.Elem().(*types.Basic); ok && b.Kind() == types.Byte {
					continue
				}
				if pt, ok := sl.Elem().(*types.Pointer); ok {
					if _, isStruct := pt.Elem().Underlying().(*types.Struct); isStruct {
						continue
					}
				}
				out = append(out, n+"."+f.Name())
			}
		}
	}
	if nmsg < 1000 {
		return nil, nmsg, fmt.Errorf("schema: only %d message types scanned", nmsg)
	}
	return out, nmsg, nil
}
