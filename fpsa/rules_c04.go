package main

// C04 — compiled expressions are immutable, deterministic and goroutine-safe.
// GLB1 package-level state is read-only after init, GLB2 register-if-absent,
// GLB3 one clock / no zone, GLB4 Context.Clone carries the evaluation state,
// GLB5 per-call Context, plus MUT2/MUT3 from the Compile entry points.

import (
	"fmt"
	"go/token"
	"go/types"
	"strings"

	"golang.org/x/tools/go/ssa"
)

func apiRepoFuncs(p *Program, r *RuleResult) []*ssa.Function {
	reach, err := p.Reach("api")
	if err != nil {
		r.anchorFail(err)
		return nil
	}
	return RepoReach(reach)
}

// readOnlyUse decides whether value v (loaded from a package-level map/slice)
// is used only by reads.  Passing it to an in-repo static callee is followed
// into the callee's parameter (bounded depth).
func readOnlyUse(v ssa.Value, depth int, why *string) bool {
	refs := v.Referrers()
	if refs == nil {
		return true
	}
	for _, ref := range *refs {
		switch x := ref.(type) {
		case *ssa.Lookup, *ssa.Range, *ssa.DebugRef:
		case *ssa.Index:
		case *ssa.IndexAddr:
			// element address: only loads allowed
			for _, r2 := range *x.Referrers() {
				switch y := r2.(type) {
				case *ssa.UnOp, *ssa.DebugRef:
				case *ssa.Store:
					if y.Addr == x {
						*why = "element store"
						return false
					}
					*why = "element address stored"
					return false
				default:
					*why = "element address escapes (" + r2.String() + ")"
					return false
				}
			}
		case *ssa.BinOp: // comparison with nil
		case *ssa.Slice:
			if !readOnlyUse(x, depth, why) {
				return false
			}
		case *ssa.Phi:
			if depth > 4 || !readOnlyUse(x, depth+1, why) {
				if *why == "" {
					*why = "flows through phi"
				}
				return false
			}
		case *ssa.ChangeType:
			if !readOnlyUse(x, depth, why) {
				return false
			}
		case *ssa.Call:
			c := x.Common()
			if b, ok := c.Value.(*ssa.Builtin); ok {
				switch b.Name() {
				case "len", "cap":
					continue
				case "append":
					if len(c.Args) > 0 && c.Args[0] == v {
						*why = "append to package-level slice"
						return false
					}
					// appended *from* (spread): copies elements, read-only
					continue
				case "copy":
					if c.Args[0] == v {
						*why = "copy into package-level slice"
						return false
					}
					continue
				case "delete", "clear":
					*why = b.Name() + " on package-level map"
					return false
				}
				*why = "builtin " + b.Name()
				return false
			}
			sc := c.StaticCallee()
			if sc != nil && len(sc.Blocks) > 0 && depth < 3 && (inRepoFn(sc) || isPureReadLib(sc)) {
				ok := true
				for i, a := range c.Args {
					if a == v && i < len(sc.Params) {
						if !readOnlyUse(sc.Params[i], depth+1, why) {
							ok = false
						}
					}
				}
				if !ok {
					*why = "passed to " + short(sc) + " which " + *why
					return false
				}
				continue
			}
			if sc != nil && readOnlyLib[sc.RelString(nil)] {
				continue
			}
			if sc != nil && sc.Origin() != nil && readOnlyLib[sc.Origin().RelString(nil)] {
				continue
			}
			*why = "passed to " + callName(c)
			return false
		case *ssa.MapUpdate:
			*why = "map update"
			return false
		case *ssa.Return:
			*why = "returned to the caller"
			return false
		case *ssa.Store:
			*why = "stored (" + x.Addr.String() + ")"
			return false
		case *ssa.MakeInterface:
			*why = "converted to interface (escapes)"
			return false
		case *ssa.MakeClosure:
			*why = "captured by closure"
			return false
		default:
			*why = "used by " + ref.String()
			return false
		}
	}
	return true
}

var readOnlyLib = map[string]bool{
	"strings.Join": true, "slices.Contains": true, "slices.Index": true, "golang.org/x/exp/slices.Contains": true,
	"golang.org/x/exp/slices.Index": true, "sort.SearchStrings": true, "strings.NewReplacer": true,
}

func isPureReadLib(fn *ssa.Function) bool { return false }

func ruleGLB1(p *Program) *RuleResult {
	r := newResult("GLB1")
	fns := apiRepoFuncs(p, r)
	r.count("functions", len(fns))
	isRef := func(t types.Type) bool {
		switch t.Underlying().(type) {
		case *types.Map, *types.Slice:
			return true
		}
		return false
	}
	for _, fn := range fns {
		if fn.Name() == "init" || strings.HasPrefix(fn.Name(), "init#") {
			continue
		}
		for _, b := range fn.Blocks {
			for _, ins := range b.Instrs {
				switch x := ins.(type) {
				case *ssa.Store:
					root := rootOfAddr(x.Addr)
					if g, ok := root.(*ssa.Global); ok && inRepoPath(g.Pkg.Pkg.Path()) {
						r.count("global_stores", 1)
						r.bad(short(fn)+"|store "+g.Pkg.Pkg.Name()+"."+g.Name(), "store to package-level variable "+g.Name(), p.instrPos(ins),
							"a package-level variable is written in code reachable from the public API: shared between all evaluations and compilations (data race, cross-call state)")
					}
				case *ssa.UnOp:
					if x.Op != token.MUL {
						continue
					}
					g, ok := x.X.(*ssa.Global)
					if !ok || !inRepoPath(g.Pkg.Pkg.Path()) || !isRef(x.Type()) {
						continue
					}
					r.count("global_ref_loads", 1)
					why := ""
					key := short(fn) + "|use " + g.Pkg.Pkg.Name() + "." + g.Name()
					if readOnlyUse(x, 0, &why) {
						r.ok(key, "package-level "+g.Name()+" is only read", p.instrPos(ins), "escape rule: every use is Lookup/Range/len/Index or a read-only callee", true)
					} else {
						r.bad(key, "package-level "+g.Name()+" escapes or is written: "+why, p.instrPos(ins),
							"a package-level map/slice "+why+" in code reachable from the public API (it could then be modified by a compilation/evaluation and observed by another)")
					}
				}
			}
		}
	}
	r.floor("functions", 250)
	r.floor("global_ref_loads", 2)
	return r
}

// sameAccess: do two values denote the same variable/field read (structural
// equality of the load chain; go/ssa has no CSE)?
func sameAccess(a, b ssa.Value) bool {
	if a == b {
		return true
	}
	switch x := a.(type) {
	case *ssa.UnOp:
		y, ok := b.(*ssa.UnOp)
		return ok && x.Op == y.Op && sameAccess(x.X, y.X)
	case *ssa.FieldAddr:
		y, ok := b.(*ssa.FieldAddr)
		return ok && x.Field == y.Field && sameAccess(x.X, y.X)
	case *ssa.Field:
		y, ok := b.(*ssa.Field)
		return ok && x.Field == y.Field && sameAccess(x.X, y.X)
	case *ssa.ChangeType:
		y, ok := b.(*ssa.ChangeType)
		return ok && sameAccess(x.X, y.X)
	case *ssa.Const:
		y, ok := b.(*ssa.Const)
		return ok && x.Value != nil && y.Value != nil && x.Value.ExactString() == y.Value.ExactString()
	case *ssa.IndexAddr:
		y, ok := b.(*ssa.IndexAddr)
		return ok && sameAccess(x.X, y.X) && sameAccess(x.Index, y.Index)
	case *ssa.BinOp:
		y, ok := b.(*ssa.BinOp)
		return ok && x.Op == y.Op && sameAccess(x.X, y.X) && sameAccess(x.Y, y.Y)
	case *ssa.Call:
		// len(x) of the same x
		y, ok := b.(*ssa.Call)
		if !ok {
			return false
		}
		bx, okx := x.Common().Value.(*ssa.Builtin)
		by, oky := y.Common().Value.(*ssa.Builtin)
		return okx && oky && bx.Name() == by.Name() && (bx.Name() == "len" || bx.Name() == "cap") && sameAccess(x.Common().Args[0], y.Common().Args[0])
	case *ssa.MakeInterface:
		y, ok := b.(*ssa.MakeInterface)
		return ok && sameAccess(x.X, y.X)
	case *ssa.ChangeInterface:
		y, ok := b.(*ssa.ChangeInterface)
		return ok && sameAccess(x.X, y.X)
	case *ssa.Convert:
		y, ok := b.(*ssa.Convert)
		return ok && types.Identical(x.Type(), y.Type()) && sameAccess(x.X, y.X)
	}
	return false
}

// absentGuarded: MapUpdate mu is only reachable through the "absent" edge of
// a comma-ok lookup of the same map and key.
func absentGuarded(mu *ssa.MapUpdate) (bool, string) {
	fn := mu.Parent()
	// the presence test may be made by a helper: a call h(m, k) / m.h(k) of an in-repo
	// function every return of which is the ok flag of `_, ok := m[k]` on its own
	// parameters, whose true edge leaves before the update
	for _, b := range fn.Blocks {
		ifi, ok := b.Instrs[len(b.Instrs)-1].(*ssa.If)
		if !ok {
			continue
		}
		cond := ifi.Cond
		absentIdx := 1
		if u, ok := cond.(*ssa.UnOp); ok && u.Op == token.NOT {
			cond, absentIdx = u.X, 0
		}
		call, ok := cond.(*ssa.Call)
		if !ok {
			continue
		}
		sc := call.Common().StaticCallee()
		if sc == nil || !inRepoFn(sc) || len(sc.Blocks) == 0 {
			continue
		}
		mi, ki := presenceTestParams(sc)
		if mi < 0 || ki < 0 || mi >= len(call.Common().Args) || ki >= len(call.Common().Args) {
			continue
		}
		if sameAccess(call.Common().Args[mi], mu.Map) && sameAccess(call.Common().Args[ki], mu.Key) && edgeDominates(b, absentIdx, mu.Block()) {
			return true, "dominated by the absent edge of " + short(sc) + ", which reports `_, ok := m[k]` of its own arguments"
		}
	}
	for _, b := range fn.Blocks {
		for _, ins := range b.Instrs {
			lk, ok := ins.(*ssa.Lookup)
			if !ok || !lk.CommaOk || !sameAccess(lk.X, mu.Map) || !sameAccess(lk.Index, mu.Key) {
				continue
			}
			for _, ref := range *lk.Referrers() {
				ex, ok := ref.(*ssa.Extract)
				if !ok || ex.Index != 1 {
					continue
				}
				for _, r2 := range *ex.Referrers() {
					var ifi *ssa.If
					absentIdx := 1 // `if ok {..} else {absent}`
					switch y := r2.(type) {
					case *ssa.If:
						ifi = y
					case *ssa.UnOp:
						if y.Op == token.NOT {
							for _, r3 := range *y.Referrers() {
								if i3, ok := r3.(*ssa.If); ok {
									ifi = i3
									absentIdx = 0
								}
							}
						}
					}
					if ifi == nil {
						continue
					}
					if edgeDominates(ifi.Block(), absentIdx, mu.Block()) {
						return true, "dominated by the absent edge of `_, ok := m[k]`"
					}
				}
			}
		}
	}
	return false, ""
}

// ctxParamFrom: v is a parameter of helper (a function the entry function fn calls
// directly) and every call of helper from fn passes fn's own ctx parameter there.
func ctxParamFrom(helper *ssa.Function, v ssa.Value, fn *ssa.Function) bool {
	prm, ok := v.(*ssa.Parameter)
	if !ok || helper == fn || len(fn.Params) == 0 {
		return false
	}
	pi := -1
	for i, q := range helper.Params {
		if q == prm {
			pi = i
		}
	}
	if pi < 0 {
		return false
	}
	found := false
	for _, b := range fn.Blocks {
		for _, ins := range b.Instrs {
			c, ok := ins.(*ssa.Call)
			if !ok {
				continue
			}
			sc := c.Common().StaticCallee()
			if sc == nil || (sc != helper && sc.Origin() != helper && helper.Origin() != sc && (sc.Origin() == nil || sc.Origin() != helper.Origin())) {
				continue
			}
			if pi >= len(c.Common().Args) || c.Common().Args[pi] != ssa.Value(fn.Params[0]) {
				return false
			}
			found = true
		}
	}
	return found
}

// presenceTestParams: fn returns, on every path, the ok flag of one comma-ok
// lookup m[k] where m and k are two of its parameters: their indices (else -1,-1).
func presenceTestParams(fn *ssa.Function) (int, int) {
	mi, ki := -1, -1
	for _, b := range fn.Blocks {
		ret, ok := b.Instrs[len(b.Instrs)-1].(*ssa.Return)
		if !ok {
			continue
		}
		if len(ret.Results) != 1 {
			return -1, -1
		}
		ex, ok := ret.Results[0].(*ssa.Extract)
		if !ok || ex.Index != 1 {
			return -1, -1
		}
		lk, ok := ex.Tuple.(*ssa.Lookup)
		if !ok || !lk.CommaOk {
			return -1, -1
		}
		m, k := -1, -1
		for i, prm := range fn.Params {
			if lk.X == ssa.Value(prm) {
				m = i
			}
			if lk.Index == ssa.Value(prm) {
				k = i
			}
		}
		if m < 0 || k < 0 || (mi >= 0 && (mi != m || ki != k)) {
			return -1, -1
		}
		mi, ki = m, k
	}
	return mi, ki
}

func ruleGLB2(p *Program) *RuleResult {
	r := newResult("GLB2")
	fr := newFreshness(p)
	for _, rel := range []string{"fhirpath/internal/funcs", "fhirpath/evalopts", "fhirpath/compopts", "fhirpath/internal/opts"} {
		sp, err := p.Pkg(rel)
		if err != nil {
			return r.anchorFail(err)
		}
		for _, fn := range p.RepoFuncs() {
			if fnPkgPath(fn) != sp.Pkg.Path() || fn.Name() == "init" {
				continue
			}
			for _, b := range fn.Blocks {
				for _, ins := range b.Instrs {
					mu, ok := ins.(*ssa.MapUpdate)
					if !ok {
						continue
					}
					r.count("map_updates", 1)
					key := short(fn) + "|m[k]=v"
					if fr.isFresh(mu.Map) {
						r.ok(key, "update of a map allocated in this activation", p.instrPos(ins), "fresh map (private copy)", false)
						continue
					}
					if ok, how := absentGuarded(mu); ok {
						r.ok(key, "insert-if-absent into "+fr.reason(mu.Map), p.instrPos(ins), how, true)
					} else {
						r.bad(key, "unguarded update of "+fr.reason(mu.Map), p.instrPos(ins),
							"a function table / variable map entry can be replaced: the update is not dominated by the absent edge of a comma-ok lookup of the same map and key")
					}
				}
			}
		}
	}
	r.floor("map_updates", 2)
	return r
}

// GLB3 — clock and zone.
var forbiddenCalls = map[string]string{
	"time.Now": "wall clock", "time.Since": "wall clock", "time.Until": "wall clock",
	"time.LoadLocation": "process time zone database", "os.Getenv": "process environment", "os.LookupEnv": "process environment",
	"os.Environ": "process environment", "(time.Time).Local": "process time zone", "time.Tick": "wall clock", "time.After": "wall clock",
	"time.NewTimer": "wall clock", "time.NewTicker": "wall clock", "time.Sleep": "wall clock", "os.Hostname": "process environment",
	"os.Getpid": "process identity",
}

func ruleGLB3(p *Program) *RuleResult {
	r := newResult("GLB3")
	fns := apiRepoFuncs(p, r)
	r.count("functions", len(fns))
	for _, fn := range fns {
		inInit := short(fn) == "fhirpath/internal/expr.InitializeContext"
		for _, b := range fn.Blocks {
			for _, ins := range b.Instrs {
				switch x := ins.(type) {
				case ssa.CallInstruction:
					sc := x.Common().StaticCallee()
					if sc == nil {
						continue
					}
					name := sc.RelString(nil)
					// time.Unix/UnixMilli/UnixMicro build a value in the process-local zone: every use of
					// the result must be a re-zoning (.In/.UTC) or a zone-independent query
					if name == "time.Unix" || name == "time.UnixMilli" || name == "time.UnixMicro" {
						r.count("clock_zone_calls", 1)
						key := short(fn) + "|" + name
						v, isVal := ins.(ssa.Value)
						okUse := isVal && v.Referrers() != nil
						nuse := 0
						if okUse {
							for _, ref := range *v.Referrers() {
								if _, dbg := ref.(*ssa.DebugRef); dbg {
									continue
								}
								nuse++
								c2, ok := ref.(*ssa.Call)
								if !ok || c2.Common().StaticCallee() == nil || len(c2.Common().Args) == 0 || c2.Common().Args[0] != v {
									okUse = false
									continue
								}
								switch c2.Common().StaticCallee().RelString(nil) {
								case "(time.Time).In", "(time.Time).UTC", "(time.Time).Unix", "(time.Time).UnixMilli", "(time.Time).UnixMicro", "(time.Time).UnixNano",
									"(time.Time).Sub", "(time.Time).Equal", "(time.Time).Before", "(time.Time).After", "(time.Time).IsZero":
								default:
									okUse = false
								}
							}
						}
						if okUse && nuse > 0 {
							r.ok(key, name+" in "+short(fn)+" is re-zoned before any zone-dependent use", p.instrPos(ins), "every use of the process-local value is In()/UTC() or a zone-independent query", true)
						} else {
							r.bad(key, name+" in "+short(fn)+" yields a value in the process-local zone that is used without In()/UTC()", p.instrPos(ins),
								"rendering or calendar fields of the value depend on the process time zone: evaluation must be a function of expression, inputs and options only")
						}
						continue
					}
					what, bad := forbiddenCalls[name]
					if !bad && (fnPkgPath(sc) == "math/rand" || fnPkgPath(sc) == "math/rand/v2" || fnPkgPath(sc) == "crypto/rand") {
						what, bad = "randomness", true
					}
					if !bad {
						continue
					}
					r.count("clock_zone_calls", 1)
					key := short(fn) + "|" + name
					if inInit && (name == "time.Now" || name == "(time.Time).Local") {
						// checked below: the result must reach Context.Now through .UTC()
						r.ok(key, name+" in InitializeContext", p.instrPos(ins), "the single clock read of an evaluation (flow to Context.Now checked separately)", false)
						continue
					}
					r.bad(key, name+" ("+what+") in "+short(fn), p.instrPos(ins), "result would depend on the "+what+": evaluation must be a function of expression, inputs and options only")
				case *ssa.UnOp:
					if g, ok := x.X.(*ssa.Global); ok && x.Op == token.MUL && g.Pkg.Pkg.Path() == "time" && g.Name() == "Local" {
						r.count("clock_zone_calls", 1)
						r.bad(short(fn)+"|time.Local", "time.Local in "+short(fn), p.instrPos(ins), "result would depend on the process time zone")
					}
				}
			}
		}
	}
	// InitializeContext: Context.Now = time.Now()...UTC()
	ic, err := p.Func("fhirpath/internal/expr", "InitializeContext")
	if err != nil {
		return r.anchorFail(err)
	}
	foundNow := false
	for _, b := range ic.Blocks {
		for _, ins := range b.Instrs {
			st, ok := ins.(*ssa.Store)
			if !ok {
				continue
			}
			fa, ok := st.Addr.(*ssa.FieldAddr)
			if !ok || fieldName(fa) != "Now" {
				continue
			}
			foundNow = true
			call, ok := st.Val.(*ssa.Call)
			if ok && call.Common().StaticCallee() != nil && call.Common().StaticCallee().RelString(nil) == "(time.Time).UTC" && derivesFromCall(call.Common().Args[0], "time.Now", 4) {
				r.ok("InitializeContext|Now", "Context.Now = time.Now()…UTC()", p.instrPos(ins), "value provenance: time.Now through (time.Time).UTC", true)
			} else {
				r.bad("InitializeContext|Now", "Context.Now is not time.Now() normalised with .UTC()", p.instrPos(ins), "now()/today()/timeOfDay() would render in the process time zone or not denote the current instant")
			}
		}
	}
	if !foundNow {
		r.bad("InitializeContext|Now", "InitializeContext does not set Context.Now", p.pos(ic.Pos()), "the evaluation instant is not fixed at the start of the evaluation")
	}
	// now()/today()/timeOfDay() format ctx.Now and nothing else
	for _, n := range []string{"Now", "Today", "TimeOfDay"} {
		fn, err := p.Func("fhirpath/internal/funcs/impl", n)
		if err != nil {
			return r.anchorFail(err)
		}
		nfmt := 0
		for _, f := range withPackageCallees(fn, 2) {
			for _, b := range f.Blocks {
				for _, ins := range b.Instrs {
					call, ok := ins.(*ssa.Call)
					if !ok || call.Common().StaticCallee() == nil {
						continue
					}
					sc := call.Common().StaticCallee()
					if fnPkgPath(sc) != "time" {
						continue
					}
					nfmt++
					recv := call.Common().Args[0]
					okSrc := false
					if ld, ok := recv.(*ssa.UnOp); ok {
						// (a helper's ctx parameter stands for the argument of its call from fn)
						if fa, ok := ld.X.(*ssa.FieldAddr); ok && fieldName(fa) == "Now" && (fa.X == ssa.Value(fn.Params[0]) || ctxParamFrom(f, fa.X, fn)) {
							okSrc = true
						}
					}
					key := "impl." + n + "|" + sc.RelString(nil)
					if okSrc {
						r.ok(key, "impl."+n+" reads ctx.Now", p.instrPos(ins), "time value is the load of Context.Now of the ctx parameter", true)
					} else {
						r.bad(key, "impl."+n+" uses a time value that is not ctx.Now", p.instrPos(ins), "now()/today()/timeOfDay() must denote the one instant stored in the evaluation Context")
					}
				}
			}
		}
		if nfmt == 0 {
			r.bad("impl."+n+"|no-time-use", "impl."+n+" does not read ctx.Now", p.pos(fn.Pos()), "the function no longer derives its result from Context.Now")
		}
		r.count("clock_readers", 1)
	}
	r.floor("functions", 250)
	r.floor("clock_readers", 1)
	return r
}

func derivesFromCall(v ssa.Value, callee string, depth int) bool {
	if depth < 0 {
		return false
	}
	call, ok := v.(*ssa.Call)
	if !ok {
		return false
	}
	sc := call.Common().StaticCallee()
	if sc == nil {
		return false
	}
	if sc.RelString(nil) == callee {
		return true
	}
	// method chain on time.Time: follow the receiver
	if fnPkgPath(sc) == "time" && len(call.Common().Args) > 0 {
		return derivesFromCall(call.Common().Args[0], callee, depth-1)
	}
	return false
}

// GLB4: Context.Clone copies Now, ExternalConstants, LastResult.
var cloneCarried = []string{"Now", "ExternalConstants", "LastResult"}

func ruleGLB4(p *Program) *RuleResult {
	r := newResult("GLB4")
	fn, err := p.Method("fhirpath/internal/expr", "Context", "Clone")
	if err != nil {
		return r.anchorFail(err)
	}
	// Clone is analysed on a receiver whose fields carry marks: the Context it hands
	// back must be a freshly built object (a snapshot of this activation's allocation,
	// not the receiver) whose carried fields hold the receiver's marks
	ctxT := typeByName(p, mod+"/fhirpath/internal/expr", "Context")
	st, ok := ctxT.Underlying().(*types.Struct)
	if ctxT == nil || !ok {
		return r.anchorFail(fmt.Errorf("anchor: expr.Context is not a struct"))
	}
	recvStruct := aval{k: kStruct}
	for i := 0; i < st.NumFields(); i++ {
		recvStruct.elems = append(recvStruct.elems, nonnil("receiver."+st.Field(i).Name()))
	}
	recv := ptrTo(recvStruct)
	recv.notes = []string{"the-receiver"}
	an := newAnalyzer()
	an.snapshots = true
	res := an.analyze(fn, []aval{recv})
	if res.nonconverged || len(res.rets) == 0 {
		r.undecided("Clone|shape", "Clone could not be analysed", p.pos(fn.Pos()), "unsupported shape")
		return r
	}
	for _, f := range cloneCarried {
		r.count("fields", 1)
		idx := structFieldIndex(ctxT, f)
		okAll := idx >= 0
		for _, ri := range res.rets {
			v := ri.vals[0]
			if v.ptrOf == nil || v.ptrOf.k != kStruct || idx < 0 || idx >= len(v.ptrOf.elems) || !hasNote(v.ptrOf.elems[idx], "receiver."+f) {
				okAll = false
			}
		}
		if okAll {
			r.ok("Clone|"+f, "Clone copies "+f+" from the receiver", p.pos(fn.Pos()), "field-copy completeness (the returned object's field holds the receiver's value)", true)
		} else {
			r.bad("Clone|"+f, "Clone does not carry "+f, p.pos(fn.Pos()), "sub-expressions would not see the same instant / variables / patch target")
		}
	}
	// every return is the fresh struct (not the receiver: sharing would let
	// sub-expressions write the parent's state)
	for _, ri := range res.rets {
		v := ri.vals[0]
		if v.k == kNonNil && v.ptrOf != nil && !hasNote(v, "the-receiver") {
			r.ok("Clone|returns-fresh", "Clone returns a new Context", p.instrPos(ri.instr), "the returned value is an object allocated in Clone", false)
		} else {
			r.bad("Clone|returns-fresh", "Clone does not return a freshly built Context", p.instrPos(ri.instr), "cloned contexts must not alias the receiver")
		}
	}
	r.floor("fields", 3)
	return r
}

// GLB5: the *Context handed to the root Evaluate derives from a fresh
// InitializeContext result in the same call.
func ruleGLB5(p *Program) *RuleResult {
	r := newResult("GLB5")
	type site struct{ rel, typ, meth string }
	for _, s := range []site{{"fhirpath", "Expression", "Evaluate"}, {"fhirpath/patch", "Expression", "evaluate"}} {
		fn, err := p.Method(s.rel, s.typ, s.meth)
		if err != nil {
			return r.anchorFail(err)
		}
		n := 0
		for _, b := range fn.Blocks {
			for _, ins := range b.Instrs {
				call, ok := ins.(*ssa.Call)
				if !ok || !call.Common().IsInvoke() || call.Common().Method.Name() != "Evaluate" || len(call.Common().Args) < 1 {
					continue
				}
				n++
				r.count("root_evaluate_calls", 1)
				ctx := call.Common().Args[0]
				key := short(fn) + "|root Evaluate ctx"
				if ok, how := ctxFromInitialize(p, ctx, 0); ok {
					r.ok(key, "root Evaluate receives the Context built by InitializeContext in this call", p.instrPos(ins), how, true)
				} else {
					r.bad(key, "root Evaluate receives a Context that is not provably the fresh InitializeContext result ("+how+")", p.instrPos(ins), "evaluation state could outlive or be shared between calls")
				}
				// the receiver of the root call is the compiled node stored in the Expression
				_ = ctx
			}
		}
		if n == 0 {
			r.bad(short(fn)+"|no-root-call", "no root Evaluate call found in "+short(fn), p.pos(fn.Pos()), "unexpected shape")
		}
	}
	r.floor("root_evaluate_calls", 2)
	return r
}

// ctxFromInitialize traces a *Context value back to expr.InitializeContext.
func ctxFromInitialize(p *Program, v ssa.Value, depth int) (bool, string) {
	if depth > 8 {
		return false, "trace too deep"
	}
	switch x := v.(type) {
	case *ssa.Call:
		if sc := x.Common().StaticCallee(); sc != nil {
			if short(sc) == "fhirpath/internal/expr.InitializeContext" {
				return true, "provenance: InitializeContext result → config.Context → (ApplyOptions returns its cfg) → ctx argument"
			}
		}
		return false, "result of " + callName(x.Common())
	case *ssa.UnOp:
		if x.Op != token.MUL {
			return false, "unop"
		}
		fa, ok := x.X.(*ssa.FieldAddr)
		if !ok {
			return false, "load of " + x.X.String()
		}
		// field of a struct pointer: find what was stored in that field of the
		// struct the pointer derives from
		base, ok2 := structOrigin(p, fa.X, 0)
		if !ok2 {
			return false, "struct origin of " + fa.X.String() + " unknown"
		}
		var stored ssa.Value
		nst := 0
		for _, ref := range *base.Referrers() {
			if fb, ok := ref.(*ssa.FieldAddr); ok && fb.Field == fa.Field {
				for _, r2 := range *fb.Referrers() {
					if st, ok := r2.(*ssa.Store); ok && st.Addr == fb {
						stored = st.Val
						nst++
					}
				}
			}
		}
		if nst != 1 {
			return false, fmt.Sprintf("%d stores to the field", nst)
		}
		return ctxFromInitialize(p, stored, depth+1)
	}
	return false, "origin " + v.String()
}

// structOrigin: the Alloc a struct pointer derives from, looking through
// calls to in-repo functions that return their first parameter unchanged
// (opts.ApplyOptions).
func structOrigin(p *Program, v ssa.Value, depth int) (*ssa.Alloc, bool) {
	o, ok := structOriginOf(v, depth)
	if !ok || o.alloc == nil {
		return nil, false
	}
	return o.alloc, true
}

// structOriginOf: the allocation (possibly in a callee that hands it back) or
// the parameter a struct pointer derives from, looking through in-repo calls
// whose every non-nil result is the same parameter or the same fresh allocation.
type ptrOrigin struct {
	alloc *ssa.Alloc
	param *ssa.Parameter
}

func structOriginOf(v ssa.Value, depth int) (ptrOrigin, bool) {
	if depth > 6 {
		return ptrOrigin{}, false
	}
	switch x := v.(type) {
	case *ssa.Alloc:
		return ptrOrigin{alloc: x}, true
	case *ssa.Parameter:
		return ptrOrigin{param: x}, true
	case *ssa.Extract:
		if call, ok := x.Tuple.(*ssa.Call); ok {
			return callResultOrigin(call, x.Index, depth)
		}
	case *ssa.Call:
		return callResultOrigin(x, 0, depth)
	case *ssa.Phi:
		var res ptrOrigin
		found := false
		for _, e := range x.Edges {
			if c, ok := e.(*ssa.Const); ok && c.IsNil() {
				continue
			}
			o, ok := structOriginOf(e, depth+1)
			if !ok || (found && o != res) {
				return ptrOrigin{}, false
			}
			res, found = o, true
		}
		return res, found
	}
	return ptrOrigin{}, false
}

func callResultOrigin(call *ssa.Call, idx int, depth int) (ptrOrigin, bool) {
	sc := call.Common().StaticCallee()
	if sc == nil || !inRepoFn(sc) || len(sc.Blocks) == 0 {
		return ptrOrigin{}, false
	}
	var res ptrOrigin
	found := false
	for _, b := range sc.Blocks {
		ret, ok := b.Instrs[len(b.Instrs)-1].(*ssa.Return)
		if !ok || idx >= len(ret.Results) {
			continue
		}
		if c, ok := ret.Results[idx].(*ssa.Const); ok && c.IsNil() {
			continue // the error path
		}
		o, ok := structOriginOf(ret.Results[idx], depth+1)
		if !ok || (found && o != res) {
			return ptrOrigin{}, false
		}
		res, found = o, true
	}
	if !found {
		return ptrOrigin{}, false
	}
	if res.param != nil {
		for i, prm := range sc.Params {
			if prm == res.param && i < len(call.Common().Args) {
				return structOriginOf(call.Common().Args[i], depth+1)
			}
		}
		return ptrOrigin{}, false
	}
	return res, true
}

// MUT2 from the Compile entry points (C04: compile calls are isolated).
func ruleMUT2Compile(p *Program) *RuleResult {
	r := newResult("MUT2c")
	mut2Scan(p, r, "compile", false)
	r.floor("functions_compile", 100)
	return r
}

// GLB6: no function of the repository (outside package initialisers) uses a
// package-level mutable container or synchronisation object: no caches, pools
// or memo tables through which one evaluation or compilation could influence
// another.
func ruleGLB6(p *Program) *RuleResult {
	r0 := newResult("GLB6")
	fns := apiRepoFuncs(p, r0)
	return purityInventoryOf(p, "GLB6", "api|no shared mutable state", "API-reachable repository", 250, []string{"fhirpath/", "internal/"}, fns)
}
