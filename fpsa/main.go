package main

// fpsa — repository-specific static analyser for the fhirpath-go properties.
//
//   fpsa check -property C01 [-tier quick|thorough]
//   fpsa check -property all
//   fpsa list
//
// Exit 0: every obligation discharged / reviewed / known finding.
// Exit 1: prints "VIOLATION property=<id> replay=<path>".
// Exit 2: the analyser itself failed (load error, panic) — also reported as a
// violation line so that a broken check is never mistaken for a pass.

import (
	"encoding/json"
	"flag"
	"fmt"
	"os"
	"path/filepath"
	"runtime/debug"
	"sort"
	"strconv"
	"strings"
	"time"
)

type ruleFn func(p *Program) *RuleResult

type propDef struct {
	ID          string
	Title       string
	Rules       []ruleFn
	Explanation string
	NotDecided  []string
	Assumptions []string
}

func main() {
	if len(os.Args) < 2 {
		fmt.Fprintln(os.Stderr, "usage: fpsa check -property Cnn [-tier quick|thorough] | fpsa list")
		os.Exit(2)
	}
	switch os.Args[1] {
	case "list":
		for _, pd := range properties() {
			fmt.Printf("%s\t%d rules\t%s\n", pd.ID, len(pd.Rules), pd.Title)
		}
	case "check":
		fs := flag.NewFlagSet("check", flag.ExitOnError)
		prop := fs.String("property", "", "property id or 'all'")
		tier := fs.String("tier", "quick", "quick|thorough")
		verbose := fs.Bool("v", false, "print every obligation")
		fs.Parse(os.Args[2:])
		if t := os.Getenv("VERIF_TIER"); t != "" && *tier == "" {
			*tier = t
		}
		os.Exit(runCheck(*prop, *tier, *verbose))
	case "anchors":
		// records the fingerprints of the unexported declarations of the current tree
		// (run on the tree the rules were confirmed on; checks only read the file)
		p, err := Load("amd64")
		if err == nil {
			err = writeAnchors(p)
		}
		if err != nil {
			fmt.Fprintln(os.Stderr, err)
			os.Exit(1)
		}
		fmt.Println("wrote fpsa/anchors.json")
	default:
		fmt.Fprintln(os.Stderr, "unknown command", os.Args[1])
		os.Exit(2)
	}
}

func runCheck(prop, tier string, verbose bool) (code int) {
	thoroughTier = tier == "thorough"
	seed := 0
	if s := os.Getenv("VERIF_SEED"); s != "" {
		seed, _ = strconv.Atoi(s)
	}
	var pds []*propDef
	for _, pd := range properties() {
		if prop == "all" || pd.ID == prop {
			pds = append(pds, pd)
		}
	}
	if len(pds) == 0 {
		fmt.Fprintf(os.Stderr, "unknown property %q\n", prop)
		return 2
	}
	fail := func(id, msg string) {
		path := writeReplay(id, []string{"ANALYSER FAILURE: " + msg})
		fmt.Printf("VIOLATION property=%s replay=%s\n", id, path)
	}
	t0 := time.Now()
	p, err := Load("amd64")
	if err != nil {
		fmt.Println(err)
		for _, pd := range pds {
			fail(pd.ID, err.Error())
		}
		return 1
	}
	fmt.Printf("fpsa: loaded %d packages, %d functions (%s) in %.1fs\n", len(p.Pkgs), len(p.AllFns), p.Arch, p.LoadS)
	var p386 *Program
	if tier == "thorough" {
		p386, err = Load("386")
		if err != nil {
			fmt.Println(err)
			for _, pd := range pds {
				fail(pd.ID, "GOARCH=386: "+err.Error())
			}
			return 1
		}
		fmt.Printf("fpsa: loaded %d packages (386) in %.1fs\n", len(p386.Pkgs), p386.LoadS)
	}
	for _, pd := range pds {
		c := checkOne(p, p386, pd, tier, seed, verbose, t0)
		if c > code {
			code = c
		}
	}
	return code
}

func checkOne(p, p386 *Program, pd *propDef, tier string, seed int, verbose bool, t0 time.Time) (code int) {
	defer func() {
		if r := recover(); r != nil {
			msg := fmt.Sprintf("panic in analyser: %v\n%s", r, debug.Stack())
			fmt.Println(msg)
			path := writeReplay(pd.ID, []string{msg})
			fmt.Printf("VIOLATION property=%s replay=%s\n", pd.ID, path)
			code = 1
		}
	}()
	t1 := time.Now()
	var results []*RuleResult
	setWordBits(p.Arch)
	theProgram = p
	for _, rf := range pd.Rules {
		results = append(results, rf(p))
	}
	extra := map[string]any{}
	if p386 != nil {
		setWordBits(p386.Arch)
		defer setWordBits(p.Arch)
		theProgram = p386
		defer func() { theProgram = p }()
		// second architecture: same rules; obligations are merged under an
		// "@386" suffix so both passes must hold.
		for _, rf := range pd.Rules {
			r := rf(p386)
			r.Rule = r.Rule + "@386"
			for i := range r.Obs {
				r.Obs[i].Rule = r.Rule
				// keep keys architecture independent so reviewed/known entries apply;
				// mark the construct instead
				r.Obs[i].Construct += " [GOARCH=386]"
			}
			results = append(results, r)
		}
		extra["second_arch"] = "386"
	}
	v, err := reResolveMerged(pd.ID, results)
	if err != nil {
		fmt.Println(err)
		path := writeReplay(pd.ID, []string{err.Error()})
		fmt.Printf("VIOLATION property=%s replay=%s\n", pd.ID, path)
		return 1
	}
	if tier == "thorough" {
		v.Stale = staleEntries(pd, v)
		if x := crossReference(p, pd); x != nil {
			extra["cross_reference"] = x
		}
	}
	wall := time.Since(t1).Seconds() + p.LoadS
	if p386 != nil {
		wall += p386.LoadS
	}
	if err := writeEvidence(p, pd, v, tier, seed, wall, extra); err != nil {
		fmt.Println("evidence:", err)
		path := writeReplay(pd.ID, []string{err.Error()})
		fmt.Printf("VIOLATION property=%s replay=%s\n", pd.ID, path)
		return 1
	}
	// report
	st := map[Status]int{}
	for _, o := range v.Obs {
		st[o.Status]++
		if verbose {
			fmt.Printf("  [%s] %s  %s  %s — %s\n", o.Status, o.Pos, o.Key, o.Construct, o.How)
		}
	}
	var rnames []string
	for _, r := range v.Results {
		rnames = append(rnames, fmt.Sprintf("%s(%d)", r.Rule, len(r.Obs)))
	}
	fmt.Printf("%s: %d obligations: %d discharged, %d reviewed, %d known-finding, %d violation, %d undecided; rules %s\n",
		pd.ID, len(v.Obs), st[Discharged], st[Reviewed], st[Known], st[Violation], st[Undecided], strings.Join(rnames, " "))
	for _, k := range v.KnownHits {
		fmt.Printf("KNOWN-FINDING: property=%s %s — fails on %s [%s]\n", pd.ID, k.What, k.Input, k.Key)
	}
	if len(v.Violations) > 0 || len(v.FloorFails) > 0 {
		var lines []string
		for _, o := range v.Violations {
			l := fmt.Sprintf("[%s] %s %s: %s — %s (key %s)", o.Status, o.Rule, o.Pos, o.Construct, o.How, o.Key)
			lines = append(lines, l)
			fmt.Println("  " + l)
		}
		for _, f := range v.FloorFails {
			lines = append(lines, "[floor] "+f)
			fmt.Println("  [floor] " + f)
		}
		path := writeReplay(pd.ID, lines)
		fmt.Printf("VIOLATION property=%s replay=%s\n", pd.ID, path)
		return 1
	}
	_ = t0
	return 0
}

// reResolveMerged resolves obligations of a two-architecture run: the lookup
// key drops the "#n" ordinal introduced by the merge when the same key appears
// once per architecture.
func reResolveMerged(prop string, results []*RuleResult) (*Verdict, error) {
	// split per architecture, resolve separately, then merge.
	var a, b []*RuleResult
	for _, r := range results {
		if strings.HasSuffix(r.Rule, "@386") {
			b = append(b, r)
		} else {
			a = append(a, r)
		}
	}
	va, err := resolve(prop, a)
	if err != nil {
		return nil, err
	}
	if len(b) == 0 {
		return va, nil
	}
	vb, err := resolve(prop, b)
	if err != nil {
		return nil, err
	}
	v := &Verdict{Property: prop, Results: results}
	v.Obs = append(append(v.Obs, va.Obs...), vb.Obs...)
	v.Violations = append(append(v.Violations, va.Violations...), vb.Violations...)
	v.KnownHits = va.KnownHits
	seen := map[string]bool{}
	for _, k := range va.KnownHits {
		seen[k.Key] = true
	}
	for _, k := range vb.KnownHits {
		if !seen[k.Key] {
			v.KnownHits = append(v.KnownHits, k)
		}
	}
	v.FloorFails = append(append(v.FloorFails, va.FloorFails...), vb.FloorFails...)
	return v, nil
}

// staleEntries lists reviewed/known entries of this property's rules that no
// longer match a live obligation (thorough tier; informational).
func staleEntries(pd *propDef, v *Verdict) []string {
	live := map[string]bool{}
	rules := map[string]bool{}
	for _, o := range v.Obs {
		live[o.Key] = true
	}
	for _, r := range v.Results {
		rules[strings.TrimSuffix(r.Rule, "@386")] = true
	}
	var stale []string
	rev, _ := loadReviewed()
	for k := range rev {
		if rules[strings.SplitN(k, "|", 2)[0]] && !live[k] {
			stale = append(stale, "reviewed: "+k)
		}
	}
	if kf, err := loadKnown(); err == nil {
		for _, k := range kf.Known {
			if rules[strings.SplitN(k.Key, "|", 2)[0]] && !live[k.Key] {
				stale = append(stale, "known: "+k.Key)
			}
		}
	}
	sort.Strings(stale)
	return stale
}

func writeReplay(id string, lines []string) string {
	dir := filepath.Join(outBase(), "out")
	os.MkdirAll(dir, 0o755)
	path := filepath.Join(dir, id+".violations.json")
	b, _ := json.MarshalIndent(map[string]any{"property": id, "violations": lines,
		"replay": "re-run /verif/check.sh " + id + " quick -v against the same /repo tree"}, "", " ")
	os.WriteFile(path, b, 0o644)
	return path
}
