package main

// C08 — Integer/Decimal arithmetic.  ARI-INT exhaustive abstract evaluation
// of the checked Integer helpers and of the operator layer over the boundary
// pool (exact domain: fixed-width constant folding), ARI1 zero divisors map
// to a sentinel, ARI5 sentinels map to empty, NEG unary minus, ARI2 raw
// 32-bit arithmetic is confined to the checked helpers, ARI3 float→Integer
// conversions are range-checked, ARI4 no float64 detour in exact functions.

import (
	"fmt"
	"go/constant"
	"go/token"
	"go/types"
	"math/big"
	"sort"
	"strings"

	"golang.org/x/tools/go/ssa"
)

var intPool = []int64{0, 1, -1, 2, -2, 46340, -46340, 46341, -46341, 65536, -65536,
	2147483646, 2147483647, -2147483647, -2147483648}

const (
	maxI32 = 2147483647
	minI32 = -2147483648
)

func (st *sysTypes) intItem(v int64) aval {
	return aval{k: kConst, c: constant.MakeInt64(v), dyn: st.Integer}
}

func fitsI32(b *big.Int) bool {
	return b.Cmp(big.NewInt(minI32)) >= 0 && b.Cmp(big.NewInt(maxI32)) <= 0
}

// classify a (value, error) return: "=<n>", "err:<notes>", "?"
func arithOutcome(res *result) string {
	if len(res.hazards) > 0 {
		return "hazard:" + res.hazards[0].what
	}
	if len(res.rets) != 1 {
		return fmt.Sprintf("?(%d returns)", len(res.rets))
	}
	ri := res.rets[0]
	e := ri.vals[len(ri.vals)-1]
	if e.k == kNonNil {
		return "err:" + strings.Join(e.notes, "|")
	}
	if e.k != kNil {
		return "?"
	}
	v := ri.vals[0]
	if v.k == kConst && v.c.Kind() == constant.Int {
		return "=" + v.c.ExactString()
	}
	if isEmptyColl(v) {
		return "{}"
	}
	if v.k == kSlice && len(v.elems) == 1 && v.elems[0].k == kConst && v.elems[0].c.Kind() == constant.Int {
		return "=" + v.elems[0].c.ExactString()
	}
	return "value?"
}

func ruleARIINT(p *Program) *RuleResult {
	r := newResult("ARI-INT")
	st, err := systemTypes(p)
	if err != nil {
		return r.anchorFail(err)
	}
	// (a) the checked helpers
	for _, op := range []struct {
		name string
		f    func(a, b *big.Int) *big.Int
	}{
		{"Add", func(a, b *big.Int) *big.Int { return new(big.Int).Add(a, b) }},
		{"Sub", func(a, b *big.Int) *big.Int { return new(big.Int).Sub(a, b) }},
		{"Mul", func(a, b *big.Int) *big.Int { return new(big.Int).Mul(a, b) }},
	} {
		fn, err := p.Method("fhirpath/system", "Integer", op.name)
		if err != nil {
			return r.anchorFail(err)
		}
		bad := 0
		for _, a := range intPool {
			for _, b := range intPool {
				r.count("helper_cells", 1)
				res := newAnalyzer().analyze(fn, []aval{cInt(a), cInt(b)})
				exact := op.f(big.NewInt(a), big.NewInt(b))
				want := "=" + exact.String()
				if !fitsI32(exact) {
					want = "err:system.ErrIntOverflow"
				}
				got := arithOutcome(res)
				if got != want {
					bad++
					if bad <= 5 {
						r.bad(fmt.Sprintf("Integer.%s|%d,%d", op.name, a, b), fmt.Sprintf("Integer(%d).%s(%d) = %s, exact arithmetic says %s", a, op.name, b, got, want), p.pos(fn.Pos()),
							"a 32-bit result outside the range (or a wrapped/garbage number) is returned instead of ErrIntOverflow, or a representable result is rejected")
					}
				}
			}
		}
		if bad == 0 {
			r.ok("Integer."+op.name+"|pool", fmt.Sprintf("Integer.%s agrees with exact arithmetic on %d boundary pairs; overflow ⇒ ErrIntOverflow", op.name, len(intPool)*len(intPool)), p.pos(fn.Pos()),
				"exhaustive abstract evaluation with fixed-width constant folding (exact domain)", true)
		}
	}
	// (b) the operator layer on Integer operands
	type opSpec struct {
		fn   string
		want func(a, b int64) string
	}
	trunc := func(a, b int64) (int64, int64) { return a / b, a % b }
	ops := []opSpec{
		{"EvaluateAdd", func(a, b int64) string {
			e := new(big.Int).Add(big.NewInt(a), big.NewInt(b))
			if !fitsI32(e) {
				return "err:system.ErrIntOverflow"
			}
			return "=" + e.String()
		}},
		{"EvaluateSub", func(a, b int64) string {
			e := new(big.Int).Sub(big.NewInt(a), big.NewInt(b))
			if !fitsI32(e) {
				return "err:system.ErrIntOverflow"
			}
			return "=" + e.String()
		}},
		{"EvaluateMul", func(a, b int64) string {
			e := new(big.Int).Mul(big.NewInt(a), big.NewInt(b))
			if !fitsI32(e) {
				return "err:system.ErrIntOverflow"
			}
			return "=" + e.String()
		}},
		{"EvaluateFloorDiv", func(a, b int64) string {
			if b == 0 {
				return "err:system.ErrDivideByZero"
			}
			q, _ := trunc(a, b)
			if q > maxI32 || q < minI32 {
				return "err:system.ErrIntOverflow"
			}
			return fmt.Sprintf("=%d", q)
		}},
		{"EvaluateMod", func(a, b int64) string {
			if b == 0 {
				return "err:system.ErrDivideByZero"
			}
			_, m := trunc(a, b)
			return fmt.Sprintf("=%d", m)
		}},
		{"EvaluateDiv", func(a, b int64) string {
			if b == 0 {
				return "err:system.ErrDivideByZero"
			}
			return "value?" // a Decimal computed by the library: only error-freeness is decided
		}},
	}
	for _, op := range ops {
		fn, err := p.Func("fhirpath/internal/expr", op.fn)
		if err != nil {
			return r.anchorFail(err)
		}
		bad := 0
		for _, a := range intPool {
			for _, b := range intPool {
				r.count("operator_cells", 1)
				an := newAnalyzer()
				an.maxBlocks = 200
				res := an.analyze(fn, []aval{st.intItem(a), st.intItem(b)})
				got, want := arithOutcome(res), op.want(a, b)
				if got != want {
					bad++
					if bad <= 5 {
						r.bad(fmt.Sprintf("%s|%d,%d", op.fn, a, b), fmt.Sprintf("%s(Integer %d, Integer %d) = %s, want %s", op.fn, a, b, got, want), p.pos(fn.Pos()),
							"operator result differs from exact arithmetic / zero divisor and overflow must be reported through the sentinels")
					}
				}
			}
		}
		if bad == 0 {
			r.ok(op.fn+"|integer pool", fmt.Sprintf("%s on Integer operands agrees with exact arithmetic on %d boundary pairs", op.fn, len(intPool)*len(intPool)), p.pos(fn.Pos()),
				"exhaustive abstract evaluation (type switch decided by the operand's dynamic type, fixed-width folding)", true)
		}
	}
	// (c) Decimal divisors: zero ⇒ ErrDivideByZero (IsZero modelled true), non-zero ⇒ no sentinel
	sp, _ := p.Pkg("fhirpath/system")
	decT := sp.Type("Decimal")
	if decT == nil {
		return r.anchorFail(fmt.Errorf("anchor: system.Decimal not found"))
	}
	for _, opn := range []string{"EvaluateDiv", "EvaluateFloorDiv", "EvaluateMod"} {
		fn, _ := p.Func("fhirpath/internal/expr", opn)
		for _, zero := range []bool{true, false} {
			r.count("decimal_cells", 1)
			an := newAnalyzer()
			an.maxBlocks = 200
			an.callModel = func(c *ssa.CallCommon, args []aval) (aval, bool) {
				if sc := c.StaticCallee(); sc != nil && sc.Name() == "IsZero" {
					return cBool(zero), true
				}
				return aval{}, false
			}
			d := aval{k: kNonNil, dyn: decT.Type()}
			res := an.analyze(fn, []aval{d, d})
			key := fmt.Sprintf("%s|Decimal divisor zero=%v", opn, zero)
			okb := len(res.rets) > 0
			var got []string
			for _, ri := range res.rets {
				e := ri.vals[1]
				got = append(got, e.String())
				if zero {
					if !(e.k == kNonNil && len(e.notes) == 1 && e.notes[0] == "system.ErrDivideByZero") {
						okb = false
					}
				} else if e.k == kNonNil {
					for _, n := range e.notes {
						if n == "system.ErrDivideByZero" {
							okb = false
						}
					}
				}
			}
			if okb {
				r.ok(key, fmt.Sprintf("%s with Decimal operands, divisor zero=%v → %v", opn, zero, got), p.pos(fn.Pos()), "SCCP with IsZero modelled", true)
			} else {
				r.bad(key, fmt.Sprintf("%s with Decimal operands, divisor zero=%v → %v", opn, zero, got), p.pos(fn.Pos()), "a zero Decimal divisor must yield ErrDivideByZero (mapped to empty) and nothing else may")
			}
		}
	}
	r.floor("helper_cells", 600)
	r.floor("operator_cells", 1300)
	return r
}

// ARI5 + NEG: sentinels map to empty; unary minus.
func ruleARI5(p *Program) *RuleResult {
	r := newResult("ARI5")
	st, err := systemTypes(p)
	if err != nil {
		return r.anchorFail(err)
	}
	fn, err := p.Method("fhirpath/internal/expr", "ArithmeticExpression", "Evaluate")
	if err != nil {
		return r.anchorFail(err)
	}
	// operands carry their side; From / Normalize keep it; the operator (a function-valued
	// field of the node) is answered by the dynamic-call model, which records the sides it is given
	sideOfArg := func(v aval) string {
		for _, n := range v.notes {
			if strings.HasPrefix(n, "side:") {
				return strings.TrimPrefix(n, "side:")
			}
		}
		return "?"
	}
	var opArgs []string
	runOp := func(opResult aval) (*result, *operandEnv) {
		an := newAnalyzer()
		an.maxBlocks = 250
		opArgs = nil
		oe := newOperandEnv()
		oe.results["field:Left"] = okTuple(coll(nonnil("side:L")))
		oe.results["field:Right"] = okTuple(coll(nonnil("side:R")))
		oe.next = func(cc *ssa.CallCommon, args []aval) (aval, bool) {
			if sc := cc.StaticCallee(); sc != nil && strings.HasSuffix(fnPkgPath(sc), "/fhirpath/system") && len(args) > 0 {
				switch sc.Name() {
				case "From":
					return okTuple(args[0]), true
				case "Normalize":
					return args[0], true
				}
			}
			return aval{}, false
		}
		an.callModel = oe.model()
		an.dynModel = func(fv aval, args []aval) (aval, bool) {
			if hasNote(fv, "operator") && len(args) == 2 {
				opArgs = append(opArgs, sideOfArg(args[0])+","+sideOfArg(args[1]))
				return opResult, true
			}
			return aval{}, false
		}
		res := an.analyze(fn, []aval{nodeReceiver(fn, map[string]aval{"Op": nonnil("operator")}), nonnil("ctx"), top})
		return res, oe
	}
	{
		_, oe := runOp(aval{k: kTuple, tup: []aval{st.intItem(7), {k: kNil}}})
		if !oe.evaluated["field:Left"] || !oe.evaluated["field:Right"] || len(opArgs) == 0 {
			r.undecided("ArithmeticExpression|shape", "the operands are not both evaluated or e.Op is not called on singleton operands", p.pos(fn.Pos()), "unsupported shape")
			return r
		}
		okOrder := true
		for _, a := range opArgs {
			if a != "L,R" {
				okOrder = false
			}
		}
		if okOrder {
			r.ok("ArithmeticExpression|operand-order", "e.Op(left, right)", p.pos(fn.Pos()), "operand sides tracked through From/Normalize by tag", true)
		} else {
			r.bad("ArithmeticExpression|operand-order", "e.Op is called with ("+strings.Join(opArgs, " / ")+"), not (left, right)", p.pos(fn.Pos()), "operands swapped or not derived from the two sub-expressions")
		}
	}
	for _, c := range []struct{ name string; res aval; want string }{
		{"overflow", aval{k: kTuple, tup: []aval{{k: kNil}, nonnil("system.ErrIntOverflow")}}, "{}"},
		{"wrapped overflow", aval{k: kTuple, tup: []aval{{k: kNil}, nonnil("wrap:system.ErrIntOverflow")}}, "{}"},
		{"division by zero", aval{k: kTuple, tup: []aval{{k: kNil}, nonnil("system.ErrDivideByZero")}}, "{}"},
		{"type mismatch", aval{k: kTuple, tup: []aval{{k: kNil}, nonnil("wrap:system.ErrTypeMismatch")}}, "error"},
		{"success", aval{k: kTuple, tup: []aval{st.intItem(7), {k: kNil}}}, "=7"},
	} {
		r.count("hypotheses", 1)
		res, _ := runOp(c.res)
		got := arithOutcome(res)
		if strings.HasPrefix(got, "err:") {
			got = "error"
		}
		key := "ArithmeticExpression|Op result " + c.name
		desc := fmt.Sprintf("operator returns %s → %s (want %s)", c.name, got, c.want)
		if got == c.want {
			r.ok(key, desc, p.pos(fn.Pos()), "SCCP with the operator result pinned (errors.Is on known provenance)", true)
		} else {
			r.bad(key, desc, p.pos(fn.Pos()), "overflow and division by zero must give empty; other errors must be reported; a value must be returned as a singleton")
		}
	}
	// NEG
	neg, err := p.Method("fhirpath/internal/expr", "NegationExpression", "Evaluate")
	if err != nil {
		return r.anchorFail(err)
	}
	for _, v := range intPool {
		r.count("hypotheses", 1)
		an := newAnalyzer()
		an.maxBlocks = 250
		oe := newOperandEnv()
		oe.results["field:Expr"] = okTuple(coll(st.intItem(v)))
		an.callModel = oe.model()
		res := an.analyze(neg, []aval{nodeReceiver(neg, nil), nonnil("ctx"), top})
		if !oe.evaluated["field:Expr"] {
			r.undecided("NegationExpression|shape", "the operand is not evaluated", p.pos(neg.Pos()), "unsupported shape")
			return r
		}
		want := fmt.Sprintf("=%d", -v)
		if -v > maxI32 {
			want = "{}"
		}
		got := arithOutcome(res)
		key := fmt.Sprintf("NegationExpression|%d", v)
		desc := fmt.Sprintf("-(%d) = %s (want %s)", v, got, want)
		if got == want {
			r.ok(key, desc, p.pos(neg.Pos()), "exhaustive abstract evaluation on the boundary pool", true)
		} else {
			r.bad(key, desc, p.pos(neg.Pos()), "unary minus must be exact, and empty when the result does not fit an Integer")
		}
	}
	r.floor("hypotheses", 18)
	return r
}

// ARI2: raw fixed-width arithmetic on Integer/int32 outside the checked helpers.
var checkedHelpers = map[string]bool{
	"(fhirpath/system.Integer).Add": true, "(fhirpath/system.Integer).Sub": true, "(fhirpath/system.Integer).Mul": true,
	"(fhirpath/system.Integer).FloorDiv": true, "(fhirpath/system.Integer).Mod": true,
}

func isInt32Like(t types.Type) bool {
	if strings.HasSuffix(typeShort(t), "system.Integer") {
		return true
	}
	b, ok := t.Underlying().(*types.Basic)
	return ok && b.Kind() == types.Int32
}

func ruleARI2(p *Program) *RuleResult {
	r := newResult("ARI2")
	reach, err := p.Reach("eval")
	if err != nil {
		return r.anchorFail(err)
	}
	fns := RepoReach(reach)
	r.count("functions", len(fns))
	for _, fn := range fns {
		pp := fnPkgPath(fn)
		// the interpreter's value layer: system, expr, funcs/impl
		if !(strings.HasSuffix(pp, "/fhirpath/system") || strings.HasSuffix(pp, "/fhirpath/internal/expr") || strings.HasSuffix(pp, "/fhirpath/internal/funcs/impl")) {
			continue
		}
		for _, b := range fn.Blocks {
			for _, ins := range b.Instrs {
				var what string
				switch x := ins.(type) {
				case *ssa.BinOp:
					switch x.Op {
					case token.ADD, token.SUB, token.MUL, token.QUO, token.REM:
					default:
						continue
					}
					if !isInt32Like(x.Type()) {
						continue
					}
					if _, c1 := x.X.(*ssa.Const); c1 {
						if _, c2 := x.Y.(*ssa.Const); c2 {
							continue
						}
					}
					// loop counters (phi ± constant) are not Integer values
					if _, isPhi := x.X.(*ssa.Phi); isPhi && (x.Op == token.ADD || x.Op == token.SUB) {
						if _, c2 := x.Y.(*ssa.Const); c2 && len(naturalLoops(fn)) > 0 && isLoopCounter(x) {
							continue
						}
					}
					what = "int32 " + x.Op.String()
				case *ssa.UnOp:
					if x.Op != token.SUB || !isInt32Like(x.Type()) {
						continue
					}
					what = "int32 unary -"
				default:
					continue
				}
				r.count("raw_int32_ops", 1)
				key := short(fn) + "|" + what
				if checkedHelpers[short(fn)] {
					r.ok(key, what+" inside a checked helper", p.instrPos(ins), "the helper's overflow behaviour is decided by ARI-INT", false)
				} else {
					r.bad(key, what+" in "+short(fn), p.instrPos(ins), "raw 32-bit arithmetic on an Integer outside Integer.Add/Sub/Mul/FloorDiv/Mod: wraps silently instead of yielding empty")
				}
			}
		}
	}
	r.floor("raw_int32_ops", 2)
	return r
}

// ARI3: float → integer conversions need a dominating range check.
func ruleARI3(p *Program) *RuleResult {
	r := newResult("ARI3")
	reach, err := p.Reach("eval")
	if err != nil {
		return r.anchorFail(err)
	}
	for _, fn := range RepoReach(reach) {
		for _, b := range fn.Blocks {
			for _, ins := range b.Instrs {
				cv, ok := ins.(*ssa.Convert)
				if !ok {
					continue
				}
				from, okf := cv.X.Type().Underlying().(*types.Basic)
				if !okf || from.Info()&types.IsFloat == 0 || !isIntegerType(cv.Type()) {
					continue
				}
				if _, isC := cv.X.(*ssa.Const); isC {
					continue
				}
				r.count("float_to_int_sites", 1)
				key := short(fn) + "|" + typeShort(cv.Type()) + "(" + floatOrigin(cv.X) + ")"
				lo, hi := floatRangeGuard(fn, cv.X, cv)
				if c, ok := cv.X.(*ssa.Call); ok {
					if sc := c.Common().StaticCallee(); sc != nil && sc.RelString(nil) == "math.Abs" {
						lo = true // |x| >= 0
					}
				}
				if lo && hi {
					r.ok(key, "float→"+typeShort(cv.Type())+" conversion of "+floatOrigin(cv.X), p.instrPos(ins), "dominated by comparisons with both bounds of the target range", true)
				} else {
					r.bad(key, "float→"+typeShort(cv.Type())+" conversion of "+floatOrigin(cv.X), p.instrPos(ins),
						fmt.Sprintf("out-of-range float→integer conversion yields an implementation-defined garbage value (lower bound checked=%v, upper bound checked=%v)", lo, hi))
				}
			}
		}
	}
	r.floor("float_to_int_sites", 1)
	return r
}

// floatRangeGuard: dominating `v < lo`/`v > hi` (leaving) or `v >= lo`/`v <= hi` (staying) tests.
func floatRangeGuard(fn *ssa.Function, v ssa.Value, at ssa.Instruction) (lo, hi bool) {
	for _, b := range fn.Blocks {
		ifi, ok := b.Instrs[len(b.Instrs)-1].(*ssa.If)
		if !ok {
			continue
		}
		cmp, ok := ifi.Cond.(*ssa.BinOp)
		if !ok {
			continue
		}
		x, y, op := cmp.X, cmp.Y, cmp.Op
		if sameAccess(y, v) && !sameAccess(x, v) {
			x, y = y, x
			op = flipOp(op)
		}
		if !sameAccess(x, v) {
			continue
		}
		c, ok := y.(*ssa.Const)
		if !ok || c.Value == nil {
			continue
		}
		neg := constant.Sign(c.Value) < 0
		switch op {
		case token.LSS, token.LEQ: // v < c
			if neg && edgeDominates(b, 1, at.Block()) {
				lo = true
			}
			if !neg && edgeDominates(b, 0, at.Block()) {
				hi = true
			}
		case token.GTR, token.GEQ: // v > c
			if !neg && edgeDominates(b, 1, at.Block()) {
				hi = true
			}
			if neg && edgeDominates(b, 0, at.Block()) {
				lo = true
			}
		}
	}
	return
}

// ARI4: exact functions must not detour through float64.
var exactFunctions = []string{"Abs", "Ceiling", "Floor", "Round", "Truncate"}
var floatDetours = map[string]bool{
	"(github.com/shopspring/decimal.Decimal).InexactFloat64": true, "(github.com/shopspring/decimal.Decimal).Float64": true,
	"github.com/shopspring/decimal.NewFromFloat": true, "github.com/shopspring/decimal.NewFromFloat32": true,
	"strconv.ParseFloat": true, "(fhirpath/system.Collection).ToFloat64": true,
}

func floatDetourIn(fn *ssa.Function, seen map[*ssa.Function]bool, depth int) []string {
	if seen[fn] || depth > 4 {
		return nil
	}
	seen[fn] = true
	var out []string
	for _, b := range fn.Blocks {
		for _, ins := range b.Instrs {
			c, ok := ins.(ssa.CallInstruction)
			if !ok {
				continue
			}
			sc := c.Common().StaticCallee()
			if sc == nil {
				continue
			}
			name := sc.RelString(nil)
			if floatDetours[name] || floatDetours[short(sc)] {
				out = append(out, shortName(name))
				continue
			}
			if inRepoFn(sc) {
				out = append(out, floatDetourIn(sc, seen, depth+1)...)
			}
		}
	}
	return out
}

func ruleARI4(p *Program) *RuleResult {
	r := newResult("ARI4")
	check := func(fn *ssa.Function, label string) {
		r.count("exact_functions", 1)
		d := floatDetourIn(fn, map[*ssa.Function]bool{}, 0)
		sort.Strings(d)
		key := label + "|float-detour"
		if len(d) == 0 {
			r.ok(key, label+" computes without float64", p.pos(fn.Pos()), "call closure contains no float64 conversion", true)
		} else {
			r.bad(key, label+" detours through float64: "+strings.Join(uniq(d), ", "), p.pos(fn.Pos()), "results beyond 15-17 significant digits are rounded: not exact decimal arithmetic")
		}
	}
	for _, n := range exactFunctions {
		fn, err := p.Func("fhirpath/internal/funcs/impl", n)
		if err != nil {
			return r.anchorFail(err)
		}
		check(fn, "impl."+n)
	}
	for _, n := range []string{"EvaluateAdd", "EvaluateSub", "EvaluateMul", "EvaluateDiv", "EvaluateFloorDiv", "EvaluateMod"} {
		fn, err := p.Func("fhirpath/internal/expr", n)
		if err != nil {
			return r.anchorFail(err)
		}
		check(fn, "expr."+n)
	}
	r.floor("exact_functions", 11)
	return r
}

func uniq(s []string) []string {
	var out []string
	for i, x := range s {
		if i == 0 || x != s[i-1] {
			out = append(out, x)
		}
	}
	return out
}

// isLoopCounter: x = phi ± const where the phi's only other edge is a constant
// and the phi feeds a loop exit comparison only (not a returned value).
func isLoopCounter(x *ssa.BinOp) bool {
	phi := x.X.(*ssa.Phi)
	for _, e := range phi.Edges {
		if e == ssa.Value(x) {
			continue
		}
		if _, ok := e.(*ssa.Const); !ok {
			return false
		}
	}
	for _, ref := range *phi.Referrers() {
		switch y := ref.(type) {
		case *ssa.BinOp:
			if y == x {
				continue
			}
			switch y.Op {
			case token.LSS, token.LEQ, token.GTR, token.GEQ, token.EQL, token.NEQ:
				continue
			}
			return false
		case *ssa.DebugRef:
		default:
			return false
		}
	}
	return true
}

// ARI6: an error raised by a value-layer operation reaches ArithmeticExpression
// unchanged or wrapped with %w, so that the overflow / divide-by-zero sentinels
// can still be recognised and mapped to empty.
func ruleARI6(p *Program) *RuleResult {
	r := newResult("ARI6")
	for _, name := range []string{"EvaluateAdd", "EvaluateSub", "EvaluateMul", "EvaluateDiv", "EvaluateFloorDiv", "EvaluateMod"} {
		fn, err := p.Func("fhirpath/internal/expr", name)
		if err != nil {
			return r.anchorFail(err)
		}
		for _, b := range fn.Blocks {
			for _, ins := range b.Instrs {
				c, ok := ins.(*ssa.Call)
				if !ok {
					continue
				}
				sc := c.Common().StaticCallee()
				if sc == nil || !inRepoFn(sc) || !strings.HasSuffix(fnPkgPath(sc), "/fhirpath/system") {
					continue
				}
				res := sc.Signature.Results()
				if res.Len() != 2 || !isErrorType(res.At(1).Type()) {
					continue
				}
				r.count("fallible_operations", 1)
				an := newAnalyzer()
				an.maxBlocks = 300
				an.pin[c] = aval{k: kTuple, tup: []aval{top, nonnil("value-layer-sentinel")}}
				out := an.analyze(fn, []aval{top, top})
				reach := reachableFrom(b)
				reach[b] = true
				key := fmt.Sprintf("expr.%s|%s", name, shortName(sc.RelString(nil)))
				var problems []string
				n := 0
				for _, ri := range out.rets {
					if !reach[ri.instr.Block()] {
						continue
					}
					n++
					e := ri.vals[len(ri.vals)-1]
					if !(e.k == kNonNil && hasNote(e, "value-layer-sentinel")) {
						problems = append(problems, fmt.Sprintf("returns %s at %s", e, p.instrPos(ri.instr)))
					}
				}
				switch {
				case n == 0:
					r.undecided(key, fmt.Sprintf("no return reachable from the call of %s in %s", shortName(sc.RelString(nil)), name), p.instrPos(ins), "shape changed")
				case len(problems) > 0:
					r.bad(key, fmt.Sprintf("when %s fails, %s does not hand its error on (unchanged or wrapped with %%w): %s", shortName(sc.RelString(nil)), name, strings.Join(problems, "; ")), p.instrPos(ins),
						"ErrIntOverflow / ErrDivideByZero are recognised with errors.Is by the arithmetic node and mapped to empty; an error that loses its sentinel becomes an evaluation error")
				default:
					r.ok(key, fmt.Sprintf("an error of %s is returned by %s unchanged or wrapped", shortName(sc.RelString(nil)), name), p.instrPos(ins), "SCCP with the operation pinned to fail with a tagged error: every return after it carries the tag", true)
				}
			}
		}
	}
	r.floor("fallible_operations", 4)
	return r
}

// ARI7: the Decimal operations of the value layer delegate to the exact
// operation of the same meaning in shopspring/decimal, on (receiver, argument)
// in that order: Add→Add, Sub→Sub, Mul→Mul, Mod→Mod, Div→Div (the documented
// 16-digit division) and FloorDiv→QuoRem at precision 0 (exact integer
// quotient); no other decimal arithmetic takes part.
func ruleARI7(p *Program) *RuleResult {
	r := newResult("ARI7")
	arith := map[string]bool{"Add": true, "Sub": true, "Mul": true, "Div": true, "Mod": true, "QuoRem": true, "DivRound": true, "Pow": true, "Neg": true,
		"Truncate": true, "Round": true, "RoundBank": true, "Floor": true, "Ceil": true, "Shift": true, "Abs": true, "RoundCeil": true, "RoundFloor": true, "RoundUp": true, "RoundDown": true}
	want := map[string][]string{"Add": {"Add"}, "Sub": {"Sub"}, "Mul": {"Mul"}, "Mod": {"Mod"}, "Div": {"Div"}, "FloorDiv": {"QuoRem"}}
	for _, m := range []string{"Add", "Sub", "Mul", "Mod", "Div", "FloorDiv"} {
		fn, err := p.Method("fhirpath/system", "Decimal", m)
		if err != nil {
			return r.anchorFail(err)
		}
		r.count("decimal_methods", 1)
		var got []string
		orderOK := true
		for _, b := range fn.Blocks {
			for _, ins := range b.Instrs {
				c, ok := ins.(*ssa.Call)
				if !ok || c.Common().StaticCallee() == nil || !strings.Contains(c.Common().StaticCallee().RelString(nil), "shopspring/decimal.Decimal).") {
					continue
				}
				n := c.Common().StaticCallee().Name()
				if !arith[n] {
					continue
				}
				got = append(got, n)
				// operands: receiver derives from parameter 0, argument from parameter 1
				if len(c.Common().Args) >= 2 {
					if rootParam(c.Common().Args[0]) != fn.Params[0] || rootParam(c.Common().Args[1]) != fn.Params[1] {
						orderOK = false
					}
				}
			}
		}
		key := "system.Decimal." + m + "|delegation"
		switch {
		case strings.Join(got, ",") != strings.Join(want[m], ","):
			r.bad(key, fmt.Sprintf("Decimal.%s computes with decimal %v (expected %v)", m, got, want[m]), p.pos(fn.Pos()),
				"the operation is no longer the exact library operation: intermediate rounding (Div rounds to 16 digits) or a different operator changes results for some operands")
		case !orderOK:
			r.bad(key, fmt.Sprintf("Decimal.%s passes its operands to decimal.%s in the wrong order", m, want[m][0]), p.pos(fn.Pos()), "non-commutative operations change their result")
		default:
			r.ok(key, fmt.Sprintf("Decimal.%s is decimal.%s(receiver, argument)", m, want[m][0]), p.pos(fn.Pos()), "call inventory and operand provenance", true)
		}
	}
	r.floor("decimal_methods", 6)
	return r
}

// rootParam: the parameter a value is a (type-)conversion of, or nil.
func rootParam(v ssa.Value) *ssa.Parameter {
	for i := 0; i < 6; i++ {
		switch x := v.(type) {
		case *ssa.Parameter:
			return x
		case *ssa.ChangeType:
			v = x.X
		case *ssa.Convert:
			v = x.X
		case *ssa.UnOp:
			// spilled parameter
			if al, ok := x.X.(*ssa.Alloc); ok && storesTo(al) == 1 {
				for _, ref := range *al.Referrers() {
					if st, ok := ref.(*ssa.Store); ok && st.Addr == ssa.Value(al) {
						v = st.Val
					}
				}
				continue
			}
			return nil
		default:
			return nil
		}
	}
	return nil
}
