package main

// C16 — every built-in is callable under its specification name and arity.
// TAB1 name<->implementation, TAB2 arity bounds<->implementation<->spec,
// TAB3 placeholder, TAB4 compile-time lookup and arity guard.

import (
	"fmt"
	"go/types"
	"sort"
	"strings"
	"unicode"

	"golang.org/x/tools/go/ssa"
)

// FHIRPath N1 function list with the argument counts the specification
// allows (frozen excerpt; http://hl7.org/fhirpath/N1/ §5–§7 and the FHIR
// additional function extension()).  is/as/ofType take a type specifier.
var specArity = map[string][2]int{
	"empty": {0, 0}, "exists": {0, 1}, "all": {1, 1}, "allTrue": {0, 0}, "anyTrue": {0, 0},
	"allFalse": {0, 0}, "anyFalse": {0, 0}, "subsetOf": {1, 1}, "supersetOf": {1, 1},
	"count": {0, 0}, "distinct": {0, 0}, "isDistinct": {0, 0},
	"where": {1, 1}, "select": {1, 1}, "repeat": {1, 1}, "ofType": {1, 1},
	"single": {0, 0}, "first": {0, 0}, "last": {0, 0}, "tail": {0, 0}, "skip": {1, 1}, "take": {1, 1},
	"intersect": {1, 1}, "exclude": {1, 1}, "union": {1, 1}, "combine": {1, 1},
	"iif": {2, 3},
	"toBoolean": {0, 0}, "convertsToBoolean": {0, 0}, "toInteger": {0, 0}, "convertsToInteger": {0, 0},
	"toDate": {0, 0}, "convertsToDate": {0, 0}, "toDateTime": {0, 0}, "convertsToDateTime": {0, 0},
	"toDecimal": {0, 0}, "convertsToDecimal": {0, 0}, "toQuantity": {0, 1}, "convertsToQuantity": {0, 1},
	"toString": {0, 0}, "convertsToString": {0, 0}, "toTime": {0, 0}, "convertsToTime": {0, 0},
	"indexOf": {1, 1}, "substring": {1, 2}, "startsWith": {1, 1}, "endsWith": {1, 1}, "contains": {1, 1},
	"upper": {0, 0}, "lower": {0, 0}, "replace": {2, 2}, "matches": {1, 1}, "replaceMatches": {2, 2},
	"length": {0, 0}, "toChars": {0, 0},
	"abs": {0, 0}, "ceiling": {0, 0}, "exp": {0, 0}, "floor": {0, 0}, "ln": {0, 0}, "log": {1, 1},
	"power": {1, 1}, "round": {0, 1}, "sqrt": {0, 0}, "truncate": {0, 0},
	"children": {0, 0}, "descendants": {0, 0},
	"trace": {1, 2}, "now": {0, 0}, "timeOfDay": {0, 0}, "today": {0, 0},
	"not": {0, 0}, "is": {1, 1}, "as": {1, 1},
	"extension": {1, 1},
}

// experimental (post-N1) functions the repository knows
var specArityExperimental = map[string][2]int{
	"join": {0, 1},
}

func upperFirst(s string) string {
	if s == "" {
		return s
	}
	r := []rune(s)
	r[0] = unicode.ToUpper(r[0])
	return string(r)
}

func readBothTables(p *Program) (base, exp []funcEntry, err error) {
	base, err = readFuncTable(p, "baseTable")
	if err != nil {
		return
	}
	exp, err = readFuncTable(p, "experimentalTable")
	return
}

// TAB1: key k is bound to impl.UpperFirst(k) or to the placeholder.
func ruleTAB1(p *Program) *RuleResult {
	r := newResult("TAB1")
	base, exp, err := readBothTables(p)
	if err != nil {
		return r.anchorFail(err)
	}
	seen := map[string]bool{}
	for ti, tab := range [][]funcEntry{base, exp} {
		tname := []string{"baseTable", "experimentalTable"}[ti]
		for _, e := range tab {
			r.count("entries", 1)
			key := tname + "[" + e.Name + "]"
			if seen[e.Name] && ti == 1 {
				r.bad(key+"|dup", "experimental name shadows a base name", p.pos(e.Pos), "name exists in both tables")
			}
			seen[e.Name] = true
			if e.Placeholder {
				r.ok(key, fmt.Sprintf("%q -> placeholder %s", e.Name, e.ImplName), p.pos(e.Pos), "placeholder (TAB3 checks it errors)", false)
				continue
			}
			want := upperFirst(e.Name)
			if e.Impl.Name() == want && strings.HasSuffix(e.Impl.Pkg().Path(), "/funcs/impl") {
				r.ok(key, fmt.Sprintf("%q -> %s", e.Name, e.ImplName), p.pos(e.Pos), "name agreement", false)
			} else {
				r.bad(key, fmt.Sprintf("%q -> %s", e.Name, e.ImplName), p.pos(e.Pos),
					fmt.Sprintf("table key %q is bound to %s, expected impl.%s", e.Name, e.ImplName, want))
			}
		}
	}
	// every exported impl function with the FHIRPathFunc signature is
	// registered under its own name, or listed as a known non-table helper
	implPk := p.ByPath[mod+"/fhirpath/internal/funcs/impl"]
	if implPk == nil {
		return r.anchorFail(fmt.Errorf("anchor: package impl not loaded"))
	}
	bound := map[string]string{}
	for _, tab := range [][]funcEntry{base, exp} {
		for _, e := range tab {
			if !e.Placeholder {
				bound[e.Impl.Name()] = e.Name
			}
		}
	}
	fpSig := func(f *types.Func) bool {
		s := f.Type().(*types.Signature)
		return s.Recv() == nil && s.Variadic() && s.Params().Len() == 3 && s.Results().Len() == 2 &&
			strings.HasSuffix(s.Params().At(1).Type().String(), "system.Collection")
	}
	for _, n := range implPk.Types.Scope().Names() {
		f, ok := implPk.Types.Scope().Lookup(n).(*types.Func)
		if !ok || !f.Exported() || !fpSig(f) {
			continue
		}
		r.count("impl_functions", 1)
		lower := strings.ToLower(n[:1]) + n[1:]
		if k, ok := bound[n]; ok {
			if k == lower {
				r.ok("impl."+n+"|registered", "impl."+n+" registered as "+k, p.pos(f.Pos()), "registered under its own name", false)
			}
			// a different key is reported by the table loop above
			continue
		}
		if _, inSpec := specArity[lower]; inSpec || specArityExperimental[lower] != [2]int{} {
			r.bad("impl."+n+"|registered", "impl."+n+" is implemented but not bound under "+lower, p.pos(f.Pos()),
				"an implemented specification function is unreachable under its specification name")
		} else {
			r.note("impl.%s has the FHIRPathFunc signature, is not a specification name and is not registered", n)
		}
	}
	r.floor("entries", 40)
	r.floor("impl_functions", 30)
	return r
}

// arityAccepted decides, for implementation F and argument count n, whether
// F itself rejects the call for arity: under len(args)=n and a singleton
// input, every executable return carries an ErrWrongArity-derived error, or an
// args[i] with i >= n is executable.
func arityAccepted(fn *ssa.Function, n int) (accepted bool, why string, undecided bool) {
	an := newAnalyzer()
	params := make([]aval, len(fn.Params))
	for i := range params {
		params[i] = top
	}
	if len(fn.Params) != 3 {
		return false, "unexpected parameter count", true
	}
	params[0] = nonnil("ctx")
	params[1] = sliceLen(1)
	params[2] = sliceLen(n)
	res := an.analyze(fn, params)
	if res.nonconverged {
		return false, "analysis did not converge", true
	}
	for _, h := range res.hazards {
		if ia, ok := h.leaf.(*ssa.IndexAddr); ok && ia.X == fn.Params[2] {
			return false, "args index out of range: " + h.what, false
		}
	}
	if len(res.rets) == 0 {
		return false, "no executable return", true
	}
	for _, ri := range res.rets {
		e := ri.vals[len(ri.vals)-1]
		isArity := false
		if e.k == kNonNil {
			for _, nt := range e.notes {
				if strings.TrimPrefix(nt, "wrap:") == "impl.ErrWrongArity" {
					isArity = true
				}
			}
		}
		if isArity && res.decidedEntry(ri.instr.Block(), 0) {
			return false, "an ErrWrongArity return is forced by len(args) alone", false
		}
	}
	return true, "", false
}

func ruleTAB2(p *Program) *RuleResult {
	r := newResult("TAB2")
	base, exp, err := readBothTables(p)
	if err != nil {
		return r.anchorFail(err)
	}
	const maxN = 5
	for ti, tab := range [][]funcEntry{base, exp} {
		tname := []string{"baseTable", "experimentalTable"}[ti]
		for _, e := range tab {
			if e.Placeholder {
				continue
			}
			fn := p.ssaFuncOf(e.Impl)
			if fn == nil || len(fn.Blocks) == 0 {
				r.undecided(tname+"["+e.Name+"]|impl", "implementation body", p.pos(e.Pos), "no SSA body for "+e.ImplName)
				continue
			}
			r.count("entries", 1)
			var acc []int
			reasons := map[int]string{}
			und := false
			for n := 0; n <= maxN; n++ {
				r.count("hypotheses", 1)
				a, why, u := arityAccepted(fn, n)
				if u {
					und = true
					r.undecided(fmt.Sprintf("%s[%s]|n=%d", tname, e.Name, n), fmt.Sprintf("%s with %d args", e.ImplName, n), p.pos(e.Pos), why)
				}
				if a {
					acc = append(acc, n)
				} else {
					reasons[n] = why
				}
			}
			if und {
				continue
			}
			accSet := map[int]bool{}
			for _, n := range acc {
				accSet[n] = true
			}
			key := tname + "[" + e.Name + "]"
			desc := fmt.Sprintf("%q table [%d,%d], %s accepts %v", e.Name, e.Min, e.Max, e.ImplName, acc)
			// (a) Compile never admits a call the implementation rejects
			okA := true
			for n := e.Min; n <= e.Max && n <= maxN; n++ {
				if !accSet[n] {
					okA = false
					r.bad(fmt.Sprintf("%s|admits-rejected", key), desc, p.pos(e.Pos),
						fmt.Sprintf("Compile admits %d argument(s) but %s rejects them (%s)", n, e.ImplName, reasons[n]))
					break
				}
			}
			if e.Max < e.Min {
				okA = false
				r.bad(key+"|empty-range", desc, p.pos(e.Pos), "MaxArity < MinArity: the function can never be called")
			}
			if okA {
				r.ok(key+"|admits-rejected", desc, p.pos(e.Pos), "every admitted count is accepted by the implementation (SCCP under len(args)=n)", true)
			}
			// (b) every count the specification allows and the implementation
			// accepts is admitted by Compile
			sp, inSpec := specArity[e.Name]
			if !inSpec {
				sp, inSpec = specArityExperimental[e.Name]
			}
			if !inSpec {
				r.note("%q is not a specification name; only (a) checked", e.Name)
				continue
			}
			okB := true
			for n := sp[0]; n <= sp[1]; n++ {
				if accSet[n] && (n < e.Min || n > e.Max) {
					okB = false
					r.bad(key+"|spec-count-refused", desc+fmt.Sprintf(", spec [%d,%d]", sp[0], sp[1]), p.pos(e.Pos),
						fmt.Sprintf("the specification allows %d argument(s) and %s implements that, but Compile refuses it", n, e.ImplName))
					break
				}
				if !accSet[n] {
					// the implementation lacks a spec arity: report as note (not implemented overload)
					r.note("%q: specification allows %d argument(s) but %s rejects them", e.Name, n, e.ImplName)
				}
			}
			if okB {
				r.ok(key+"|spec-count-refused", desc+fmt.Sprintf(", spec [%d,%d]", sp[0], sp[1]), p.pos(e.Pos), "spec ∩ accepted ⊆ [Min,Max]", true)
			}
		}
	}
	r.floor("entries", 40)
	return r
}

// TAB3: the placeholder errors on every path; every N1 name is in a table or
// reported absent.
func ruleTAB3(p *Program) *RuleResult {
	r := newResult("TAB3")
	base, exp, err := readBothTables(p)
	if err != nil {
		return r.anchorFail(err)
	}
	checked := map[*ssa.Function]bool{}
	names := map[string]bool{}
	for _, tab := range [][]funcEntry{base, exp} {
		for _, e := range tab {
			names[e.Name] = true
			if !e.Placeholder {
				continue
			}
			r.count("placeholders", 1)
			fn := p.ssaFuncOf(e.Impl)
			if fn == nil {
				r.undecided("placeholder|"+e.ImplName, "placeholder body", p.pos(e.Pos), "no SSA body")
				continue
			}
			if checked[fn] {
				continue
			}
			checked[fn] = true
			if e.Min != 0 || e.Max < 0 {
				r.bad("placeholder|arity", "placeholder arity bounds", p.pos(e.Pos), "placeholder must admit the call so that the not-implemented error is reported")
			}
			for _, n := range []int{0, 1, 2} {
				an := newAnalyzer()
				res := an.analyze(fn, []aval{top, sliceLen(n), top})
				okAll := len(res.rets) > 0
				for _, ri := range res.rets {
					if ri.vals[len(ri.vals)-1].k != kNonNil {
						okAll = false
					}
				}
				key := fmt.Sprintf("placeholder|%s|len(input)=%d", short(fn), n)
				if okAll && len(res.hazards) == 0 {
					r.ok(key, short(fn)+" returns a non-nil error on every path", p.pos(fn.Pos()), "SCCP: all executable returns carry a non-nil error", true)
				} else {
					r.bad(key, short(fn)+" may return without error", p.pos(fn.Pos()), "a placeholder that returns nil error yields a wrong result instead of not-implemented")
				}
			}
		}
	}
	// placeholder entries admit calls of arity 0 only (MaxArity 0): an
	// unimplemented function called with arguments fails at Compile with an
	// arity error, which is still an explicit error — note only.
	var absent []string
	for n := range specArity {
		if !names[n] {
			absent = append(absent, n)
		}
	}
	sort.Strings(absent)
	r.note("specification names absent from the tables (=> Compile error 'function identifier can't be resolved'): %v", absent)
	r.count("spec_names", len(specArity))
	r.floor("placeholders", 1)
	return r
}

// TAB4: in VisitFunction the FunctionExpression is constructed exactly when
// the lookup succeeded and MinArity <= len(args) <= MaxArity of the looked-up
// entry, and the constructed node carries the looked-up function.
func ruleTAB4(p *Program) *RuleResult {
	r := newResult("TAB4")
	fn, err := p.Method("fhirpath/internal/parser", "FHIRPathVisitor", "VisitFunction")
	if err != nil {
		return r.anchorFail(err)
	}
	// locate: the map lookup on a FunctionTable, the FunctionExpression alloc,
	// the value stored into its Args field and Fn field.
	var lookup *ssa.Lookup
	var alloc *ssa.Alloc
	for _, b := range fn.Blocks {
		for _, ins := range b.Instrs {
			switch x := ins.(type) {
			case *ssa.Lookup:
				if x.CommaOk && strings.HasSuffix(x.X.Type().String(), "funcs.FunctionTable") {
					if lookup != nil {
						r.undecided("VisitFunction|lookup", "more than one table lookup", p.instrPos(ins), "unsupported shape")
					}
					lookup = x
				}
			case *ssa.Alloc:
				if strings.HasSuffix(x.Type().String(), "expr.FunctionExpression") {
					if alloc != nil {
						r.undecided("VisitFunction|node", "more than one FunctionExpression construction", p.instrPos(ins), "unsupported shape")
					}
					alloc = x
				}
			}
		}
	}
	if lookup == nil || alloc == nil {
		r.undecided("VisitFunction|shape", "lookup / construction not found", p.pos(fn.Pos()), "VisitFunction no longer looks up the table with comma-ok or no longer constructs a FunctionExpression")
		return r
	}
	var argsVal, fnVal ssa.Value
	for _, ref := range *alloc.Referrers() {
		fa, ok := ref.(*ssa.FieldAddr)
		if !ok {
			continue
		}
		for _, r2 := range *fa.Referrers() {
			if st, ok := r2.(*ssa.Store); ok && st.Addr == fa {
				switch fa.Field {
				case 0:
					fnVal = st.Val
				case 1:
					argsVal = st.Val
				}
			}
		}
	}
	if argsVal == nil || fnVal == nil {
		r.undecided("VisitFunction|fields", "Fn/Args stores not found", p.instrPos(alloc), "unsupported construction shape")
		return r
	}
	var ext0, ext1 ssa.Value
	for _, ref := range *lookup.Referrers() {
		if e, ok := ref.(*ssa.Extract); ok {
			if e.Index == 0 {
				ext0 = e
			} else {
				ext1 = e
			}
		}
	}
	if ext0 == nil || ext1 == nil {
		r.bad("VisitFunction|ok-ignored", "lookup result", p.instrPos(lookup), "the ok result of the table lookup is not consumed")
		return r
	}
	sentinel := nonnil("LOOKED-UP-FUNC")
	type hyp struct {
		ok       bool
		min, max int
		n        int
	}
	var hyps []hyp
	for _, mm := range [][2]int{{0, 0}, {1, 2}, {2, 3}} {
		for n := 0; n <= 4; n++ {
			hyps = append(hyps, hyp{true, mm[0], mm[1], n})
		}
	}
	hyps = append(hyps, hyp{false, 0, 0, 0}, hyp{false, 0, 4, 1})
	for _, h := range hyps {
		r.count("hypotheses", 1)
		an := newAnalyzer()
		an.pin[ext0] = aval{k: kStruct, elems: []aval{sentinel, cInt(int64(h.min)), cInt(int64(h.max)), top}}
		an.pin[ext1] = cBool(h.ok)
		an.pin[argsVal] = sliceLen(h.n)
		params := []aval{nonnil("v"), nonnil("ctx")}
		res := an.analyze(fn, params)
		built := res.executable(alloc)
		want := h.ok && h.min <= h.n && h.n <= h.max
		key := fmt.Sprintf("VisitFunction|found=%v,[%d,%d],n=%d", h.ok, h.min, h.max, h.n)
		desc := fmt.Sprintf("lookup ok=%v, entry bounds [%d,%d], %d argument(s): FunctionExpression constructed=%v", h.ok, h.min, h.max, h.n, built)
		switch {
		case built == want:
			r.ok(key, desc, p.instrPos(alloc), "SCCP: construction executable iff found ∧ Min<=n<=Max", true)
		case built && !want:
			r.bad(key, desc, p.instrPos(alloc), "Compile accepts a call that is not in the table or outside the entry's arity bounds")
		default:
			r.bad(key, desc, p.instrPos(alloc), "Compile rejects a call that is in the table and within the entry's arity bounds")
		}
		if built && want {
			// the node must carry the looked-up function
			v := res.env[fnVal]
			if pinv, ok := an.pin[fnVal]; ok {
				v = pinv
			}
			has := false
			for _, nt := range v.notes {
				if nt == "LOOKED-UP-FUNC" {
					has = true
				}
			}
			if !has {
				r.bad(key+"|fn", "FunctionExpression.Fn = "+v.String(), p.instrPos(alloc), "the constructed node does not carry the function of the looked-up entry")
			}
		}
	}
	r.floor("hypotheses", 10)
	return r
}
