package main

// C09 — date/time arithmetic.  TIM1 dimensional consistency of durations,
// TIM2 precision (layout) of the receiver is preserved, TIM4 unknown units are
// errors, TIM5 provenance of the time value of constructed Date/DateTime/Time
// values (who may produce it), QTY quantities combine within one unit only.

import (
	"fmt"
	"go/token"
	"go/types"
	"sort"
	"strings"

	"golang.org/x/tools/go/ssa"
)

func isDurationType(t types.Type) bool {
	n, ok := t.(*types.Named)
	return ok && n.Obj().Pkg() != nil && n.Obj().Pkg().Path() == "time" && n.Obj().Name() == "Duration"
}

func systemFuncs(p *Program) []*ssa.Function {
	var out []*ssa.Function
	for _, fn := range p.RepoFuncs() {
		if strings.HasSuffix(fnPkgPath(fn), "/fhirpath/system") {
			out = append(out, fn)
		}
	}
	sort.Slice(out, func(i, j int) bool { return fnKey(out[i]) < fnKey(out[j]) })
	return out
}

// TIM1: a Duration divided by a Duration is a count; it must be multiplied
// back by the same unit before it is used as a Duration again.
func ruleTIM1(p *Program) *RuleResult {
	r := newResult("TIM1")
	for _, fn := range systemFuncs(p) {
		for _, b := range fn.Blocks {
			for _, ins := range b.Instrs {
				bo, ok := ins.(*ssa.BinOp)
				if !ok || bo.Op != token.QUO || !isDurationType(bo.Type()) || !isDurationType(bo.Y.Type()) {
					continue
				}
				if _, isC := bo.X.(*ssa.Const); isC {
					continue
				}
				r.count("duration_divisions", 1)
				key := short(fn) + "|d / " + valDescr(bo.Y)
				okAll := true
				nuse := 0
				for _, ref := range *bo.Referrers() {
					if _, dbg := ref.(*ssa.DebugRef); dbg {
						continue
					}
					nuse++
					mul, ok := ref.(*ssa.BinOp)
					if !ok || mul.Op != token.MUL {
						okAll = false
						continue
					}
					other := mul.Y
					if mul.Y == ssa.Value(bo) {
						other = mul.X
					}
					if !sameAccess(other, bo.Y) {
						okAll = false
					}
				}
				if okAll && nuse > 0 {
					r.ok(key, "duration divided by a unit and multiplied back by the same unit (rounding down to whole units)", p.instrPos(ins), "every use of the quotient is a multiplication by the divisor", true)
				} else {
					r.bad(key, "a Duration divided by a unit is used as a Duration without multiplying the unit back", p.instrPos(ins), "the count of units is reinterpreted as nanoseconds: arithmetic with amounts coarser than the value's precision has no effect")
				}
			}
		}
	}
	r.floor("duration_divisions", 1)
	return r
}

type dtType struct{ name, timeField string }

var dtTypes = []dtType{{"Date", "date"}, {"DateTime", "dateTime"}, {"Time", "time"}}

// constructions of system.Date/DateTime/Time values in fn: (alloc/struct, time value, layout value)
type dtConstruct struct {
	ins     ssa.Instruction
	typ     string
	timeVal ssa.Value
	layVal  ssa.Value
}

func dtConstructions(fn *ssa.Function) []dtConstruct {
	var out []dtConstruct
	tname := func(t types.Type) string {
		if pt, ok := t.(*types.Pointer); ok {
			t = pt.Elem()
		}
		n := namedName(t)
		if strings.HasSuffix(namedPkgPath(t), "/fhirpath/system") && (n == "Date" || n == "DateTime" || n == "Time") {
			return n
		}
		return ""
	}
	for _, b := range fn.Blocks {
		for _, ins := range b.Instrs {
			al, ok := ins.(*ssa.Alloc)
			if !ok {
				continue
			}
			n := tname(al.Type())
			if n == "" {
				continue
			}
			var tv, lv ssa.Value
			stores := 0
			for _, ref := range *al.Referrers() {
				fa, ok := ref.(*ssa.FieldAddr)
				if !ok {
					continue
				}
				for _, r2 := range *fa.Referrers() {
					if st, ok := r2.(*ssa.Store); ok && st.Addr == ssa.Value(fa) {
						stores++
						if fa.Field == 0 {
							tv = st.Val
						} else {
							lv = st.Val
						}
					}
				}
			}
			if stores == 0 {
				continue // zero value (error returns)
			}
			out = append(out, dtConstruct{al, n, tv, lv})
		}
	}
	return out
}

// time producers allowed in package system (everything else is a violation)
func allowedTimeOrigin(v ssa.Value, depth int) (bool, string) {
	if depth > 16 {
		return false, "derivation too deep"
	}
	switch x := v.(type) {
	case nil:
		return true, "zero time"
	case *ssa.Extract:
		if c, ok := x.Tuple.(*ssa.Call); ok {
			return allowedCallOrigin(c, x.Index, depth+1)
		}
		return allowedTimeOrigin(x.Tuple, depth+1)
	case *ssa.Phi:
		for _, e := range x.Edges {
			if ok, why := allowedTimeOrigin(e, depth+1); !ok {
				return false, why
			}
		}
		return true, ""
	case *ssa.UnOp:
		// load of a time field of another Date/DateTime/Time, or of a local variable
		if fa, ok := x.X.(*ssa.FieldAddr); ok {
			f := fieldName(fa)
			if f == "date" || f == "dateTime" || f == "time" {
				return true, ""
			}
			return false, "field " + f
		}
		if al, ok := x.X.(*ssa.Alloc); ok {
			for _, ref := range *al.Referrers() {
				if st, ok := ref.(*ssa.Store); ok && st.Addr == ssa.Value(al) {
					if ok, why := allowedTimeOrigin(st.Val, depth+1); !ok {
						return false, why
					}
				}
			}
			return true, ""
		}
		return false, "load of " + x.X.String()
	case *ssa.Field:
		return true, ""
	case *ssa.Parameter:
		return true, "" // helpers (addMonth/addYear) transform a value handed in by the arithmetic methods
	case *ssa.Const:
		return true, ""
	case *ssa.Call:
		return allowedCallOrigin(x, 0, depth)
	}
	return false, fmt.Sprintf("%T", v)
}

// allowedCallOrigin: the idx-th result of the call is an allowed time value.
func allowedCallOrigin(x *ssa.Call, idx int, depth int) (bool, string) {
	{
		sc := x.Common().StaticCallee()
		if sc == nil {
			return false, "dynamic call"
		}
		name := sc.RelString(nil)
		switch name {
		case "time.Parse":
			return true, ""
		case "(time.Time).AddDate", "(time.Time).Add", "(time.Time).UTC":
			return allowedTimeOrigin(x.Common().Args[0], depth+1)
		case "(time.Time).In":
			// only with the constant UTC location
			if ld, ok := x.Common().Args[1].(*ssa.UnOp); ok {
				if g, ok := ld.X.(*ssa.Global); ok && g.Pkg.Pkg.Path() == "time" && g.Name() == "UTC" {
					return allowedTimeOrigin(x.Common().Args[0], depth+1)
				}
			}
			return false, "Time.In with a location other than time.UTC"
		case "time.UnixMicro", "time.UnixMilli", "time.Unix":
			return true, ""
		}
		if inRepoFn(sc) {
			sn := short(sc)
			if strings.Contains(sn, "internal/fhirconv.") {
				return true, "" // proto → time.Time conversion helpers (C15)
			}
			// a helper of the value layer: what it returns must itself come from allowed
			// producers (its parameters standing for the arguments, checked here)
			if strings.HasSuffix(fnPkgPath(sc), "fhirpath/system") && len(sc.Blocks) > 0 {
				for _, a := range x.Common().Args {
					if namedName(a.Type()) == "Time" && typeShort(a.Type()) == "time.Time" {
						if ok, why := allowedTimeOrigin(a, depth+1); !ok {
							return false, why
						}
					}
				}
				for _, b := range sc.Blocks {
					ret, ok := b.Instrs[len(b.Instrs)-1].(*ssa.Return)
					if !ok || idx >= len(ret.Results) {
						continue
					}
					if ok, why := allowedTimeOrigin(ret.Results[idx], depth+1); !ok {
						return false, why + " (in " + shortName(name) + ")"
					}
				}
				return true, ""
			}
		}
		return false, "result of " + shortName(name)
	}
}

// TIM2 + TIM5
func ruleTIM25(p *Program) *RuleResult {
	r := newResult("TIM2")
	for _, fn := range systemFuncs(p) {
		cons := dtConstructions(fn)
		for _, c := range cons {
			r.count("constructions", 1)
			// TIM5: provenance of the time value
			key := short(fn) + "|" + c.typ + "{time}"
			if ok, why := allowedTimeOrigin(c.timeVal, 0); ok {
				r.ok(key, "the time value of the constructed "+c.typ+" comes from an allowed producer", p.instrPos(c.ins), "time.Parse / AddDate / Add / addMonth / addYear / field of another value / UTC conversion", true)
			} else {
				r.bad(key, "the time value of a constructed "+c.typ+" comes from "+why, p.instrPos(c.ins),
					"Date/DateTime/Time values must be produced by layout parsing or calendar arithmetic on such values: other producers (time.Date with a zone, Truncate/Round on absolute time, the wall clock) break the 'same instant, precision and offset' invariant")
			}
			// TIM2: in Add/Sub the layout is the receiver's
			if (fn.Name() == "Add" || fn.Name() == "Sub") && fn.Signature.Recv() != nil && namedName(fn.Signature.Recv().Type()) == c.typ {
				key2 := short(fn) + "|" + c.typ + "{layout}"
				okL := false
				if ld, ok := c.layVal.(*ssa.UnOp); ok {
					if fa, ok := ld.X.(*ssa.FieldAddr); ok && fieldName(fa) == "l" && rootIsReceiver(fa.X, fn) {
						okL = true
					}
				}
				if f, ok := c.layVal.(*ssa.Field); ok && rootIsReceiver(f.X, fn) {
					okL = true
				}
				if okL {
					r.ok(key2, c.typ+"."+fn.Name()+" keeps the receiver's layout (precision and offset form)", p.instrPos(c.ins), "the layout field of the result is loaded from the receiver", true)
				} else {
					r.bad(key2, c.typ+"."+fn.Name()+" builds its result with a layout that is not the receiver's", p.instrPos(c.ins), "the result must have the same precision and UTC-offset form as the operand")
				}
			}
		}
	}
	// forbidden producers anywhere in package system
	for _, fn := range systemFuncs(p) {
		for _, b := range fn.Blocks {
			for _, ins := range b.Instrs {
				c, ok := ins.(*ssa.Call)
				if !ok || c.Common().StaticCallee() == nil {
					continue
				}
				switch n := c.Common().StaticCallee().RelString(nil); n {
				case "(time.Time).Truncate", "(time.Time).Round", "time.Date", "time.Now", "(time.Time).Local":
					r.bad(short(fn)+"|"+n, n+" in "+short(fn), p.instrPos(ins), "absolute-time rounding / zone-dependent construction in the System value layer: results depend on the UTC offset or the process zone instead of the value's own components")
				}
			}
		}
	}
	r.floor("constructions", 8)
	return r
}

func rootIsReceiver(v ssa.Value, fn *ssa.Function) bool {
	for i := 0; i < 4; i++ {
		switch x := v.(type) {
		case *ssa.Parameter:
			return len(fn.Params) > 0 && x == fn.Params[0]
		case *ssa.Alloc:
			// value receivers are spilled: the cell is initialised from the parameter
			for _, ref := range *x.Referrers() {
				if st, ok := ref.(*ssa.Store); ok && st.Addr == ssa.Value(x) {
					if pr, ok := st.Val.(*ssa.Parameter); ok && len(fn.Params) > 0 && pr == fn.Params[0] {
						return true
					}
				}
			}
			return false
		case *ssa.UnOp:
			v = x.X
		case *ssa.FieldAddr:
			v = x.X
		default:
			return false
		}
	}
	return false
}

// TIM4 + QTY: unknown / mismatched units
func ruleTIM4(p *Program) *RuleResult {
	r := newResult("TIM4")
	sp, err := p.Pkg("fhirpath/system")
	if err != nil {
		return r.anchorFail(err)
	}
	qT := sp.Type("Quantity")
	if qT == nil {
		return r.anchorFail(fmt.Errorf("anchor: system.Quantity not found"))
	}
	quantity := func(unit string) aval {
		return aval{k: kStruct, elems: []aval{top, cStr(unit)}}
	}
	knownUnits := []string{"year", "years", "month", "months", "week", "weeks", "day", "days", "hour", "hours", "minute", "minutes", "second", "seconds", "millisecond", "milliseconds"}
	for _, t := range dtTypes {
		for _, m := range []string{"Add", "Sub"} {
			fn, err := p.Method("fhirpath/system", t.name, m)
			if err != nil {
				return r.anchorFail(err)
			}
			layouts := []aval{top}
			// unknown unit → only error returns, whatever the precision
			for _, unit := range []string{"mg", "", "Years", "cm", "'wk'"} {
				r.count("hypotheses", 1)
				an := newAnalyzer()
				an.maxBlocks = 300
				recv := aval{k: kStruct, elems: []aval{top, layouts[0]}}
				res := an.analyze(fn, []aval{recv, quantity(unit)})
				okAll := len(res.rets) > 0
				for _, ri := range res.rets {
					if !retIsErr(ri) {
						okAll = false
					}
				}
				key := fmt.Sprintf("%s.%s|unit=%q", t.name, m, unit)
				if okAll {
					r.ok(key, fmt.Sprintf("%s.%s with the non-temporal unit %q is an error", t.name, m, unit), p.pos(fn.Pos()), "SCCP with the quantity's unit pinned: every executable return carries an error", true)
				} else {
					r.bad(key, fmt.Sprintf("%s.%s with the non-temporal unit %q can return a value", t.name, m, unit), p.pos(fn.Pos()), "a non-temporal or unsupported unit must be an error, never a silently unchanged value")
				}
			}
			// singular and plural keywords behave alike: the same set of executable returns classes
			for i := 0; i+1 < len(knownUnits); i += 2 {
				r.count("hypotheses", 1)
				cls := func(unit string) string {
					an := newAnalyzer()
					an.maxBlocks = 300
					res := an.analyze(fn, []aval{{k: kStruct, elems: []aval{top, top}}, quantity(unit)})
					var out []string
					for _, ri := range res.rets {
						if retIsErr(ri) {
							out = append(out, "error@"+p.instrPos(ri.instr))
						} else {
							out = append(out, "value@"+p.instrPos(ri.instr))
						}
					}
					sort.Strings(out)
					return strings.Join(out, ",")
				}
				a, b := cls(knownUnits[i]), cls(knownUnits[i+1])
				key := fmt.Sprintf("%s.%s|%s~%s", t.name, m, knownUnits[i], knownUnits[i+1])
				if a == b {
					r.ok(key, fmt.Sprintf("%s.%s treats %q and %q alike", t.name, m, knownUnits[i], knownUnits[i+1]), p.pos(fn.Pos()), "same executable returns under either keyword", true)
				} else {
					r.bad(key, fmt.Sprintf("%s.%s treats %q and %q differently (%s vs %s)", t.name, m, knownUnits[i], knownUnits[i+1], a, b), p.pos(fn.Pos()), "singular and plural calendar keywords must be equivalent")
				}
			}
		}
	}
	// quantities: add, subtract, compare only within one unit
	for _, m := range []string{"Add", "Sub", "Less"} {
		fn, err := p.Method("fhirpath/system", "Quantity", m)
		if err != nil {
			return r.anchorFail(err)
		}
		for _, c := range []struct {
			u1, u2 string
			same   bool
		}{{"mg", "mg", true}, {"mg", "g", false}, {"year", "years", false}, {"", "1", false}} {
			r.count("hypotheses", 1)
			an := newAnalyzer()
			an.maxBlocks = 200
			arg := quantity(c.u2)
			if m == "Less" {
				arg.dyn = qT.Type()
			}
			res := an.analyze(fn, []aval{quantity(c.u1), arg})
			mism := len(res.rets) > 0
			for _, ri := range res.rets {
				e := ri.vals[1]
				if !(e.k == kNonNil && hasNote(e, "system.ErrMismatchedUnit")) {
					mism = false
				}
			}
			noMism := true
			for _, ri := range res.rets {
				if hasNote(ri.vals[1], "system.ErrMismatchedUnit") {
					noMism = false
				}
			}
			key := fmt.Sprintf("Quantity.%s|%q,%q", m, c.u1, c.u2)
			switch {
			case c.same && noMism:
				r.ok(key, fmt.Sprintf("Quantity.%s within unit %q does not report a unit mismatch", m, c.u1), p.pos(fn.Pos()), "SCCP with both units pinned", true)
			case !c.same && mism:
				r.ok(key, fmt.Sprintf("Quantity.%s across units %q/%q is ErrMismatchedUnit", m, c.u1, c.u2), p.pos(fn.Pos()), "SCCP with both units pinned", true)
			default:
				r.bad(key, fmt.Sprintf("Quantity.%s with units %q/%q: mismatch reported=%v", m, c.u1, c.u2, mism), p.pos(fn.Pos()), "quantities add, subtract and compare only within one unit")
			}
		}
	}
	r.floor("hypotheses", 60)
	return r
}
