package main

// EN-TAB: extraction of constant tables from the type-checked syntax.

import (
	"fmt"
	"go/ast"
	"go/constant"
	"go/token"
	"go/types"
	"sort"
	"strconv"

	"golang.org/x/tools/go/packages"
	"golang.org/x/tools/go/ssa"
)

// findVarDecl finds the initialiser expression of a package-level variable.
func findVarDecl(pk *packages.Package, name string) (ast.Expr, *ast.File) {
	if e, f := findVarDeclExact(pk, name); e != nil || token.IsExported(name) || theProgram == nil {
		return e, f
	}
	// renamed? (fingerprints.go)
	if nn := theProgram.resolveVarByFingerprint(relOf(pk.PkgPath), name); nn != "" {
		return findVarDeclExact(pk, nn)
	}
	return nil, nil
}

func findVarDeclExact(pk *packages.Package, name string) (ast.Expr, *ast.File) {
	for _, f := range pk.Syntax {
		for _, d := range f.Decls {
			gd, ok := d.(*ast.GenDecl)
			if !ok || gd.Tok != token.VAR {
				continue
			}
			for _, s := range gd.Specs {
				vs := s.(*ast.ValueSpec)
				for i, n := range vs.Names {
					if n.Name == name && i < len(vs.Values) {
						return vs.Values[i], f
					}
				}
			}
		}
	}
	return nil, nil
}

func findFuncDecl(pk *packages.Package, recv, name string) *ast.FuncDecl {
	for _, f := range pk.Syntax {
		for _, d := range f.Decls {
			fd, ok := d.(*ast.FuncDecl)
			if !ok || fd.Name.Name != name {
				continue
			}
			if recv == "" && fd.Recv == nil {
				return fd
			}
			if recv != "" && fd.Recv != nil && len(fd.Recv.List) == 1 {
				t := fd.Recv.List[0].Type
				if st, ok := t.(*ast.StarExpr); ok {
					t = st.X
				}
				if id, ok := t.(*ast.Ident); ok && id.Name == recv {
					return fd
				}
			}
		}
	}
	return nil
}

type funcEntry struct {
	Name     string
	Impl     types.Object // function object bound in the entry, nil for placeholder
	ImplName string       // "impl.Where" / "notImplemented"
	Min, Max int
	Pos      token.Pos
	Placeholder bool
}

// readFuncTable reads a `FunctionTable{ "name": Function{impl.X, min, max, ...}, "y": notImplemented }` literal.
func readFuncTable(p *Program, varName string) ([]funcEntry, error) {
	pk := p.ByPath[mod+"/fhirpath/internal/funcs"]
	if pk == nil {
		return nil, fmt.Errorf("anchor: package funcs not loaded")
	}
	init, _ := findVarDecl(pk, varName)
	cl, ok := init.(*ast.CompositeLit)
	if !ok {
		return nil, fmt.Errorf("anchor: funcs.%s is not a composite literal", varName)
	}
	var out []funcEntry
	for _, el := range cl.Elts {
		kv, ok := el.(*ast.KeyValueExpr)
		if !ok {
			return nil, fmt.Errorf("funcs.%s: element is not key:value at %s", varName, p.pos(el.Pos()))
		}
		tv := pk.TypesInfo.Types[kv.Key]
		if tv.Value == nil || tv.Value.Kind() != constant.String {
			return nil, fmt.Errorf("funcs.%s: non-constant key at %s", varName, p.pos(kv.Key.Pos()))
		}
		e := funcEntry{Name: constant.StringVal(tv.Value), Pos: kv.Pos()}
		switch v := kv.Value.(type) {
		case *ast.Ident:
			// a named Function value, e.g. notImplemented: resolve its declaration
			e.ImplName = v.Name
			d, _ := findVarDecl(pk, v.Name)
			dcl, ok := d.(*ast.CompositeLit)
			if !ok {
				return nil, fmt.Errorf("funcs.%s[%q]: value %s is not a literal", varName, e.Name, v.Name)
			}
			if err := readFunctionLit(pk, dcl, &e); err != nil {
				return nil, fmt.Errorf("funcs.%s[%q]: %v", varName, e.Name, err)
			}
			e.Placeholder = true
		case *ast.CompositeLit:
			if err := readFunctionLit(pk, v, &e); err != nil {
				return nil, fmt.Errorf("funcs.%s[%q]: %v", varName, e.Name, err)
			}
		default:
			return nil, fmt.Errorf("funcs.%s[%q]: unsupported value shape %T", varName, e.Name, kv.Value)
		}
		out = append(out, e)
	}
	sort.Slice(out, func(i, j int) bool { return out[i].Name < out[j].Name })
	return out, nil
}

func readFunctionLit(pk *packages.Package, cl *ast.CompositeLit, e *funcEntry) error {
	get := func(i int, field string) ast.Expr {
		for j, el := range cl.Elts {
			if kv, ok := el.(*ast.KeyValueExpr); ok {
				if id, ok := kv.Key.(*ast.Ident); ok && id.Name == field {
					return kv.Value
				}
			} else if j == i {
				return el
			}
		}
		return nil
	}
	fe := get(0, "Func")
	if fe == nil {
		return fmt.Errorf("no Func field")
	}
	var obj types.Object
	switch f := fe.(type) {
	case *ast.SelectorExpr:
		obj = pk.TypesInfo.Uses[f.Sel]
	case *ast.Ident:
		obj = pk.TypesInfo.Uses[f]
	}
	if _, ok := obj.(*types.Func); !ok {
		return fmt.Errorf("Func field is not a named function")
	}
	e.Impl = obj
	if e.ImplName == "" {
		e.ImplName = obj.Pkg().Name() + "." + obj.Name()
	}
	for i, name := range []string{"MinArity", "MaxArity"} {
		x := get(i+1, name)
		n := 0
		if x != nil {
			tv := pk.TypesInfo.Types[x]
			if tv.Value == nil {
				return fmt.Errorf("%s is not constant", name)
			}
			v, _ := constant.Int64Val(tv.Value)
			n = int(v)
		}
		if i == 0 {
			e.Min = n
		} else {
			e.Max = n
		}
	}
	return nil
}

// ssaFuncOf maps a types.Func to its ssa.Function.
func (p *Program) ssaFuncOf(obj types.Object) *ssa.Function {
	f, _ := obj.(*types.Func)
	if f == nil {
		return nil
	}
	return p.Prog.FuncValue(f)
}

// stringConstsOfPackage returns the string-typed constants of a package
// by name (e.g. expr.Operator constants).
func stringConsts(pk *packages.Package, typeName string) map[string]string {
	out := map[string]string{}
	sc := pk.Types.Scope()
	for _, n := range sc.Names() {
		c, ok := sc.Lookup(n).(*types.Const)
		if !ok || c.Val().Kind() != constant.String {
			continue
		}
		if typeName != "" {
			nt, ok := c.Type().(*types.Named)
			if !ok || nt.Obj().Name() != typeName {
				continue
			}
		}
		out[n] = constant.StringVal(c.Val())
	}
	return out
}

func unquote(s string) string {
	if u, err := strconv.Unquote(s); err == nil {
		return u
	}
	return s
}
