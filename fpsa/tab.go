package main

// EN-TAB: extraction of constant tables from the type-checked syntax.

import (
	"fmt"
	"go/ast"
	"go/constant"
	"go/token"
	"go/types"
	"sort"
	"strconv"

	"golang.org/x/tools/go/packages"
	"golang.org/x/tools/go/ssa"
)

// findVarDecl finds the initialiser expression of a package-level variable.
func findVarDecl(pk *packages.Package, name string) (ast.Expr, *ast.File) {
	if e, f := findVarDeclExact(pk, name); e != nil || token.IsExported(name) || theProgram == nil {
		return e, f
	}
	// renamed? (fingerprints.go)
	if nn := theProgram.resolveVarByFingerprint(relOf(pk.PkgPath), name); nn != "" {
		return findVarDeclExact(pk, nn)
	}
	return nil, nil
}

func findVarDeclExact(pk *packages.Package, name string) (ast.Expr, *ast.File) {
	for _, f := range pk.Syntax {
		for _, d := range f.Decls {
			gd, ok := d.(*ast.GenDecl)
			if !ok || gd.Tok != token.VAR {
				continue
			}
			for _, s := range gd.Specs {
				vs := s.(*ast.ValueSpec)
				for i, n := range vs.Names {
					if n.Name == name && i < len(vs.Values) {
						return vs.Values[i], f
					}
				}
			}
		}
	}
	return nil, nil
}

func findFuncDecl(pk *packages.Package, recv, name string) *ast.FuncDecl {
	for _, f := range pk.Syntax {
		for _, d := range f.Decls {
			fd, ok := d.(*ast.FuncDecl)
			if !ok || fd.Name.Name != name {
				continue
			}
			if recv == "" && fd.Recv == nil {
				return fd
			}
			if recv != "" && fd.Recv != nil && len(fd.Recv.List) == 1 {
				t := fd.Recv.List[0].Type
				if st, ok := t.(*ast.StarExpr); ok {
					t = st.X
				}
				if id, ok := t.(*ast.Ident); ok && id.Name == recv {
					return fd
				}
			}
		}
	}
	return nil
}

type funcEntry struct {
	Name        string
	Impl        types.Object // function object bound in the entry, nil for placeholder
	ImplName    string       // "impl.Where" / "notImplemented"
	Min, Max    int
	Pos         token.Pos
	Placeholder bool
}

// readFuncTable reads a `FunctionTable{ "name": Function{impl.X, min, max, ...}, "y": notImplemented }` literal.
func readFuncTable(p *Program, varName string) ([]funcEntry, error) {
	pk := p.ByPath[mod+"/fhirpath/internal/funcs"]
	if pk == nil {
		return nil, fmt.Errorf("anchor: package funcs not loaded")
	}
	init, _ := findVarDecl(pk, varName)
	cl, ok := init.(*ast.CompositeLit)
	if !ok {
		// not a plain literal (built through a helper, filled from name lists): the entries
		// are read off the package initialiser's SSA instead
		out, err := readFuncTableSSA(p, varName)
		if err != nil {
			return nil, fmt.Errorf("anchor: funcs.%s is not a composite literal and %v", varName, err)
		}
		return out, nil
	}
	var out []funcEntry
	for _, el := range cl.Elts {
		kv, ok := el.(*ast.KeyValueExpr)
		if !ok {
			return nil, fmt.Errorf("funcs.%s: element is not key:value at %s", varName, p.pos(el.Pos()))
		}
		tv := pk.TypesInfo.Types[kv.Key]
		if tv.Value == nil || tv.Value.Kind() != constant.String {
			return nil, fmt.Errorf("funcs.%s: non-constant key at %s", varName, p.pos(kv.Key.Pos()))
		}
		e := funcEntry{Name: constant.StringVal(tv.Value), Pos: kv.Pos()}
		switch v := kv.Value.(type) {
		case *ast.Ident:
			// a named Function value, e.g. notImplemented: resolve its declaration
			e.ImplName = v.Name
			d, _ := findVarDecl(pk, v.Name)
			dcl, ok := d.(*ast.CompositeLit)
			if !ok {
				return nil, fmt.Errorf("funcs.%s[%q]: value %s is not a literal", varName, e.Name, v.Name)
			}
			if err := readFunctionLit(pk, dcl, &e); err != nil {
				return nil, fmt.Errorf("funcs.%s[%q]: %v", varName, e.Name, err)
			}
			e.Placeholder = true
		case *ast.CompositeLit:
			if err := readFunctionLit(pk, v, &e); err != nil {
				return nil, fmt.Errorf("funcs.%s[%q]: %v", varName, e.Name, err)
			}
		default:
			return nil, fmt.Errorf("funcs.%s[%q]: unsupported value shape %T", varName, e.Name, kv.Value)
		}
		out = append(out, e)
	}
	sort.Slice(out, func(i, j int) bool { return out[i].Name < out[j].Name })
	return out, nil
}

func readFunctionLit(pk *packages.Package, cl *ast.CompositeLit, e *funcEntry) error {
	get := func(i int, field string) ast.Expr {
		for j, el := range cl.Elts {
			if kv, ok := el.(*ast.KeyValueExpr); ok {
				if id, ok := kv.Key.(*ast.Ident); ok && id.Name == field {
					return kv.Value
				}
			} else if j == i {
				return el
			}
		}
		return nil
	}
	fe := get(0, "Func")
	if fe == nil {
		return fmt.Errorf("no Func field")
	}
	var obj types.Object
	switch f := fe.(type) {
	case *ast.SelectorExpr:
		obj = pk.TypesInfo.Uses[f.Sel]
	case *ast.Ident:
		obj = pk.TypesInfo.Uses[f]
	}
	if _, ok := obj.(*types.Func); !ok {
		return fmt.Errorf("Func field is not a named function")
	}
	e.Impl = obj
	if e.ImplName == "" {
		e.ImplName = obj.Pkg().Name() + "." + obj.Name()
	}
	for i, name := range []string{"MinArity", "MaxArity"} {
		x := get(i+1, name)
		n := 0
		if x != nil {
			tv := pk.TypesInfo.Types[x]
			if tv.Value == nil {
				return fmt.Errorf("%s is not constant", name)
			}
			v, _ := constant.Int64Val(tv.Value)
			n = int(v)
		}
		if i == 0 {
			e.Min = n
		} else {
			e.Max = n
		}
	}
	return nil
}

// ssaFuncOf maps a types.Func to its ssa.Function.
func (p *Program) ssaFuncOf(obj types.Object) *ssa.Function {
	f, _ := obj.(*types.Func)
	if f == nil {
		return nil
	}
	return p.Prog.FuncValue(f)
}

// stringConstsOfPackage returns the string-typed constants of a package
// by name (e.g. expr.Operator constants).
func stringConsts(pk *packages.Package, typeName string) map[string]string {
	out := map[string]string{}
	sc := pk.Types.Scope()
	for _, n := range sc.Names() {
		c, ok := sc.Lookup(n).(*types.Const)
		if !ok || c.Val().Kind() != constant.String {
			continue
		}
		if typeName != "" {
			nt, ok := c.Type().(*types.Named)
			if !ok || nt.Obj().Name() != typeName {
				continue
			}
		}
		out[n] = constant.StringVal(c.Val())
	}
	return out
}

func unquote(s string) string {
	if u, err := strconv.Unquote(s); err == nil {
		return u
	}
	return s
}

// readFuncTableSSA reads the entries of a package-level FunctionTable from the
// SSA of the package initialiser: the map that is stored into the variable is
// followed back through in-repo functions that hand their map parameter back,
// and every MapUpdate on it is an entry — with a constant key, or, inside a
// `range` over a constant package-level []string, one entry per name.  The
// entry value is a Function composite (fields read off the stores into its
// temporary) or a load of a package-level Function variable (a placeholder).
func readFuncTableSSA(p *Program, varName string) ([]funcEntry, error) {
	g, err := p.Global("fhirpath/internal/funcs", varName)
	if err != nil {
		return nil, err
	}
	initFn := g.Pkg.Func("init")
	if initFn == nil {
		return nil, fmt.Errorf("package initialiser not found")
	}
	var src ssa.Value
	n := 0
	for _, b := range initFn.Blocks {
		for _, ins := range b.Instrs {
			if st, ok := ins.(*ssa.Store); ok && st.Addr == ssa.Value(g) {
				src, n = st.Val, n+1
			}
		}
	}
	if n != 1 {
		return nil, fmt.Errorf("%d stores to the variable in the package initialiser", n)
	}
	entries := map[string]funcEntry{}
	var readValue func(v ssa.Value, depth int) (funcEntry, error)
	readValue = func(v ssa.Value, depth int) (funcEntry, error) {
		var e funcEntry
		if depth > 3 {
			return e, fmt.Errorf("value too deep")
		}
		ld, ok := v.(*ssa.UnOp)
		if !ok || ld.Op != token.MUL {
			return e, fmt.Errorf("unsupported entry value %T", v)
		}
		switch src := ld.X.(type) {
		case *ssa.Global:
			// a named Function variable: its own initialiser
			gi := src.Pkg.Func("init")
			for _, b := range gi.Blocks {
				for _, ins := range b.Instrs {
					if fa, ok := ins.(*ssa.FieldAddr); ok && fa.X == ssa.Value(src) && fa.Referrers() != nil {
						for _, ref := range *fa.Referrers() {
							if st, ok := ref.(*ssa.Store); ok {
								readField(&e, fieldName(fa), st.Val)
							}
						}
					}
					if st, ok := ins.(*ssa.Store); ok && st.Addr == ssa.Value(src) {
						if inner, err := readValue(st.Val, depth+1); err == nil {
							e = inner
						}
					}
				}
			}
			e.ImplName = src.Name()
			e.Placeholder = true
			if e.Impl == nil {
				return e, fmt.Errorf("variable %s has no function", src.Name())
			}
			return e, nil
		case *ssa.Alloc:
			if src.Referrers() == nil {
				return e, fmt.Errorf("empty composite")
			}
			for _, ref := range *src.Referrers() {
				if fa, ok := ref.(*ssa.FieldAddr); ok && fa.Referrers() != nil {
					for _, r2 := range *fa.Referrers() {
						if st, ok := r2.(*ssa.Store); ok && st.Addr == ssa.Value(fa) {
							readField(&e, fieldName(fa), st.Val)
						}
					}
				}
			}
			if e.Impl == nil {
				return e, fmt.Errorf("no Func field")
			}
			return e, nil
		}
		return e, fmt.Errorf("unsupported entry source %T", ld.X)
	}
	var collect func(m ssa.Value, depth int) error
	collectUpdates := func(fn *ssa.Function, m ssa.Value) error {
		if m.Referrers() == nil {
			return nil
		}
		for _, ref := range *m.Referrers() {
			mu, ok := ref.(*ssa.MapUpdate)
			if !ok || mu.Map != m {
				continue
			}
			e, err := readValue(mu.Value, 0)
			if err != nil {
				return fmt.Errorf("entry at %s: %v", p.instrPos(mu), err)
			}
			e.Pos = mu.Pos()
			if k, ok := mu.Key.(*ssa.Const); ok && k.Value != nil && k.Value.Kind() == constant.String {
				e.Name = constant.StringVal(k.Value)
				entries[e.Name] = e
				continue
			}
			// key = element of a range over a constant []string
			tab := tableOfElement(mu.Key)
			if tab == nil {
				return fmt.Errorf("entry at %s has a key that is neither constant nor an element of a name list", p.instrPos(mu))
			}
			if prm, ok := tab.(*ssa.Parameter); ok {
				tab = resolveParam(prm)
			}
			names, ok := constStringElems(tab, 0)
			if !ok {
				return fmt.Errorf("the name list at %s is not a constant []string", p.instrPos(mu))
			}
			for _, nm := range names {
				ee := e
				ee.Name = nm
				entries[nm] = ee
			}
		}
		return nil
	}
	collect = func(m ssa.Value, depth int) error {
		if depth > 3 {
			return fmt.Errorf("map origin too deep")
		}
		switch x := m.(type) {
		case *ssa.MakeMap:
			return collectUpdates(x.Parent(), x)
		case *ssa.ChangeType:
			return collect(x.X, depth+1)
		case *ssa.Call:
			sc := x.Common().StaticCallee()
			if sc == nil || !inRepoFn(sc) || len(sc.Blocks) == 0 {
				return fmt.Errorf("the table is the result of %s", callName(x.Common()))
			}
			// the callee hands one of its parameters back
			o, ok := structOriginOfMapResult(sc)
			if !ok {
				return fmt.Errorf("%s does not hand its table parameter back", short(sc))
			}
			if err := collectUpdates(sc, o); err != nil {
				return err
			}
			for i, prm := range sc.Params {
				if prm == o && i < len(x.Common().Args) {
					return collect(x.Common().Args[i], depth+1)
				}
			}
			return fmt.Errorf("parameter not found")
		}
		return fmt.Errorf("unsupported table origin %T", m)
	}
	if err := collect(src, 0); err != nil {
		return nil, err
	}
	var out []funcEntry
	for _, e := range entries {
		out = append(out, e)
	}
	sort.Slice(out, func(i, j int) bool { return out[i].Name < out[j].Name })
	if len(out) == 0 {
		return nil, fmt.Errorf("no entries found")
	}
	return out, nil
}

// structOriginOfMapResult: the parameter that every return of fn hands back (a map built by the caller).
func structOriginOfMapResult(fn *ssa.Function) (*ssa.Parameter, bool) {
	var res *ssa.Parameter
	for _, b := range fn.Blocks {
		ret, ok := b.Instrs[len(b.Instrs)-1].(*ssa.Return)
		if !ok || len(ret.Results) != 1 {
			continue
		}
		prm, ok := ret.Results[0].(*ssa.Parameter)
		if !ok || (res != nil && res != prm) {
			return nil, false
		}
		res = prm
	}
	return res, res != nil
}

func readField(e *funcEntry, field string, v ssa.Value) {
	for {
		if ct, ok := v.(*ssa.ChangeType); ok {
			v = ct.X
			continue
		}
		break
	}
	switch field {
	case "Func":
		if f, ok := v.(*ssa.Function); ok && f.Object() != nil {
			e.Impl = f.Object()
			if e.ImplName == "" {
				e.ImplName = f.Object().Pkg().Name() + "." + f.Object().Name()
			}
		}
	case "MinArity", "MaxArity":
		if c, ok := v.(*ssa.Const); ok && c.Value != nil {
			n, _ := constant.Int64Val(c.Value)
			if field == "MinArity" {
				e.Min = int(n)
			} else {
				e.Max = int(n)
			}
		}
	}
}
