package main

// C01 (part a) — crash-class inventories over everything reachable from the
// public API: PAN1 explicit panics / panic helpers, PAN2 division, PAN4
// unchecked type assertions, PAN8 non-finite floats into the decimal
// library, TER1 loops.

import (
	"fmt"
	"go/constant"
	"go/token"
	"go/types"
	"regexp/syntax"
	"sort"
	"strings"

	"golang.org/x/tools/go/ssa"
)

// ---------- shared: callers index ----------

type callSite struct {
	fn   *ssa.Function
	call ssa.CallInstruction
}

// staticCallers maps a function to its static call sites inside the given
// function set.
func staticCallers(fns []*ssa.Function) map[*ssa.Function][]callSite {
	out := map[*ssa.Function][]callSite{}
	for _, fn := range fns {
		for _, b := range fn.Blocks {
			for _, ins := range b.Instrs {
				if c, ok := ins.(ssa.CallInstruction); ok {
					if sc := c.Common().StaticCallee(); sc != nil {
						out[sc] = append(out[sc], callSite{fn, c})
						if o := sc.Origin(); o != nil {
							out[o] = append(out[o], callSite{fn, c})
						}
					}
				}
			}
		}
	}
	return out
}

// stripConv looks through conversions that preserve the numeric/identity value.
func stripConv(v ssa.Value) ssa.Value {
	for {
		switch x := v.(type) {
		case *ssa.ChangeType:
			v = x.X
		case *ssa.Convert:
			// only same-kind integer/float conversions keep zero-ness
			v = x.X
		case *ssa.MakeInterface:
			v = x.X
		case *ssa.Call:
			// decimal.NewFromInt32(x) / NewFromInt(x) is zero iff x is zero
			if sc := x.Common().StaticCallee(); sc != nil && fnPkgPath(sc) == "github.com/shopspring/decimal" &&
				(sc.Name() == "NewFromInt32" || sc.Name() == "NewFromInt") && len(x.Common().Args) == 1 {
				v = x.Common().Args[0]
				continue
			}
			// an in-repo conversion helper whose every return is such a conversion of one parameter
			if sc := x.Common().StaticCallee(); sc != nil && inRepoFn(sc) && len(sc.Blocks) > 0 && len(sc.Blocks) <= 3 && sc.Signature.Results().Len() == 1 {
				pi := -1
				okAll := true
				for _, b := range sc.Blocks {
					ret, isRet := b.Instrs[len(b.Instrs)-1].(*ssa.Return)
					if !isRet {
						continue
					}
					prm, isPrm := stripConv(ret.Results[0]).(*ssa.Parameter)
					if !isPrm {
						okAll = false
						break
					}
					for i, q := range sc.Params {
						if q == prm {
							if pi >= 0 && pi != i {
								okAll = false
							}
							pi = i
						}
					}
				}
				if okAll && pi >= 0 && pi < len(x.Common().Args) {
					v = x.Common().Args[pi]
					continue
				}
			}
			return v
		default:
			return v
		}
	}
}

func isConstZero(v ssa.Value) bool {
	c, ok := v.(*ssa.Const)
	if !ok || c.Value == nil {
		return false
	}
	switch c.Value.Kind() {
	case constant.Int, constant.Float:
		return constant.Sign(c.Value) == 0
	}
	return false
}

// zeroGuarded: is instruction `at` only reachable when v != 0 ?
// Recognised tests on the same value (modulo conversions / repeated loads):
//   v == 0 / v != 0 / 0 == v, decimal IsZero(v), Sign(v) ==/!= 0,
//   Equal(v, decimal.Zero)/Equals.
func zeroGuarded(fn *ssa.Function, v ssa.Value, at ssa.Instruction) (bool, string) {
	same := func(a ssa.Value) bool { return sameAccess(stripConv(a), stripConv(v)) }
	for _, b := range fn.Blocks {
		ifi, ok := b.Instrs[len(b.Instrs)-1].(*ssa.If)
		if !ok {
			continue
		}
		cond := ifi.Cond
		neg := false
		for {
			if u, ok := cond.(*ssa.UnOp); ok && u.Op == token.NOT {
				cond = u.X
				neg = !neg
				continue
			}
			break
		}
		zeroEdge := -1 // successor index taken when v == 0
		switch c := cond.(type) {
		case *ssa.BinOp:
			if c.Op != token.EQL && c.Op != token.NEQ {
				break
			}
			var other ssa.Value
			switch {
			case isConstZero(c.Y):
				other = c.X
			case isConstZero(c.X):
				other = c.Y
			}
			if other == nil {
				break
			}
			isZeroTest := false
			if same(other) {
				isZeroTest = true
			} else if call, ok := other.(*ssa.Call); ok {
				// v.Sign() == 0 / v.Cmp(zero) == 0
				if sc := call.Common().StaticCallee(); sc != nil && (sc.Name() == "Sign") && len(call.Common().Args) > 0 && same(call.Common().Args[0]) {
					isZeroTest = true
				}
			}
			if isZeroTest {
				if c.Op == token.EQL {
					zeroEdge = 0
				} else {
					zeroEdge = 1
				}
			}
		case *ssa.Call:
			if sc := c.Common().StaticCallee(); sc != nil && len(c.Common().Args) > 0 && same(c.Common().Args[0]) {
				switch sc.Name() {
				case "IsZero":
					zeroEdge = 0
				}
			}
		}
		if zeroEdge < 0 {
			continue
		}
		if neg {
			zeroEdge = 1 - zeroEdge
		}
		// `at` must only be reachable through the non-zero edge
		if edgeDominates(b, 1-zeroEdge, at.Block()) {
			return true, "dominated by the non-zero edge of a zero test of the divisor at " + fmt.Sprint(b.Index)
		}
	}
	return false, ""
}

// decimal library methods that panic on a zero divisor (shopspring/decimal v1.4.0)
var decimalDividers = map[string]int{ // method -> index of divisor argument (receiver = 0)
	"Div": 1, "DivRound": 1, "Mod": 1, "QuoRem": 1,
}

type divSite struct {
	fn      *ssa.Function
	ins     ssa.Instruction
	divisor ssa.Value
	what    string
}

func divisionSites(fn *ssa.Function) []divSite {
	var out []divSite
	for _, b := range fn.Blocks {
		for _, ins := range b.Instrs {
			switch x := ins.(type) {
			case *ssa.BinOp:
				if x.Op != token.QUO && x.Op != token.REM {
					continue
				}
				bt, ok := x.X.Type().Underlying().(*types.Basic)
				if !ok || bt.Info()&types.IsInteger == 0 {
					continue
				}
				if c, isC := x.Y.(*ssa.Const); isC && !isConstZero(c) {
					continue
				}
				out = append(out, divSite{fn, ins, x.Y, "integer " + x.Op.String()})
			case *ssa.Call:
				sc := x.Common().StaticCallee()
				if sc == nil || fnPkgPath(sc) != "github.com/shopspring/decimal" {
					continue
				}
				if i, ok := decimalDividers[sc.Name()]; ok && sc.Signature.Recv() != nil && i < len(x.Common().Args) {
					out = append(out, divSite{fn, ins, x.Common().Args[i], "decimal." + sc.Name()})
				}
			}
		}
	}
	return out
}

func rulePAN2(p *Program) *RuleResult {
	r := newResult("PAN2")
	fns := apiRepoFuncs(p, r)
	callers := staticCallers(fns)
	r.count("functions", len(fns))
	var guarded func(fn *ssa.Function, v ssa.Value, at ssa.Instruction, depth int) (bool, string)
	guarded = func(fn *ssa.Function, v ssa.Value, at ssa.Instruction, depth int) (bool, string) {
		if ok, how := zeroGuarded(fn, v, at); ok {
			return true, how
		}
		if how := nonZeroTableEntry(p, fn, v, at); how != "" {
			return true, how
		}
		// divisor is (a conversion of) a parameter: shift the obligation to
		// every static caller
		if depth < 4 {
			if prm, ok := stripConv(v).(*ssa.Parameter); ok {
				idx := -1
				for i, q := range fn.Params {
					if q == prm {
						idx = i
					}
				}
				cs := callers[fn]
				if idx >= 0 && len(cs) > 0 {
					for _, c := range cs {
						args := c.call.Common().Args
						if idx >= len(args) {
							return false, ""
						}
						if ok, _ := guarded(c.fn, args[idx], c.call, depth+1); !ok {
							return false, "caller " + short(c.fn) + " passes an untested divisor"
						}
					}
					return true, fmt.Sprintf("every static caller (%d) tests the divisor for zero before the call", len(cs))
				}
			}
		}
		return false, ""
	}
	for _, fn := range fns {
		for _, d := range divisionSites(fn) {
			r.count("division_sites", 1)
			key := short(fn) + "|" + d.what
			if ok, how := guarded(fn, d.divisor, d.ins, 0); ok {
				r.ok(key, d.what+" with a zero-tested divisor", p.instrPos(d.ins), how, true)
			} else {
				r.bad(key, d.what+" with a divisor that is not tested for zero", p.instrPos(d.ins),
					"division by zero panics ("+d.what+"): no dominating zero test of the divisor in the function or in all of its callers"+ifs(how != "", " — "+how))
			}
		}
	}
	r.floor("functions", 250)
	r.floor("division_sites", 3)
	return r
}

// nonZeroTableEntry: the divisor is the value of a comma-ok lookup in a constant
// package-level table all of whose values are non-zero constants, used where the
// lookup's ok flag is true.
func nonZeroTableEntry(p *Program, fn *ssa.Function, v ssa.Value, at ssa.Instruction) string {
	ex, ok := stripConv(v).(*ssa.Extract)
	if !ok || ex.Index != 0 {
		return ""
	}
	lk, ok := ex.Tuple.(*ssa.Lookup)
	if !ok || !lk.CommaOk || lk.Referrers() == nil {
		return ""
	}
	ld, ok := lk.X.(*ssa.UnOp)
	if !ok {
		return ""
	}
	g, ok := ld.X.(*ssa.Global)
	if !ok {
		return ""
	}
	tab, ok := p.allConstMaps()[g.Pkg.Pkg.Name()+"."+g.Name()]
	if !ok || len(tab) == 0 {
		return ""
	}
	for _, val := range tab {
		if val.k != kConst || (val.c.Kind() != constant.Int && val.c.Kind() != constant.Float) || constant.Sign(val.c) == 0 {
			return ""
		}
	}
	for _, ref := range *lk.Referrers() {
		if okx, isEx := ref.(*ssa.Extract); isEx && okx.Index == 1 && trueGuarded(fn, okx, at) {
			return fmt.Sprintf("value of a comma-ok lookup in the constant table %s (%d non-zero entries), used under ok == true", g.Name(), len(tab))
		}
	}
	return ""
}

func ifs(c bool, s string) string {
	if c {
		return s
	}
	return ""
}

// ---------- PAN4 type assertions ----------

func emptyInterface(t types.Type) bool {
	it, ok := t.Underlying().(*types.Interface)
	return ok && it.NumMethods() == 0
}

// assertionProved: a dominating successful comma-ok assertion (or type-switch
// arm) of the same value to a type that implies the asserted type.
func assertionProved(ta *ssa.TypeAssert) (bool, string) {
	fn := ta.Parent()
	// several arms of one type switch share the block (`case A, B, C:`): the ok edges
	// of the comma-ok assertions that imply the asserted type together cut every path
	type edge struct {
		from *ssa.BasicBlock
		idx  int
	}
	var proving []edge
	for _, b := range fn.Blocks {
		for _, ins := range b.Instrs {
			o, ok := ins.(*ssa.TypeAssert)
			if !ok || !o.CommaOk || o == ta || !sameAccess(o.X, ta.X) || o.Referrers() == nil {
				continue
			}
			implies := types.Identical(o.AssertedType, ta.AssertedType)
			if !implies {
				if it, ok := ta.AssertedType.Underlying().(*types.Interface); ok {
					implies = types.Implements(o.AssertedType, it)
				}
			}
			if !implies {
				continue
			}
			for _, ref := range *o.Referrers() {
				ex, ok := ref.(*ssa.Extract)
				if !ok || ex.Index != 1 || ex.Referrers() == nil {
					continue
				}
				for _, r2 := range *ex.Referrers() {
					if ifi, ok := r2.(*ssa.If); ok {
						proving = append(proving, edge{ifi.Block(), 0})
					}
				}
			}
		}
	}
	if len(proving) > 1 {
		seen := map[*ssa.BasicBlock]bool{}
		stack := []*ssa.BasicBlock{fn.Blocks[0]}
		reached := false
		for len(stack) > 0 && !reached {
			x := stack[len(stack)-1]
			stack = stack[:len(stack)-1]
			if seen[x] {
				continue
			}
			seen[x] = true
			if x == ta.Block() {
				reached = true
				break
			}
			for i, sc := range x.Succs {
				cut := false
				for _, e := range proving {
					if e.from == x && e.idx == i && x.Succs[1-i] != sc {
						cut = true
					}
				}
				if !cut {
					stack = append(stack, sc)
				}
			}
		}
		if !reached && ta.Block() != fn.Blocks[0] {
			return true, fmt.Sprintf("every path passes the ok edge of one of %d comma-ok assertions / type-switch arms of the same value to types that have the asserted type", len(proving))
		}
	}
	for _, b := range fn.Blocks {
		for _, ins := range b.Instrs {
			o, ok := ins.(*ssa.TypeAssert)
			if !ok || !o.CommaOk || o == ta || !sameAccess(o.X, ta.X) {
				continue
			}
			implies := types.Identical(o.AssertedType, ta.AssertedType)
			if !implies {
				if it, ok := ta.AssertedType.Underlying().(*types.Interface); ok {
					implies = types.Implements(o.AssertedType, it)
				}
			}
			if !implies {
				continue
			}
			for _, ref := range *o.Referrers() {
				ex, ok := ref.(*ssa.Extract)
				if !ok || ex.Index != 1 {
					continue
				}
				for _, r2 := range *ex.Referrers() {
					if ifi, ok := r2.(*ssa.If); ok {
						if edgeDominates(ifi.Block(), 0, ta.Block()) {
							return true, "dominated by the ok edge of a comma-ok assertion / type-switch arm of the same value"
						}
					}
				}
			}
		}
	}
	return false, ""
}

func rulePAN4(p *Program) *RuleResult {
	r := newResult("PAN4")
	fns := apiRepoFuncs(p, r)
	r.count("functions", len(fns))
	vm, err := visitorMethods(p)
	if err != nil {
		return r.anchorFail(err)
	}
	venv, err := newVisitorEnv(p)
	if err != nil {
		return r.anchorFail(err)
	}
	vcover := visitorCover(p, vm)
	for _, fn := range fns {
		for _, b := range fn.Blocks {
			for _, ins := range b.Instrs {
				ta, ok := ins.(*ssa.TypeAssert)
				if !ok || ta.CommaOk {
					continue
				}
				r.count("unchecked_assertions", 1)
				key := short(fn) + "|" + originDescr(ta.X) + ".(" + typeShort(ta.AssertedType) + ")"
				desc := "x.(" + typeShort(ta.AssertedType) + ") on " + originDescr(ta.X)
				switch {
				case emptyInterface(ta.AssertedType):
					r.ok(key, desc, p.instrPos(ins), "assertion to the empty interface cannot fail for non-nil values; nil yields a panic only for nil interface — operand is a non-nil element", false)
				case func() bool { ok, _ := assertionProved(ta); return ok }():
					_, how := assertionProved(ta)
					r.ok(key, desc, p.instrPos(ins), how, true)
				case func() bool { mi, ok := ta.X.(*ssa.MakeInterface); return ok && types.Identical(mi.X.Type(), ta.AssertedType) }():
					r.ok(key, desc, p.instrPos(ins), "operand was boxed from the asserted type in this function", false)
				case func() bool {
					an := newAnalyzer()
					res := an.analyze(fn, nil)
					if res.nonconverged {
						return false
					}
					if !res.executable(ta) {
						return true
					}
					// executable: proven when the operand's dynamic type is known and matches
					v, ok := res.env[ta]
					return ok && v.k != kBot && v.k != kTop && func() bool {
						for _, h := range res.hazards {
							if h.leaf == ssa.Instruction(ta) {
								return false
							}
						}
						x := res.env[ta.X]
						return x.dyn != nil
					}()
				}():
					r.ok(key, desc, p.instrPos(ins), "constant propagation: the assertion is unreachable or its operand's dynamic type is known (generic instantiation)", true)
				case func() bool { ok, _ := getChildAssertionProved(p, venv, vm, vcover, ta); return ok }():
					_, how := getChildAssertionProved(p, venv, vm, vcover, ta)
					r.ok(key, desc, p.instrPos(ins), how, true)
				case isVisitorResultAssertion(ta):
					r.ok(key, desc, p.instrPos(ins), "visitor result assertion: discharged by PAN7 (every override returns exactly this dynamic type)", true)
				default:
					r.bad(key, desc, p.instrPos(ins), "unchecked type assertion with no dominating proof of the dynamic type: panics when the operand has another type")
					if caller, site, ok := callerAlias(p, fn); ok {
						od := originDescr(ta.X)
						if a := argFor(fn, site, ta.X); a != nil {
							od = originDescr(a)
						}
						r.alias(short(caller) + "|" + od + ".(" + typeShort(ta.AssertedType) + ")")
					}
				}
			}
		}
	}
	r.floor("unchecked_assertions", 12)
	return r
}

// originDescr: a stable description of where a value comes from.
func originDescr(v ssa.Value) string {
	switch x := v.(type) {
	case *ssa.Parameter:
		return "param " + x.Name()
	case *ssa.Call:
		c := x.Common()
		if sc := c.StaticCallee(); sc != nil {
			return "result of " + short(sc)
		}
		return "result of " + callName(c)
	case *ssa.Extract:
		return originDescr(x.Tuple)
	case *ssa.UnOp:
		if x.Op == token.MUL {
			switch a := x.X.(type) {
			case *ssa.FieldAddr:
				return "field " + fieldName(a)
			case *ssa.IndexAddr:
				if c, ok := a.Index.(*ssa.Const); ok {
					return originDescr(a.X) + "[" + c.Value.ExactString() + "]"
				}
				return originDescr(a.X) + "[i]"
			case *ssa.Global:
				return "global " + a.Name()
			case *ssa.Alloc:
				return "local " + a.Comment
			case *ssa.FreeVar:
				return "captured " + a.Name()
			}
		}
		return "unop"
	case *ssa.Phi:
		return "phi " + x.Comment
	case *ssa.TypeAssert:
		return "assert(" + originDescr(x.X) + ")"
	case *ssa.MakeInterface:
		return "boxed " + typeShort(x.X.Type())
	case *ssa.Slice:
		return "slice of " + originDescr(x.X)
	case *ssa.Lookup:
		return "lookup in " + originDescr(x.X)
	case *ssa.Const:
		return "const"
	case *ssa.Alloc:
		return "new " + x.Comment
	case *ssa.ChangeType:
		return originDescr(x.X)
	case *ssa.ChangeInterface:
		return originDescr(x.X)
	case *ssa.Field:
		return "field of " + originDescr(x.X)
	case *ssa.FreeVar:
		return "captured " + x.Name()
	case *ssa.BinOp:
		return "binop"
	case *ssa.Index:
		return originDescr(x.X) + "[i]"
	case *ssa.Next:
		return "range"
	case *ssa.MakeSlice:
		return "make"
	case *ssa.Convert:
		return "convert(" + originDescr(x.X) + ")"
	}
	return fmt.Sprintf("%T", v)
}

// isVisitorResultAssertion: assertion applied to the result of
// (*FHIRPathVisitor).Visit or antlr Accept — handled by PAN7.
func isVisitorResultAssertion(ta *ssa.TypeAssert) bool {
	call, ok := ta.X.(*ssa.Call)
	if !ok {
		return false
	}
	if sc := call.Common().StaticCallee(); sc != nil {
		return sc.Name() == "Visit" && strings.HasSuffix(fnPkgPath(sc), "/fhirpath/internal/parser")
	}
	return false
}

// ---------- PAN1 explicit panics ----------

// library functions that panic on bad input
var libPanics = map[string]string{
	"regexp.MustCompile":                                  "pattern",
	"github.com/shopspring/decimal.RequireFromString":     "decimal string",
	"github.com/shopspring/decimal.NewFromFloat":          "finite float",
	"github.com/shopspring/decimal.NewFromFloat32":        "finite float",
	"github.com/shopspring/decimal.NewFromFloatWithExponent": "finite float",
	"strings.Repeat":                                      "non-negative count",
	"text/template.Must":                                  "template",
	"(reflect.Value).Call":                                "reflect",
	"(reflect.Value).Interface":                           "reflect",
}

// mayPanicFuncs: repository functions that contain a panic instruction
// (directly).  Calls to them are the PAN1 obligations.
func mayPanicFuncs(p *Program) map[*ssa.Function]bool {
	out := map[*ssa.Function]bool{}
	for _, fn := range p.RepoFuncs() {
		for _, b := range fn.Blocks {
			for _, ins := range b.Instrs {
				if _, ok := ins.(*ssa.Panic); ok {
					out[fn] = true
				}
			}
		}
	}
	return out
}

// literal grammars of the Must* parse helpers, used to accept constant
// arguments (analyser's own copy; decimal: shopspring NewFromString accepts
// [+-]digits[.digits][e[+-]digits])
var constAccept = map[string]func(args []string) bool{
	"MustParseDecimal": func(a []string) bool { return len(a) == 1 && reDecimal.MatchString(a[0]) },
	"MustParseQuantity": func(a []string) bool {
		return len(a) == 2 && reDecimal.MatchString(a[0])
	},
}

type strMatcher interface{ MatchString(string) bool }

var reDecimal strMatcher = mustRe(`^[+-]?[0-9]+(\.[0-9]+)?$`)

func constString(v ssa.Value) (string, bool) {
	c, ok := v.(*ssa.Const)
	if !ok || c.Value == nil || c.Value.Kind() != constant.String {
		return "", false
	}
	return constant.StringVal(c.Value), true
}

// sprintfOf: v is the result of fmt.Sprintf(format, args...) → (format, operand types)
func sprintfOf(v ssa.Value) (string, []types.Type, bool) {
	call, ok := v.(*ssa.Call)
	if !ok {
		return "", nil, false
	}
	sc := call.Common().StaticCallee()
	if sc == nil || sc.RelString(nil) != "fmt.Sprintf" || len(call.Common().Args) != 2 {
		return "", nil, false
	}
	f, ok := constString(call.Common().Args[0])
	if !ok {
		return "", nil, false
	}
	var ts []types.Type
	if sl, ok := call.Common().Args[1].(*ssa.Slice); ok {
		if al, ok := sl.X.(*ssa.Alloc); ok {
			n := int(al.Type().(*types.Pointer).Elem().Underlying().(*types.Array).Len())
			ts = make([]types.Type, n)
			for _, ref := range *al.Referrers() {
				ia, ok := ref.(*ssa.IndexAddr)
				if !ok {
					continue
				}
				ic, ok := ia.Index.(*ssa.Const)
				if !ok {
					continue
				}
				for _, r2 := range *ia.Referrers() {
					if st, ok := r2.(*ssa.Store); ok {
						val := st.Val
						if mi, ok := val.(*ssa.MakeInterface); ok {
							val = mi.X
						}
						ts[int(ic.Int64())] = val.Type()
					}
				}
			}
		}
	}
	return f, ts, true
}

func isIntegerType(t types.Type) bool {
	if t == nil {
		return false
	}
	b, ok := t.Underlying().(*types.Basic)
	return ok && b.Info()&types.IsInteger != 0
}

// timeFormatOf: v is (time.Time).Format(layout const) → layout
func timeFormatOf(v ssa.Value) (string, bool) {
	call, ok := v.(*ssa.Call)
	if !ok {
		return "", false
	}
	sc := call.Common().StaticCallee()
	if sc == nil || sc.RelString(nil) != "(time.Time).Format" || len(call.Common().Args) != 2 {
		return "", false
	}
	return constString(call.Common().Args[1])
}

// parseLayouts: layouts tried by system.ParseDate/ParseDateTime/ParseTime,
// extracted from the layout tables in layouts.go (string constants reachable
// from the Parse function's package-level layout slices).
func parseLayouts(p *Program) (map[string][]string, error) {
	pk := p.ByPath[mod+"/fhirpath/system"]
	if pk == nil {
		return nil, fmt.Errorf("anchor: package system not loaded")
	}
	consts := stringConsts(pk, "")
	out := map[string][]string{}
	for name, val := range consts {
		switch {
		case strings.Contains(strings.ToLower(name), "layout"):
			out["all"] = append(out["all"], val)
		}
	}
	sort.Strings(out["all"])
	return out, nil
}

func rulePAN1(p *Program) *RuleResult {
	r := newResult("PAN1")
	fns := apiRepoFuncs(p, r)
	r.count("functions", len(fns))
	mp := mayPanicFuncs(p)
	lay, err := parseLayouts(p)
	if err != nil {
		return r.anchorFail(err)
	}
	isLayout := func(l string) bool {
		for _, x := range lay["all"] {
			if x == l {
				return true
			}
		}
		return false
	}
	roots, _ := p.Roots("api")
	isRoot := map[*ssa.Function]bool{}
	for _, f := range roots {
		isRoot[f] = true
	}
	callers := staticCallers(fns)
	for _, fn := range fns {
		for _, b := range fn.Blocks {
			for _, ins := range b.Instrs {
				switch x := ins.(type) {
				case *ssa.Panic:
					r.count("panic_instructions", 1)
					key := short(fn) + "|panic"
					if isRoot[fn] {
						r.bad(key, "panic in API entry point "+short(fn), p.instrPos(ins), "an entry point panics instead of returning an error")
					} else if len(callers[fn]) > 0 {
						r.ok(key, "panic in helper "+short(fn), p.instrPos(ins), fmt.Sprintf("obligation transferred to its %d reachable call site(s)", len(callers[fn])), false)
					} else if how := pan1AsArgument(p, fn, isLayout); how != "" {
						r.ok(key, "panic in helper "+short(fn)+" (only handed on as a function value)", p.instrPos(ins), how, true)
					} else {
						r.bad(key, "panic in "+short(fn)+" (reached through dynamic dispatch only)", p.instrPos(ins), "panic reachable from the API with no static call site to discharge it at")
					}
				case ssa.CallInstruction:
					sc := x.Common().StaticCallee()
					if sc == nil {
						continue
					}
					target := sc
					if o := sc.Origin(); o != nil {
						target = o
					}
					name := target.RelString(nil)
					_, isLib := libPanics[name]
					if !mp[target] && !mp[sc] && !isLib {
						continue
					}
					if name == "github.com/shopspring/decimal.NewFromFloat" || name == "github.com/shopspring/decimal.NewFromFloat32" || name == "github.com/shopspring/decimal.NewFromFloatWithExponent" {
						continue // PAN8
					}
					if strings.HasPrefix(name, "(reflect.Value)") {
						continue // behind reflect: not decided (user functions)
					}
					r.count("panic_helper_calls", 1)
					args := x.Common().Args
					key := short(fn) + "|call " + shortName(name) + "(" + argDescr(args) + ")"
					desc := "call of panic-on-error helper " + shortName(name) + "(" + argDescr(args) + ")"
					how := pan1Discharge(p, fn, x, target, args, isLayout)
					if how != "" {
						r.ok(key, desc, p.instrPos(ins), how, true)
					} else {
						r.bad(key, desc, p.instrPos(ins), "the helper panics when its argument is rejected and no discharge rule proves the argument is always accepted")
					}
				}
			}
		}
	}
	r.floor("functions", 250)
	r.floor("panic_helper_calls", 4)
	return r
}

// pan1AsArgument: the panic-on-error helper fn is never called directly; it is
// only passed as the j-th argument of calls to an unexported, directly called
// function H whose j-th parameter is only called.  Every such inner call is
// then a call of fn: its argument is matched like a direct call's, with H's
// parameters standing for the outer call's arguments (the layout handed to
// Time.Format must be one the parser tries).
func pan1AsArgument(p *Program, fn *ssa.Function, isLayout func(string) bool) string {
	type use struct {
		outer *ssa.Call
		j     int
	}
	var uses []use
	for _, g := range p.RepoFuncs() {
		for _, b := range g.Blocks {
			for _, ins := range b.Instrs {
				var ops [16]*ssa.Value
				for _, op := range ins.Operands(ops[:0]) {
					if op == nil || *op != ssa.Value(fn) {
						continue
					}
					c, ok := ins.(*ssa.Call)
					if !ok || c.Common().Value == ssa.Value(fn) {
						return "" // called directly somewhere, or used otherwise
					}
					j := -1
					for i, a := range c.Common().Args {
						if a == ssa.Value(fn) {
							j = i
						}
					}
					if j < 0 {
						return ""
					}
					uses = append(uses, use{c, j})
				}
			}
		}
	}
	if len(uses) == 0 {
		return ""
	}
	n := 0
	for _, u := range uses {
		H := u.outer.Common().StaticCallee()
		if H == nil || !inRepoFn(H) || u.j >= len(H.Params) || len(H.Blocks) == 0 {
			return ""
		}
		target := H
		if o := H.Origin(); o != nil {
			target = o
		}
		if target.Object() == nil || target.Object().Exported() {
			return ""
		}
		prm := H.Params[u.j]
		if prm.Referrers() == nil {
			continue
		}
		for _, ref := range *prm.Referrers() {
			if _, dbg := ref.(*ssa.DebugRef); dbg {
				continue
			}
			inner, ok := ref.(*ssa.Call)
			if !ok || inner.Common().Value != ssa.Value(prm) || len(inner.Common().Args) != 1 {
				return ""
			}
			// the argument: Time.Format(layout) with the layout a constant or a parameter of H bound to one
			fc, ok := inner.Common().Args[0].(*ssa.Call)
			if !ok || fc.Common().StaticCallee() == nil || fc.Common().StaticCallee().RelString(nil) != "(time.Time).Format" || len(fc.Common().Args) != 2 {
				return ""
			}
			lv := fc.Common().Args[1]
			if lp, ok := lv.(*ssa.Parameter); ok {
				for i, q := range H.Params {
					if q == lp && i < len(u.outer.Common().Args) {
						lv = u.outer.Common().Args[i]
					}
				}
			}
			l, ok := constString(lv)
			if !ok || !isLayout(l) {
				return ""
			}
			n++
		}
	}
	if n == 0 {
		return ""
	}
	return fmt.Sprintf("passed only as a function value to helpers that call it on Time.Format(L) with L a layout the parser tries (%d call(s) matched; assumes 0 <= year <= 9999)", n)
}

func argDescr(args []ssa.Value) string {
	var s []string
	for _, a := range args {
		if c, ok := a.(*ssa.Const); ok && c.Value != nil {
			s = append(s, c.Value.ExactString())
			continue
		}
		if f, ts, ok := sprintfOf(a); ok {
			var tn []string
			for _, t := range ts {
				if t != nil {
					tn = append(tn, typeShort(t))
				}
			}
			s = append(s, fmt.Sprintf("Sprintf(%q,%s)", f, strings.Join(tn, ",")))
			continue
		}
		if l, ok := timeFormatOf(a); ok {
			s = append(s, fmt.Sprintf("Time.Format(%q)", l))
			continue
		}
		s = append(s, originDescr(a))
	}
	return strings.Join(s, ", ")
}

func pan1Discharge(p *Program, fn *ssa.Function, call ssa.CallInstruction, target *ssa.Function, args []ssa.Value, isLayout func(string) bool) string {
	name := target.Name()
	// (a) constant arguments accepted by the literal grammar
	if acc, ok := constAccept[name]; ok {
		var cs []string
		all := true
		for _, a := range args {
			if s, ok := constString(a); ok {
				cs = append(cs, s)
			} else {
				all = false
			}
		}
		if all && acc(cs) {
			return "constant argument(s) accepted by the literal grammar"
		}
		// (c) Sprintf("%d", integer) as the numeric part, other args constant
		if len(args) >= 1 {
			if f, ts, ok := sprintfOf(args[0]); ok && (f == "%d" || f == "%v") && len(ts) == 1 && isIntegerType(ts[0]) {
				rest := true
				for _, a := range args[1:] {
					if _, ok := constString(a); !ok {
						rest = false
					}
				}
				if rest {
					return "argument is fmt.Sprintf(\"" + f + "\", integer): always a valid number literal"
				}
				// MustParseQuantity: the unit is not validated (newQuantity
				// returns a nil error on every path), so only the number matters
				if name == "MustParseQuantity" && quantityUnitUnchecked(p) {
					return "number is fmt.Sprintf(\"" + f + "\", integer); the unit is not validated (newQuantity never errors: SCCP)"
				}
			}
		}
	}
	// (c') the numeric part is a number text by construction (a constant the grammar
	// accepts, an integer rendered in base 10, or an in-repo helper returning only such)
	if _, ok := constAccept[name]; ok && len(args) >= 1 {
		if okNum, how := numericText(args[0], 0); okNum {
			rest := true
			for _, a := range args[1:] {
				if _, ok := constString(a); !ok {
					rest = false
				}
			}
			if rest || (name == "MustParseQuantity" && quantityUnitUnchecked(p)) {
				h := "the number is " + how
				if !rest {
					h += "; the unit is not validated (newQuantity never errors: SCCP)"
				}
				return h
			}
		}
	}
	// (b) time.Time.Format(L) re-parsed with a layout table that contains L
	if strings.HasPrefix(name, "MustParse") && len(args) == 1 {
		if l, ok := timeFormatOf(args[0]); ok && isLayout(l) {
			return "argument is Time.Format(" + fmt.Sprintf("%q", l) + ") and the layout is one the parser tries (assumes 0 <= year <= 9999)"
		}
	}
	// (d) slices.MustConvert[any]: assertion to an empty interface
	if name == "MustConvert" {
		if sc := call.Common().StaticCallee(); sc != nil && len(sc.TypeArgs()) >= 1 && emptyInterface(sc.TypeArgs()[0]) {
			return "MustConvert to the empty interface cannot fail"
		}
	}
	// (e) regexp.MustCompile(const) that regexp/syntax parses
	if target.RelString(nil) == "regexp.MustCompile" && len(args) == 1 {
		if s, ok := constString(args[0]); ok {
			if _, err := syntax.Parse(s, syntax.Perl); err == nil {
				return "constant pattern parses (regexp/syntax)"
			}
		}
	}
	// (f) resource.TypeOf(res) / nil-panicking helpers dominated by a nil test
	if len(args) >= 1 && isNilable(args[0].Type()) && helperPanicsOnNilOnly(target) {
		if nilGuarded(fn, args[0], call) {
			return "helper panics on nil only and the argument is dominated by a non-nil test"
		}
	}
	return ""
}

// numericText: v is always the text of a number the literal grammar accepts.
func numericText(v ssa.Value, depth int) (bool, string) {
	if depth > 4 {
		return false, ""
	}
	if s, ok := constString(v); ok {
		if reDecimal.MatchString(s) {
			return true, "a constant number literal"
		}
		return false, ""
	}
	if f, ts, ok := sprintfOf(v); ok && (f == "%d" || f == "%v") && len(ts) == 1 && isIntegerType(ts[0]) {
		return true, "fmt.Sprintf(\"" + f + "\", integer)"
	}
	switch x := v.(type) {
	case *ssa.Phi:
		for _, e := range x.Edges {
			if ok, _ := numericText(e, depth+1); !ok {
				return false, ""
			}
		}
		return len(x.Edges) > 0, "one of several number texts"
	case *ssa.ChangeType:
		return numericText(x.X, depth+1)
	case *ssa.Call:
		sc := x.Common().StaticCallee()
		if sc == nil {
			return false, ""
		}
		switch sc.RelString(nil) {
		case "strconv.Itoa":
			return true, "strconv.Itoa(integer)"
		case "strconv.FormatInt", "strconv.FormatUint":
			if b, ok := x.Common().Args[1].(*ssa.Const); ok && b.Value != nil && b.Value.ExactString() == "10" {
				return true, "strconv.FormatInt(integer, 10)"
			}
			return false, ""
		}
		if inRepoFn(sc) && len(sc.Blocks) > 0 && sc.Signature.Results().Len() == 1 {
			found := false
			for _, b := range sc.Blocks {
				ret, ok := b.Instrs[len(b.Instrs)-1].(*ssa.Return)
				if !ok {
					continue
				}
				if ok, _ := numericText(ret.Results[0], depth+1); !ok {
					return false, ""
				}
				found = true
			}
			if found {
				return true, "the result of " + short(sc) + ", which only returns number texts"
			}
		}
	}
	return false, ""
}

// helperPanicsOnNilOnly: every Panic of the helper is in a block entered by
// the true edge of `param == nil`.
func helperPanicsOnNilOnly(fn *ssa.Function) bool {
	n := 0
	for _, b := range fn.Blocks {
		for _, ins := range b.Instrs {
			if _, ok := ins.(*ssa.Panic); !ok {
				continue
			}
			n++
			okb := false
			for _, pr := range b.Preds {
				if ifi, ok := pr.Instrs[len(pr.Instrs)-1].(*ssa.If); ok {
					if bo, ok := ifi.Cond.(*ssa.BinOp); ok && bo.Op == token.EQL && pr.Succs[0] == b {
						if c, ok := bo.Y.(*ssa.Const); ok && c.IsNil() {
							if _, isP := bo.X.(*ssa.Parameter); isP {
								okb = true
							}
						}
					}
				}
			}
			if !okb {
				return false
			}
		}
	}
	return n > 0
}

// nilGuarded: `at` is only reachable when v != nil.
// domOrOnEdge: the idx-th out-edge of b dominates the block of at, or — when the
// value is needed on the edge from at's block to succ (a phi operand) — is that edge.
func domOrOnEdge(b *ssa.BasicBlock, idx int, at ssa.Instruction, succ []*ssa.BasicBlock) bool {
	if edgeDominates(b, idx, at.Block()) {
		return true
	}
	return len(succ) == 1 && succ[0] != nil && b == at.Block() && b.Succs[idx] == succ[0] && b.Succs[1-idx] != succ[0]
}

func nilGuarded(fn *ssa.Function, v ssa.Value, at ssa.Instruction, succ ...*ssa.BasicBlock) bool {
	for _, b := range fn.Blocks {
		ifi, ok := b.Instrs[len(b.Instrs)-1].(*ssa.If)
		if !ok {
			continue
		}
		bo, ok := ifi.Cond.(*ssa.BinOp)
		if !ok || (bo.Op != token.EQL && bo.Op != token.NEQ) {
			continue
		}
		c, ok := bo.Y.(*ssa.Const)
		if !ok || !c.IsNil() || !sameAccess(stripIface(bo.X), stripIface(v)) {
			continue
		}
		nonNilEdge := 1
		if bo.Op == token.NEQ {
			nonNilEdge = 0
		}
		if domOrOnEdge(b, nonNilEdge, at, succ) {
			return true
		}
	}
	// the test may be made by a validation helper: err := h(…, v, …) where h answers a
	// non-nil error whenever that argument is nil, and `at` lies where err == nil
	for _, b := range fn.Blocks {
		ifi, ok := b.Instrs[len(b.Instrs)-1].(*ssa.If)
		if !ok {
			continue
		}
		bo, ok := ifi.Cond.(*ssa.BinOp)
		if !ok || (bo.Op != token.EQL && bo.Op != token.NEQ) {
			continue
		}
		c, ok := bo.Y.(*ssa.Const)
		if !ok || !c.IsNil() {
			continue
		}
		call, ok := bo.X.(*ssa.Call)
		if !ok || !isErrorType(call.Type()) {
			continue
		}
		h := call.Common().StaticCallee()
		if h == nil || !inRepoFn(h) || len(h.Blocks) == 0 {
			continue
		}
		okEdge := 1 // err != nil: the false edge is the accepted one
		if bo.Op == token.EQL {
			okEdge = 0
		}
		for i, a := range call.Common().Args {
			if sameAccess(stripIface(a), stripIface(v)) && rejectsNil(h, i) && domOrOnEdge(b, okEdge, at, succ) {
				return true
			}
		}
	}
	return false
}

var rejectsNilMemo = map[string]bool{}

// rejectsNil: h returns a non-nil error on every path when its i-th argument is nil.
func rejectsNil(h *ssa.Function, i int) bool {
	key := fmt.Sprintf("%s#%d", fnKey(h), i)
	if v, ok := rejectsNilMemo[key]; ok {
		return v
	}
	out := false
	if i < len(h.Params) && isNilable(h.Params[i].Type()) {
		args := make([]aval, len(h.Params))
		for k := range args {
			args[k] = top
		}
		args[i] = aval{k: kNil}
		res := newAnalyzer().analyze(h, args)
		out = !res.nonconverged && len(res.rets) > 0
		for _, ri := range res.rets {
			if last := ri.vals[len(ri.vals)-1]; last.k != kNonNil {
				out = false
			}
		}
	}
	rejectsNilMemo[key] = out
	return out
}

func stripIface(v ssa.Value) ssa.Value {
	for {
		switch x := v.(type) {
		case *ssa.ChangeInterface:
			v = x.X
		case *ssa.MakeInterface:
			v = x.X
		default:
			return v
		}
	}
}

// ---------- PAN8 non-finite floats ----------

func rulePAN8(p *Program) *RuleResult {
	r := newResult("PAN8")
	fns := apiRepoFuncs(p, r)
	for _, fn := range fns {
		for _, b := range fn.Blocks {
			for _, ins := range b.Instrs {
				call, ok := ins.(*ssa.Call)
				if !ok {
					continue
				}
				sc := call.Common().StaticCallee()
				if sc == nil {
					continue
				}
				name := sc.RelString(nil)
				if name != "github.com/shopspring/decimal.NewFromFloat" && name != "github.com/shopspring/decimal.NewFromFloat32" && name != "github.com/shopspring/decimal.NewFromFloatWithExponent" {
					continue
				}
				r.count("float_to_decimal_sites", 1)
				arg := call.Common().Args[0]
				key := short(fn) + "|" + shortName(name) + "(" + floatOrigin(arg) + ")"
				nan := floatTestGuard(fn, arg, call, "IsNaN")
				inf := floatTestGuard(fn, arg, call, "IsInf")
				fin := finiteByConstruction(arg)
				if fin == "" {
					fin = finiteSqrt(fn, arg, call)
				}
				if fin == "" && nan {
					fin = nanOrFiniteLogQuotient(arg)
				}
				if fin == "" {
					fin = finiteLogQuotientInline(fn, arg, call)
				}
				if fin == "" && !(nan && inf) {
					fin = finiteAtEveryCallSite(p, fn, arg, 0)
				}
				switch {
				case fin != "":
					r.ok(key, "decimal.NewFromFloat on "+floatOrigin(arg), p.instrPos(ins), fin, true)
				case nan && inf:
					r.ok(key, "decimal.NewFromFloat on "+floatOrigin(arg), p.instrPos(ins), "dominated by math.IsNaN and math.IsInf tests of the same value", true)
				default:
					miss := []string{}
					if !nan {
						miss = append(miss, "IsNaN")
					}
					if !inf {
						miss = append(miss, "IsInf")
					}
					r.bad(key, "decimal.NewFromFloat on "+floatOrigin(arg), p.instrPos(ins), "decimal.NewFromFloat panics on NaN/±Inf; missing dominating test: "+strings.Join(miss, ", "))
				}
			}
		}
	}
	// the fact the patterns above build on: Collection.ToFloat64 returns finite values only
	if tf, err := p.Method("fhirpath/system", "Collection", "ToFloat64"); err != nil {
		return r.anchorFail(err)
	} else {
		n := 0
		for _, b := range tf.Blocks {
			ret, ok := b.Instrs[len(b.Instrs)-1].(*ssa.Return)
			if !ok || len(ret.Results) != 2 {
				continue
			}
			v := ret.Results[0]
			n++
			key := fmt.Sprintf("system.Collection.ToFloat64|finite#%d", n)
			switch x := v.(type) {
			case *ssa.Const:
				r.ok(key, "ToFloat64 returns a constant", p.instrPos(ret), "finite constant", false)
			case *ssa.Convert:
				if isIntegerType(x.X.Type()) {
					r.ok(key, "ToFloat64 returns the conversion of an integer", p.instrPos(ret), "integer → float64 is finite", false)
				} else {
					r.bad(key, "ToFloat64 returns a converted "+typeShort(x.X.Type()), p.instrPos(ret), "finiteness of the result is assumed by sqrt/abs/ceiling/...: a non-finite float reaches decimal.NewFromFloat (panic)")
				}
			default:
				if c, ok := v.(*ssa.Call); ok && c.Common().StaticCallee() != nil && c.Common().StaticCallee().Name() == "InexactFloat64" && floatTestGuard(tf, v, ret, "IsInf") {
					r.ok(key, "ToFloat64 returns InexactFloat64() only after an IsInf test", p.instrPos(ret), "a Decimal has no NaN; ±Inf is excluded by the dominating math.IsInf test", true)
				} else {
					r.bad(key, "ToFloat64 returns "+floatOrigin(v)+" without excluding ±Inf", p.instrPos(ret), "a Decimal beyond 1.8e308 becomes +Inf and reaches decimal.NewFromFloat in sqrt()/abs() (panic)")
				}
			}
		}
		if n < 4 {
			r.undecided("system.Collection.ToFloat64|finite", fmt.Sprintf("only %d value returns found in ToFloat64", n), p.pos(tf.Pos()), "shape changed")
		}
	}
	r.floor("float_to_decimal_sites", 1)
	return r
}

// fromToFloat64: v is the float result of a Collection.ToFloat64 call.
func fromToFloat64(v ssa.Value) bool {
	if ex, ok := v.(*ssa.Extract); ok && ex.Index == 0 {
		if c2, ok := ex.Tuple.(*ssa.Call); ok {
			if s2 := c2.Common().StaticCallee(); s2 != nil && s2.Name() == "ToFloat64" && strings.Contains(short(s2), "system.Collection") {
				return true
			}
		}
	}
	return false
}

// finiteSqrt: math.Sqrt(n) with n from ToFloat64 (finite, checked) and a
// dominating `n < 0` exit.
func finiteSqrt(fn *ssa.Function, v ssa.Value, at ssa.Instruction) string {
	call, ok := v.(*ssa.Call)
	if !ok || call.Common().StaticCallee() == nil || call.Common().StaticCallee().RelString(nil) != "math.Sqrt" {
		return ""
	}
	n := call.Common().Args[0]
	if !fromToFloat64(n) {
		return ""
	}
	for _, b := range fn.Blocks {
		ifi, ok := b.Instrs[len(b.Instrs)-1].(*ssa.If)
		if !ok {
			continue
		}
		bo, ok := ifi.Cond.(*ssa.BinOp)
		if !ok || bo.Op != token.LSS || bo.X != n {
			continue
		}
		if k, ok := bo.Y.(*ssa.Const); !ok || k.Value == nil || constant.Sign(k.Value) != 0 {
			continue
		}
		if edgeDominates(b, 1, at.Block()) {
			return "math.Sqrt of a finite value (Collection.ToFloat64, checked) that a dominating `< 0` test excludes from being negative"
		}
	}
	return ""
}

// nanOrFiniteLogQuotient: the value is the result of an in-repo helper that
// returns math.NaN() or math.Log(a)/math.Log(b) under dominating `a <= 0` and
// `b <= 1` exits, called with ToFloat64 results (finite): NaN or finite.
func nanOrFiniteLogQuotient(v ssa.Value) string {
	call, ok := v.(*ssa.Call)
	if !ok || call.Common().StaticCallee() == nil || !inRepoFn(call.Common().StaticCallee()) {
		return ""
	}
	for _, a := range call.Common().Args {
		if !fromToFloat64(a) {
			return ""
		}
	}
	callee := call.Common().StaticCallee()
	if len(callee.Params) != 2 {
		return ""
	}
	// which parameter is the number (excluded when <= 0) and which the base (excluded
	// when <= 1), in either order
	var num, base ssa.Value
	for _, b := range callee.Blocks {
		ifi, ok := b.Instrs[len(b.Instrs)-1].(*ssa.If)
		if !ok {
			continue
		}
		for _, cmp := range condAtoms(ifi.Cond) {
			k, ok := cmp.Y.(*ssa.Const)
			if !ok || k.Value == nil || cmp.Op != token.LEQ {
				continue
			}
			f, _ := constant.Float64Val(constant.ToFloat(k.Value))
			for _, prm := range callee.Params {
				if cmp.X == ssa.Value(prm) && f == 0 {
					num = prm
				}
				if cmp.X == ssa.Value(prm) && f == 1 {
					base = prm
				}
			}
		}
	}
	if num == nil || base == nil || num == base {
		return ""
	}
	for _, b := range callee.Blocks {
		ret, ok := b.Instrs[len(b.Instrs)-1].(*ssa.Return)
		if !ok {
			continue
		}
		switch x := ret.Results[0].(type) {
		case *ssa.Call:
			if x.Common().StaticCallee() == nil || x.Common().StaticCallee().RelString(nil) != "math.NaN" {
				return ""
			}
		case *ssa.BinOp:
			if x.Op != token.QUO {
				return ""
			}
			for i, o := range []ssa.Value{x.X, x.Y} {
				lc, ok := o.(*ssa.Call)
				if !ok || lc.Common().StaticCallee() == nil || lc.Common().StaticCallee().RelString(nil) != "math.Log" || lc.Common().Args[0] != []ssa.Value{num, base}[i] {
					return ""
				}
			}
		default:
			return ""
		}
	}
	return "the helper returns NaN or math.Log(a)/math.Log(b) with a > 0 and b > 1 enforced by its own exits (finite for the finite ToFloat64 operands, Log(b) > 0); the NaN case is excluded by the dominating math.IsNaN test"
}

// finiteLogQuotientInline: math.Log(a)/math.Log(b) written in place, with a and b
// finite (ToFloat64, checked) and dominating exits for a <= 0 and b <= 1: the
// numerator is finite and the denominator positive.
func finiteLogQuotientInline(fn *ssa.Function, v ssa.Value, at ssa.Instruction) string {
	bo, ok := v.(*ssa.BinOp)
	if !ok || bo.Op != token.QUO {
		return ""
	}
	operand := func(x ssa.Value) ssa.Value {
		c, ok := x.(*ssa.Call)
		if !ok || c.Common().StaticCallee() == nil || c.Common().StaticCallee().RelString(nil) != "math.Log" {
			return nil
		}
		return c.Common().Args[0]
	}
	a, b := operand(bo.X), operand(bo.Y)
	if a == nil || b == nil || !fromToFloat64(a) || !fromToFloat64(b) {
		return ""
	}
	excluded := func(x ssa.Value, bound float64) bool {
		for _, blk := range fn.Blocks {
			ifi, ok := blk.Instrs[len(blk.Instrs)-1].(*ssa.If)
			if !ok {
				continue
			}
			for _, cmp := range condAtoms(ifi.Cond) {
				k, ok := cmp.Y.(*ssa.Const)
				if !ok || k.Value == nil || cmp.Op != token.LEQ || !sameAccess(cmp.X, x) {
					continue
				}
				if f, _ := constant.Float64Val(constant.ToFloat(k.Value)); f != bound {
					continue
				}
				// x <= bound leaves: the site is reached on the false edge only
				if edgeDominates(blk, 1, at.Block()) {
					return true
				}
			}
		}
		return false
	}
	if excluded(a, 0) && excluded(b, 1) {
		return "math.Log(a)/math.Log(b) with a > 0 and b > 1 enforced by dominating exits and both operands finite (ToFloat64): finite numerator, positive denominator"
	}
	return ""
}

// finiteAtEveryCallSite: the float is a parameter of an unexported function that
// is only called directly, and at each call site the argument is finite by one
// of the rules above (construction, guarded square root, guarded log quotient,
// dominating IsNaN and IsInf tests) — or, recursively, by its own callers.
func finiteAtEveryCallSite(p *Program, fn *ssa.Function, v ssa.Value, depth int) string {
	prm, ok := v.(*ssa.Parameter)
	if !ok || depth > 3 {
		return ""
	}
	sites, ok := p.directCallSites(fn)
	if !ok {
		return ""
	}
	pi := -1
	for i, q := range fn.Params {
		if q == prm {
			pi = i
		}
	}
	if pi < 0 {
		return ""
	}
	for _, c := range sites {
		if pi >= len(c.Common().Args) {
			return ""
		}
		caller, arg := c.Parent(), c.Common().Args[pi]
		nan := floatTestGuard(caller, arg, c, "IsNaN")
		inf := floatTestGuard(caller, arg, c, "IsInf")
		switch {
		case nan && inf:
		case finiteByConstruction(arg) != "":
		case finiteSqrt(caller, arg, c) != "":
		case nan && nanOrFiniteLogQuotient(arg) != "":
		case finiteLogQuotientInline(caller, arg, c) != "":
		case finiteAtEveryCallSite(p, caller, arg, depth+1) != "":
		default:
			return ""
		}
	}
	return fmt.Sprintf("parameter of %s, finite at each of its %d call sites (by construction, guarded root / log quotient, or dominating IsNaN and IsInf tests there)", short(fn), len(sites))
}

func floatOrigin(v ssa.Value) string {
	if call, ok := v.(*ssa.Call); ok {
		if sc := call.Common().StaticCallee(); sc != nil {
			return shortName(sc.RelString(nil))
		}
	}
	return originDescr(v)
}

// finiteByConstruction: math.Abs/Floor/Ceil/Trunc of a value produced by
// ToFloat64 of a Decimal/Integer are finite (no division, no transcendental).
func finiteByConstruction(v ssa.Value) string {
	call, ok := v.(*ssa.Call)
	if !ok {
		return ""
	}
	sc := call.Common().StaticCallee()
	if sc == nil {
		return ""
	}
	switch sc.RelString(nil) {
	case "math.Abs", "math.Floor", "math.Ceil", "math.Trunc":
		inner := call.Common().Args[0]
		if ex, ok := inner.(*ssa.Extract); ok {
			if c2, ok := ex.Tuple.(*ssa.Call); ok {
				if s2 := c2.Common().StaticCallee(); s2 != nil && s2.Name() == "ToFloat64" && strings.Contains(short(s2), "system.Collection") {
					return "finite-closed function (" + sc.Name() + ") of Collection.ToFloat64, whose results are finite (checked: system.Collection.ToFloat64|finite)"
				}
			}
		}
	}
	return ""
}

func floatTestGuard(fn *ssa.Function, v ssa.Value, at ssa.Instruction, test string) bool {
	for _, b := range fn.Blocks {
		ifi, ok := b.Instrs[len(b.Instrs)-1].(*ssa.If)
		if !ok {
			continue
		}
		cond := ifi.Cond
		neg := false
		if u, ok := cond.(*ssa.UnOp); ok && u.Op == token.NOT {
			cond, neg = u.X, true
		}
		call, ok := cond.(*ssa.Call)
		if !ok {
			continue
		}
		sc := call.Common().StaticCallee()
		if sc == nil || sc.RelString(nil) != "math."+test || !sameAccess(call.Common().Args[0], v) {
			continue
		}
		okEdge := 1
		if neg {
			okEdge = 0
		}
		if edgeDominates(b, okEdge, at.Block()) {
			return true
		}
	}
	return false
}

// ---------- TER1 loops ----------

func ruleTER1(p *Program) *RuleResult {
	r := newResult("TER1")
	fns := apiRepoFuncs(p, r)
	for _, fn := range fns {
		for _, li := range naturalLoops(fn) {
			r.count("loops", 1)
			kind, why := classifyLoop(li)
			key := short(fn) + "|loop " + kind
			switch kind {
			case "range", "counted", "map-range":
				r.ok(key, "loop ("+kind+"): "+why, p.instrPos(li.header.Instrs[0]), "terminates: "+why, kind == "counted")
			default:
				r.bad(key, "loop with no recognised progress argument: "+why, p.instrPos(li.header.Instrs[0]), "cannot show termination: "+why)
			}
		}
	}
	r.floor("loops", 40)
	return r
}

// classifyLoop recognises lowered range loops and counted loops.
func classifyLoop(li *loopInfo) (string, string) {
	h := li.header
	c := h.Comment
	if strings.HasPrefix(c, "rangeindex.loop") {
		return "range", "range over slice/array/string length"
	}
	if strings.HasPrefix(c, "rangeiter.loop") {
		return "map-range", "range over map/string iterator"
	}
	if strings.HasPrefix(c, "rangeint.loop") {
		return "range", "range over integer"
	}
	if strings.HasPrefix(c, "rangechan") || strings.HasPrefix(c, "rangefunc") {
		return "other", "range over channel/function"
	}
	if why := fixpointWalk(li); why != "" {
		return "counted", why
	}
	// counted loop: header (or a body block that exits) ends in If on
	// BinOp(i REL bound) where i = phi(init, i ± const) and bound is
	// loop-invariant
	best := "no exit test on an induction variable"
	for _, b := range li.header.Parent().Blocks {
		if !li.body[b] {
			continue
		}
		ifi, ok := b.Instrs[len(b.Instrs)-1].(*ssa.If)
		if !ok {
			continue
		}
		leaves := !li.body[b.Succs[0]] || !li.body[b.Succs[1]]
		if !leaves || !(b == h || h.Dominates(b)) {
			continue
		}
		// the test must be evaluated on every iteration: b dominates every latch
		every := true
		for _, l := range li.latch {
			if !b.Dominates(l) {
				every = false
			}
		}
		bo, ok := ifi.Cond.(*ssa.BinOp)
		if !ok || !every {
			continue
		}
		if !isInduction(bo.X, li) && !isInduction(bo.Y, li) {
			continue
		}
		kind, why := classifyExit(bo, li)
		if kind == "counted" {
			return kind, why
		}
		best = why
	}
	return "other", best
}

// fixpointWalk recognises `for cur := x; …; { next := g(cur); if next == cur { leave };
// cur = next }` over a local cell: every iteration replaces cur by g(cur) and
// the loop is left when g(cur) == cur.  It terminates when the orbit of g
// reaches a fixed point from every start: g (an in-repo function) returns its
// argument or one of finitely many constant structs, and the successor
// relation among those constants — g evaluated on each by constant propagation,
// every executable return counted — has no cycle other than self loops.
func fixpointWalk(li *loopInfo) string {
	fn := li.header.Parent()
	for _, b := range fn.Blocks {
		if !li.body[b] {
			continue
		}
		for _, ins := range b.Instrs {
			st, ok := ins.(*ssa.Store)
			if !ok {
				continue
			}
			cur, ok := st.Addr.(*ssa.Alloc)
			if !ok {
				continue
			}
			call, ok := st.Val.(*ssa.Call)
			if !ok {
				continue
			}
			g := call.Common().StaticCallee()
			if g == nil || !inRepoFn(g) || len(g.Blocks) == 0 || len(call.Common().Args) != 1 || len(naturalLoops(g)) > 0 {
				continue
			}
			if ld, ok := call.Common().Args[0].(*ssa.UnOp); !ok || ld.X != ssa.Value(cur) {
				continue
			}
			// the only store to cur in the loop, executed on every path to the next iteration
			only := true
			for _, ref := range *cur.Referrers() {
				if o, ok := ref.(*ssa.Store); ok && o != st && li.body[o.Block()] {
					only = false
				}
			}
			for _, l := range li.latch {
				if !(st.Block() == l || st.Block().Dominates(l)) {
					only = false
				}
			}
			if !only {
				continue
			}
			// the loop is left when g(cur) == cur: an If on that comparison whose true edge leaves
			// the loop and whose false edge leads to the store
			guarded := false
			for _, bb := range fn.Blocks {
				if !li.body[bb] {
					continue
				}
				ifi, ok := bb.Instrs[len(bb.Instrs)-1].(*ssa.If)
				if !ok {
					continue
				}
				cmp, ok := ifi.Cond.(*ssa.BinOp)
				if !ok || cmp.Op != token.EQL {
					continue
				}
				isCur := func(v ssa.Value) bool { l, ok := v.(*ssa.UnOp); return ok && l.X == ssa.Value(cur) }
				if !((cmp.X == ssa.Value(call) && isCur(cmp.Y)) || (cmp.Y == ssa.Value(call) && isCur(cmp.X))) {
					continue
				}
				if !li.body[bb.Succs[0]] && edgeDominates(bb, 1, st.Block()) {
					guarded = true
				}
			}
			if !guarded {
				continue
			}
			if n, ok := orbitsReachFixpoint(g); ok {
				return fmt.Sprintf("walk cur = %s(cur) left when %s(cur) == cur: the function returns its argument or one of %d constants whose successor relation (constant propagation of the function on each) has no cycle besides the fixed points", g.Name(), g.Name(), n)
			}
		}
	}
	return ""
}

func orbitsReachFixpoint(g *ssa.Function) (int, bool) {
	key := func(v aval) (string, bool) {
		if v.k != kStruct {
			return "", false
		}
		var parts []string
		for _, e := range v.elems {
			if e.k != kConst {
				return "", false
			}
			parts = append(parts, e.c.ExactString())
		}
		return strings.Join(parts, "\x00"), true
	}
	// constants the function can return for an arbitrary argument
	consts := map[string]aval{}
	res := newAnalyzer().analyze(g, nil)
	if res.nonconverged || len(res.rets) == 0 {
		return 0, false
	}
	for _, ri := range res.rets {
		if len(ri.vals) != 1 {
			return 0, false
		}
		if k, ok := key(ri.vals[0]); ok {
			consts[k] = ri.vals[0]
			continue
		}
		// otherwise it must hand its argument back unchanged
		ld, ok := ri.instr.Results[0].(*ssa.UnOp)
		if !ok {
			if _, isPrm := ri.instr.Results[0].(*ssa.Parameter); isPrm {
				continue
			}
			return 0, false
		}
		al, ok := ld.X.(*ssa.Alloc)
		if !ok {
			return 0, false
		}
		fromParam := false
		nst := 0
		for _, ref := range *al.Referrers() {
			if st, ok := ref.(*ssa.Store); ok && st.Addr == ssa.Value(al) {
				nst++
				if _, isPrm := st.Val.(*ssa.Parameter); isPrm {
					fromParam = true
				}
			}
		}
		if !fromParam || nst != 1 {
			return 0, false
		}
	}
	// successor relation, closed under the function
	succ := map[string][]string{}
	work := []string{}
	for k := range consts {
		work = append(work, k)
	}
	sort.Strings(work)
	for len(work) > 0 && len(consts) <= 64 {
		k := work[0]
		work = work[1:]
		if _, done := succ[k]; done {
			continue
		}
		succ[k] = []string{}
		r := newAnalyzer().analyze(g, []aval{consts[k]})
		if r.nonconverged || len(r.rets) == 0 {
			return 0, false
		}
		for _, ri := range r.rets {
			nk, ok := key(ri.vals[0])
			if !ok {
				return 0, false
			}
			if nk == k {
				continue // fixed point: the loop is left
			}
			if _, known := consts[nk]; !known {
				consts[nk] = ri.vals[0]
			}
			succ[k] = append(succ[k], nk)
			work = append(work, nk)
		}
	}
	if len(consts) > 64 {
		return 0, false
	}
	// acyclic?
	state := map[string]int{}
	var visit func(k string) bool
	visit = func(k string) bool {
		switch state[k] {
		case 1:
			return false
		case 2:
			return true
		}
		state[k] = 1
		for _, n := range succ[k] {
			if !visit(n) {
				return false
			}
		}
		state[k] = 2
		return true
	}
	for k := range succ {
		if !visit(k) {
			return 0, false
		}
	}
	return len(consts), true
}

func classifyExit(bo *ssa.BinOp, li *loopInfo) (string, string) {
	iv, bound := bo.X, bo.Y
	op := bo.Op
	if !isInduction(iv, li) {
		iv, bound = bo.Y, bo.X
		op = map[token.Token]token.Token{token.LSS: token.GTR, token.GTR: token.LSS, token.LEQ: token.GEQ, token.GEQ: token.LEQ, token.NEQ: token.NEQ, token.EQL: token.EQL}[op]
	}
	if !loopInvariant(bound, li) {
		return "other", "bound of the exit test is not loop-invariant"
	}
	step := inductionStep(iv, li)
	switch {
	case step > 0 && op == token.LSS, step < 0 && op == token.GTR:
		return "counted", "induction variable moves towards a loop-invariant bound with a strict comparison"
	case step > 0 && op == token.LEQ, step < 0 && op == token.GEQ:
		// i <= bound never terminates when bound is the maximum of a fixed-width type
		if isConstNotExtreme(bound) {
			return "counted", "non-strict comparison against a constant that is not the type's extreme value"
		}
		if isLenMinus(bound) {
			return "counted", "non-strict comparison against len(x)-k (cannot be the int maximum)"
		}
		if ub, ok := smallUpperBound(bound, 0); ok {
			return "counted", fmt.Sprintf("non-strict comparison against a bound that is at most %d (constant table / min of such)", ub)
		}
		return "other", "non-strict comparison `<=`/`>=` against a bound of the same fixed-width type: does not terminate when the bound is the type's extreme value"
	case op == token.NEQ:
		return "other", "exit test uses != on the induction variable"
	}
	return "other", "induction step/comparison not recognised"
}

// smallUpperBound: an upper bound for v derivable from constants: a constant,
// min(a,b) of which one is bounded, a conversion of a bounded value, or a
// lookup in a package-level map whose values are all small constants.
func smallUpperBound(v ssa.Value, depth int) (int64, bool) {
	if depth > 4 {
		return 0, false
	}
	switch x := v.(type) {
	case *ssa.Const:
		if x.Value != nil && x.Value.Kind() == constant.Int {
			i, ok := constant.Int64Val(x.Value)
			return i, ok && i < 1<<30
		}
	case *ssa.Convert:
		return smallUpperBound(x.X, depth+1)
	case *ssa.ChangeType:
		return smallUpperBound(x.X, depth+1)
	case *ssa.Call:
		if b, ok := x.Common().Value.(*ssa.Builtin); ok && b.Name() == "min" {
			best, found := int64(0), false
			for _, a := range x.Common().Args {
				if ub, ok := smallUpperBound(a, depth+1); ok && (!found || ub < best) {
					best, found = ub, true
				}
			}
			return best, found
		}
		// an in-repo helper every return of which is one of its parameters
		// (min/max): bounded by the largest argument bound
		if sc := x.Common().StaticCallee(); sc != nil && inRepoFn(sc) && len(sc.Blocks) > 0 && len(sc.Blocks) < 8 {
			for _, b := range sc.Blocks {
				if ret, ok := b.Instrs[len(b.Instrs)-1].(*ssa.Return); ok {
					if len(ret.Results) != 1 {
						return 0, false
					}
					if _, isParam := ret.Results[0].(*ssa.Parameter); !isParam {
						return 0, false
					}
				}
			}
			worst := int64(0)
			for _, a := range x.Common().Args {
				ub, ok := smallUpperBound(a, depth+1)
				if !ok {
					return 0, false
				}
				if ub > worst {
					worst = ub
				}
			}
			return worst, true
		}
	case *ssa.Lookup:
		if ld, ok := x.X.(*ssa.UnOp); ok {
			if g, ok := ld.X.(*ssa.Global); ok {
				return globalMapMax(g)
			}
		}
	case *ssa.Extract:
		if lk, ok := x.Tuple.(*ssa.Lookup); ok && x.Index == 0 {
			return smallUpperBound(lk, depth+1)
		}
	case *ssa.Parameter:
		// parameter of an unexported function that is only called directly: bounded by
		// the largest bound among the arguments
		fn := x.Parent()
		if fn == nil || theProgram == nil {
			return 0, false
		}
		sites, ok := theProgram.directCallSites(fn)
		if only := siteRestrict[fn]; only != nil {
			// the value is followed through one particular call: its arguments alone count
			sites, ok = []*ssa.Call{only}, true
		}
		if !ok {
			return 0, false
		}
		pi := -1
		for i, q := range fn.Params {
			if q == x {
				pi = i
			}
		}
		if pi < 0 {
			return 0, false
		}
		worst := int64(0)
		for _, c := range sites {
			if pi >= len(c.Common().Args) {
				return 0, false
			}
			ub, ok := smallUpperBound(c.Common().Args[pi], depth+1)
			if !ok {
				return 0, false
			}
			if ub > worst {
				worst = ub
			}
		}
		return worst, true
	}
	return 0, false
}

// siteRestrict: while a value is followed into a callee through one call, or a
// site in a callee is decided for one of its call sites, the callee's
// parameters stand for that call's arguments only.
var siteRestrict = map[*ssa.Function]*ssa.Call{}

// globalMapMax: maximum of the constant integer values stored into a
// package-level map by its package initialiser (and nowhere else).
func globalMapMax(g *ssa.Global) (int64, bool) {
	init := g.Pkg.Func("init")
	if init == nil {
		return 0, false
	}
	var mk ssa.Value
	for _, b := range init.Blocks {
		for _, ins := range b.Instrs {
			if st, ok := ins.(*ssa.Store); ok && st.Addr == ssa.Value(g) {
				mk = st.Val
			}
		}
	}
	if mk == nil {
		return 0, false
	}
	if ct, ok := mk.(*ssa.ChangeType); ok {
		mk = ct.X
	}
	max, n := int64(0), 0
	for _, ref := range *mk.Referrers() {
		if mu, ok := ref.(*ssa.MapUpdate); ok {
			c, ok := mu.Value.(*ssa.Const)
			if !ok || c.Value == nil || c.Value.Kind() != constant.Int {
				return 0, false
			}
			i, _ := constant.Int64Val(c.Value)
			if n == 0 || i > max {
				max = i
			}
			n++
		}
	}
	return max, n > 0
}

func isInduction(v ssa.Value, li *loopInfo) bool {
	v = stripConv(v)
	phi, ok := v.(*ssa.Phi)
	if ok && li.body[phi.Block()] {
		for _, e := range phi.Edges {
			if bo, ok := stripConv(e).(*ssa.BinOp); ok && (bo.Op == token.ADD || bo.Op == token.SUB) && li.body[bo.Block()] {
				if stripConv(bo.X) == ssa.Value(phi) {
					if _, ok := bo.Y.(*ssa.Const); ok {
						return true
					}
				}
			}
		}
		return false
	}
	// i+1 form (the test is on the incremented value)
	if bo, ok := v.(*ssa.BinOp); ok && (bo.Op == token.ADD || bo.Op == token.SUB) {
		if _, isC := bo.Y.(*ssa.Const); isC {
			return isInduction(bo.X, li)
		}
	}
	return false
}

func inductionStep(v ssa.Value, li *loopInfo) int {
	v = stripConv(v)
	if bo, ok := v.(*ssa.BinOp); ok {
		if _, isPhi := stripConv(bo.X).(*ssa.Phi); isPhi {
			return inductionStep(bo.X, li)
		}
	}
	phi, ok := v.(*ssa.Phi)
	if !ok {
		return 0
	}
	for _, e := range phi.Edges {
		if bo, ok := stripConv(e).(*ssa.BinOp); ok && stripConv(bo.X) == ssa.Value(phi) {
			if c, ok := bo.Y.(*ssa.Const); ok && c.Value != nil {
				s := constant.Sign(c.Value)
				if bo.Op == token.SUB {
					s = -s
				}
				return s
			}
		}
	}
	return 0
}

func loopInvariant(v ssa.Value, li *loopInfo) bool {
	switch x := v.(type) {
	case *ssa.Const, *ssa.Parameter, *ssa.FreeVar, *ssa.Global:
		return true
	case ssa.Instruction:
		if !li.body[x.Block()] {
			return true
		}
		// len(x)/method calls inside the header on invariant operands
		switch y := v.(type) {
		case *ssa.Call:
			c := y.Common()
			if b, ok := c.Value.(*ssa.Builtin); ok && b.Name() == "len" {
				return loopInvariant(c.Args[0], li)
			}
			if c.IsInvoke() && (c.Method.Name() == "Len") {
				return loopInvariant(c.Value, li)
			}
			// accessors of an (immutable) reflect.Type descriptor
			if c.IsInvoke() && typeShort(c.Value.Type()) == "reflect.Type" {
				switch c.Method.Name() {
				case "NumIn", "NumOut", "NumField", "NumMethod":
					return loopInvariant(c.Value, li)
				}
			}
		case *ssa.BinOp:
			return loopInvariant(y.X, li) && loopInvariant(y.Y, li)
		case *ssa.Convert:
			return loopInvariant(y.X, li)
		case *ssa.UnOp:
			// load of a local that is not stored in the loop
			if al, ok := y.X.(*ssa.Alloc); ok {
				for _, ref := range *al.Referrers() {
					if st, ok := ref.(*ssa.Store); ok && li.body[st.Block()] {
						return false
					}
				}
				return true
			}
			if fv, ok := y.X.(*ssa.FreeVar); ok {
				for _, ref := range *fv.Referrers() {
					if st, ok := ref.(*ssa.Store); ok && li.body[st.Block()] {
						return false
					}
				}
				return true
			}
		}
	}
	return false
}

func isConstNotExtreme(v ssa.Value) bool {
	c, ok := v.(*ssa.Const)
	if !ok || c.Value == nil || c.Value.Kind() != constant.Int {
		return false
	}
	i, exact := constant.Int64Val(c.Value)
	return exact && i > -(1<<31) && i < (1<<31)-1
}

func isLenMinus(v ssa.Value) bool {
	bo, ok := v.(*ssa.BinOp)
	if !ok || bo.Op != token.SUB {
		return false
	}
	if call, ok := bo.X.(*ssa.Call); ok {
		if b, ok := call.Common().Value.(*ssa.Builtin); ok && b.Name() == "len" {
			return true
		}
	}
	return false
}

func mustRe(s string) strMatcher { return regexpMustCompile(s) }

// quantityUnitUnchecked: system.newQuantity returns a nil error on every path.
func quantityUnitUnchecked(p *Program) bool {
	// ParseQuantity(number, unit) with the number accepted (the decimal parser answers
	// success) and an arbitrary unit: no return may carry an error
	fn, err := p.Func("fhirpath/system", "ParseQuantity")
	if err != nil {
		return false
	}
	an := newAnalyzer()
	an.fnModel = func(sc *ssa.Function, args []aval) (aval, bool) {
		if sc.RelString(nil) == "github.com/shopspring/decimal.NewFromString" {
			return aval{k: kTuple, tup: []aval{top, {k: kNil}}}, true
		}
		return aval{}, false
	}
	res := an.analyze(fn, nil)
	if len(res.rets) == 0 || len(res.hazards) > 0 {
		return false
	}
	for _, ri := range res.rets {
		if !retIsOK(ri) {
			return false
		}
	}
	return true
}
