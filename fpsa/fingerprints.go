package main

// Rename-tolerant anchors.
//
// Rules name some unexported functions, methods and package-level variables of
// the repository (isEvaluable, getComponents, dateMap, …).  Unexported names
// are free to change in a clean-up, so a lookup by name that fails falls back
// to a *fingerprint*: anchors.json (committed; written by `fpsa anchors` from
// the tree the rules were confirmed on) records, for every unexported
// function, method and variable, what it looks like — the multiset of
// parameter/result types (receiver counted as a parameter, so a method turned
// into a function still matches), the exported / library functions and
// interface methods it calls, the string constants it mentions; for variables
// the type and the constants of the initialiser.  The fallback considers only
// declarations of the same package whose *name is new* (absent from
// anchors.json) and accepts the unique best match above a threshold; the
// resolution is recorded in the evidence notes.  A declaration that was
// removed or inlined stays unresolved (the rule then reports the anchor).

import (
	"encoding/json"
	"fmt"
	"go/ast"
	"go/constant"
	"go/token"
	"go/types"
	"os"
	"path/filepath"
	"sort"
	"strings"

	"golang.org/x/tools/go/packages"
	"golang.org/x/tools/go/ssa"
)

type fnFP struct {
	Rel     string   `json:"pkg"`
	Recv    string   `json:"recv,omitempty"`
	Name    string   `json:"name"`
	Params  []string `json:"params"`  // sorted, receiver included
	Results []string `json:"results"` // ordered
	Callees []string `json:"callees"` // sorted set
	Consts  []string `json:"consts"`  // sorted set
	Short   string   `json:"short"`            // the function's name as it appears in obligation keys
	Caller  string   `json:"caller,omitempty"` // key name of its only caller, when it has exactly one direct call site
}

type varFP struct {
	Rel    string   `json:"pkg"`
	Name   string   `json:"name"`
	Type   string   `json:"type"`
	Consts []string `json:"consts"`
}

type anchorDB struct {
	Comment string  `json:"_comment"`
	Funcs   []fnFP  `json:"funcs"`
	Vars    []varFP `json:"vars"`
}

var anchorNotes []string // resolutions made in this run (evidence)

func relOf(pkgPath string) string { return strings.TrimPrefix(strings.TrimPrefix(pkgPath, mod), "/") }

func recvName(fn *ssa.Function) string {
	if r := fn.Signature.Recv(); r != nil {
		return namedName(r.Type())
	}
	return ""
}

func fingerprintFn(fn *ssa.Function) fnFP {
	fp := fnFP{Rel: relOf(fnPkgPath(fn)), Recv: recvName(fn), Name: fn.Name()}
	qual := func(t types.Type) string { return types.TypeString(t, nil) }
	if r := fn.Signature.Recv(); r != nil {
		t := r.Type()
		if pt, ok := t.(*types.Pointer); ok {
			t = pt.Elem()
		}
		fp.Params = append(fp.Params, qual(t))
	}
	for i := 0; i < fn.Signature.Params().Len(); i++ {
		t := fn.Signature.Params().At(i).Type()
		// a method that became a function usually takes the former receiver by value or
		// pointer: compare modulo one pointer level
		if pt, ok := t.(*types.Pointer); ok {
			if _, named := pt.Elem().(*types.Named); named {
				t = pt.Elem()
			}
		}
		fp.Params = append(fp.Params, qual(t))
	}
	sort.Strings(fp.Params)
	for i := 0; i < fn.Signature.Results().Len(); i++ {
		fp.Results = append(fp.Results, qual(fn.Signature.Results().At(i).Type()))
	}
	callees, consts := map[string]bool{}, map[string]bool{}
	var walk func(f *ssa.Function)
	walk = func(f *ssa.Function) {
		for _, b := range f.Blocks {
			for _, ins := range b.Instrs {
				if c, ok := ins.(ssa.CallInstruction); ok {
					cc := c.Common()
					switch {
					case cc.IsInvoke():
						callees["invoke:"+cc.Method.Name()] = true
					case cc.StaticCallee() != nil:
						sc := cc.StaticCallee()
						if o := sc.Origin(); o != nil {
							sc = o
						}
						// unexported repository callees may be renamed too: left out
						if !inRepoFn(sc) || (sc.Object() != nil && sc.Object().Exported()) {
							callees[sc.RelString(nil)] = true
						}
					}
				}
				var ops [16]*ssa.Value
				for _, op := range ins.Operands(ops[:0]) {
					if op == nil || *op == nil {
						continue
					}
					if k, ok := (*op).(*ssa.Const); ok && k.Value != nil && k.Value.Kind() == constant.String {
						if s := constant.StringVal(k.Value); s != "" && len(s) < 80 {
							consts[s] = true
						}
					}
				}
			}
		}
		for _, a := range f.AnonFuncs {
			walk(a)
		}
	}
	walk(fn)
	for k := range callees {
		fp.Callees = append(fp.Callees, k)
	}
	for k := range consts {
		fp.Consts = append(fp.Consts, k)
	}
	sort.Strings(fp.Callees)
	sort.Strings(fp.Consts)
	return fp
}

func jaccard(a, b []string) float64 {
	if len(a) == 0 && len(b) == 0 {
		return 1
	}
	m := map[string]bool{}
	for _, x := range a {
		m[x] = true
	}
	inter := 0
	for _, x := range b {
		if m[x] {
			inter++
		}
	}
	union := len(a) + len(b) - inter
	if union == 0 {
		return 1
	}
	return float64(inter) / float64(union)
}

func sameStrings(a, b []string) bool {
	if len(a) != len(b) {
		return false
	}
	for i := range a {
		if a[i] != b[i] {
			return false
		}
	}
	return true
}

func (p *Program) unexportedFuncs(rel string) []*ssa.Function {
	var out []*ssa.Function
	for _, fn := range p.RepoFuncs() {
		if fn.Parent() != nil || fn.Synthetic != "" || fn.Origin() != nil && fn.Origin() != fn {
			continue
		}
		if relOf(fnPkgPath(fn)) != rel || fn.Object() == nil || fn.Object().Exported() || strings.HasPrefix(fn.Name(), "init") {
			continue
		}
		out = append(out, fn)
	}
	return out
}

func loadAnchors() *anchorDB {
	b, err := os.ReadFile(filepath.Join(verifDir(), "fpsa", "anchors.json"))
	if err != nil {
		return &anchorDB{}
	}
	var db anchorDB
	if json.Unmarshal(b, &db) != nil {
		return &anchorDB{}
	}
	return &db
}

// writeAnchors: `fpsa anchors` — records the fingerprints of the current tree.
func writeAnchors(p *Program) error {
	db := anchorDB{Comment: "fingerprints of the unexported functions, methods and package-level variables of the tree the rules were confirmed on; written by `bin/fpsa anchors`, read-only in checks (fallback for lookups by an unexported name that no longer exists)"}
	rels := map[string]bool{}
	for path := range p.SSAPkg {
		if strings.HasPrefix(path, mod) {
			rels[relOf(path)] = true
		}
	}
	var rs []string
	for r := range rels {
		rs = append(rs, r)
	}
	sort.Strings(rs)
	for _, rel := range rs {
		fns := p.unexportedFuncs(rel)
		sort.Slice(fns, func(i, j int) bool { return fnKey(fns[i]) < fnKey(fns[j]) })
		for _, fn := range fns {
			fp := fingerprintFn(fn)
			fp.Short = short(fn)
			if sites, ok := p.directCallSites(fn); ok && len(sites) == 1 && sites[0].Parent() != nil {
				fp.Caller = short(sites[0].Parent())
			}
			db.Funcs = append(db.Funcs, fp)
		}
		if pk := p.ByPath[pathOf(rel)]; pk != nil {
			db.Vars = append(db.Vars, varFingerprints(pk, rel)...)
		}
	}
	b, err := json.MarshalIndent(db, "", " ")
	if err != nil {
		return err
	}
	return os.WriteFile(filepath.Join(verifDir(), "fpsa", "anchors.json"), append(b, '\n'), 0o644)
}

func pathOf(rel string) string {
	if rel == "" {
		return mod
	}
	return mod + "/" + rel
}

// resolveFuncByFingerprint: see the file comment.
func (p *Program) resolveFuncByFingerprint(rel, recv, name string) *ssa.Function {
	if p.anchors == nil {
		p.anchors = loadAnchors()
	}
	var want *fnFP
	known := map[string]bool{}
	for i := range p.anchors.Funcs {
		f := &p.anchors.Funcs[i]
		if f.Rel != rel {
			continue
		}
		known[f.Recv+"."+f.Name] = true
		if f.Name == name && (f.Recv == recv || recv == "*") {
			want = f
		}
	}
	if want == nil {
		return nil
	}
	type cand struct {
		fn    *ssa.Function
		score float64
	}
	var cs []cand
	for _, fn := range p.unexportedFuncs(rel) {
		if known[recvName(fn)+"."+fn.Name()] {
			continue // an old acquaintance under its own name
		}
		fp := fingerprintFn(fn)
		score := jaccard(want.Callees, fp.Callees) + jaccard(want.Consts, fp.Consts)
		if sameStrings(want.Params, fp.Params) && sameStrings(want.Results, fp.Results) {
			score += 2
		} else if sameStrings(want.Results, fp.Results) {
			score += 0.5
		}
		cs = append(cs, cand{fn, score})
	}
	sort.Slice(cs, func(i, j int) bool { return cs[i].score > cs[j].score })
	if len(cs) == 0 || cs[0].score < 2.2 || (len(cs) > 1 && cs[0].score-cs[1].score < 0.4) {
		return nil
	}
	note := fmt.Sprintf("anchor %s.%s%s no longer exists by name: resolved to %s by fingerprint (score %.2f)", rel, ifs(recv != "", recv+"."), name, short(cs[0].fn), cs[0].score)
	dup := false
	for _, n := range anchorNotes {
		if n == note {
			dup = true
		}
	}
	if !dup {
		anchorNotes = append(anchorNotes, note)
	}
	return cs[0].fn
}

// ---- variables ----

func varFingerprints(pk *packages.Package, rel string) []varFP {
	var out []varFP
	for _, f := range pk.Syntax {
		for _, d := range f.Decls {
			gd, ok := d.(*ast.GenDecl)
			if !ok || gd.Tok != token.VAR {
				continue
			}
			for _, s := range gd.Specs {
				vs := s.(*ast.ValueSpec)
				for i, n := range vs.Names {
					if n.IsExported() || n.Name == "_" {
						continue
					}
					fp := varFP{Rel: rel, Name: n.Name}
					if obj := pk.TypesInfo.Defs[n]; obj != nil {
						fp.Type = types.TypeString(obj.Type(), nil)
					}
					if i < len(vs.Values) {
						fp.Consts = constsOfExpr(pk, vs.Values[i])
					}
					out = append(out, fp)
				}
			}
		}
	}
	sort.Slice(out, func(i, j int) bool { return out[i].Name < out[j].Name })
	return out
}

func constsOfExpr(pk *packages.Package, e ast.Expr) []string {
	set := map[string]bool{}
	ast.Inspect(e, func(n ast.Node) bool {
		if x, ok := n.(ast.Expr); ok {
			if tv, ok := pk.TypesInfo.Types[x]; ok && tv.Value != nil {
				s := tv.Value.ExactString()
				if len(s) < 120 {
					set[s] = true
				} else {
					set[fmt.Sprintf("long:%d:%s", len(s), s[:40])] = true
				}
				return false
			}
		}
		return true
	})
	var out []string
	for k := range set {
		out = append(out, k)
	}
	sort.Strings(out)
	return out
}

// resolveVarByFingerprint: the current name of the package-level variable that
// anchors.json knows as name (same package, a name anchors.json does not know,
// same type, most similar initialiser constants).
func (p *Program) resolveVarByFingerprint(rel, name string) string {
	if p.anchors == nil {
		p.anchors = loadAnchors()
	}
	var want *varFP
	known := map[string]bool{}
	for i := range p.anchors.Vars {
		v := &p.anchors.Vars[i]
		if v.Rel != rel {
			continue
		}
		known[v.Name] = true
		if v.Name == name {
			want = v
		}
	}
	pk := p.ByPath[pathOf(rel)]
	if want == nil || pk == nil {
		return ""
	}
	best, bestScore, second := "", 0.0, 0.0
	for _, v := range varFingerprints(pk, rel) {
		if known[v.Name] || v.Type != want.Type {
			continue
		}
		score := 1 + jaccard(want.Consts, v.Consts)
		if score > bestScore {
			best, second, bestScore = v.Name, bestScore, score
		} else if score > second {
			second = score
		}
	}
	if best == "" || bestScore < 1.5 || bestScore-second < 0.3 {
		return ""
	}
	note := fmt.Sprintf("anchor var %s.%s no longer exists by name: resolved to %s by fingerprint (score %.2f)", rel, name, best, bestScore)
	dup := false
	for _, n := range anchorNotes {
		if n == note {
			dup = true
		}
	}
	if !dup {
		anchorNotes = append(anchorNotes, note)
	}
	return best
}

// keyAliases: for the function component of an obligation key (short name of a
// function of the current tree), the names under which a review / known-finding
// entry recorded on the fingerprinted tree may still be filed:
//   - the function's former name, when it is the rename of a vanished one;
//   - vanished single-call-site helpers that were inlined into it (their only
//     caller was this function).
func (p *Program) keyAliases() map[string][]string {
	if p.aliasMap != nil {
		return p.aliasMap
	}
	p.aliasMap = map[string][]string{}
	if p.anchors == nil {
		p.anchors = loadAnchors()
	}
	current := map[string]bool{}
	byRel := map[string][]*ssa.Function{}
	for _, fn := range p.RepoFuncs() {
		current[short(fn)] = true
		if fn.Parent() == nil && fn.Synthetic == "" {
			byRel[relOf(fnPkgPath(fn))] = append(byRel[relOf(fnPkgPath(fn))], fn)
		}
	}
	for i := range p.anchors.Funcs {
		old := &p.anchors.Funcs[i]
		if old.Short == "" || current[old.Short] {
			continue
		}
		// vanished under that name: renamed to …?
		if fn := p.resolveFuncByFingerprint(old.Rel, old.Recv, old.Name); fn != nil {
			p.aliasMap[short(fn)] = append(p.aliasMap[short(fn)], old.Short)
			for _, a := range fn.AnonFuncs {
				p.aliasMap[short(a)] = append(p.aliasMap[short(a)], strings.Replace(short(a), short(fn), old.Short, 1))
			}
			continue
		}
		// … or inlined into its only caller (itself possibly renamed: handled by a second pass below)
		if old.Caller != "" {
			p.aliasMap[old.Caller] = append(p.aliasMap[old.Caller], old.Short)
		}
	}
	// callers that were renamed: move the inlined helpers' aliases to the new name
	for newName, olds := range p.aliasMap {
		for _, o := range olds {
			if extra, ok := p.aliasMap[o]; ok && !current[o] {
				p.aliasMap[newName] = append(p.aliasMap[newName], extra...)
			}
		}
	}
	return p.aliasMap
}
