package main

// C05 — equality and ordering.  ORD1 quantifier loops, ORD2 `!=` is `=`
// negated with a shared no-value path, ORD3 orientation of the four
// inequalities, ORD5 IsPrimitive/From agreement, ORD7 Equal/TryEqual method
// shapes (reflection contract of system/cmp.go).

import (
	"fmt"
	"go/constant"
	"go/types"
	"sort"
	"strings"
	"time"

	"golang.org/x/tools/go/ssa"
)

// ---------- ORD1 ----------

type quantSpec struct {
	rel, recv, name string
	forall          bool // ∀: the "true" verdict only after the loop; ∃: the "false" verdict only after the loop
}

var quantifiers = []quantSpec{
	{"fhirpath/system", "Collection", "TryEqual", true},
	{"fhirpath/internal/funcs/impl", "", "All", true},
	{"fhirpath/internal/funcs/impl", "", "AllTrue", true},
	{"fhirpath/internal/funcs/impl", "", "AllFalse", true},
	{"fhirpath/internal/funcs/impl", "", "AnyTrue", false},
	{"fhirpath/internal/funcs/impl", "", "AnyFalse", false},
	{"fhirpath/system", "Collection", "containsSystem", false},
	{"fhirpath/system", "Collection", "containsProto", false},
	{"fhirpath/internal/funcs/impl", "", "IsDistinct", true},
}

// inLoopBody: block b is executed inside an iteration of some loop of fn
// (natural-loop member other than the header, or dominated by an in-loop
// successor of the header — early-return blocks are not natural-loop members).
func inLoopBody(fn *ssa.Function, b *ssa.BasicBlock) bool {
	for _, li := range naturalLoops(fn) {
		if li.body[b] && b != li.header {
			return true
		}
		for _, s := range li.header.Succs {
			if li.body[s] && s != li.header && s.Dominates(b) {
				return true
			}
		}
		// multi-block headers (range loops test in the header): successors of
		// body blocks that leave the loop through a return
		for bb := range li.body {
			if bb == li.header {
				continue
			}
			if bb.Dominates(b) {
				return true
			}
		}
	}
	return false
}

func boolVerdict(v aval) (bool, bool) {
	if v.k == kConst && v.c.Kind() == constant.Bool {
		return constant.BoolVal(v.c), true
	}
	if t := collTruth(v); t == 0 || t == 1 {
		return t == 1, true
	}
	return false, false
}

// boolQuantifierRef: reference semantics of the Boolean quantifier functions.
var boolQuantifierRef = map[string]func(items []bool) bool{
	"AllTrue": func(it []bool) bool {
		for _, b := range it {
			if !b {
				return false
			}
		}
		return true
	},
	"AllFalse": func(it []bool) bool {
		for _, b := range it {
			if b {
				return false
			}
		}
		return true
	},
	"AnyTrue": func(it []bool) bool {
		for _, b := range it {
			if b {
				return true
			}
		}
		return false
	},
	"AnyFalse": func(it []bool) bool {
		for _, b := range it {
			if !b {
				return true
			}
		}
		return false
	},
}

func ordEvalQuantifier(p *Program, r *RuleResult, fn *ssa.Function, name string, want func([]bool) bool) {
	st, err := systemTypes(p)
	if err != nil {
		r.anchorFail(err)
		return
	}
	var wrong, undec []string
	n := 0
	for length := 0; length <= 3; length++ {
		for bits := 0; bits < 1<<length; bits++ {
			var items []bool
			var vals []aval
			for i := 0; i < length; i++ {
				b := bits&(1<<i) != 0
				items = append(items, b)
				vals = append(vals, st.boolItem(b))
			}
			n++
			an := newAnalyzer()
			an.maxBlocks = 200
			res := an.analyze(fn, []aval{nonnil("ctx"), coll(vals...), sliceLen(0)})
			got := -3
			if len(res.rets) >= 1 && len(res.hazards) == 0 && !res.nonconverged {
				for i, ri := range res.rets {
					t := -3
					if retIsOK(ri) {
						t = collTruth(ri.vals[0])
					}
					if i == 0 {
						got = t
					} else if t != got {
						got = -3
					}
				}
			}
			w := 0
			if want(items) {
				w = 1
			}
			switch {
			case got != 0 && got != 1:
				undec = append(undec, fmt.Sprint(items))
			case got != w:
				wrong = append(wrong, fmt.Sprintf("%v → %v (want %v)", items, got == 1, w == 1))
			}
		}
	}
	key := short(fn) + "|evaluated on Boolean collections"
	switch {
	case len(wrong) > 0:
		r.bad(key, fmt.Sprintf("%s differs from its quantifier on %d of %d collections, e.g. %s", name, len(wrong), n, wrong[0]), p.pos(fn.Pos()), "the quantifier's verdict must take every item into account")
	case len(undec) > 0:
		r.undecided(key, fmt.Sprintf("%s could not be evaluated on %d of %d collections, e.g. %s", name, len(undec), n, undec[0]), p.pos(fn.Pos()), "not foldable")
	default:
		r.ok(key, fmt.Sprintf("%s agrees with its quantifier on all %d collections of up to 3 Booleans", name, n), p.pos(fn.Pos()), "constant propagation through the delegating function and its helper, the loop analysed per iteration", true)
	}
}

func ruleORD1(p *Program) *RuleResult {
	r := newResult("ORD1")
	for _, q := range quantifiers {
		var fn *ssa.Function
		var err error
		if q.recv != "" {
			fn, err = p.Method(q.rel, q.recv, q.name)
		} else {
			fn, err = p.Func(q.rel, q.name)
		}
		if err != nil {
			if q.name == "IsDistinct" {
				continue
			}
			return r.anchorFail(err)
		}
		loops := naturalLoops(fn)
		if len(loops) == 0 {
			// the loop lives in a helper: the Boolean quantifiers are then decided by
			// evaluating them on every collection of up to 3 Booleans (the helper is
			// analysed in context, its loop iteration by iteration)
			if want, ok := boolQuantifierRef[q.name]; ok {
				r.count("quantifier_functions", 1)
				ordEvalQuantifier(p, r, fn, q.name, want)
				continue
			}
			r.note("%s has no loop (delegates)", short(fn))
			continue
		}
		r.count("quantifier_functions", 1)
		an := newAnalyzer()
		an.maxBlocks = 200
		res := an.analyze(fn, nil)
		kind := "∃"
		if q.forall {
			kind = "∀"
		}
		nret := 0
		for _, ri := range res.rets {
			v, ok := boolVerdict(ri.vals[0])
			if !ok {
				continue
			}
			// the final verdict of the quantifier: true for ∀, false for ∃
			if v != q.forall {
				continue
			}
			// TryEqual: the verdict (true, true) — second result must be true as well
			if len(ri.vals) == 2 {
				if v2, ok2 := boolVerdict(ri.vals[1]); ok2 && !v2 {
					continue
				}
			}
			nret++
			key := fmt.Sprintf("%s|%s verdict %v", short(fn), kind, v)
			if inLoopBody(fn, ri.instr.Block()) {
				r.bad(key, fmt.Sprintf("%s returns its %s verdict (%v) from inside the loop", short(fn), kind, v), p.instrPos(ri.instr),
					"the verdict that needs all items examined is returned after examining only a prefix")
			} else {
				r.ok(key, fmt.Sprintf("%s returns its %s verdict (%v) outside the loop", short(fn), kind, v), p.instrPos(ri.instr), "block is not inside any loop iteration", true)
			}
		}
		if nret == 0 {
			r.bad(short(fn)+"|no-verdict", short(fn)+" never returns its "+kind+" verdict", p.pos(fn.Pos()), "the quantifier cannot succeed")
		}
	}
	r.floor("quantifier_functions", 4)
	return r
}

// ---------- ORD2 ----------

func ruleORD2(p *Program) *RuleResult {
	r := newResult("ORD2")
	fn, err := p.Method("fhirpath/internal/expr", "EqualityExpression", "Evaluate")
	if err != nil {
		return r.anchorFail(err)
	}
	// the comparison: the TryEqual call(s) are answered by the call model; `Not` is a field of the node
	runEq := func(not bool, teqResult aval) (*result, *operandEnv, int) {
		an := newAnalyzer()
		an.maxBlocks = 200
		oe := newOperandEnv()
		oe.results["field:Left"] = okTuple(sliceLen(1))
		oe.results["field:Right"] = okTuple(sliceLen(1))
		nteq := 0
		oe.next = func(c *ssa.CallCommon, args []aval) (aval, bool) {
			if sc := c.StaticCallee(); sc != nil && sc.Name() == "TryEqual" && strings.HasSuffix(fnPkgPath(sc), "/fhirpath/system") {
				nteq++
				return teqResult, true
			}
			return aval{}, false
		}
		an.callModel = oe.model()
		res := an.analyze(fn, []aval{nodeReceiver(fn, map[string]aval{"Not": cBool(not)}), nonnil("ctx"), top})
		return res, oe, nteq
	}
	if _, oe, nteq := runEq(false, aval{k: kTuple, tup: []aval{cBool(true), cBool(true)}}); !oe.evaluated["field:Left"] || !oe.evaluated["field:Right"] || nteq == 0 {
		r.undecided("EqualityExpression|shape", "the operands are not both evaluated or no TryEqual comparison is reached", p.pos(fn.Pos()), "unsupported shape: `=` and `!=` must share one comparison")
		return r
	}
	for _, not := range []bool{false, true} {
		for _, c := range []struct {
			eq, has bool
			want    int
		}{{true, true, 1}, {false, true, 0}, {true, false, -1}, {false, false, -1}} {
			r.count("hypotheses", 1)
			res, _, _ := runEq(not, aval{k: kTuple, tup: []aval{cBool(c.eq), cBool(c.has)}})
			want := c.want
			if want >= 0 && not {
				want = 1 - want
			}
			got := -3
			if len(res.rets) == 1 && retIsOK(res.rets[0]) {
				got = collTruth(res.rets[0].vals[0])
			}
			op := "="
			if not {
				op = "!="
			}
			key := fmt.Sprintf("EqualityExpression|%s|equal=%v,hasValue=%v", op, c.eq, c.has)
			desc := fmt.Sprintf("a %s b with TryEqual=(%v,%v) → %s (want %s)", op, c.eq, c.has, tvName(got), tvName(want))
			if got == want {
				r.ok(key, desc, p.pos(fn.Pos()), "SCCP with the comparison result pinned", true)
			} else {
				r.bad(key, desc, p.pos(fn.Pos()), "`!=` must be the negation of `=` when it has a value and empty exactly when `=` is empty")
			}
		}
	}
	r.floor("hypotheses", 8)
	return r
}

// sideOf traces an operand back to the Left / Right sub-expression.
func sideOf(v ssa.Value, depth int) string {
	if depth > 12 {
		return "?"
	}
	switch x := v.(type) {
	case *ssa.Call:
		c := x.Common()
		if c.IsInvoke() && c.Method.Name() == "Evaluate" {
			switch recvClass(c.Value) {
			case "field:Left":
				return "L"
			case "field:Right":
				return "R"
			}
			return "?"
		}
		if sc := c.StaticCallee(); sc != nil && len(c.Args) > 0 {
			switch sc.Name() {
			case "Normalize", "From":
				return sideOf(c.Args[0], depth+1)
			}
		}
		return "?"
	case *ssa.Extract:
		return sideOf(x.Tuple, depth+1)
	case *ssa.UnOp:
		if ia, ok := x.X.(*ssa.IndexAddr); ok {
			return sideOf(ia.X, depth+1)
		}
	case *ssa.ChangeInterface:
		return sideOf(x.X, depth+1)
	case *ssa.MakeInterface:
		return sideOf(x.X, depth+1)
	case *ssa.ChangeType:
		return sideOf(x.X, depth+1)
	case *ssa.Phi:
		s := ""
		for _, e := range x.Edges {
			t := sideOf(e, depth+1)
			if s != "" && t != s {
				return "?"
			}
			s = t
		}
		return s
	}
	return "?"
}

// passesNormalize: the operand is the result of system.Normalize.
func passesNormalize(v ssa.Value) bool {
	for i := 0; i < 4; i++ {
		switch x := v.(type) {
		case *ssa.Call:
			sc := x.Common().StaticCallee()
			return sc != nil && sc.Name() == "Normalize"
		case *ssa.ChangeInterface:
			v = x.X
		case *ssa.MakeInterface:
			v = x.X
		default:
			return false
		}
	}
	return false
}

// ---------- ORD3 ----------

func ruleORD3(p *Program) *RuleResult {
	r := newResult("ORD3")
	st, err := systemTypes(p)
	if err != nil {
		return r.anchorFail(err)
	}
	fn, err := p.Method("fhirpath/internal/expr", "ComparisonExpression", "Evaluate")
	if err != nil {
		return r.anchorFail(err)
	}
	bv := func(b bool) aval { return aval{k: kConst, c: constant.MakeBool(b), dyn: st.Boolean} }
	type row struct {
		op   string
		want func(lt, gt bool) bool
	}
	rows := []row{
		{"<", func(lt, gt bool) bool { return lt }},
		{">", func(lt, gt bool) bool { return gt }},
		{"<=", func(lt, gt bool) bool { return !gt }},
		{">=", func(lt, gt bool) bool { return !lt }},
	}
	// operands are singletons whose items carry their side; From / Normalize keep the side
	// (Normalize marks the value); every Less invoke is answered by the sides of its operands
	sideItem := func(side string) aval { return nonnil("side:" + side) }
	sideOfVal := func(v aval) (string, bool) {
		side, norm := "", false
		for _, n := range v.notes {
			if strings.HasPrefix(n, "side:") {
				side = strings.TrimPrefix(n, "side:")
			}
			if n == "normalized" {
				norm = true
			}
		}
		return side, norm
	}
	type lessObs struct {
		badOperands []string
		notNormal   bool
		lr, rl      int
	}
	var obs lessObs
	run := func(op string, lr, rl aval) *result {
		an := newAnalyzer()
		an.maxBlocks = 250
		obs = lessObs{}
		oe := newOperandEnv()
		oe.results["field:Left"] = okTuple(coll(sideItem("L")))
		oe.results["field:Right"] = okTuple(coll(sideItem("R")))
		oe.next = func(c *ssa.CallCommon, args []aval) (aval, bool) {
			if c.IsInvoke() && c.Method.Name() == "Less" && len(args) == 2 {
				rs, rn := sideOfVal(args[0])
				as, an2 := sideOfVal(args[1])
				if !rn || !an2 {
					obs.notNormal = true
				}
				switch {
				case rs == "L" && as == "R":
					obs.lr++
					return lr, true
				case rs == "R" && as == "L":
					obs.rl++
					return rl, true
				}
				obs.badOperands = append(obs.badOperands, rs+","+as)
				return aval{k: kTuple, tup: []aval{top, top}}, true
			}
			if sc := c.StaticCallee(); sc != nil && strings.HasSuffix(fnPkgPath(sc), "/fhirpath/system") && len(args) > 0 {
				switch sc.Name() {
				case "From":
					if s, _ := sideOfVal(args[0]); s != "" {
						return okTuple(args[0]), true
					}
				case "Normalize":
					if s, _ := sideOfVal(args[0]); s != "" {
						v := args[0]
						v.notes = unionNotes(v.notes, []string{"normalized"})
						return v, true
					}
				}
			}
			return aval{}, false
		}
		an.callModel = oe.model()
		return an.analyze(fn, []aval{nodeReceiver(fn, map[string]aval{"Op": cStr(op)}), nonnil("ctx"), top})
	}
	{
		f := aval{k: kTuple, tup: []aval{bv(false), {k: kNil}}}
		run("<", f, f)
		switch {
		case len(obs.badOperands) > 0:
			r.bad("ComparisonExpression|less-operands", "a Less call whose operands are not (left,right) or (right,left): "+strings.Join(obs.badOperands, " "), p.pos(fn.Pos()), "comparison of something other than the two operands")
		case obs.notNormal:
			r.bad("ComparisonExpression|normalize", "a Less operand does not pass through system.Normalize", p.pos(fn.Pos()), "implicit Integer→Decimal→Quantity / Date→DateTime promotion skipped for one direction")
		case obs.lr == 0 || obs.rl == 0:
			r.undecided("ComparisonExpression|shape", "L.Less(R) and R.Less(L) are not both reached on singleton operands", p.pos(fn.Pos()), "unsupported shape")
			return r
		default:
			r.ok("ComparisonExpression|less-operands", "the comparison calls are L.Less(R) and R.Less(L) on operands that passed through system.Normalize", p.pos(fn.Pos()), "operand sides and normalisation tracked through From/Normalize by tag", true)
		}
	}
	for _, rw := range rows {
		for _, lt := range []bool{false, true} {
			for _, gt := range []bool{false, true} {
				if lt && gt {
					continue
				}
				r.count("hypotheses", 1)
				res := run(rw.op, aval{k: kTuple, tup: []aval{bv(lt), {k: kNil}}}, aval{k: kTuple, tup: []aval{bv(gt), {k: kNil}}})
				want := 0
				if rw.want(lt, gt) {
					want = 1
				}
				got := -3
				if len(res.rets) == 1 && retIsOK(res.rets[0]) {
					got = collTruth(res.rets[0].vals[0])
				}
				key := fmt.Sprintf("ComparisonExpression|%s|L<R=%v,R<L=%v", rw.op, lt, gt)
				desc := fmt.Sprintf("a %s b with a<b=%v, b<a=%v → %s (want %s)", rw.op, lt, gt, tvName(got), tvName(want))
				if got == want {
					r.ok(key, desc, p.pos(fn.Pos()), "SCCP with both Less results pinned", true)
				} else {
					r.bad(key, desc, p.pos(fn.Pos()), "orientation of the inequality differs from: < is L<R, > is R<L, <= is not(R<L), >= is not(L<R)")
				}
			}
		}
		// precision / unit mismatch → empty
		for _, c := range []struct {
			name     string
			lr, rl   aval
			wantDesc string
		}{
			{"first Less: mismatched precision", aval{k: kTuple, tup: []aval{bv(false), nonnil("system.ErrMismatchedPrecision")}}, aval{k: kTuple, tup: []aval{bv(false), {k: kNil}}}, "{}"},
			{"first Less: mismatched unit", aval{k: kTuple, tup: []aval{bv(false), nonnil("system.ErrMismatchedUnit")}}, aval{k: kTuple, tup: []aval{bv(false), {k: kNil}}}, "{}"},
			{"second Less: mismatched precision", aval{k: kTuple, tup: []aval{bv(false), {k: kNil}}}, aval{k: kTuple, tup: []aval{bv(false), nonnil("system.ErrMismatchedPrecision")}}, "{}"},
			{"first Less: other error", aval{k: kTuple, tup: []aval{bv(false), nonnil("system.ErrTypeMismatch")}}, aval{k: kTuple, tup: []aval{bv(false), {k: kNil}}}, "error"},
		} {
			r.count("hypotheses", 1)
			res := run(rw.op, c.lr, c.rl)
			got := "?"
			if len(res.rets) == 1 {
				switch {
				case retIsErr(res.rets[0]):
					got = "error"
				case retIsOK(res.rets[0]) && collTruth(res.rets[0].vals[0]) == -1:
					got = "{}"
				case retIsOK(res.rets[0]):
					got = "value"
				}
			}
			key := fmt.Sprintf("ComparisonExpression|%s|%s", rw.op, c.name)
			desc := fmt.Sprintf("a %s b, %s → %s (want %s)", rw.op, c.name, got, c.wantDesc)
			if got == c.wantDesc {
				r.ok(key, desc, p.pos(fn.Pos()), "SCCP with the Less error pinned (errors.Is on known provenance)", true)
			} else {
				r.bad(key, desc, p.pos(fn.Pos()), "precision/unit mismatch must give empty, any other comparison error must be reported")
			}
		}
	}
	r.floor("hypotheses", 28)
	return r
}

// ---------- ORD5 ----------

// typeSwitchCases collects the asserted types of the comma-ok assertions on
// the function's first parameter (the lowered type switch).
func typeSwitchCases(fn *ssa.Function) map[string]bool {
	out := map[string]bool{}
	for _, b := range fn.Blocks {
		for _, ins := range b.Instrs {
			ta, ok := ins.(*ssa.TypeAssert)
			if !ok || !ta.CommaOk {
				continue
			}
			if ta.X != ssa.Value(fn.Params[0]) {
				continue
			}
			out[typeShort(ta.AssertedType)] = true
		}
	}
	return out
}

func ruleORD5(p *Program) *RuleResult {
	r := newResult("ORD5")
	isPrim, err := p.Func("fhirpath/system", "IsPrimitive")
	if err != nil {
		return r.anchorFail(err)
	}
	from, err := p.Func("fhirpath/system", "From")
	if err != nil {
		return r.anchorFail(err)
	}
	a, b := typeSwitchCases(isPrim), typeSwitchCases(from)
	var all []string
	seen := map[string]bool{}
	for t := range a {
		if !seen[t] {
			seen[t] = true
			all = append(all, t)
		}
	}
	for t := range b {
		if !seen[t] {
			seen[t] = true
			all = append(all, t)
		}
	}
	sort.Strings(all)
	for _, t := range all {
		r.count("case_types", 1)
		key := "IsPrimitive~From|" + t
		if a[t] && b[t] {
			r.ok(key, t+" is handled by both IsPrimitive and From", p.pos(isPrim.Pos()), "sibling agreement of the two type switches", false)
		} else {
			miss := "IsPrimitive"
			if a[t] {
				miss = "From"
			}
			r.bad(key, t+" is not handled by "+miss, p.pos(isPrim.Pos()), "IsPrimitive and From disagree: a value one treats as primitive the other cannot convert (equality/ordering of such elements is inconsistent)")
		}
	}
	// schema primitives (datatype messages with a scalar Value / ValueUs field)
	prims, err := schemaPrimitives(p)
	if err != nil {
		return r.anchorFail(err)
	}
	for _, pt := range prims {
		r.count("schema_primitives", 1)
		t := "*datatypes_go_proto." + pt
		key := "schema-primitive|" + pt
		if a[t] && b[t] {
			r.ok(key, "R4 primitive "+pt+" is covered", p.pos(from.Pos()), "EN-SCHEMA: datatype message with a scalar value field", true)
		} else {
			r.bad(key, "R4 primitive "+pt+" is not covered by IsPrimitive/From", p.pos(from.Pos()), "elements of this primitive type cannot be compared or converted to a System value")
		}
	}
	r.floor("case_types", 15)
	r.floor("schema_primitives", 15)
	return r
}

// ---------- ORD7 ----------

// System types and the shape of their Equal / TryEqual methods, as the
// reflection code in system/cmp.go relies on.
func ruleORD7(p *Program) *RuleResult {
	r := newResult("ORD7")
	sp, err := p.Pkg("fhirpath/system")
	if err != nil {
		return r.anchorFail(err)
	}
	anyT := sp.Type("Any")
	if anyT == nil {
		return r.anchorFail(fmt.Errorf("anchor: system.Any not found"))
	}
	anyI := anyT.Type().Underlying().(*types.Interface)
	var names []string
	for n, m := range sp.Members {
		if t, ok := m.(*ssa.Type); ok {
			if types.Implements(t.Type(), anyI) {
				if _, isIface := t.Type().Underlying().(*types.Interface); !isIface {
					names = append(names, n)
				}
			}
		}
	}
	sort.Strings(names)
	for _, n := range names {
		r.count("system_types", 1)
		t := sp.Type(n).Type()
		ms := types.NewMethodSet(t)
		var eq, teq *types.Func
		for i := 0; i < ms.Len(); i++ {
			switch ms.At(i).Obj().Name() {
			case "Equal":
				eq = ms.At(i).Obj().(*types.Func)
			case "TryEqual":
				teq = ms.At(i).Obj().(*types.Func)
			}
		}
		key := "system." + n
		switch {
		case teq != nil:
			sig := teq.Type().(*types.Signature)
			ok := sig.Params().Len() == 1 && types.Identical(sig.Params().At(0).Type(), anyT.Type()) && sig.Results().Len() == 2 &&
				isBool(sig.Results().At(0).Type()) && isBool(sig.Results().At(1).Type())
			if ok {
				r.ok(key+"|TryEqual", n+".TryEqual(Any) (bool, bool)", p.pos(teq.Pos()), "shape expected by callTryEqual (2 bool results, Any parameter)", true)
			} else {
				r.bad(key+"|TryEqual", n+".TryEqual has signature "+sig.String(), p.pos(teq.Pos()), "callTryEqual indexes result[0] and result[1] and calls .Bool() on them; a parameter type other than Any makes the reflective call skip the comparison")
			}
		case eq != nil:
			sig := eq.Type().(*types.Signature)
			ok := sig.Params().Len() == 1 && types.Identical(sig.Params().At(0).Type(), anyT.Type()) && sig.Results().Len() == 1 && isBool(sig.Results().At(0).Type())
			if ok {
				r.ok(key+"|Equal", n+".Equal(Any) bool", p.pos(eq.Pos()), "shape expected by callEqual (got.(bool) is never nil for an Any parameter)", true)
			} else {
				r.bad(key+"|Equal", n+".Equal has signature "+sig.String()+" and the type has no TryEqual", p.pos(eq.Pos()), "callBinaryComparator returns (nil, true) for a concrete parameter type and callEqual then asserts nil.(bool): panic")
			}
		default:
			r.note("system.%s has neither Equal nor TryEqual: compared with ==", n)
			if !types.Comparable(t) {
				r.bad(key+"|comparable", n+" has no Equal/TryEqual and is not comparable", p.pos(sp.Type(n).Pos()), "lhs == rhs on a non-comparable dynamic type panics")
			}
		}
	}
	r.floor("system_types", 8)
	return r
}

func isBool(t types.Type) bool {
	b, ok := t.Underlying().(*types.Basic)
	return ok && b.Kind() == types.Bool
}

// ---------- ORD6 ----------

// Less / Equal of the primitive System types evaluated exhaustively over
// boundary pools (exact domain; fixed-width integer folding).
func ruleORD6(p *Program) *RuleResult {
	r := newResult("ORD6")
	st, err := systemTypes(p)
	if err != nil {
		return r.anchorFail(err)
	}
	strPool := []string{"", "a", "A", "ab", "b", "é", "z", "€", "á"}
	boolOutcome := func(res *result, twoResults bool) string {
		if len(res.hazards) > 0 {
			return "hazard:" + res.hazards[0].what
		}
		if len(res.rets) != 1 {
			return "?"
		}
		ri := res.rets[0]
		if twoResults {
			if ri.vals[1].k != kNil {
				return "err"
			}
		}
		v := ri.vals[0]
		if v.k == kConst && v.c.Kind() == constant.Bool {
			return fmt.Sprint(constant.BoolVal(v.c))
		}
		return "?"
	}
	// Integer
	for _, m := range []struct {
		name string
		two  bool
		want func(a, b int64) bool
	}{
		{"Less", true, func(a, b int64) bool { return a < b }},
		{"Equal", false, func(a, b int64) bool { return a == b }},
	} {
		fn, err := p.Method("fhirpath/system", "Integer", m.name)
		if err != nil {
			return r.anchorFail(err)
		}
		bad := 0
		for _, a := range intPool {
			for _, b := range intPool {
				r.count("cells", 1)
				an := newAnalyzer()
				res := an.analyze(fn, []aval{cInt(a), st.intItem(b)})
				got, want := boolOutcome(res, m.two), fmt.Sprint(m.want(a, b))
				if got != want {
					bad++
					if bad <= 4 {
						r.bad(fmt.Sprintf("Integer.%s|%d,%d", m.name, a, b), fmt.Sprintf("Integer(%d).%s(%d) = %s, want %s", a, m.name, b, got, want), p.pos(fn.Pos()),
							"Integer comparison disagrees with the mathematical order on a boundary pair")
					}
				}
			}
		}
		if bad == 0 {
			r.ok("Integer."+m.name+"|pool", fmt.Sprintf("Integer.%s agrees with the integer order on %d boundary pairs", m.name, len(intPool)*len(intPool)), p.pos(fn.Pos()), "exhaustive abstract evaluation with fixed-width folding", true)
		}
	}
	// String
	for _, m := range []struct {
		name string
		two  bool
		want func(a, b string) bool
	}{
		{"Less", true, func(a, b string) bool { return a < b }},
		{"Equal", false, func(a, b string) bool { return a == b }},
	} {
		fn, err := p.Method("fhirpath/system", "String", m.name)
		if err != nil {
			return r.anchorFail(err)
		}
		bad := 0
		for _, a := range strPool {
			for _, b := range strPool {
				r.count("cells", 1)
				res := newAnalyzer().analyze(fn, []aval{cStr(a), st.strItem(b)})
				got, want := boolOutcome(res, m.two), fmt.Sprint(m.want(a, b))
				if got != want {
					bad++
					if bad <= 4 {
						r.bad(fmt.Sprintf("String.%s|%q,%q", m.name, a, b), fmt.Sprintf("String(%q).%s(%q) = %s, want %s", a, m.name, b, got, want), p.pos(fn.Pos()),
							"String comparison disagrees with code-point order")
					}
				}
			}
		}
		if bad == 0 {
			r.ok("String."+m.name+"|pool", fmt.Sprintf("String.%s agrees with code-point order on %d pairs", m.name, len(strPool)*len(strPool)), p.pos(fn.Pos()), "exhaustive abstract evaluation", true)
		}
	}
	// Boolean.Equal; mixed-type operands are never equal / never ordered
	bfn, err := p.Method("fhirpath/system", "Boolean", "Equal")
	if err != nil {
		return r.anchorFail(err)
	}
	badB := 0
	for _, a := range []bool{false, true} {
		for _, b := range []bool{false, true} {
			r.count("cells", 1)
			res := newAnalyzer().analyze(bfn, []aval{cBool(a), st.boolItem(b)})
			if boolOutcome(res, false) != fmt.Sprint(a == b) {
				badB++
			}
		}
	}
	if badB == 0 {
		r.ok("Boolean.Equal|pool", "Boolean.Equal agrees on the 4 pairs", p.pos(bfn.Pos()), "exhaustive abstract evaluation", true)
	} else {
		r.bad("Boolean.Equal|pool", "Boolean.Equal differs from == on a pair", p.pos(bfn.Pos()), "Boolean equality wrong")
	}
	for _, tc := range []struct {
		typ, meth string
		recv, arg aval
		want      string
	}{
		{"Integer", "Equal", cInt(1), st.strItem("1"), "false"},
		{"String", "Equal", cStr("1"), st.intItem(1), "false"},
		{"Boolean", "Equal", cBool(true), st.intItem(1), "false"},
		{"Integer", "Less", cInt(1), st.strItem("2"), "err"},
		{"String", "Less", cStr("1"), st.intItem(2), "err"},
	} {
		fn, err := p.Method("fhirpath/system", tc.typ, tc.meth)
		if err != nil {
			return r.anchorFail(err)
		}
		r.count("cells", 1)
		res := newAnalyzer().analyze(fn, []aval{tc.recv, tc.arg})
		got := boolOutcome(res, tc.meth == "Less")
		key := fmt.Sprintf("%s.%s|mixed", tc.typ, tc.meth)
		if got == tc.want {
			r.ok(key, fmt.Sprintf("%s.%s on an operand of another type → %s", tc.typ, tc.meth, got), p.pos(fn.Pos()), "SCCP (type assertion decided by the operand's dynamic type)", true)
		} else {
			r.bad(key, fmt.Sprintf("%s.%s on an operand of another type → %s, want %s", tc.typ, tc.meth, got, tc.want), p.pos(fn.Pos()), "values of different types compare as equal/ordered")
		}
	}
	r.floor("cells", 500)
	return r
}

// ORD8: DateTime comparison across layouts compares components of values that
// were normalised to UTC on every path (the offset must not influence which
// calendar fields are compared).
func ruleORD8(p *Program) *RuleResult {
	r := newResult("ORD8")
	gc, err := p.Method("fhirpath/system", "DateTime", "getComponents")
	if err != nil {
		return r.anchorFail(err)
	}
	for _, m := range []string{"TryEqual", "Less"} {
		fn, err := p.Method("fhirpath/system", "DateTime", m)
		if err != nil {
			return r.anchorFail(err)
		}
		n := 0
		for _, b := range fn.Blocks {
			for _, ins := range b.Instrs {
				c, ok := ins.(*ssa.Call)
				if !ok || c.Common().StaticCallee() != gc {
					continue
				}
				n++
				r.count("component_reads", 1)
				key := fmt.Sprintf("DateTime.%s|getComponents#%d", m, n)
				okNorm := false
				why := "the value is not a local copy whose time was replaced by its UTC() form"
				if ld, ok := c.Common().Args[0].(*ssa.UnOp); ok {
					if al, ok := ld.X.(*ssa.Alloc); ok {
						for _, ref := range *al.Referrers() {
							fa, ok := ref.(*ssa.FieldAddr)
							if !ok || fieldName(fa) != "dateTime" {
								continue
							}
							for _, r2 := range *fa.Referrers() {
								st, ok := r2.(*ssa.Store)
								if !ok || st.Addr != ssa.Value(fa) {
									continue
								}
								uc, ok := st.Val.(*ssa.Call)
								if !ok || uc.Common().StaticCallee() == nil || uc.Common().StaticCallee().RelString(nil) != "(time.Time).UTC" {
									continue
								}
								if st.Block() == b || st.Block().Dominates(b) {
									okNorm = true
								} else {
									why = "the UTC() normalisation at " + p.instrPos(st) + " does not dominate the comparison (it is conditional)"
								}
							}
						}
					}
				}
				if okNorm {
					r.ok(key, fmt.Sprintf("DateTime.%s compares the components of a value normalised to UTC on every path", m), p.instrPos(ins), "a store of UTC() to the local copy dominates the getComponents call", true)
				} else {
					r.bad(key, fmt.Sprintf("DateTime.%s compares components of a value that is not normalised to UTC on every path: %s", m, why), p.instrPos(ins),
						"values with different offsets are compared by their local calendar fields: an offset that moves the instant across midnight changes the verdict of =, <, >")
				}
			}
		}
		if n < 2 {
			r.undecided("DateTime."+m+"|getComponents", fmt.Sprintf("DateTime.%s reads the components of %d values (2 expected)", m, n), p.pos(fn.Pos()), "shape changed")
		}
	}
	r.floor("component_reads", 2)
	return r
}

// ORD9: the component vectors that Date/DateTime/Time comparison is built on
// order values like the calendar does: getComponents is evaluated (package time
// folded) on a pool of values and, per component position, the order of the
// component equals the order of the corresponding civil field (seconds and
// fraction form one component).
func ruleORD9(p *Program) *RuleResult {
	r := newResult("ORD9")
	type civ struct{ y, mo, d, h, mi, s, ns int }
	pool := []civ{
		{2020, 1, 31, 10, 0, 1, 500000000}, {2020, 1, 31, 10, 0, 2, 0}, {2020, 1, 31, 10, 0, 1, 1000000}, {2020, 1, 31, 10, 0, 1, 0},
		{2020, 2, 29, 23, 59, 59, 999000000}, {2019, 12, 31, 0, 0, 0, 0}, {2020, 1, 31, 9, 59, 59, 999000000}, {1, 1, 1, 0, 0, 0, 1000000}, {9999, 12, 31, 23, 59, 58, 2000000},
	}
	for _, t := range []struct {
		name string
		ref  func(c civ) []int64
	}{
		{"Date", func(c civ) []int64 { return []int64{int64(c.y), int64(c.mo), int64(c.d)} }},
		{"DateTime", func(c civ) []int64 {
			return []int64{int64(c.y), int64(c.mo), int64(c.d), int64(c.h), int64(c.mi), int64(c.s)*1000000000 + int64(c.ns)}
		}},
		{"Time", func(c civ) []int64 { return []int64{int64(c.h), int64(c.mi), int64(c.s)*1000000000 + int64(c.ns)} }},
	} {
		fn, err := p.Method("fhirpath/system", t.name, "getComponents")
		if err != nil {
			return r.anchorFail(err)
		}
		var vecs [][]int64
		okEval := true
		for _, c := range pool {
			r.count("evaluations", 1)
			tm := time.Date(c.y, time.Month(c.mo), c.d, c.h, c.mi, c.s, c.ns, time.UTC)
			if t.name == "Time" {
				tm = time.Date(0, 1, 1, c.h, c.mi, c.s, c.ns, time.UTC)
			}
			an := newAnalyzer()
			an.maxBlocks = 100
			res := an.analyze(fn, []aval{{k: kStruct, elems: []aval{cTime(tm), top}}})
			j := res.joinedReturn()
			var vec []int64
			if j.k == kSlice && j.elems != nil {
				for _, e := range j.elems {
					if v, ok := constInt(e); ok {
						vec = append(vec, v)
					}
				}
			}
			if len(vec) != len(t.ref(c)) {
				okEval = false
				r.undecided(t.name+".getComponents|eval", fmt.Sprintf("%s.getComponents could not be evaluated: %s", t.name, j.String()), p.pos(fn.Pos()), "not foldable")
				break
			}
			vecs = append(vecs, vec)
		}
		if !okEval {
			continue
		}
		sign := func(x int64) int {
			switch {
			case x < 0:
				return -1
			case x > 0:
				return 1
			}
			return 0
		}
		for i := range vecs[0] {
			bad := ""
			for a := range pool {
				for b := range pool {
					ra, rb := t.ref(pool[a])[i], t.ref(pool[b])[i]
					if sign(vecs[a][i]-vecs[b][i]) != sign(ra-rb) && bad == "" {
						bad = fmt.Sprintf("component %d of %v is %d and of %v is %d, the civil fields order as %d vs %d", i, pool[a], vecs[a][i], pool[b], vecs[b][i], ra, rb)
					}
				}
			}
			key := fmt.Sprintf("%s.getComponents|component %d", t.name, i)
			if bad == "" {
				r.ok(key, fmt.Sprintf("component %d of %s orders the pool like the civil field does", i, t.name), p.pos(fn.Pos()), "constant propagation with package time folded; order isomorphism on all pairs of the pool", true)
			} else {
				r.bad(key, bad, p.pos(fn.Pos()), "comparison across precisions uses these components: a component that is not monotone in its civil field flips <, > and = for some values")
			}
		}
	}
	r.floor("evaluations", 27)
	return r
}
