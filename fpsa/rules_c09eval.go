package main

// TIM-EVAL — Date/DateTime/Time ± quantity evaluated from source on a pool of
// values (month ends, leap days, partial precisions, offsets) x units x
// amounts, by constant propagation with package time folded on known values,
// and compared with an independent proleptic-Gregorian reference written here
// (civil-day arithmetic; no use of package time in the oracle).

import (
	"fmt"
	"go/ast"
	"go/constant"
	"go/token"
	"math/big"
	"strings"
	"time"

	"golang.org/x/tools/go/ssa"
)

// ---- reference calendar ----

func daysFromCivil(y, m, d int) int {
	if m <= 2 {
		y--
	}
	era := y / 400
	if y < 0 {
		era = (y - 399) / 400
	}
	yoe := y - era*400
	mp := (m + 9) % 12
	doy := (153*mp+2)/5 + d - 1
	doe := yoe*365 + yoe/4 - yoe/100 + doy
	return era*146097 + doe - 719468
}

func civilFromDays(z int) (int, int, int) {
	z += 719468
	era := z / 146097
	if z < 0 {
		era = (z - 146096) / 146097
	}
	doe := z - era*146097
	yoe := (doe - doe/1460 + doe/36524 - doe/146096) / 365
	y := yoe + era*400
	doy := doe - (365*yoe + yoe/4 - yoe/100)
	mp := (5*doy + 2) / 153
	d := doy - (153*mp+2)/5 + 1
	m := mp + 3
	if m > 12 {
		m -= 12
	}
	if m <= 2 {
		y++
	}
	return y, m, d
}

func daysInMonth(y, m int) int {
	switch m {
	case 2:
		if y%4 == 0 && (y%100 != 0 || y%400 == 0) {
			return 29
		}
		return 28
	case 4, 6, 9, 11:
		return 30
	}
	return 31
}

// refValue: civil fields of a temporal value; prec 0=year … 5=second(+ms)
type refValue struct {
	y, mo, d, h, mi, s, ms int
	prec                   int
	zone                   string // "", "Z", "+05:30", …
	isTime                 bool   // time of day only (prec: 3=hour 4=minute 5=second)
}

var unitRank = map[string]int{"year": 0, "month": 1, "week": 2, "day": 2, "hour": 3, "minute": 4, "second": 5, "millisecond": 6}

// msPer: length of a unit in milliseconds under the FHIRPath conversion rules
var msPerUnit = map[string]int64{"year": 365 * 86400000, "month": 30 * 86400000, "week": 7 * 86400000, "day": 86400000, "hour": 3600000, "minute": 60000, "second": 1000, "millisecond": 1}

// refAdd: v + sign*amount unit.  ok=false: outside the reference's domain (year out of 1..9999).
func refAdd(v refValue, amount *big.Rat, unit string, sign int) (refValue, bool) {
	unit = strings.TrimSuffix(unit, "s")
	// calendar units drop the fraction of the amount; seconds keep milliseconds
	num := new(big.Int).Quo(amount.Num(), amount.Denom()) // truncates toward zero
	whole := num.Int64()
	totalMs := whole * msPerUnit[unit]
	if unit == "second" {
		r := new(big.Rat).Mul(amount, big.NewRat(1000, 1))
		// round half away from zero to whole milliseconds
		f, _ := r.Float64()
		if f >= 0 {
			totalMs = int64(f + 0.5)
		} else {
			totalMs = -int64(-f + 0.5)
		}
	}
	whole *= int64(sign)
	totalMs *= int64(sign)
	r := v
	addMonths := func(n int) {
		idx := r.y*12 + (r.mo - 1) + n
		r.y, r.mo = idx/12, idx%12+1
		if idx < 0 && idx%12 != 0 {
			r.y, r.mo = (idx-11)/12, ((idx%12)+12)%12+1
		}
		if r.prec >= 2 {
			if dim := daysInMonth(r.y, r.mo); r.d > dim {
				r.d = dim
			}
		}
	}
	addDays := func(n int) {
		r.y, r.mo, r.d = civilFromDays(daysFromCivil(r.y, r.mo, r.d) + n)
	}
	addMs := func(n int64) {
		tod := int64(((r.h*60+r.mi)*60+r.s)*1000 + r.ms)
		tod += n
		days := tod / 86400000
		tod %= 86400000
		if tod < 0 {
			tod += 86400000
			days--
		}
		if !r.isTime {
			addDays(int(days))
		}
		r.h, r.mi, r.s, r.ms = int(tod/3600000), int(tod/60000%60), int(tod/1000%60), int(tod%1000)
	}
	prec := v.prec
	switch {
	case v.isTime:
		// convert to whole units of the value's precision, then add
		step := map[int]int64{3: 3600000, 4: 60000, 5: 1}[prec]
		addMs(totalMs / step * step)
	case unitRank[unit] <= prec || (unitRank[unit] == 2 && prec >= 2):
		// the unit is not finer than the value's precision: calendar arithmetic in that unit
		switch unit {
		case "year":
			addMonths(12 * int(whole))
		case "month":
			addMonths(int(whole))
		case "week":
			addDays(7 * int(whole))
		case "day":
			addDays(int(whole))
		case "hour", "minute", "second", "millisecond":
			step := map[int]int64{3: 3600000, 4: 60000, 5: 1}[prec]
			addMs(totalMs / step * step)
		}
	default:
		// finer than the precision: whole units of the precision (1 year = 365 days, 1 month = 30 days)
		switch prec {
		case 0:
			if unit == "month" {
				addMonths(12 * int(whole/12)) // 12 months = 1 year (N1: @2014 + 24 months = @2016)
			} else {
				addMonths(12 * int(totalMs/msPerUnit["year"]))
			}
		case 1:
			addMonths(int(totalMs / msPerUnit["month"]))
		case 2:
			addDays(int(totalMs / msPerUnit["day"]))
		case 3:
			addMs(totalMs / 3600000 * 3600000)
		case 4:
			addMs(totalMs / 60000 * 60000)
		default:
			addMs(totalMs)
		}
	}
	if !r.isTime && (r.y < 1 || r.y > 9999) {
		return r, false
	}
	return r, true
}

// render: the FHIRPath text of the value at its precision, in the repository's layouts
func (v refValue) render(layout string) string {
	var sb strings.Builder
	z := v.zone
	if z == "" {
		z = "Z"
	}
	toks := []struct{ t, val string }{
		{"Z07:00", z}, {"2006", fmt.Sprintf("%04d", v.y)}, {".000", fmt.Sprintf(".%03d", v.ms)},
		{"01", fmt.Sprintf("%02d", v.mo)}, {"02", fmt.Sprintf("%02d", v.d)}, {"15", fmt.Sprintf("%02d", v.h)},
		{"04", fmt.Sprintf("%02d", v.mi)}, {"05", fmt.Sprintf("%02d", v.s)},
	}
	for i := 0; i < len(layout); {
		matched := false
		for _, t := range toks {
			if strings.HasPrefix(layout[i:], t.t) {
				sb.WriteString(t.val)
				i += len(t.t)
				matched = true
				break
			}
		}
		if !matched {
			sb.WriteByte(layout[i])
			i++
		}
	}
	return sb.String()
}

type timPoolEntry struct {
	typ, text, layout string
	v                 refValue
}

func timPool() []timPoolEntry {
	var out []timPoolEntry
	dates := [][3]int{{2020, 1, 29}, {2020, 1, 31}, {2020, 2, 29}, {2020, 3, 31}, {2020, 12, 31}, {2021, 1, 29}, {2021, 1, 30}, {2021, 2, 28}, {2023, 3, 29}, {2024, 2, 29}, {1, 1, 1}, {9999, 12, 31}}
	if !thoroughTier {
		dates = [][3]int{{2020, 1, 31}, {2020, 2, 29}, {2020, 12, 31}, {2021, 1, 29}, {2023, 3, 29}, {1, 1, 1}}
	}
	for _, d := range dates {
		out = append(out, timPoolEntry{"Date", fmt.Sprintf("%04d-%02d-%02d", d[0], d[1], d[2]), "2006-01-02", refValue{y: d[0], mo: d[1], d: d[2], prec: 2}})
	}
	out = append(out, timPoolEntry{"Date", "2020-01", "2006-01", refValue{y: 2020, mo: 1, d: 1, prec: 1}})
	out = append(out, timPoolEntry{"Date", "2021-12", "2006-01", refValue{y: 2021, mo: 12, d: 1, prec: 1}})
	out = append(out, timPoolEntry{"Date", "2020", "2006", refValue{y: 2020, mo: 1, d: 1, prec: 0}})
	out = append(out, timPoolEntry{"Date", "2023", "2006", refValue{y: 2023, mo: 1, d: 1, prec: 0}})
	dtDates := [][3]int{{2020, 1, 31}, {2020, 2, 29}, {2021, 12, 31}}
	if !thoroughTier {
		dtDates = [][3]int{{2020, 1, 31}, {2021, 12, 31}}
	}
	for _, d := range dtDates {
		ymd := fmt.Sprintf("%04d-%02d-%02d", d[0], d[1], d[2])
		out = append(out, timPoolEntry{"DateTime", fmt.Sprintf("%04dT", d[0]), "2006T", refValue{y: d[0], mo: 1, d: 1, prec: 0}})
		out = append(out, timPoolEntry{"DateTime", fmt.Sprintf("%04d-%02dT", d[0], d[1]), "2006-01T", refValue{y: d[0], mo: d[1], d: 1, prec: 1}})
		out = append(out, timPoolEntry{"DateTime", ymd + "T", "2006-01-02T", refValue{y: d[0], mo: d[1], d: d[2], prec: 2}})
		zones := []string{"", "Z", "+05:30", "-11:00"}
		if !thoroughTier {
			zones = []string{"", "+05:30"}
		}
		for _, z := range zones {
			lz := ""
			if z != "" {
				lz = "Z07:00"
			}
			out = append(out, timPoolEntry{"DateTime", ymd + "T23" + z, "2006-01-02T15" + lz, refValue{y: d[0], mo: d[1], d: d[2], h: 23, prec: 3, zone: z}})
			out = append(out, timPoolEntry{"DateTime", ymd + "T23:30" + z, "2006-01-02T15:04" + lz, refValue{y: d[0], mo: d[1], d: d[2], h: 23, mi: 30, prec: 4, zone: z}})
			out = append(out, timPoolEntry{"DateTime", ymd + "T23:30:15" + z, "2006-01-02T15:04:05" + lz, refValue{y: d[0], mo: d[1], d: d[2], h: 23, mi: 30, s: 15, prec: 5, zone: z}})
			out = append(out, timPoolEntry{"DateTime", ymd + "T00:00:59.750" + z, "2006-01-02T15:04:05.000" + lz, refValue{y: d[0], mo: d[1], d: d[2], s: 59, ms: 750, prec: 5, zone: z}})
		}
	}
	out = append(out, timPoolEntry{"Time", "23", "15", refValue{h: 23, prec: 3, isTime: true}})
	out = append(out, timPoolEntry{"Time", "23:30", "15:04", refValue{h: 23, mi: 30, prec: 4, isTime: true}})
	out = append(out, timPoolEntry{"Time", "23:30:45", "15:04:05", refValue{h: 23, mi: 30, s: 45, prec: 5, isTime: true}})
	out = append(out, timPoolEntry{"Time", "00:00:00.500", "15:04:05.000", refValue{ms: 500, prec: 5, isTime: true}})
	return out
}

// constant package-level map[layout]precision tables of package system
func systemLayoutMaps(p *Program) (map[string]map[string]aval, error) {
	out := map[string]map[string]aval{}
	pk := p.ByPath[mod+"/fhirpath/system"]
	if pk == nil {
		return nil, fmt.Errorf("anchor: package system not loaded")
	}
	for _, name := range []string{"dateMap", "timeMap", "dateTimeMap"} {
		init, _ := findVarDecl(pk, name)
		cl, ok := init.(*ast.CompositeLit)
		if !ok {
			return nil, fmt.Errorf("anchor: system.%s is not a map literal", name)
		}
		tab := map[string]aval{}
		for _, el := range cl.Elts {
			kv, ok := el.(*ast.KeyValueExpr)
			if !ok {
				continue
			}
			k, ok1 := pk.TypesInfo.Types[kv.Key]
			v, ok2 := pk.TypesInfo.Types[kv.Value]
			if !ok1 || !ok2 || k.Value == nil || v.Value == nil {
				return nil, fmt.Errorf("anchor: system.%s has a non-constant entry", name)
			}
			tab[constant.StringVal(k.Value)] = aval{k: kConst, c: v.Value}
		}
		out["system."+name] = tab
	}
	return out, nil
}

// decimalModel: shopspring/decimal methods on a known rational (the quantity's value)
func decimalModel(c *ssa.CallCommon, args []aval) (aval, bool) {
	sc := c.StaticCallee()
	if sc == nil || !strings.Contains(sc.RelString(nil), "shopspring/decimal.Decimal).") || len(args) == 0 {
		return aval{}, false
	}
	if args[0].k != kConst || !hasNote(args[0], "decimal") {
		return aval{}, false
	}
	r := new(big.Rat)
	switch v := constant.Val(args[0].c).(type) {
	case int64:
		r.SetInt64(v)
	case *big.Int:
		r.SetInt(v)
	case *big.Rat:
		r.Set(v)
	case *big.Float:
		v.Rat(r)
	default:
		return aval{}, false
	}
	mk := func(x *big.Rat) aval {
		if x.IsInt() {
			return aval{k: kConst, c: constant.Make(new(big.Int).Set(x.Num())), notes: []string{"decimal"}}
		}
		return aval{k: kConst, c: constant.Make(new(big.Rat).Set(x)), notes: []string{"decimal"}}
	}
	switch sc.Name() {
	case "IntPart":
		q := new(big.Int).Quo(r.Num(), r.Denom())
		return aval{k: kConst, c: constant.Make(q)}, true
	case "Shift":
		if n, ok := constInt(args[1]); ok {
			f := new(big.Rat).SetInt(new(big.Int).Exp(big.NewInt(10), big.NewInt(absInt64(n)), nil))
			if n >= 0 {
				return mk(new(big.Rat).Mul(r, f)), true
			}
			return mk(new(big.Rat).Quo(r, f)), true
		}
	case "Round":
		if n, ok := constInt(args[1]); ok && n >= 0 {
			f := new(big.Rat).SetInt(new(big.Int).Exp(big.NewInt(10), big.NewInt(n), nil))
			x := new(big.Rat).Mul(r, f)
			half := big.NewRat(1, 2)
			if x.Sign() >= 0 {
				x.Add(x, half)
			} else {
				x.Sub(x, half)
			}
			q := new(big.Int).Quo(x.Num(), x.Denom())
			return mk(new(big.Rat).Quo(new(big.Rat).SetInt(q), f)), true
		}
	}
	return aval{}, false
}

func absInt64(n int64) int64 {
	if n < 0 {
		return -n
	}
	return n
}

func ruleTIMEVAL(p *Program) *RuleResult {
	r := newResult("TIM-EVAL")
	maps, err := systemLayoutMaps(p)
	if err != nil {
		return r.anchorFail(err)
	}
	fns := map[string]*ssa.Function{}
	for _, t := range dtTypes {
		for _, m := range []string{"Add", "Sub"} {
			fn, err := p.Method("fhirpath/system", t.name, m)
			if err != nil {
				return r.anchorFail(err)
			}
			fns[t.name+"."+m] = fn
		}
	}
	units := []string{"year", "month", "week", "day", "hour", "minute", "second", "millisecond", "months", "days"}
	amounts := []*big.Rat{big.NewRat(0, 1), big.NewRat(1, 1), big.NewRat(11, 1), big.NewRat(12, 1), big.NewRat(13, 1), big.NewRat(23, 1), big.NewRat(24, 1), big.NewRat(25, 1),
		big.NewRat(59, 1), big.NewRat(60, 1), big.NewRat(61, 1), big.NewRat(365, 1), big.NewRat(366, 1), big.NewRat(1000, 1), big.NewRat(3, 2), big.NewRat(-1, 1), big.NewRat(-13, 1),
		big.NewRat(29, 1), big.NewRat(30, 1), big.NewRat(31, 1), big.NewRat(359, 1), big.NewRat(360, 1), big.NewRat(364, 1), big.NewRat(729, 1), big.NewRat(730, 1), big.NewRat(-365, 1)}
	if !thoroughTier {
		amounts = []*big.Rat{big.NewRat(0, 1), big.NewRat(1, 1), big.NewRat(12, 1), big.NewRat(13, 1), big.NewRat(24, 1), big.NewRat(25, 1), big.NewRat(61, 1), big.NewRat(365, 1), big.NewRat(366, 1), big.NewRat(3, 2), big.NewRat(-1, 1),
			big.NewRat(29, 1), big.NewRat(30, 1), big.NewRat(364, 1), big.NewRat(729, 1)}
	}
	type cellKey struct{ fn, prec, unit string }
	badBy := map[cellKey]int{}
	okBy := map[cellKey]int{}
	firstBad := map[cellKey]string{}
	undec := map[cellKey]string{}
	for _, e := range timPool() {
		t, perr := time.Parse(e.layout, e.text)
		if perr != nil {
			return r.anchorFail(fmt.Errorf("pool: %q does not parse with layout %q", e.text, e.layout))
		}
		recv := aval{k: kStruct, elems: []aval{cTime(t), cStr(e.layout)}}
		for _, op := range []string{"Add", "Sub"} {
			fn := fns[e.typ+"."+op]
			sign := 1
			if op == "Sub" {
				sign = -1
			}
			for _, unit := range units {
				for _, amt := range amounts {
					r.count("evaluations", 1)
					var qv aval
					if amt.IsInt() {
						qv = aval{k: kConst, c: constant.Make(new(big.Int).Set(amt.Num())), notes: []string{"decimal"}}
					} else {
						qv = aval{k: kConst, c: constant.Make(new(big.Rat).Set(amt)), notes: []string{"decimal"}}
					}
					an := newAnalyzer()
					an.maxBlocks = 300
					an.maxDepth = 6
					merged := map[string]map[string]aval{}
					for k, v := range an.globalMaps {
						merged[k] = v
					}
					for k, v := range maps {
						merged[k] = v
					}
					an.globalMaps = merged
					an.callModel = decimalModel
					res := an.analyze(fn, []aval{recv, {k: kStruct, elems: []aval{qv, cStr(unit)}}})
					ck := cellKey{e.typ + "." + op, e.layout, strings.TrimSuffix(unit, "s")}
					want, inDomain := refAdd(e.v, amt, unit, sign)
					if !inDomain {
						continue
					}
					// the repository treats sub-day units on a Date and calendar units on a Time as unsupported: an error is acceptable there
					errAllowed := (e.typ == "Date" && unitRank[strings.TrimSuffix(unit, "s")] >= 3) || (e.typ == "Time" && unitRank[strings.TrimSuffix(unit, "s")] <= 2)
					j := res.joinedReturn()
					desc := fmt.Sprintf("@%s %s %s %s", e.text, map[int]string{1: "+", -1: "-"}[sign], amt.FloatString(1), unit)
					if len(res.hazards) > 0 {
						badBy[ck]++
						if firstBad[ck] == "" {
							firstBad[ck] = desc + " reaches a crash site: " + res.hazards[0].what
						}
						continue
					}
					if j.k == kTuple && len(j.tup) == 2 && j.tup[1].k == kNonNil {
						if errAllowed {
							okBy[ck]++
						} else {
							badBy[ck]++
							if firstBad[ck] == "" {
								firstBad[ck] = desc + " is an error; the calendar result is " + want.render(e.layout)
							}
						}
						continue
					}
					if j.k != kTuple || len(j.tup) != 2 || j.tup[1].k != kNil || j.tup[0].k != kStruct || len(j.tup[0].elems) != 2 || j.tup[0].elems[0].k != kTime {
						if undec[ck] == "" {
							undec[ck] = desc + " could not be evaluated: " + j.String()
						}
						continue
					}
					gotLayout, _ := constStr(j.tup[0].elems[1])
					got := j.tup[0].elems[0].tm.Format(gotLayout)
					if gotLayout != e.layout {
						badBy[ck]++
						if firstBad[ck] == "" {
							firstBad[ck] = fmt.Sprintf("%s has layout %q, the operand has %q", desc, gotLayout, e.layout)
						}
						continue
					}
					if errAllowed {
						// a value is fine too if it is the calendar result
					}
					if got != want.render(e.layout) {
						badBy[ck]++
						if firstBad[ck] == "" {
							firstBad[ck] = fmt.Sprintf("%s = %s, calendar arithmetic gives %s", desc, got, want.render(e.layout))
						}
						continue
					}
					okBy[ck]++
				}
			}
		}
	}
	keys := map[cellKey]bool{}
	for k := range okBy {
		keys[k] = true
	}
	for k := range badBy {
		keys[k] = true
	}
	for k := range undec {
		keys[k] = true
	}
	var ks []cellKey
	for k := range keys {
		ks = append(ks, k)
	}
	sortCellKeys := func(a, b cellKey) bool {
		if a.fn != b.fn {
			return a.fn < b.fn
		}
		if a.prec != b.prec {
			return a.prec < b.prec
		}
		return a.unit < b.unit
	}
	for i := range ks {
		for j := i + 1; j < len(ks); j++ {
			if sortCellKeys(ks[j], ks[i]) {
				ks[i], ks[j] = ks[j], ks[i]
			}
		}
	}
	for _, k := range ks {
		fn := fns[k.fn]
		key := fmt.Sprintf("system.%s|%s|%s", k.fn, k.prec, k.unit)
		switch {
		case undec[k] != "":
			r.undecided(key, undec[k], p.pos(fn.Pos()), "not foldable")
		case badBy[k] > 0:
			r.bad(key, fmt.Sprintf("%s on layout %q with unit %s: %d of %d pool cells differ from calendar arithmetic; first: %s", k.fn, k.prec, k.unit, badBy[k], badBy[k]+okBy[k], firstBad[k]), p.pos(fn.Pos()),
				"the sum must equal the reference calendar computation (month-end clamping, 1 year = 365 days / 1 month = 30 days for finer units, truncation to the value's precision, wrap around midnight)")
		default:
			r.ok(key, fmt.Sprintf("%s on layout %q with unit %s agrees with calendar arithmetic on %d pool cells", k.fn, k.prec, k.unit, okBy[k]), p.pos(fn.Pos()), "constant propagation with package time folded on known values, compared with the civil-day reference", true)
		}
	}
	r.floor("evaluations", 3000)
	return r
}

var _ = token.ADD
