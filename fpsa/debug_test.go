package main

import (
	"fmt"
	"os"
	"testing"

	"golang.org/x/tools/go/ssa"
)

func TestDebug(t *testing.T) {
	if os.Getenv("FPSA_DEBUG") == "" {
		t.Skip()
	}
	p, err := Load("amd64")
	if err != nil {
		t.Fatal(err)
	}
	fn, err := p.Method("fhirpath/system", "Date", "Less")
	if err != nil {
		t.Fatal(err)
	}
	for _, li := range naturalLoops(fn) {
		k, w := classifyLoop(li)
		fmt.Println(li.header.Index, li.header.Comment, len(li.body), k, w)
		for b := range li.body {
			fmt.Println("  body", b.Index, b.Comment)
			if ifi, ok := b.Instrs[len(b.Instrs)-1].(*ssa.If); ok {
				if bo, ok := ifi.Cond.(*ssa.BinOp); ok {
					ub, ok2 := smallUpperBound(bo.Y, 0)
					if c, ok := bo.Y.(*ssa.Call); ok {
						fmt.Printf("     callee %T %v\n", c.Common().Value, c.Common().Value)
						for _, a := range c.Common().Args {
							u, k := smallUpperBound(a, 1)
							fmt.Printf("     arg %T %v -> %d %v\n", a, a, u, k)
							if ct, ok := a.(*ssa.ChangeType); ok {
								u, k = smallUpperBound(ct.X, 2)
								fmt.Printf("       inner %T %v -> %d %v\n", ct.X, ct.X, u, k)
								if lk, ok := ct.X.(*ssa.Lookup); ok {
									fmt.Printf("       lk.X %T\n", lk.X)
									if ld, ok := lk.X.(*ssa.UnOp); ok {
										g := ld.X.(*ssa.Global)
										m, ok := globalMapMax(g)
										fmt.Println("        gmax", m, ok, g.Pkg.Func("init") != nil)
									}
								}
							}
						}
					}
					fmt.Println("   if", bo, "Y=", bo.Y, ub, ok2, isInduction(bo.X, li), isInduction(bo.Y, li))
				}
			}
		}
	}
}
