package main

import (
	"fmt"
	"go/types"
	"os"
	"testing"

	"golang.org/x/tools/go/ssa"
)

func TestDebug(t *testing.T) {
	if os.Getenv("FPSA_DEBUG") == "" {
		t.Skip()
	}
	p, err := Load("amd64")
	if err != nil {
		t.Fatal(err)
	}
	ie, _ := p.Method("fhirpath/internal/expr", "FieldExpression", "isEvaluable")
	dt, _ := p.typesPkg(dtPkgPath)
	hn := types.NewPointer(dt.Scope().Lookup("HumanName").Type())
	an := newAnalyzer()
	for _, b := range ie.Blocks {
		for _, ins := range b.Instrs {
			if ld, ok := ins.(*ssa.UnOp); ok {
				if fa, ok := ld.X.(*ssa.FieldAddr); ok {
					if fieldName(fa) == "FieldName" {
						an.pin[ld] = cStr("abatement")
					} else {
						an.pin[ld] = cBool(false)
					}
				}
			}
		}
	}
	an.callModel = stringLibModel
	res := an.analyze(ie, []aval{nonnil("e"), {k: kNonNil, dyn: hn}})
	for _, ri := range res.rets {
		fmt.Println("ret", p.instrPos(ri.instr), ri.vals)
	}
	fmt.Println(res.execBlock, res.hazards)
	for v, a := range res.env {
		fmt.Println(v.Name(), v, "=>", a)
	}
}
