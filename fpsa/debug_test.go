package main

import (
	"fmt"
	"os"
	"testing"
)

func TestDebug(t *testing.T) {
	if os.Getenv("FPSA_DEBUG") == "" {
		t.Skip()
	}
	p, err := Load("amd64")
	if err != nil {
		t.Fatal(err)
	}
	fn, err := p.Func("fhirpath/internal/funcs/impl", "Where")
	if err != nil {
		t.Fatal(err)
	}
	an := newAnalyzer()
	res := an.analyze(fn, []aval{nonnil("ctx"), sliceLen(1), sliceLen(0)})
	for _, ri := range res.rets {
		fmt.Println("ret", p.instrPos(ri.instr), ri.vals)
	}
	fmt.Println(res.execBlock, res.unknownIfs)
	for v, a := range res.env {
		fmt.Println(v.Name(), v, "=>", a)
	}
}
