package main

// Operand tagging: rules that need to fix the result of evaluating an operand
// (e.Left.Evaluate(...), args[0].Evaluate(...)) do not look for the call
// instruction in the entry function — a helper extraction would hide it — but
// hand the analysed function a node / argument slice whose Expression-typed
// fields and elements are *tagged* abstract values. The tags flow through
// field loads, parameters of inlined helpers, closures and phis; the call model
// answers every `Evaluate` invoke by the tag of its receiver.

import (
	"go/types"
	"strings"

	"golang.org/x/tools/go/ssa"
)

const operandTag = "operand:"

type operandEnv struct {
	results   map[string]aval // tag -> result of Evaluate ((collection, error) tuple)
	evaluated map[string]bool // tags whose Evaluate was reached in the last analysis
	untagged  int             // Evaluate invokes on an Expression whose tag is unknown (the analysis is imprecise there)
	next      func(c *ssa.CallCommon, args []aval) (aval, bool)
}

func newOperandEnv() *operandEnv {
	return &operandEnv{results: map[string]aval{}, evaluated: map[string]bool{}}
}

func operandValue(tag string) aval { return nonnil(operandTag + tag) }

func operandTagOf(v aval) string {
	for _, n := range v.notes {
		if strings.HasPrefix(n, operandTag) {
			return strings.TrimPrefix(n, operandTag)
		}
	}
	return ""
}

func (o *operandEnv) model() func(c *ssa.CallCommon, args []aval) (aval, bool) {
	return func(c *ssa.CallCommon, args []aval) (aval, bool) {
		if c.IsInvoke() && c.Method.Name() == "Evaluate" && len(args) > 0 {
			if operandTagOf(args[0]) == "" && strings.HasSuffix(typeShort(c.Value.Type()), "expr.Expression") {
				o.untagged++ // an operand reached through a loop index or another path the tags do not survive
			}
			if tag := operandTagOf(args[0]); tag != "" {
				o.evaluated[tag] = true
				if r, ok := o.results[tag]; ok {
					return r, true
				}
				return aval{k: kTuple, tup: []aval{top, top}}, true
			}
		}
		if o.next != nil {
			return o.next(c, args)
		}
		return aval{}, false
	}
}

// nodeValue builds the abstract value of an expression node of the given struct
// type: Expression-typed fields become tagged operands ("field:<Name>"), the
// fields listed in consts get those values, everything else is unknown.
func nodeValue(t types.Type, consts map[string]aval) aval {
	if pt, ok := t.(*types.Pointer); ok {
		t = pt.Elem()
	}
	st, ok := t.Underlying().(*types.Struct)
	if !ok {
		return top
	}
	v := aval{k: kStruct}
	for i := 0; i < st.NumFields(); i++ {
		f := st.Field(i)
		switch {
		case consts != nil && consts[f.Name()].k != kBot:
			v.elems = append(v.elems, consts[f.Name()])
		case namedName(f.Type()) == "Expression" && strings.HasSuffix(namedPkgPath(f.Type()), "/fhirpath/internal/expr"):
			v.elems = append(v.elems, operandValue("field:"+f.Name()))
		default:
			v.elems = append(v.elems, top)
		}
	}
	return v
}

// nodeReceiver: the receiver argument for a method of the node type (pointer or value receiver).
func nodeReceiver(fn *ssa.Function, consts map[string]aval) aval {
	rt := fn.Signature.Recv().Type()
	v := nodeValue(rt, consts)
	if _, ok := rt.(*types.Pointer); ok {
		return ptrTo(v)
	}
	return v
}

// argsValue: the variadic argument slice of a function implementation with n tagged arguments.
func argsValue(n int) aval {
	v := aval{k: kSlice, n: n, elems: []aval{}}
	for i := 0; i < n; i++ {
		v.elems = append(v.elems, operandValue("args["+itoa(i)+"]"))
	}
	return v
}

func itoa(i int) string {
	if i == 0 {
		return "0"
	}
	s := ""
	for i > 0 {
		s = string(rune('0'+i%10)) + s
		i /= 10
	}
	return s
}
