package main

// C17 — environment variables and custom functions.  OPT1 no option error is
// lost and nothing runs after one, OPT2 sentinels match conditions, OPT3
// predefined variables, OPT4 recursive type validation, OPT6 the reflective
// wrapper validates before calling, OPT7 variable lookup splices collections;
// OPT5 (= GLB2) insert-if-absent.

import (
	"fmt"
	"go/constant"
	"go/token"
	"go/types"
	"strings"

	"golang.org/x/tools/go/ssa"
)

func hasNote(v aval, want string) bool {
	for _, n := range v.notes {
		if strings.TrimPrefix(n, "wrap:") == want {
			return true
		}
	}
	return false
}

func ruleOPT1(p *Program) *RuleResult {
	r := newResult("OPT1")
	// every instantiation of opts.ApplyOptions
	var insts []*ssa.Function
	for fn := range p.AllFns {
		if o := fn.Origin(); o != nil && short(o) == "fhirpath/internal/opts.ApplyOptions" && len(fn.Blocks) > 0 {
			insts = append(insts, fn)
		}
	}
	if len(insts) < 2 {
		return r.anchorFail(fmt.Errorf("anchor: expected 2 instantiations of opts.ApplyOptions, found %d", len(insts)))
	}
	for _, fn := range insts {
		r.count("apply_instances", 1)
		key := short(fn)
		loops := naturalLoops(fn)
		var upd []*ssa.Call
		var join *ssa.Call
		for _, b := range fn.Blocks {
			for _, ins := range b.Instrs {
				if c, ok := ins.(*ssa.Call); ok {
					if c.Common().IsInvoke() && c.Common().Method.Name() == "updateConfig" {
						upd = append(upd, c)
					}
					if sc := c.Common().StaticCallee(); sc != nil && sc.RelString(nil) == "errors.Join" {
						join = c
					}
				}
			}
		}
		if len(loops) != 1 || len(upd) != 1 || join == nil {
			r.undecided(key+"|shape", "one loop, one updateConfig call and errors.Join expected", p.pos(fn.Pos()), "unsupported shape")
			continue
		}
		li := loops[0]
		// no exit from the loop other than the header's exit
		exits := 0
		for b := range li.body {
			for _, s := range b.Succs {
				if !li.body[s] {
					exits++
					if b != li.header {
						exits += 100
					}
				}
			}
			if _, isRet := b.Instrs[len(b.Instrs)-1].(*ssa.Return); isRet {
				exits += 100
			}
		}
		if exits == 1 {
			r.ok(key+"|all-options-applied", "the option loop has no early exit", p.instrPos(upd[0]), "every option is applied: the only loop exit is the range condition", true)
		} else {
			r.bad(key+"|all-options-applied", "the option loop can exit early", p.instrPos(upd[0]), "options after a failing one are not applied / their errors are not reported")
		}
		// the updateConfig result is appended to the slice that is joined, and the join is returned
		appended := false
		for _, ref := range *upd[0].Referrers() {
			if st, ok := ref.(*ssa.Store); ok {
				if ia, ok := st.Addr.(*ssa.IndexAddr); ok {
					if al, ok := ia.X.(*ssa.Alloc); ok {
						for _, r2 := range *al.Referrers() {
							if sl, ok := r2.(*ssa.Slice); ok {
								for _, r3 := range *sl.Referrers() {
									if c, ok := r3.(*ssa.Call); ok {
										if bi, ok := c.Common().Value.(*ssa.Builtin); ok && bi.Name() == "append" {
											appended = true
										}
									}
								}
							}
						}
					}
				}
			}
		}
		returned := false
		for _, b := range fn.Blocks {
			if ret, ok := b.Instrs[len(b.Instrs)-1].(*ssa.Return); ok && len(ret.Results) == 2 && ret.Results[1] == ssa.Value(join) {
				returned = true
			}
		}
		if appended && returned {
			r.ok(key+"|errors-joined", "every option's error is collected and errors.Join of them is returned", p.instrPos(join), "value flow updateConfig → append → errors.Join → return", true)
		} else {
			r.bad(key+"|errors-joined", fmt.Sprintf("option errors are lost (collected=%v, join returned=%v)", appended, returned), p.instrPos(join), "a failing option is silently ignored")
		}
	}
	// callers: nothing is evaluated / visited after a failing option
	type site struct {
		rel, recv, name string
		after           string // callee / method that must be guarded
	}
	for _, s := range []site{
		{"fhirpath", "Expression", "Evaluate", "Evaluate"},
		{"fhirpath/patch", "Expression", "evaluate", "Evaluate"},
		{"fhirpath/internal/compile", "", "PopulateConfig", ""},
		{"fhirpath", "", "Compile", "Visit"},
		{"fhirpath/patch", "", "Compile", "Visit"},
	} {
		var fn *ssa.Function
		var err error
		if s.recv != "" {
			fn, err = p.Method(s.rel, s.recv, s.name)
		} else {
			fn, err = p.Func(s.rel, s.name)
		}
		if err != nil {
			return r.anchorFail(err)
		}
		// the function is analysed with the option application answering "an option
		// failed": nothing may be evaluated or visited, and every return must carry an error
		r.count("option_callers", 1)
		key := short(fn) + "|options-error"
		applied := 0
		an := newAnalyzer()
		an.maxBlocks = 300
		an.fnModel = func(sc *ssa.Function, args []aval) (aval, bool) {
			nm := sc.Name()
			if o := sc.Origin(); o != nil {
				nm = o.Name()
			}
			if sc == fn || (nm != "ApplyOptions" && nm != "PopulateConfig") || !inRepoFn(sc) {
				return aval{}, false
			}
			applied++
			cfg := nonnil("cfg")
			if nm == "ApplyOptions" && len(args) > 0 {
				cfg = args[0]
			}
			return aval{k: kTuple, tup: []aval{cfg, nonnil("option-error")}}, true
		}
		res := an.analyze(fn, nil)
		if applied == 0 {
			r.bad(key, short(fn)+" does not apply its options through ApplyOptions/PopulateConfig", p.pos(fn.Pos()), "options are ignored")
			continue
		}
		var reached []string
		if s.after != "" {
			for _, co := range res.calls {
				switch {
				case co.callee != nil && co.callee.Name() == s.after:
					reached = append(reached, short(co.callee)+" at "+p.instrPos(co.site.(ssa.Instruction)))
				case co.callee == nil && strings.HasPrefix(co.name, "invoke ") && strings.HasSuffix(co.name, "."+s.after):
					reached = append(reached, co.name+" at "+p.instrPos(co.site.(ssa.Instruction)))
				}
			}
		}
		var okReturns []string
		for _, ri := range res.rets {
			last := ri.vals[len(ri.vals)-1]
			if last.k != kNonNil {
				okReturns = append(okReturns, fmt.Sprintf("return at %s with error %s", p.instrPos(ri.instr), last))
			}
		}
		switch {
		case res.nonconverged || len(res.rets) == 0:
			r.undecided(key, short(fn)+": analysis produced no return", p.pos(fn.Pos()), "not decided")
		case len(reached) == 0 && len(okReturns) == 0:
			r.ok(key, short(fn)+": with a failing option nothing is evaluated/visited and every return carries an error", p.pos(fn.Pos()), "SCCP with the option application answering an error", true)
		default:
			r.bad(key, short(fn)+": evaluation/visiting is reachable although an option failed", p.pos(fn.Pos()),
				"if any option fails the call must return that error without evaluating anything: "+strings.Join(append(reached, okReturns...), "; "))
		}
	}
	r.floor("apply_instances", 2)
	r.floor("option_callers", 5)
	return r
}

// valueNilGuarded: `at` is only reachable when v == nil.
func valueNilGuarded(fn *ssa.Function, v ssa.Value, at ssa.Instruction, succ ...*ssa.BasicBlock) bool {
	for _, b := range fn.Blocks {
		ifi, ok := b.Instrs[len(b.Instrs)-1].(*ssa.If)
		if !ok {
			continue
		}
		bo, ok := ifi.Cond.(*ssa.BinOp)
		if !ok || (bo.Op != token.NEQ && bo.Op != token.EQL) || bo.X != v {
			continue
		}
		if c, ok := bo.Y.(*ssa.Const); !ok || !c.IsNil() {
			continue
		}
		nilEdge := 1
		if bo.Op == token.EQL {
			nilEdge = 0
		}
		if domOrOnEdge(b, nilEdge, at, succ) {
			return true
		}
	}
	return false
}

func ruleOPT2(p *Program) *RuleResult {
	r := newResult("OPT2")
	st, err := systemTypes(p)
	if err != nil {
		return r.anchorFail(err)
	}
	// EnvVariable's callback
	ev, err := p.Func("fhirpath/evalopts", "EnvVariable")
	if err != nil {
		return r.anchorFail(err)
	}
	if len(ev.AnonFuncs) != 1 {
		return r.anchorFail(fmt.Errorf("anchor: EnvVariable has %d closures", len(ev.AnonFuncs)))
	}
	cb := ev.AnonFuncs[0]
	vtFn, _ := p.Func("fhirpath/evalopts", "validateType")
	var lookup *ssa.Lookup
	var mu *ssa.MapUpdate
	var vt *ssa.Call
	for _, b := range cb.Blocks {
		for _, ins := range b.Instrs {
			switch x := ins.(type) {
			case *ssa.Lookup:
				if x.CommaOk {
					lookup = x
				}
			case *ssa.MapUpdate:
				mu = x
			case *ssa.Call:
				if sc := x.Common().StaticCallee(); sc != nil && vtFn != nil && sc == vtFn {
					vt = x
				}
			}
		}
	}
	if lookup == nil || mu == nil || vt == nil {
		r.undecided("EnvVariable|shape", "lookup / update / validateType not found", p.pos(ev.Pos()), "unsupported shape")
	} else {
		var okv ssa.Value
		for _, ref := range *lookup.Referrers() {
			if ex, ok := ref.(*ssa.Extract); ok && ex.Index == 1 {
				okv = ex
			}
		}
		for _, c := range []struct {
			name            string
			exists, invalid bool
			wantErr         string
			wantInsert      bool
		}{
			{"fresh name, valid value", false, false, "", true},
			{"existing name", true, false, "evalopts.ErrExistingConstant", false},
			{"invalid value", false, true, "evalopts.ErrUnsupportedType", false},
			{"existing name and invalid value", true, true, "evalopts.ErrUnsupportedType", false},
		} {
			r.count("hypotheses", 1)
			an := newAnalyzer()
			an.pin[okv] = cBool(c.exists)
			if c.invalid {
				an.pin[vt] = nonnil("wrap:evalopts.ErrUnsupportedType")
			} else {
				an.pin[vt] = aval{k: kNil}
			}
			res := an.analyze(cb, nil)
			key := "EnvVariable|" + c.name
			gotErr := "?"
			if len(res.rets) == 1 {
				e := res.rets[0].vals[0]
				switch {
				case e.k == kNil:
					gotErr = ""
				case e.k == kNonNil && len(e.notes) == 1:
					gotErr = strings.TrimPrefix(e.notes[0], "wrap:")
				}
			}
			inserted := res.executable(mu)
			desc := fmt.Sprintf("%s → error %q, inserted=%v", c.name, gotErr, inserted)
			if gotErr == c.wantErr && inserted == c.wantInsert {
				r.ok(key, desc, p.pos(cb.Pos()), "SCCP with the lookup result and the validation result pinned", true)
			} else {
				r.bad(key, desc+fmt.Sprintf(" (want error %q, inserted=%v)", c.wantErr, c.wantInsert), p.pos(cb.Pos()), "duplicate or predefined names must fail with ErrExistingConstant, invalid values with ErrUnsupportedType, and nothing may be inserted in either case")
			}
		}
		// validation happens before insertion and on the supplied value
		if dominatesInstr(vt, mu) && sameAccess(mu.Value, vt.Common().Args[0]) {
			r.ok("EnvVariable|validated-value-inserted", "the inserted value is the validated value", p.instrPos(mu), "same SSA value; validation dominates the update", true)
		} else {
			r.bad("EnvVariable|validated-value-inserted", "the inserted value is not the validated one / not validated first", p.instrPos(mu), "a variable evaluates to something other than the supplied value")
		}
	}
	// validateType
	vfn, err := p.Func("fhirpath/evalopts", "validateType")
	if err != nil {
		return r.anchorFail(err)
	}
	dt, err := p.typesPkg(dtPkgPath)
	if err != nil {
		return r.anchorFail(err)
	}
	hn := types.NewPointer(dt.Scope().Lookup("HumanName").Type())
	for _, c := range []struct {
		name string
		v    aval
		want string
	}{
		{"System value", st.strItem("x"), ""},
		{"FHIR element", aval{k: kNonNil, dyn: hn}, ""},
		{"Go int", aval{k: kConst, c: constant.MakeInt64(3), dyn: types.Typ[types.Int]}, "evalopts.ErrUnsupportedType"},
		{"Go string", aval{k: kConst, c: constant.MakeString("s"), dyn: types.Typ[types.String]}, "evalopts.ErrUnsupportedType"},
	} {
		r.count("hypotheses", 1)
		an := newAnalyzer()
		an.maxBlocks = 200
		res := an.analyze(vfn, []aval{c.v})
		got := "?"
		if len(res.rets) == 1 {
			e := res.rets[0].vals[0]
			switch {
			case e.k == kNil:
				got = ""
			case e.k == kNonNil && len(e.notes) == 1:
				got = strings.TrimPrefix(e.notes[0], "wrap:")
			}
		}
		key := "validateType|" + c.name
		if got == c.want {
			r.ok(key, fmt.Sprintf("validateType(%s) → %q", c.name, got), p.pos(vfn.Pos()), "SCCP with the value's dynamic type pinned", true)
		} else {
			r.bad(key, fmt.Sprintf("validateType(%s) → %q (want %q)", c.name, got, c.want), p.pos(vfn.Pos()), "only System values, FHIR elements/resources and collections of those are supported; anything else must fail with ErrUnsupportedType")
		}
	}
	// OPT4: collections are validated element-wise and the errors joined
	collT := p.SSAPkg[mod+"/fhirpath/system"].Type("Collection").Type()
	{
		recursive, joined := false, false
		for _, b := range vfn.Blocks {
			for _, ins := range b.Instrs {
				if c, ok := ins.(*ssa.Call); ok {
					if c.Common().StaticCallee() == vfn {
						recursive = true
						for _, ref := range *c.Referrers() {
							if st2, ok := ref.(*ssa.Store); ok {
								_ = st2
								joined = true
							}
							if c2, ok := ref.(*ssa.Call); ok {
								if sc := c2.Common().StaticCallee(); sc != nil && sc.RelString(nil) == "errors.Join" {
									joined = true
								}
							}
						}
					}
				}
			}
		}
		// a collection with a bad element fails
		an := newAnalyzer()
		an.maxBlocks = 200
		an.allowRecursion = true
		an.maxDepth = 3
		bad := aval{k: kConst, c: constant.MakeInt64(3), dyn: types.Typ[types.Int]}
		c := aval{k: kSlice, n: 1, elems: []aval{bad}, dyn: collT}
		res := an.analyze(vfn, []aval{c})
		mayFail := false
		for _, ri := range res.rets {
			if ri.vals[0].k != kNil {
				mayFail = true
			}
		}
		if recursive && joined && mayFail {
			r.ok("validateType|collections", "collections are validated element by element and the errors joined", p.pos(vfn.Pos()), "recursive call in the Collection arm feeding errors.Join; SCCP: a collection holding a Go int does not validate to nil", true)
		} else {
			r.bad("validateType|collections", fmt.Sprintf("nested values of a collection are not validated (recursive=%v, joined=%v, bad element can fail=%v)", recursive, joined, mayFail), p.pos(vfn.Pos()), "an unsupported value nested in a collection must be rejected")
		}
	}
	// unknown variable
	ece, err := p.Method("fhirpath/internal/expr", "ExternalConstantExpression", "Evaluate")
	if err != nil {
		return r.anchorFail(err)
	}
	// the variable lookup (in Evaluate or a helper of the package it delegates to)
	var lk *ssa.Lookup
	for _, f := range withPackageCallees(ece, 2) {
		for _, b := range f.Blocks {
			for _, ins := range b.Instrs {
				if x, ok := ins.(*ssa.Lookup); ok && x.CommaOk && lk == nil {
					lk = x
				}
			}
		}
	}
	if lk == nil {
		r.undecided("ExternalConstantExpression|shape", "comma-ok lookup not found", p.pos(ece.Pos()), "unsupported shape")
	} else {
		item := st.strItem("v")
		for _, c := range []struct {
			name string
			pin  aval
			want string
		}{
			{"unknown variable", aval{k: kTuple, tup: []aval{{k: kNil}, cBool(false)}}, "err:expr.ErrConstantNotFound"},
			{"single value", aval{k: kTuple, tup: []aval{item, cBool(true)}}, "[v]"},
			{"collection value", aval{k: kTuple, tup: []aval{{k: kSlice, n: 2, elems: []aval{st.strItem("a"), st.strItem("b")}, dyn: collT}, cBool(true)}}, "[a b]"},
			{"empty collection", aval{k: kTuple, tup: []aval{{k: kSlice, n: 0, elems: []aval{}, dyn: collT}, cBool(true)}}, "[]"},
		} {
			r.count("hypotheses", 1)
			an := newAnalyzer()
			an.pin[lk] = c.pin
			res := an.analyze(ece, []aval{nonnil("e"), nonnil("ctx"), top})
			got := "?"
			if len(res.rets) == 1 && len(res.hazards) == 0 {
				ri := res.rets[0]
				if ri.vals[1].k == kNonNil && len(ri.vals[1].notes) == 1 {
					got = "err:" + strings.TrimPrefix(ri.vals[1].notes[0], "wrap:")
				} else if ri.vals[1].k == kNil && ri.vals[0].k == kSlice && ri.vals[0].elems != nil {
					var parts []string
					for _, e := range ri.vals[0].elems {
						if e.k == kConst {
							parts = append(parts, constant.StringVal(e.c))
						} else {
							parts = append(parts, "?")
						}
					}
					got = "[" + strings.Join(parts, " ") + "]"
				}
			}
			key := "ExternalConstantExpression|" + c.name
			if got == c.want {
				r.ok(key, fmt.Sprintf("%%v with %s → %s", c.name, got), p.pos(ece.Pos()), "SCCP with the map lookup pinned", true)
			} else {
				r.bad(key, fmt.Sprintf("%%v with %s → %s (want %s)", c.name, got, c.want), p.pos(ece.Pos()), "an unknown variable is an error; a collection value is spliced, any other value is a singleton")
			}
		}
	}
	r.floor("hypotheses", 12)
	return r
}

func ruleOPT3(p *Program) *RuleResult {
	r := newResult("OPT3")
	ic, err := p.Func("fhirpath/internal/expr", "InitializeContext")
	if err != nil {
		return r.anchorFail(err)
	}
	seeds := map[string]ssa.Value{}
	for _, f := range withPackageCallees(ic, 2) {
		for _, b := range f.Blocks {
			for _, ins := range b.Instrs {
				if mu, ok := ins.(*ssa.MapUpdate); ok {
					if k, ok := constString(mu.Key); ok {
						seeds[k] = mu.Value
					}
				}
			}
		}
	}
	r.count("seeds", len(seeds))
	// (a helper's parameter stands for the argument at its single call site)
	if v, ok := seeds["context"]; ok && resolveParam(stripIface(v)) == ssa.Value(ic.Params[0]) {
		r.ok("InitializeContext|context", "%context is the input collection", p.pos(ic.Pos()), "the map value is the function's parameter", true)
	} else {
		r.bad("InitializeContext|context", "%context is not seeded with the input collection", p.pos(ic.Pos()), "%context must be the input collection")
	}
	okU := false
	if v, ok := seeds["ucum"]; ok {
		if mi, ok := v.(*ssa.MakeInterface); ok {
			if s, ok := constString(stripConv(mi.X)); ok && s == "http://unitsofmeasure.org" && strings.HasSuffix(typeShort(mi.X.Type()), "system.String") {
				okU = true
			}
		}
	}
	if okU {
		r.ok("InitializeContext|ucum", "%ucum is System.String 'http://unitsofmeasure.org'", p.pos(ic.Pos()), "constant", true)
	} else {
		r.bad("InitializeContext|ucum", "%ucum is not the UCUM URL as a System String", p.pos(ic.Pos()), "%ucum must be the UCUM URL")
	}
	if len(seeds) != 2 {
		r.note("predefined variables: %d (expected context, ucum)", len(seeds))
	}
	r.floor("seeds", 2)
	return r
}

// OPT6: the reflective wrapper validates arity, singleton-ness and types before rv.Call.
func ruleOPT6(p *Program) *RuleResult {
	r := newResult("OPT6")
	tf, err := p.Func("fhirpath/internal/funcs", "ToFunction")
	if err != nil {
		return r.anchorFail(err)
	}
	if len(tf.AnonFuncs) != 1 {
		return r.anchorFail(fmt.Errorf("anchor: ToFunction has %d closures", len(tf.AnonFuncs)))
	}
	cl := tf.AnonFuncs[0]
	// SCCP: arity mismatch → ErrWrongArity before anything; argument forms. The
	// argument evaluation (Expression.Evaluate on the tagged argument), the
	// assignability test and the reflected call are answered by models, wherever
	// in the closure or its helpers they are made.
	type tc struct {
		name     string
		nargs    int
		arity    int64
		argRes   aval
		assign   aval
		wantCall bool
		wantErr  string
	}
	item := nonnil("ARG")
	shapeOK := false
	for _, c := range []tc{
		{"arity mismatch", 1, 2, okTuple(coll(item)), cBool(true), false, "impl.ErrWrongArity"},
		{"argument evaluation fails", 1, 1, errTuple(), cBool(true), false, "operand-error"},
		{"argument is empty", 1, 1, okTuple(coll()), cBool(true), false, "impl.ErrInvalidReturnType"},
		{"argument has two items", 1, 1, okTuple(coll(item, item)), cBool(true), false, "impl.ErrInvalidReturnType"},
		{"argument of the wrong type", 1, 1, okTuple(coll(item)), cBool(false), false, "impl.ErrInvalidReturnType"},
		{"well-typed call", 1, 1, okTuple(coll(item)), cBool(true), true, ""},
		{"zero-argument function", 0, 0, okTuple(coll(item)), cBool(true), true, ""},
	} {
		r.count("hypotheses", 1)
		an := newAnalyzer()
		an.maxBlocks = 200
		evaluated, assignTests, called := 0, 0, false
		an.callModel = func(cc *ssa.CallCommon, args []aval) (aval, bool) {
			if !cc.IsInvoke() {
				return aval{}, false
			}
			switch cc.Method.Name() {
			case "Evaluate":
				if len(args) > 0 && operandTagOf(args[0]) != "" {
					evaluated++
					return c.argRes, true
				}
			case "AssignableTo":
				assignTests++
				return c.assign, true
			}
			return aval{}, false
		}
		an.fnModel = func(sc *ssa.Function, args []aval) (aval, bool) {
			if sc.RelString(nil) == "(reflect.Value).Call" {
				called = true
				return aval{k: kSlice, n: 2, elems: []aval{top, top}}, true
			}
			return aval{}, false
		}
		// free variables: the arity (a value or a cell) and, where captured, the
		// parameter type table of matching length; everything else unknown
		free := make([]aval, len(cl.FreeVars))
		for i, fv := range cl.FreeVars {
			free[i] = top
			t := fv.Type()
			isPtr := false
			if pt, ok := t.(*types.Pointer); ok {
				t, isPtr = pt.Elem(), true
			}
			var v aval
			switch u := t.Underlying().(type) {
			case *types.Basic:
				if u.Info()&types.IsInteger != 0 {
					v = cInt(c.arity)
				}
			case *types.Slice:
				if typeShort(u.Elem()) == "reflect.Type" {
					v = sliceLen(int(c.arity))
				}
			}
			if v.k == kBot {
				continue
			}
			if isPtr {
				free[i] = aval{k: kNonNil, ptrOf: &v}
			} else {
				free[i] = v
			}
		}
		res := an.run(cl, []aval{nonnil("ctx"), sliceLen(1), argsValue(c.nargs)}, free, 0)
		if evaluated > 0 || assignTests > 0 || called {
			shapeOK = true
		}
		// decide by the error returns
		var errs []string
		for _, ri := range res.rets {
			e := ri.vals[1]
			if e.k == kNonNil {
				for _, n := range e.notes {
					errs = append(errs, strings.TrimPrefix(n, "wrap:"))
				}
			}
		}
		key := "ToFunction$1|" + c.name
		desc := fmt.Sprintf("%s: function called=%v, errors=%v", c.name, called, errs)
		ok := true
		if c.wantErr != "" {
			found := false
			for _, e := range errs {
				if e == c.wantErr {
					found = true
				}
			}
			ok = found
			if c.name == "arity mismatch" && called {
				ok = false
			}
		} else {
			ok = called
			for _, e := range errs {
				if strings.HasPrefix(e, "impl.Err") {
					ok = false
				}
			}
		}
		if ok {
			r.ok(key, desc, p.pos(cl.Pos()), "SCCP with the argument evaluation and the assignability test answered by models", true)
		} else {
			r.bad(key, desc, p.pos(cl.Pos()), "the wrapper must reject a wrong argument count, a failing/empty/multi-item/ill-typed argument before calling the user function")
		}
	}
	if !shapeOK {
		r.undecided("ToFunction$1|shape", "rv.Call / argument Evaluate / AssignableTo not observed", p.pos(cl.Pos()), "unsupported shape")
		return r
	}
	// the value handed to the function is the evaluated item itself, and slot 0 is the input collection
	// (structural): reflect.ValueOf(input) is the first element of the argument slice
	first := false
	for _, b := range cl.Blocks {
		for _, ins := range b.Instrs {
			if c, ok := ins.(*ssa.Call); ok {
				if sc := c.Common().StaticCallee(); sc != nil && sc.RelString(nil) == "reflect.ValueOf" {
					if mi, ok := c.Common().Args[0].(*ssa.MakeInterface); ok && mi.X == ssa.Value(cl.Params[1]) {
						first = true
					}
				}
			}
		}
	}
	if first {
		r.ok("ToFunction$1|input-first", "the current input collection is passed as the first argument", p.pos(cl.Pos()), "reflect.ValueOf(input)", false)
	} else {
		r.bad("ToFunction$1|input-first", "the input collection is not passed to the user function", p.pos(cl.Pos()), "custom functions are invoked with the current input collection")
	}
	// validateFunc: kind, first parameter, results
	vf, err := p.Func("fhirpath/internal/funcs", "validateFunc")
	if err != nil {
		return r.anchorFail(err)
	}
	want := map[string]bool{"errNotFunc": false, "errMissingArgs": false, "errInvalidParams": false, "errInvalidReturn": false}
	for _, b := range vf.Blocks {
		for _, ins := range b.Instrs {
			if ld, ok := ins.(*ssa.UnOp); ok {
				if g, ok := ld.X.(*ssa.Global); ok {
					if _, w := want[g.Name()]; w {
						want[g.Name()] = true
					}
				}
			}
		}
	}
	for n, seen := range want {
		if seen {
			r.ok("validateFunc|"+n, "validateFunc can report "+n, p.pos(vf.Pos()), "sentinel is produced", false)
		} else {
			r.bad("validateFunc|"+n, "validateFunc never reports "+n, p.pos(vf.Pos()), "a bad function signature is accepted at Compile")
		}
	}
	r.floor("hypotheses", 7)
	return r
}
