package main

// C01 (part c) — PAN5 nil interface arguments of the patch API, PAN6 no nil
// node in the expression tree (operator exhaustiveness), PAN7 visitor
// completeness and result-type agreement.

import (
	"go/token"
	"fmt"
	"go/types"
	"sort"
	"strings"

	"golang.org/x/tools/go/ssa"
)

// ---------- PAN5 ----------

func rulePAN5(p *Program) *RuleResult {
	r := newResult("PAN5")
	methods := p.exportedMethods("fhirpath/patch", "Expression")
	sort.Slice(methods, func(i, j int) bool { return methods[i].Name() < methods[j].Name() })
	var fns []*ssa.Function
	fns = append(fns, methods...)
	for _, n := range []string{"Add", "Insert", "Delete", "Replace", "Move"} {
		f, err := p.Func("fhirpath/patch", n)
		if err != nil {
			return r.anchorFail(err)
		}
		fns = append(fns, f)
	}
	compile, err := p.Func("fhirpath/patch", "Compile")
	if err != nil {
		return r.anchorFail(err)
	}
	for _, fn := range fns {
		if fn.Name() == "String" {
			continue
		}
		for pi, prm := range fn.Params {
			if pi == 0 && fn.Signature.Recv() != nil {
				continue
			}
			if _, isIface := prm.Type().Underlying().(*types.Interface); !isIface {
				continue
			}
			tn := typeShort(prm.Type())
			if !strings.HasSuffix(tn, "fhir.Resource") && !strings.HasSuffix(tn, "fhir.Base") {
				continue
			}
			r.count("nil_hypotheses", 1)
			an := newAnalyzer()
			an.maxBlocks = 250
			an.maxDepth = 3
			an.pin[prm] = aval{k: kNil}
			// the package-level wrappers compile first: assume compilation succeeded
			for _, b := range fn.Blocks {
				for _, ins := range b.Instrs {
					if c, ok := ins.(*ssa.Call); ok && c.Common().StaticCallee() == compile {
						an.pin[c] = okTuple(nonnil("expr"))
					}
				}
			}
			res := an.analyze(fn, nil)
			key := short(fn) + "|" + prm.Name() + "=nil"
			desc := fmt.Sprintf("%s with %s == nil", short(fn), prm.Name())
			var problems []string
			for _, h := range res.hazards {
				problems = append(problems, "crash site executable: "+h.what+" at "+p.instrPos(h.leaf))
			}
			if len(res.rets) == 0 && len(res.hazards) == 0 {
				problems = append(problems, "no executable return")
			}
			for _, ri := range res.rets {
				if len(ri.vals) != 1 || ri.vals[0].k != kNonNil {
					problems = append(problems, fmt.Sprintf("returns %v (not an error) at %s", ri.vals, p.instrPos(ri.instr)))
				}
			}
			if len(problems) == 0 {
				r.ok(key, desc+" → error", p.pos(fn.Pos()), "SCCP with the argument pinned to nil: every executable return is a non-nil error and no nil method call is executable", true)
			} else {
				r.bad(key, desc, p.pos(fn.Pos()), strings.Join(problems, "; "))
			}
		}
	}
	r.floor("nil_hypotheses", 6)
	return r
}

// ---------- PAN6 ----------

// visitorMethods: the Visit* methods declared on *FHIRPathVisitor in package parser.
func visitorMethods(p *Program) (map[string]*ssa.Function, error) {
	sp, err := p.Pkg("fhirpath/internal/parser")
	if err != nil {
		return nil, err
	}
	t := sp.Type("FHIRPathVisitor")
	if t == nil {
		return nil, fmt.Errorf("anchor: parser.FHIRPathVisitor not found")
	}
	out := map[string]*ssa.Function{}
	ms := p.Prog.MethodSets.MethodSet(types.NewPointer(t.Type()))
	for i := 0; i < ms.Len(); i++ {
		sel := ms.At(i)
		if !strings.HasPrefix(sel.Obj().Name(), "Visit") {
			continue
		}
		f := p.Prog.MethodValue(sel)
		if f == nil {
			continue
		}
		out[sel.Obj().Name()] = f
	}
	return out, nil
}

func rulePAN6(p *Program) *RuleResult {
	r := newResult("PAN6")
	g, err := readG4(p)
	if err != nil {
		return r.anchorFail(err)
	}
	vm, err := visitorMethods(p)
	if err != nil {
		return r.anchorFail(err)
	}
	env, err := newVisitorEnv(p)
	if err != nil {
		return r.anchorFail(err)
	}
	var names []string
	for n := range vm {
		names = append(names, n)
	}
	sort.Strings(names)
	for _, name := range names {
		fn := vm[name]
		if !strings.HasSuffix(fnPkgPath(fn), "/fhirpath/internal/parser") || len(fn.Blocks) == 0 {
			continue // promoted from the generated base visitor: PAN7
		}
		// does the method hand a node back at all, and does it read an operator token?
		probe := env.run(fn, "", false)
		handsNode := false
		for _, ret := range probe.rets {
			if ret.isVR {
				handsNode = true
			}
		}
		if !handsNode {
			continue
		}
		label := strings.TrimPrefix(name, "Visit")
		alt := g.altByLabel("expression", label)
		var tokens []string
		if alt != nil {
			tokens = alt.OpTokens
		}
		hyps := []string{""}
		if probe.tokReads > 0 && len(tokens) > 0 {
			hyps = tokens
		} else if probe.tokReads > 0 {
			r.undecided(name+"|tokens", name+" reads an operator token but the grammar alternative has none", p.pos(fn.Pos()), "grammar/visitor mismatch")
			continue
		}
		// stores of possibly-nil values into node fields, in the method and the package functions it calls
		nilStores := mayNilNodeStores(p, fn)
		for _, tok := range hyps {
			r.count("hypotheses", 1)
			vr := probe
			if tok != "" {
				vr = env.run(fn, tok, true)
			}
			key := name + "|op=" + tok
			desc := name
			if tok != "" {
				desc += fmt.Sprintf(" with operator %q", tok)
			}
			var problems []string
			var checkNode func(node aval, where string, depth int)
			checkNode = func(node aval, where string, depth int) {
				if depth > 3 {
					return
				}
				if child, _ := visitedTag(node); child != "" {
					return // the Result of a sub-visit whose Error was tested: non-nil by induction over this rule
				}
				if node.k != kNonNil {
					problems = append(problems, fmt.Sprintf("the node handed to the tree may be nil (%s) at %s", node, where))
					return
				}
				if node.ptrOf == nil || node.ptrOf.k != kStruct || node.dyn == nil {
					return
				}
				pt, ok := node.dyn.(*types.Pointer)
				if !ok {
					return
				}
				st, ok := pt.Elem().Underlying().(*types.Struct)
				if !ok {
					return
				}
				for i := 0; i < st.NumFields() && i < len(node.ptrOf.elems); i++ {
					f := st.Field(i)
					v := node.ptrOf.elems[i]
					switch f.Type().Underlying().(type) {
					case *types.Interface, *types.Signature:
						switch {
						case v.k == kNil && fieldNilTested(p, pt, f.Name()):
							// the node's own Evaluate tests the field before using it: nil is a legal state
						case v.k == kNil:
							problems = append(problems, fmt.Sprintf("field %s of %s is nil at %s", f.Name(), typeShort(node.dyn), where))
						case v.k == kTop && nilStores[typeShort(node.dyn)+"."+f.Name()] != "":
							problems = append(problems, fmt.Sprintf("field %s of %s may be the nil zero value at %s", f.Name(), typeShort(node.dyn), nilStores[typeShort(node.dyn)+"."+f.Name()]))
						case v.k != kNonNil && v.k != kTop:
							problems = append(problems, fmt.Sprintf("field %s of %s is %s", f.Name(), typeShort(node.dyn), v))
						case v.k == kNonNil && v.ptrOf != nil:
							checkNode(v, where, depth+1)
						}
					case *types.Slice:
						if v.k == kSlice {
							for _, e := range v.elems {
								if e.k == kNonNil && e.ptrOf != nil {
									checkNode(e, where, depth+1)
								} else if e.k == kNil {
									problems = append(problems, fmt.Sprintf("an element of %s of %s is nil at %s", f.Name(), typeShort(node.dyn), where))
								}
							}
						}
					}
				}
			}
			for _, ret := range vr.rets {
				if !ret.isVR || ret.err.k != kNil {
					continue
				}
				checkNode(ret.node, p.instrPos(ret.at), 0)
			}
			if len(vr.rets) == 0 {
				problems = append(problems, "no executable return")
			}
			if len(problems) == 0 {
				r.ok(key, desc+" → error result or a node with non-nil parts", p.pos(fn.Pos()), "SCCP with the operator token pinned (tokens taken from the grammar alternative); the node is read off the returned VisitResult", true)
			} else {
				r.bad(key, desc, p.pos(fn.Pos()), strings.Join(problems, "; "))
			}
		}
	}
	r.floor("hypotheses", 20)
	return r
}

// fieldNilTested: the Evaluate method of the node type compares the field with nil.
func fieldNilTested(p *Program, pt *types.Pointer, field string) bool {
	named, ok := pt.Elem().(*types.Named)
	if !ok {
		return false
	}
	ms := p.Prog.MethodSets.MethodSet(pt)
	for i := 0; i < ms.Len(); i++ {
		if ms.At(i).Obj().Name() != "Evaluate" {
			continue
		}
		f := p.Prog.MethodValue(ms.At(i))
		if f == nil {
			return false
		}
		for _, b := range f.Blocks {
			for _, ins := range b.Instrs {
				bo, ok := ins.(*ssa.BinOp)
				if !ok || (bo.Op != token.EQL && bo.Op != token.NEQ) {
					continue
				}
				c, ok := bo.Y.(*ssa.Const)
				if !ok || !c.IsNil() {
					continue
				}
				if ld, ok := bo.X.(*ssa.UnOp); ok {
					if fa, ok := ld.X.(*ssa.FieldAddr); ok && fieldName(fa) == field && len(f.Params) > 0 && fa.X == ssa.Value(f.Params[0]) {
						return true
					}
				}
			}
		}
	}
	_ = named
	return false
}

// mayNilNodeStores: "*expr.T.Field" -> position, for stores of a value that may
// be the nil constant into an interface / func typed field of an expr node, in
// fn and the functions of its package it calls.
func mayNilNodeStores(p *Program, fn *ssa.Function) map[string]string {
	out := map[string]string{}
	seen := map[*ssa.Function]bool{}
	var walk func(f *ssa.Function, depth int)
	walk = func(f *ssa.Function, depth int) {
		if seen[f] || depth > 5 {
			return
		}
		seen[f] = true
		for _, b := range f.Blocks {
			for _, ins := range b.Instrs {
				if c, ok := ins.(ssa.CallInstruction); ok {
					if sc := c.Common().StaticCallee(); sc != nil && sc.Pkg == fn.Pkg && sc.Pkg != nil {
						walk(sc, depth+1)
					}
				}
				st, ok := ins.(*ssa.Store)
				if !ok {
					continue
				}
				fa, ok := st.Addr.(*ssa.FieldAddr)
				if !ok || !strings.Contains(typeShort(fa.X.Type()), "expr.") {
					continue
				}
				switch st.Val.Type().Underlying().(type) {
				case *types.Interface, *types.Signature:
					if mayBeNilConst(st.Val, 0) {
						out[typeShort(fa.X.Type())+"."+fieldName(fa)] = p.instrPos(st)
					}
				}
			}
		}
	}
	walk(fn, 0)
	return out
}

// ---------- PAN7 ----------

// acceptDispatch: for a generated context type, the visitor method its
// Accept calls.
func acceptDispatch(p *Program, ctxT types.Type) string {
	ms := p.Prog.MethodSets.MethodSet(ctxT)
	for i := 0; i < ms.Len(); i++ {
		if ms.At(i).Obj().Name() != "Accept" {
			continue
		}
		f := p.Prog.MethodValue(ms.At(i))
		if f == nil {
			return ""
		}
		for _, b := range f.Blocks {
			for _, ins := range b.Instrs {
				if c, ok := ins.(*ssa.Call); ok && c.Common().IsInvoke() && strings.HasPrefix(c.Common().Method.Name(), "Visit") && c.Common().Method.Name() != "VisitChildren" {
					return c.Common().Method.Name()
				}
			}
		}
	}
	return ""
}

func rulePAN7(p *Program) *RuleResult {
	r := newResult("PAN7")
	gp, err := p.Pkg("fhirpath/internal/grammar")
	if err != nil {
		return r.anchorFail(err)
	}
	vi := gp.Type("fhirpathVisitor")
	if vi == nil {
		return r.anchorFail(fmt.Errorf("anchor: grammar.fhirpathVisitor not found"))
	}
	iface, ok := vi.Type().Underlying().(*types.Interface)
	if !ok {
		return r.anchorFail(fmt.Errorf("anchor: grammar.fhirpathVisitor is not an interface"))
	}
	vm, err := visitorMethods(p)
	if err != nil {
		return r.anchorFail(err)
	}
	// (1) completeness: every generated Visit method is overridden in package parser
	for i := 0; i < iface.NumMethods(); i++ {
		m := iface.Method(i)
		if !strings.HasPrefix(m.Name(), "Visit") || m.Name() == "Visit" || m.Name() == "VisitChildren" || m.Name() == "VisitTerminal" || m.Name() == "VisitErrorNode" {
			continue
		}
		r.count("visitor_methods", 1)
		f := vm[m.Name()]
		if f != nil && strings.HasSuffix(fnPkgPath(f), "/fhirpath/internal/parser") && len(f.Blocks) > 0 && f.Synthetic == "" {
			r.ok("override|"+m.Name(), m.Name()+" is overridden by *FHIRPathVisitor", p.pos(f.Pos()), "method resolves to a declaration in package parser", false)
		} else {
			r.bad("override|"+m.Name(), m.Name()+" is not overridden: the embedded base visitor's default (returns nil via VisitChildren) would be used", "fhirpath/internal/parser/visitor.go",
				"a grammar alternative without an override yields a nil interface that the callers assert to *VisitResult")
		}
	}
	// (2) dynamic return types of each override
	ctxTypes := []types.Type{}
	for _, m := range gp.Members {
		t, ok := m.(*ssa.Type)
		if !ok || !strings.HasSuffix(t.Name(), "Context") {
			continue
		}
		if _, isStruct := t.Type().Underlying().(*types.Struct); isStruct {
			ctxTypes = append(ctxTypes, types.NewPointer(t.Type()))
		}
	}
	sort.Slice(ctxTypes, func(i, j int) bool { return ctxTypes[i].String() < ctxTypes[j].String() })
	var retTypes func(name string, seen map[string]bool) (map[string]bool, string)
	// the value passed to Visit in `v.Visit(x)`: static type → candidate visitor methods
	candidates := func(arg ssa.Value) []string {
		for {
			if ci, ok := arg.(*ssa.ChangeInterface); ok {
				arg = ci.X
				continue
			}
			if mi, ok := arg.(*ssa.MakeInterface); ok {
				arg = mi.X
				continue
			}
			break
		}
		st := arg.Type()
		var out []string
		if it, ok := st.Underlying().(*types.Interface); ok {
			for _, ct := range ctxTypes {
				if types.Implements(ct, it) {
					if m := acceptDispatch(p, ct); m != "" {
						out = append(out, m)
					}
				}
			}
		} else if m := acceptDispatch(p, st); m != "" {
			out = append(out, m)
		}
		sort.Strings(out)
		return out
	}
	isVisitCall := func(v ssa.Value) (*ssa.Call, bool) {
		c, ok := v.(*ssa.Call)
		if !ok {
			return nil, false
		}
		if sc := c.Common().StaticCallee(); sc != nil && sc.Name() == "Visit" && strings.HasSuffix(fnPkgPath(sc), "/fhirpath/internal/parser") {
			return c, true
		}
		return nil, false
	}
	retTypes = func(name string, seen map[string]bool) (map[string]bool, string) {
		out := map[string]bool{}
		if seen[name] {
			return out, ""
		}
		seen[name] = true
		f := vm[name]
		if f == nil || len(f.Blocks) == 0 {
			return nil, name + " has no body"
		}
		for _, b := range f.Blocks {
			ret, ok := b.Instrs[len(b.Instrs)-1].(*ssa.Return)
			if !ok || len(ret.Results) != 1 {
				continue
			}
			var walk func(v ssa.Value) string
			walk = func(v ssa.Value) string {
				switch x := v.(type) {
				case *ssa.MakeInterface:
					out[typeShort(x.X.Type())] = true
				case *ssa.Phi:
					for _, e := range x.Edges {
						if s := walk(e); s != "" {
							return s
						}
					}
				case *ssa.Const:
					if x.IsNil() {
						out["nil"] = true
					}
				default:
					if c, ok := isVisitCall(v); ok {
						for _, m := range candidates(c.Common().Args[1]) {
							sub, why := retTypes(m, seen)
							if sub == nil {
								return why
							}
							for t := range sub {
								out[t] = true
							}
						}
						return ""
					}
					return fmt.Sprintf("%s returns a value of undetermined dynamic type (%s)", name, originDescr(v))
				}
				return ""
			}
			if why := walk(ret.Results[0]); why != "" {
				return nil, why
			}
		}
		return out, ""
	}
	// (3) every assertion on a Visit result agrees with the overrides it can reach
	var names []string
	for n := range vm {
		names = append(names, n)
	}
	sort.Strings(names)
	// every function of package parser (visitor methods, their helpers, closures)
	allFns := []*ssa.Function{}
	if sp, err := p.Pkg("fhirpath/internal/parser"); err == nil {
		for _, f := range p.RepoFuncs() {
			if f.Pkg == sp && len(f.Blocks) > 0 {
				allFns = append(allFns, f)
				allFns = append(allFns, f.AnonFuncs...)
			}
		}
	}
	sort.SliceStable(allFns, func(i, j int) bool { return short(allFns[i]) < short(allFns[j]) })
	// plus the API functions that assert the root result
	for _, fq := range [][2]string{{"fhirpath", "Compile"}, {"fhirpath/patch", "Compile"}} {
		if f, err := p.Func(fq[0], fq[1]); err == nil {
			allFns = append(allFns, f)
		}
	}
	for _, f := range allFns {
		for _, b := range f.Blocks {
			for _, ins := range b.Instrs {
				ta, ok := ins.(*ssa.TypeAssert)
				if !ok {
					continue
				}
				c, ok := isVisitCall(ta.X)
				if !ok {
					continue
				}
				r.count("visit_result_assertions", 1)
				want := typeShort(ta.AssertedType)
				key := short(f) + "|Visit(" + typeShort(stripIface(c.Common().Args[1]).Type()) + ").(" + want + ")"
				if ta.CommaOk {
					r.ok(key, "comma-ok assertion on a Visit result", p.instrPos(ins), "checked assertion", false)
					continue
				}
				cands := candidates(c.Common().Args[1])
				if len(cands) == 0 {
					r.undecided(key, "no generated context type found for the visited value", p.instrPos(ins), "cannot resolve Accept dispatch")
					continue
				}
				var bad []string
				for _, m := range cands {
					ts, why := retTypes(m, map[string]bool{})
					if ts == nil {
						bad = append(bad, why)
						continue
					}
					for t := range ts {
						if t != want {
							bad = append(bad, fmt.Sprintf("%s can return %s", m, t))
						}
					}
				}
				sort.Strings(bad)
				if len(bad) == 0 {
					r.ok(key, fmt.Sprintf("Visit result asserted to %s; reachable overrides %v all return it", want, cands), p.instrPos(ins), "dynamic result types of every override the Accept dispatch can reach equal the asserted type", true)
				} else {
					r.bad(key, fmt.Sprintf("Visit result asserted to %s", want), p.instrPos(ins), "an override reachable through Accept returns another dynamic type: "+strings.Join(bad, "; "))
				}
			}
		}
	}
	r.floor("visitor_methods", 40)
	r.floor("visit_result_assertions", 8)
	return r
}

// isVisitResultField: v is a load of the Result field of a *VisitResult.
func isVisitResultField(v ssa.Value) bool {
	ld, ok := v.(*ssa.UnOp)
	if !ok {
		return false
	}
	fa, ok := ld.X.(*ssa.FieldAddr)
	return ok && fieldName(fa) == "Result" && strings.HasSuffix(typeShort(fa.X.Type()), "VisitResult")
}

// mayBeNilConst: v is, or is a phi / conversion reaching, a nil constant.
func mayBeNilConst(v ssa.Value, depth int) bool {
	if depth > 5 {
		return false
	}
	switch x := v.(type) {
	case *ssa.Const:
		return x.IsNil() || x.Value == nil
	case *ssa.Phi:
		for _, e := range x.Edges {
			if mayBeNilConst(e, depth+1) {
				return true
			}
		}
	case *ssa.ChangeType:
		return mayBeNilConst(x.X, depth+1)
	case *ssa.ChangeInterface:
		return mayBeNilConst(x.X, depth+1)
	case *ssa.MakeInterface:
		return false
	}
	return false
}
