package main

// C14 — string functions operate on characters.  STR-EVAL: the string
// functions are evaluated from source (constant propagation through their own
// code with pure library models) on a pool of ASCII / non-ASCII strings and
// compared with a rune-based reference; STR1: inventory of byte-semantics
// operations on user strings.

import (
	"fmt"
	"go/constant"
	"go/types"
	"strings"
	"unicode/utf8"

	"golang.org/x/tools/go/ssa"
)

var strPool = []string{"", "a", "abc", "héllo", "日本語", "a😀b", "éé", "éx", "abcabc"}

func strOutcome(res *result) string {
	if len(res.hazards) > 0 {
		return "hazard:" + res.hazards[0].what
	}
	if len(res.rets) == 0 {
		return "?"
	}
	out := ""
	for i, ri := range res.rets {
		var s string
		switch {
		case retIsErr(ri):
			s = "error"
		case retIsOK(ri):
			v := ri.vals[0]
			switch {
			case isEmptyColl(v):
				s = "{}"
			case v.k == kSlice && len(v.elems) == 1 && v.elems[0].k == kConst:
				s = v.elems[0].c.ExactString()
			default:
				s = "?" + v.String()
			}
		default:
			s = "?"
		}
		if i > 0 && s != out {
			return "?(" + out + "|" + s + ")"
		}
		out = s
	}
	return out
}

func q(s string) string { return constant.MakeString(s).ExactString() }

func ruleSTREVAL(p *Program) *RuleResult {
	r := newResult("STR-EVAL")
	strPool := strPool
	if thoroughTier {
		// longer and more varied texts: mixed widths at every position, repeated patterns, combining marks, surrogate-range code points
		strPool = append(append([]string{}, strPool...), "a日b本c", "日a本b語", "😀😀", "e\u0301e\u0301", "ǅz", "ßẞ", "aaa", "abab", "\U0001F468\u200d\U0001F469", "İi", " tab\t")
	}
	st, err := systemTypes(p)
	if err != nil {
		return r.anchorFail(err)
	}
	getFn := func(n string) (*ssa.Function, map[string]*ssa.Call, error) {
		fn, err := p.Func("fhirpath/internal/funcs/impl", n)
		if err != nil {
			return nil, nil, err
		}
		return fn, nil, nil
	}
	run := func(fn *ssa.Function, _ map[string]*ssa.Call, s string, args ...aval) *result {
		an := newAnalyzer()
		an.maxBlocks = 300
		oe := newOperandEnv()
		for i, a := range args {
			oe.results[fmt.Sprintf("args[%d]", i)] = okTuple(coll(a))
		}
		oe.next = stringLibModel
		an.callModel = oe.model()
		return an.analyze(fn, []aval{nonnil("ctx"), coll(st.strItem(s)), argsValue(len(args))})
	}
	bad := map[string]int{}
	report := func(fnName, key, desc, got, want string, fn *ssa.Function) {
		r.count("cells", 1)
		if got == want {
			return
		}
		bad[fnName]++
		if bad[fnName] <= 4 {
			r.bad("impl."+fnName+"|"+key, desc+" = "+got+" (rune model: "+want+")", p.pos(fn.Pos()), "the function does not agree with the character-based reference model")
		}
	}
	// length
	if fn, calls, err := getFn("Length"); err != nil {
		return r.anchorFail(err)
	} else {
		for _, s := range strPool {
			got := strOutcome(run(fn, calls, s))
			report("Length", q(s), q(s)+".length()", got, fmt.Sprint(utf8.RuneCountInString(s)), fn)
		}
		if bad["Length"] == 0 {
			r.ok("impl.Length|pool", fmt.Sprintf("length() agrees with the rune count on %d strings", len(strPool)), p.pos(fn.Pos()), "SCCP through the function with pure string-library models", true)
		}
	}
	// upper / lower
	for _, n := range []string{"Upper", "Lower"} {
		fn, calls, err := getFn(n)
		if err != nil {
			return r.anchorFail(err)
		}
		for _, s := range strPool {
			want := strings.ToUpper(s)
			if n == "Lower" {
				want = strings.ToLower(s)
			}
			report(n, q(s), q(s)+"."+strings.ToLower(n)+"()", strOutcome(run(fn, calls, s)), q(want), fn)
		}
		if bad[n] == 0 {
			r.ok("impl."+n+"|pool", strings.ToLower(n)+"() agrees with the reference on the pool", p.pos(fn.Pos()), "SCCP", true)
		}
	}
	// startsWith / endsWith / contains / indexOf
	patterns := func(s string) []string {
		out := []string{"", "x", "é", "語"}
		rs := []rune(s)
		for i := 0; i < len(rs); i++ {
			for j := i + 1; j <= len(rs) && j <= i+2; j++ {
				out = append(out, string(rs[i:j]))
			}
		}
		return out
	}
	for _, n := range []string{"StartsWith", "EndsWith", "Contains", "IndexOf"} {
		fn, calls, err := getFn(n)
		if err != nil {
			return r.anchorFail(err)
		}
		for _, s := range strPool {
			for _, t := range patterns(s) {
				var want string
				switch n {
				case "StartsWith":
					want = fmt.Sprint(strings.HasPrefix(s, t))
				case "EndsWith":
					want = fmt.Sprint(strings.HasSuffix(s, t))
				case "Contains":
					want = fmt.Sprint(strings.Contains(s, t))
				case "IndexOf":
					bi := strings.Index(s, t)
					if bi >= 0 {
						bi = utf8.RuneCountInString(s[:bi])
					}
					want = fmt.Sprint(bi)
				}
				lower := strings.ToLower(n[:1]) + n[1:]
				report(n, q(s)+","+q(t), q(s)+"."+lower+"("+q(t)+")", strOutcome(run(fn, calls, s, st.strItem(t))), want, fn)
			}
		}
		if bad[n] == 0 {
			r.ok("impl."+n+"|pool", strings.ToLower(n[:1])+n[1:]+"() agrees with the rune-based reference on the pool x its substrings", p.pos(fn.Pos()), "SCCP", true)
		}
	}
	// substring
	if fn, calls, err := getFn("Substring"); err != nil {
		return r.anchorFail(err)
	} else {
		for _, s := range strPool {
			rs := []rune(s)
			n := len(rs)
			for _, start := range []int{-1, 0, 1, 2, n - 1, n, n + 1, 2147483647, -2147483648} {
				for _, length := range []int{-99, -1, 0, 1, 2, n + 1, 2147483647} {
					var res *result
					if length == -99 {
						res = run(fn, calls, s, st.intItem(int64(start)))
					} else {
						res = run(fn, calls, s, st.intItem(int64(start)), st.intItem(int64(length)))
					}
					want := "{}"
					if start >= 0 && start < n {
						if length <= -1 || start+length >= n {
							want = q(string(rs[start:]))
						} else {
							want = q(string(rs[start : start+length]))
						}
					}
					args := fmt.Sprint(start)
					if length != -99 {
						args += fmt.Sprintf(",%d", length)
					}
					report("Substring", q(s)+","+args, q(s)+".substring("+args+")", strOutcome(res), want, fn)
				}
			}
		}
		if bad["Substring"] == 0 {
			r.ok("impl.Substring|pool", "substring() agrees with the rune-based reference on the pool x boundary positions and lengths", p.pos(fn.Pos()), "SCCP ([]rune conversion, slicing and re-conversion folded on constants)", true)
		}
	}
	// replace
	if fn, calls, err := getFn("Replace"); err != nil {
		return r.anchorFail(err)
	} else {
		for _, s := range strPool {
			for _, t := range []string{"a", "é", "b", "ll", "語", ""} {
				got := strOutcome(run(fn, calls, s, st.strItem(t), st.strItem("Z")))
				report("Replace", q(s)+","+q(t), q(s)+".replace("+q(t)+",'Z')", got, q(strings.ReplaceAll(s, t, "Z")), fn)
			}
		}
		if bad["Replace"] == 0 {
			r.ok("impl.Replace|pool", "replace() agrees with the reference on the pool", p.pos(fn.Pos()), "SCCP", true)
		}
	}
	r.floor("cells", 500)
	return r
}

// STR1: inventory of byte-semantics operations on strings in the string functions.
func ruleSTR1(p *Program) *RuleResult {
	r := newResult("STR1")
	for _, n := range []string{"StartsWith", "EndsWith", "Length", "Upper", "Lower", "Contains", "ToChars", "Substring", "IndexOf", "Matches", "Replace", "ReplaceMatches", "Join"} {
		fn, err := p.Func("fhirpath/internal/funcs/impl", n)
		if err != nil {
			return r.anchorFail(err)
		}
		r.count("functions", 1)
		isStr := func(t types.Type) bool { return isStringType(t) }
		for _, b := range fn.Blocks {
			for _, ins := range b.Instrs {
				switch x := ins.(type) {
				case *ssa.Call:
					if bi, ok := x.Common().Value.(*ssa.Builtin); ok && bi.Name() == "len" && isStr(x.Common().Args[0].Type()) {
						r.bad("impl."+n+"|len(string)", n+": len() of a string counts bytes", p.instrPos(ins), "lengths must count characters")
					}
				case *ssa.Index:
					if isStr(x.X.Type()) {
						r.bad("impl."+n+"|s[i]", n+": indexing a string yields a byte", p.instrPos(ins), "positions must count characters")
					}
				case *ssa.Slice:
					if !isStr(x.X.Type()) {
						continue
					}
					okUse := true
					for _, ref := range *x.Referrers() {
						c, ok := ref.(*ssa.Call)
						if !ok || c.Common().StaticCallee() == nil || c.Common().StaticCallee().RelString(nil) != "unicode/utf8.RuneCountInString" {
							okUse = false
						}
					}
					if okUse {
						r.ok("impl."+n+"|s[a:b]→RuneCount", n+": a byte-offset prefix is only used to count its characters", p.instrPos(ins), "the slice feeds utf8.RuneCountInString only", true)
					} else {
						r.bad("impl."+n+"|s[a:b]", n+": slicing a string by byte offsets", p.instrPos(ins), "substrings must be taken by character positions (invalid UTF-8 otherwise)")
					}
				}
			}
		}
	}
	if len(r.Obs) == 0 {
		r.ok("strings.go|no byte ops", "no byte-indexed operation on a user string in the 13 string functions", "fhirpath/internal/funcs/impl/strings.go", "instruction inventory", false)
	}
	r.floor("functions", 13)
	return r
}
