package main

// C13 — conversion functions.  CNV1 convertsToT is computed from toT,
// CNV3 a failed conversion is empty (not an error), CNV4 the result of toT is
// of type T; TAB1 (table bindings) is shared with C16.

import (
	"fmt"
	"go/types"
	"sort"
	"strings"

	"golang.org/x/tools/go/ssa"
)

var convTargets = []string{"Boolean", "Integer", "Decimal", "String", "Date", "DateTime", "Time", "Quantity"}

type itemForm struct {
	name string
	v    aval
}

func conversionForms(p *Program) ([]itemForm, map[string]types.Type, error) {
	sp, err := p.Pkg("fhirpath/system")
	if err != nil {
		return nil, nil, err
	}
	tm := map[string]types.Type{}
	for _, n := range convTargets {
		t := sp.Type(n)
		if t == nil {
			return nil, nil, fmt.Errorf("anchor: system.%s not found", n)
		}
		tm[n] = t.Type()
	}
	dt, err := p.typesPkg(dtPkgPath)
	if err != nil {
		return nil, nil, err
	}
	look := func(n string) (types.Type, error) {
		o := dt.Scope().Lookup(n)
		if o == nil {
			return nil, fmt.Errorf("anchor: datatypes %s not found", n)
		}
		return types.NewPointer(o.Type()), nil
	}
	hn, err := look("HumanName")
	if err != nil {
		return nil, nil, err
	}
	fs, err := look("String")
	if err != nil {
		return nil, nil, err
	}
	st, _ := systemTypes(p)
	forms := []itemForm{
		{"Boolean true", st.boolItem(true)},
		{"Boolean false", st.boolItem(false)},
		{"Integer", aval{k: kNonNil, dyn: tm["Integer"]}},
		{"String", aval{k: kNonNil, dyn: tm["String"]}},
		{"Decimal", aval{k: kNonNil, dyn: tm["Decimal"]}},
		{"Date", aval{k: kNonNil, dyn: tm["Date"]}},
		{"DateTime", aval{k: kNonNil, dyn: tm["DateTime"]}},
		{"Time", aval{k: kNonNil, dyn: tm["Time"]}},
		{"Quantity", aval{k: kNonNil, dyn: tm["Quantity"]}},
		{"FHIR string element", aval{k: kNonNil, dyn: fs}},
		{"complex element", aval{k: kNonNil, dyn: hn}},
	}
	return forms, tm, nil
}

func ruleCNV1(p *Program) *RuleResult {
	r := newResult("CNV1")
	st, err := systemTypes(p)
	if err != nil {
		return r.anchorFail(err)
	}
	for _, T := range convTargets {
		fn, err := p.Func("fhirpath/internal/funcs/impl", "ConvertsTo"+T)
		if err != nil {
			return r.anchorFail(err)
		}
		toFn, err := p.Func("fhirpath/internal/funcs/impl", "To"+T)
		if err != nil {
			return r.anchorFail(err)
		}
		// which To* conversions the function reaches (directly, through a helper, or
		// through a function value), and on what
		isTo := func(sc *ssa.Function) bool {
			return sc != nil && sc.Signature.Recv() == nil && strings.HasPrefix(sc.Name(), "To") && strings.HasSuffix(fnPkgPath(sc), "/funcs/impl")
		}
		theInput := aval{k: kSlice, n: 1, elems: []aval{nonnil("the-input")}}
		type toObs struct {
			sc   *ssa.Function
			args []aval
		}
		observe := func(toRes aval, nargs int) (*result, []toObs) {
			var seen []toObs
			an := newAnalyzer()
			an.maxBlocks = 250
			an.fnModel = func(sc *ssa.Function, args []aval) (aval, bool) {
				if !isTo(sc) {
					return aval{}, false
				}
				for _, o := range seen {
					if o.sc == sc && eqVals(o.args, args) {
						return toRes, true
					}
				}
				seen = append(seen, toObs{sc, args})
				return toRes, true
			}
			res := an.analyze(fn, []aval{nonnil("ctx"), theInput, sliceLen(nargs)})
			return res, seen
		}
		r.count("pairs", 1)
		key := "ConvertsTo" + T
		_, seen := observe(okTuple(coll(st.strItem("x"))), 0)
		if len(seen) != 1 || seen[0].sc != toFn {
			var names []string
			for _, o := range seen {
				names = append(names, o.sc.Name())
			}
			r.bad(key+"|calls", fmt.Sprintf("ConvertsTo%s calls %v", T, names), p.pos(fn.Pos()), "convertsTo"+T+"() must be computed from to"+T+"() (exactly one call of impl.To"+T+")")
			continue
		}
		// the conversion receives this call's own input
		if a := seen[0].args; len(a) < 3 || a[1].k != kSlice || a[1].n != 1 || len(a[1].elems) != 1 || !hasNote(a[1].elems[0], "the-input") {
			r.bad(key+"|input", "To"+T+" is not applied to the input collection", p.pos(fn.Pos()), "convertsTo"+T+"() tests a different value than the one it was called on")
			continue
		}
		for _, tc := range []struct {
			name string
			res  aval
			want int
		}{
			{"typed result", okTuple(coll(st.strItem("x"))), 1},
			{"empty", okTuple(coll()), 0},
			{"nil", okTuple(aval{k: kNil}), 0},
			{"error", errTuple(), 0},
		} {
			for n := 0; n <= 1; n++ {
				if n == 1 && T != "Quantity" {
					continue
				}
				r.count("hypotheses", 1)
				res, _ := observe(tc.res, n)
				got := -3
				if len(res.rets) == 1 && retIsOK(res.rets[0]) && len(res.hazards) == 0 {
					got = collTruth(res.rets[0].vals[0])
				} else if len(res.rets) >= 1 && len(res.hazards) == 0 {
					// several returns that agree
					agree := true
					g0 := -3
					for i, ri := range res.rets {
						if !retIsOK(ri) {
							agree = false
							break
						}
						t := collTruth(ri.vals[0])
						if i == 0 {
							g0 = t
						} else if t != g0 {
							agree = false
						}
					}
					if agree {
						got = g0
					}
				}
				hk := fmt.Sprintf("%s|to%s→%s|n=%d", key, T, tc.name, n)
				desc := fmt.Sprintf("convertsTo%s() when to%s() yields %s → %s (want %s)", T, T, tc.name, tvName(got), tvName(tc.want))
				if got == tc.want {
					r.ok(hk, desc, p.pos(fn.Pos()), "SCCP with the To"+T+" call pinned", true)
				} else {
					r.bad(hk, desc+hazardText(res), p.pos(fn.Pos()), "convertsTo"+T+"() must be true exactly when to"+T+"() is non-empty, and never an error")
				}
			}
		}
	}
	r.floor("pairs", 8)
	return r
}

func ruleCNV34(p *Program) *RuleResult {
	r := newResult("CNV3")
	forms, tm, err := conversionForms(p)
	if err != nil {
		return r.anchorFail(err)
	}
	for _, T := range convTargets {
		fn, err := p.Func("fhirpath/internal/funcs/impl", "To"+T)
		if err != nil {
			return r.anchorFail(err)
		}
		for _, f := range forms {
			r.count("hypotheses", 1)
			an := newAnalyzer()
			an.maxBlocks = 300
			res := an.analyze(fn, []aval{nonnil("ctx"), coll(f.v), sliceLen(0)})
			keyBase := fmt.Sprintf("To%s|%s", T, f.name)
			if res.nonconverged || len(res.rets) == 0 && len(res.hazards) == 0 {
				r.undecided(keyBase, "no executable return", p.pos(fn.Pos()), "analysis did not produce a result")
				continue
			}
			var errs, wrongType, hz []string
			for _, h := range res.hazards {
				if strings.HasSuffix(h.what, ": panic") {
					continue // panic-on-error helpers are PAN1's obligations (C01)
				}
				hz = append(hz, h.what)
			}
			for _, ri := range res.rets {
				e := ri.vals[1]
				if e.k == kNonNil || e.k == kTop {
					errs = append(errs, fmt.Sprintf("%s at %s", e, p.instrPos(ri.instr)))
					continue
				}
				v := ri.vals[0]
				if isEmptyColl(v) {
					continue
				}
				okT := false
				if v.k == kSlice && v.n == 1 && len(v.elems) == 1 && v.elems[0].dyn != nil && types.Identical(v.elems[0].dyn, tm[T]) {
					okT = true
				}
				if !okT && f.name == "complex element" && v.k == kSlice && len(v.elems) == 1 && v.elems[0].k == kTop {
					// a code-valued element converts through its string value; the joined
					// result of system.From loses the dynamic type: not decidable here
					continue
				}
				if !okT {
					wrongType = append(wrongType, fmt.Sprintf("%s at %s", v, p.instrPos(ri.instr)))
				}
			}
			desc := fmt.Sprintf("(%s).to%s()", f.name, T)
			if len(errs) == 0 && len(hz) == 0 {
				r.ok(keyBase+"|no-error", desc+" never errors", p.pos(fn.Pos()), "SCCP with the input item's dynamic type pinned: no executable error return", true)
			} else {
				r.bad(keyBase+"|no-error", desc+" can return an error: "+strings.Join(append(errs, hz...), "; "), p.pos(fn.Pos()), "an unconvertible item must yield empty, not an error (convertsTo"+T+"() hides it, to"+T+"() does not)")
			}
			if len(wrongType) == 0 {
				r.ok(keyBase+"|type", desc+" is empty or a "+T, p.pos(fn.Pos()), "every non-empty result holds a value of dynamic type system."+T, true)
			} else {
				r.bad(keyBase+"|type", desc+" can return "+strings.Join(wrongType, "; "), p.pos(fn.Pos()), "the result of to"+T+"() must be of type "+T+" (or empty)")
			}
		}
		// multi-item input is an error, empty input is empty (C07 covers empty)
		an := newAnalyzer()
		an.maxBlocks = 300
		res := an.analyze(fn, []aval{nonnil("ctx"), sliceLen(2), sliceLen(0)})
		okM := len(res.rets) > 0
		for _, ri := range res.rets {
			if !retIsErr(ri) {
				okM = false
			}
		}
		if okM {
			r.ok("To"+T+"|multi-item", "to"+T+"() on two items is an error", p.pos(fn.Pos()), "SCCP under len(input)=2", true)
		} else {
			r.bad("To"+T+"|multi-item", "to"+T+"() on two items does not fail", p.pos(fn.Pos()), "conversion of a multi-item collection must be an error, never the conversion of its first item")
		}
	}
	r.floor("hypotheses", 80)
	return r
}

// CNV5: the conversion functions decide on exact values: no float64 detour in
// their call closure (a Decimal that differs from 1.0 beyond float64 precision
// must not convert to Boolean, Integer, …).
func ruleCNV5(p *Program) *RuleResult {
	r := newResult("CNV5")
	for _, n := range []string{"ToBoolean", "ToInteger", "ToDecimal", "ToString", "ToDate", "ToDateTime", "ToTime", "ToQuantity",
		"ConvertsToBoolean", "ConvertsToInteger", "ConvertsToDecimal", "ConvertsToString", "ConvertsToDate", "ConvertsToDateTime", "ConvertsToTime", "ConvertsToQuantity"} {
		fn, err := p.Func("fhirpath/internal/funcs/impl", n)
		if err != nil {
			return r.anchorFail(err)
		}
		r.count("conversion_functions", 1)
		d := floatDetourIn(fn, map[*ssa.Function]bool{}, 0)
		sort.Strings(d)
		key := "impl." + n + "|float-detour"
		if len(d) == 0 {
			r.ok(key, "impl."+n+" converts without float64", p.pos(fn.Pos()), "call closure contains no float64 conversion", true)
		} else {
			r.bad(key, "impl."+n+" detours through float64: "+strings.Join(uniq(d), ", "), p.pos(fn.Pos()), "values that differ only beyond 15-17 significant digits convert alike: the conversion table is decided on a rounded value")
		}
	}
	r.floor("conversion_functions", 16)
	return r
}

// CNV6: a String is converted by parsing exactly the text it holds: under a
// String input the conversion hands the input text itself — not a prefix, a
// trimmed or otherwise rewritten copy — to the parser of the target type, so
// that only texts the parser accepts convert.
func ruleCNV6(p *Program) *RuleResult {
	r := newResult("CNV6")
	st, err := systemTypes(p)
	if err != nil {
		return r.anchorFail(err)
	}
	probes := []string{"2020-01-01T10:00:00", "2020T", "2020-01-01Tjunk", " 12 ", "1e3", "T10:00:00", "true ", "10:00:00Z", "+5", "0x10"}
	for _, t := range []struct{ conv, parser string }{
		{"ToDate", "ParseDate"}, {"ToDateTime", "ParseDateTime"}, {"ToTime", "ParseTime"},
		{"ToDecimal", "ParseDecimal"}, {"ToInteger", "ParseInteger"}, {"ToBoolean", "ParseBoolean"},
	} {
		fn, err := p.Func("fhirpath/internal/funcs/impl", t.conv)
		if err != nil {
			return r.anchorFail(err)
		}
		bad, undec := "", ""
		for _, s := range probes {
			r.count("probes", 1)
			an := newAnalyzer()
			an.maxBlocks = 300
			an.callModel = func(c *ssa.CallCommon, args []aval) (aval, bool) {
				if sc := c.StaticCallee(); sc != nil && short(sc) == "fhirpath/system."+t.parser {
					return tupleTop(sc.Signature), true
				}
				return aval{}, false
			}
			res := an.analyze(fn, []aval{nonnil("ctx"), coll(st.strItem(s)), sliceLen(0)})
			n := 0
			for _, co := range res.calls {
				if co.callee == nil || short(co.callee) != "fhirpath/system."+t.parser || len(co.args) == 0 {
					continue
				}
				n++
				if got, ok := constStr(co.args[0]); !ok {
					if undec == "" {
						undec = fmt.Sprintf("%s(%q): the text handed to %s is not determined (%s)", t.conv, s, t.parser, co.args[0].String())
					}
				} else if got != s && bad == "" {
					bad = fmt.Sprintf("%s(%q) parses %q", t.conv, s, got)
				}
			}
			if n == 0 && undec == "" {
				undec = fmt.Sprintf("%s(%q) does not reach %s", t.conv, s, t.parser)
			}
		}
		key := "impl." + t.conv + "|String→" + t.parser
		switch {
		case bad != "":
			r.bad(key, bad+": the parser sees a rewritten text", p.pos(fn.Pos()), "strings that are not valid for the target type convert (or valid ones do not): the conversion table is decided on another text than the input")
		case undec != "":
			r.undecided(key, undec, p.pos(fn.Pos()), "SCCP with the input string pinned")
		default:
			r.ok(key, fmt.Sprintf("%s hands the input text itself to system.%s on %d probe strings", t.conv, t.parser, len(probes)), p.pos(fn.Pos()), "SCCP with the input item pinned to a String constant; argument of the parser call", true)
		}
	}
	r.floor("probes", 60)
	return r
}

// CNV7: a conversion works on the System value of the item: in every toT the raw
// item input[0] is used only as the argument of system.From; the rendered or
// parsed text therefore always comes from the System value (whose string form
// re-parses), never from the representation of the FHIR element it came from.
func ruleCNV7(p *Program) *RuleResult {
	r := newResult("CNV7")
	for _, n := range []string{"ToBoolean", "ToInteger", "ToDecimal", "ToString", "ToDate", "ToDateTime", "ToTime", "ToQuantity"} {
		fn, err := p.Func("fhirpath/internal/funcs/impl", n)
		if err != nil {
			return r.anchorFail(err)
		}
		r.count("conversion_functions", 1)
		var bad []string
		uses := 0
		for _, b := range fn.Blocks {
			for _, ins := range b.Instrs {
				ia, ok := ins.(*ssa.IndexAddr)
				if !ok || len(fn.Params) < 2 {
					continue
				}
				// input[...] (directly or through the spilled parameter)
				base := ia.X
				if ld, ok := base.(*ssa.UnOp); ok {
					if al, ok := ld.X.(*ssa.Alloc); ok && storesTo(al) == 1 {
						for _, ref := range *al.Referrers() {
							if st, ok := ref.(*ssa.Store); ok && st.Addr == ssa.Value(al) {
								base = st.Val
							}
						}
					}
				}
				if base != ssa.Value(fn.Params[1]) {
					continue
				}
				for _, ref := range *ia.Referrers() {
					ld, ok := ref.(*ssa.UnOp)
					if !ok {
						bad = append(bad, "address of input item used at "+p.instrPos(ref))
						continue
					}
					for _, use := range *ld.Referrers() {
						if _, dbg := use.(*ssa.DebugRef); dbg {
							continue
						}
						uses++
						c, ok := use.(*ssa.Call)
						if ok && c.Common().StaticCallee() != nil && short(c.Common().StaticCallee()) == "fhirpath/system.From" {
							continue
						}
						bad = append(bad, fmt.Sprintf("%T at %s", use, p.instrPos(use)))
					}
				}
			}
		}
		key := "impl." + n + "|raw item"
		switch {
		case len(bad) > 0:
			r.bad(key, fmt.Sprintf("impl.%s uses the raw input item other than through system.From: %s", n, strings.Join(bad, "; ")), p.pos(fn.Pos()),
				"the conversion depends on how the FHIR element was written, not on its value: its result need not re-parse to an equal value")
		case uses == 0:
			r.undecided(key, "impl."+n+" does not read input[0]", p.pos(fn.Pos()), "shape changed")
		default:
			r.ok(key, "impl."+n+" reads its input item only through system.From", p.pos(fn.Pos()), "use inventory of input[0]", true)
		}
	}
	r.floor("conversion_functions", 8)
	return r
}
