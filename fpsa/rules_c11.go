package main

// C11 — precedence, associativity, token boundaries.  PARSE1 precedence and
// associativity numbers of the generated parser against the grammar and the
// frozen N1 precedence order (+ .g4 ↔ generated-code sync), PARSE2 operand
// order, PARSE3 right operands get a reset visitor, PARSE4 operator → node
// map, PARSE5 the whole source is consumed, PARSE6 String() returns the source.

import (
	"go/types"
	"fmt"
	"go/ast"
	"go/constant"
	"go/token"
	"sort"
	"strconv"
	"strings"

	"golang.org/x/tools/go/ssa"
)

// FHIRPath N1 §6 operator precedence, highest first (labels of the grammar alternatives).
var n1Precedence = []string{
	"termExpression", "invocationExpression", "indexerExpression", "polarityExpression",
	"multiplicativeExpression", "additiveExpression", "typeExpression", "unionExpression",
	"inequalityExpression", "equalityExpression", "membershipExpression", "andExpression",
	"orExpression", "impliesExpression",
}

var n1Operators = map[string][]string{
	"polarityExpression":       {"+", "-"},
	"multiplicativeExpression": {"*", "/", "div", "mod"},
	"additiveExpression":       {"+", "-", "&"},
	"typeExpression":           {"is", "as"},
	"unionExpression":          {"|"},
	"inequalityExpression":     {"<=", "<", ">", ">="},
	"equalityExpression":       {"=", "~", "!=", "!~"},
	"membershipExpression":     {"in", "contains"},
	"andExpression":            {"and"},
	"orExpression":             {"or", "xor"},
	"impliesExpression":        {"implies"},
	"invocationExpression":     {"."},
	"indexerExpression":        {"["},
}

type genAlt struct {
	Label    string
	Precpred int // -1 if none
	RecCalls []int
	Masks    []int64
	Tokens   []string // tokens matched via p.Match(fhirpathParserT__n) / _la == T__n
	Pos      token.Pos
}

// readGeneratedExpressionRule extracts, from the generated parser's
// expression() function, the per-alternative precedence predicate and the
// precedence arguments of the recursive calls.
func readGeneratedExpressionRule(p *Program) ([]genAlt, []string, error) {
	pk := p.ByPath[mod+"/fhirpath/internal/grammar"]
	if pk == nil {
		return nil, nil, fmt.Errorf("anchor: grammar package not loaded")
	}
	fd := findFuncDecl(pk, "fhirpathParser", "expression")
	if fd == nil {
		return nil, nil, fmt.Errorf("anchor: (*fhirpathParser).expression not found")
	}
	var alts []genAlt
	cur := -1
	intOf := func(e ast.Expr) (int64, bool) {
		if tv, ok := pk.TypesInfo.Types[e]; ok && tv.Value != nil && tv.Value.Kind() == constant.Int {
			v, exact := constant.Int64Val(tv.Value)
			return v, exact
		}
		return 0, false
	}
	ast.Inspect(fd.Body, func(n ast.Node) bool {
		switch x := n.(type) {
		case *ast.AssignStmt:
			if len(x.Lhs) == 1 && len(x.Rhs) == 1 {
				if id, ok := x.Lhs[0].(*ast.Ident); ok && id.Name == "localctx" {
					if call, ok := x.Rhs[0].(*ast.CallExpr); ok {
						if fn, ok := call.Fun.(*ast.Ident); ok && strings.HasPrefix(fn.Name, "New") && strings.HasSuffix(fn.Name, "Context") && fn.Name != "NewExpressionContext" {
							label := strings.TrimSuffix(strings.TrimPrefix(fn.Name, "New"), "Context")
							alts = append(alts, genAlt{Label: strings.ToLower(label[:1]) + label[1:], Precpred: -1, Pos: x.Pos()})
							cur = len(alts) - 1
						}
					}
				}
			}
		case *ast.CallExpr:
			sel, ok := x.Fun.(*ast.SelectorExpr)
			if !ok || cur < 0 {
				return true
			}
			switch sel.Sel.Name {
			case "Precpred":
				if len(x.Args) == 2 {
					if v, ok := intOf(x.Args[1]); ok && alts[cur].Precpred < 0 {
						alts[cur].Precpred = int(v)
					}
				}
			case "expression":
				if len(x.Args) == 1 {
					if v, ok := intOf(x.Args[0]); ok {
						alts[cur].RecCalls = append(alts[cur].RecCalls, int(v))
					}
				}
			case "Match":
				if len(x.Args) == 1 {
					if v, ok := intOf(x.Args[0]); ok {
						alts[cur].Tokens = append(alts[cur].Tokens, strconv.Itoa(int(v)))
					}
				}
			}
		case *ast.BinaryExpr:
			// ((int64(1)<<_la)&MASK) != 0   /   _la == T__n
			if cur >= 0 && x.Op == token.AND {
				if v, ok := intOf(x.Y); ok && v > 1 {
					alts[cur].Masks = append(alts[cur].Masks, v)
				}
			}
			if cur >= 0 && x.Op == token.EQL {
				if id, ok := x.X.(*ast.Ident); ok && id.Name == "_la" {
					if v, ok := intOf(x.Y); ok {
						alts[cur].Tokens = append(alts[cur].Tokens, strconv.Itoa(int(v)))
					}
				}
			}
		}
		return true
	})
	// LiteralNames
	var lits []string
	initFd := findFuncDecl(pk, "", "fhirpathParserInit")
	if initFd == nil {
		return nil, nil, fmt.Errorf("anchor: fhirpathParserInit not found")
	}
	ast.Inspect(initFd.Body, func(n ast.Node) bool {
		as, ok := n.(*ast.AssignStmt)
		if !ok || len(as.Lhs) != 1 || len(as.Rhs) != 1 {
			return true
		}
		if sel, ok := as.Lhs[0].(*ast.SelectorExpr); ok && sel.Sel.Name == "LiteralNames" {
			if cl, ok := as.Rhs[0].(*ast.CompositeLit); ok {
				for _, e := range cl.Elts {
					if tv, ok := pk.TypesInfo.Types[e]; ok && tv.Value != nil {
						lits = append(lits, constant.StringVal(tv.Value))
					}
				}
			}
		}
		return true
	})
	if len(alts) < 10 || len(lits) < 20 {
		return nil, nil, fmt.Errorf("generated parser: only %d alternatives / %d literal names recognised", len(alts), len(lits))
	}
	return alts, lits, nil
}

func rulePARSE1(p *Program) *RuleResult {
	r := newResult("PARSE1")
	g, err := readG4(p)
	if err != nil {
		return r.anchorFail(err)
	}
	gen, lits, err := readGeneratedExpressionRule(p)
	if err != nil {
		return r.anchorFail(err)
	}
	exprRule := g.Rules["expression"]
	// (a) grammar alternative order = N1 precedence order, operator tokens per level
	var labels []string
	for _, a := range exprRule.Alts {
		labels = append(labels, a.Label)
	}
	if strings.Join(labels, ",") == strings.Join(n1Precedence, ",") {
		r.ok("g4|alternative-order", "the `expression` alternatives are in FHIRPath N1 precedence order", "fhirpath/internal/grammar/fhirpath.g4", "compared with the frozen N1 table (13 operator levels)", true)
	} else {
		r.bad("g4|alternative-order", "alternative order "+strings.Join(labels, ",")+" differs from the N1 precedence order", "fhirpath/internal/grammar/fhirpath.g4", "ANTLR derives precedence from the alternative order")
	}
	for _, a := range exprRule.Alts {
		want, ok := n1Operators[a.Label]
		if !ok {
			continue
		}
		r.count("operator_levels", 1)
		got := append([]string{}, a.OpTokens...)
		if a.Label == "invocationExpression" || a.Label == "indexerExpression" {
			got = got[:min(1, len(got))]
		}
		sort.Strings(got)
		w := append([]string{}, want...)
		sort.Strings(w)
		if strings.Join(got, " ") == strings.Join(w, " ") {
			r.ok("g4|tokens|"+a.Label, fmt.Sprintf("%s has operator tokens %v", a.Label, want), "fhirpath/internal/grammar/fhirpath.g4", "grammar tokens equal the N1 operator set of the level", false)
		} else {
			r.bad("g4|tokens|"+a.Label, fmt.Sprintf("%s has operator tokens %v, N1 has %v", a.Label, a.OpTokens, want), "fhirpath/internal/grammar/fhirpath.g4", "an operator is parsed at the wrong precedence level")
		}
	}
	// (b) generated LiteralNames = grammar literals in order of first appearance
	var glits []string
	for _, l := range lits {
		if l != "" {
			glits = append(glits, g4Unquote(l))
		}
	}
	if strings.Join(glits, "\x00") == strings.Join(g.Literals, "\x00") {
		r.ok("sync|LiteralNames", fmt.Sprintf("generated LiteralNames (%d) equal the grammar's literal tokens in order", len(glits)), "fhirpath/internal/grammar/fhirpath_parser.go", ".g4 ↔ generated parser sync", true)
	} else {
		r.bad("sync|LiteralNames", "generated LiteralNames differ from the grammar's literal tokens", "fhirpath/internal/grammar/fhirpath_parser.go", "the generated parser was not generated from this grammar (token numbering would be off)")
	}
	litIdx := map[string]int{}
	for i, l := range lits {
		if l != "" {
			litIdx[g4Unquote(l)] = i
		}
	}
	// (c) per alternative: precedence predicate and right-operand precedence
	byLabel := map[string]genAlt{}
	for _, a := range gen {
		if _, dup := byLabel[a.Label]; !dup {
			byLabel[a.Label] = a
		}
	}
	n := len(exprRule.Alts)
	for i, a := range exprRule.Alts {
		ga, ok := byLabel[a.Label]
		if !ok {
			r.bad("gen|"+a.Label+"|missing", "alternative "+a.Label+" has no context construction in the generated parser", "fhirpath/internal/grammar/fhirpath_parser.go", "grammar and generated parser are out of sync")
			continue
		}
		r.count("alternatives", 1)
		pos := p.pos(ga.Pos)
		wantK := n - i // ANTLR: precedence of alternative i (0-based) among n is n-i
		nExpr := 0
		for _, e := range a.Elems {
			if e == "expression" {
				nExpr++
			}
		}
		leftRec := len(a.Elems) > 0 && a.Elems[0] == "expression"
		key := "gen|" + a.Label
		switch {
		case a.Label == "termExpression":
			r.ok(key, "primary alternative", pos, "no precedence", false)
		case !leftRec:
			// prefix operator: recursive call with the alternative's own precedence
			if len(ga.RecCalls) == 1 && ga.RecCalls[0] == wantK {
				r.ok(key, fmt.Sprintf("%s: prefix operator, operand parsed with precedence %d", a.Label, wantK), pos, "p.expression(K) with K = position-derived precedence", true)
			} else {
				r.bad(key, fmt.Sprintf("%s: operand parsed with precedence %v, expected %d", a.Label, ga.RecCalls, wantK), pos, "prefix operator binds at the wrong level")
			}
		default:
			if ga.Precpred != wantK {
				r.bad(key+"|precpred", fmt.Sprintf("%s: Precpred level %d, expected %d", a.Label, ga.Precpred, wantK), pos, "operator precedence differs from the N1 table")
			} else {
				r.ok(key+"|precpred", fmt.Sprintf("%s: Precpred level %d", a.Label, ga.Precpred), pos, "level = position of the alternative in the grammar", true)
			}
			if nExpr == 2 && a.Label != "indexerExpression" {
				// binary operator: right operand at K+1 ⇒ left associative
				if len(ga.RecCalls) == 1 && ga.RecCalls[0] == wantK+1 {
					r.ok(key+"|assoc", fmt.Sprintf("%s: right operand parsed with precedence %d (left associative)", a.Label, wantK+1), pos, "K' = K+1", true)
				} else {
					r.bad(key+"|assoc", fmt.Sprintf("%s: right operand parsed with precedence %v, expected %d", a.Label, ga.RecCalls, wantK+1), pos, "the operator is not left associative: a op b op c groups as a op (b op c)")
				}
			}
			if a.Label == "indexerExpression" {
				if len(ga.RecCalls) == 1 && ga.RecCalls[0] == 0 {
					r.ok(key+"|inner", "indexer: bracketed expression parsed with precedence 0", pos, "any expression inside [ ]", false)
				} else {
					r.bad(key+"|inner", fmt.Sprintf("indexer: bracketed expression parsed with precedence %v", ga.RecCalls), pos, "the index expression is restricted")
				}
			}
		}
		// operator token set accepted by the generated code = grammar tokens
		if want := a.OpTokens; len(want) > 1 && len(ga.Masks) > 0 {
			var mask int64
			okIdx := true
			for _, t := range want {
				idx, ok := litIdx[t]
				if !ok {
					okIdx = false
				}
				mask |= 1 << uint(idx)
			}
			found := false
			for _, m := range ga.Masks {
				if m == mask {
					found = true
				}
			}
			if okIdx && found {
				r.ok(key+"|tokenset", fmt.Sprintf("%s: token-set mask %d = %v", a.Label, mask, want), pos, "bit mask over LiteralNames indices equals the grammar's operator set", true)
			} else {
				r.bad(key+"|tokenset", fmt.Sprintf("%s: token-set masks %v do not equal %d (%v)", a.Label, ga.Masks, mask, want), pos, "the generated parser accepts a different operator set at this level than the grammar")
			}
		}
	}
	r.floor("alternatives", 13)
	r.floor("operator_levels", 11)
	return r
}

// binary visitors
var binaryVisitors = []string{"VisitIndexerExpression", "VisitAdditiveExpression", "VisitMultiplicativeExpression", "VisitOrExpression",
	"VisitAndExpression", "VisitInequalityExpression", "VisitEqualityExpression", "VisitImpliesExpression"}

// visitCallInfo describes `recv.Visit(ctx.Expression(i))`.
type visitCallInfo struct {
	call   *ssa.Call
	cloned bool
	index  int // argument of ctx.Expression(i), -1 if not that shape
}

func visitCalls(fn *ssa.Function) []visitCallInfo {
	var out []visitCallInfo
	for _, b := range fn.Blocks {
		for _, ins := range b.Instrs {
			c, ok := ins.(*ssa.Call)
			if !ok {
				continue
			}
			sc := c.Common().StaticCallee()
			if sc == nil || sc.Name() != "Visit" || !strings.HasSuffix(fnPkgPath(sc), "/fhirpath/internal/parser") {
				continue
			}
			info := visitCallInfo{call: c, index: -1}
			if rc, ok := c.Common().Args[0].(*ssa.Call); ok {
				if rsc := rc.Common().StaticCallee(); rsc != nil && rsc.Name() == "clone" {
					info.cloned = true
				}
			}
			arg := stripIface(c.Common().Args[1])
			if ac, ok := arg.(*ssa.Call); ok {
				if asc := ac.Common().StaticCallee(); asc != nil && asc.Name() == "Expression" && len(ac.Common().Args) == 2 {
					if k, ok := ac.Common().Args[1].(*ssa.Const); ok && k.Value != nil {
						v, _ := constant.Int64Val(k.Value)
						info.index = int(v)
					}
				}
			}
			out = append(out, info)
		}
	}
	return out
}

// resultOrigin: which Visit call does this VisitResult.Result load come from?
func resultOrigin(v ssa.Value, depth int) *ssa.Call {
	if depth > 8 {
		return nil
	}
	switch x := v.(type) {
	case *ssa.UnOp:
		if fa, ok := x.X.(*ssa.FieldAddr); ok && fieldName(fa) == "Result" {
			return resultOrigin(fa.X, depth+1)
		}
	case *ssa.TypeAssert:
		return resultOrigin(x.X, depth+1)
	case *ssa.Call:
		return x
	case *ssa.Extract:
		return resultOrigin(x.Tuple, depth+1)
	}
	return nil
}

func rulePARSE23(p *Program) *RuleResult {
	r := newResult("PARSE2")
	vm, err := visitorMethods(p)
	if err != nil {
		return r.anchorFail(err)
	}
	env, err := newVisitorEnv(p)
	if err != nil {
		return r.anchorFail(err)
	}
	const op0, op1 = "operand:Expression(0)", "operand:Expression(1)"
	for _, name := range binaryVisitors {
		fn := vm[name]
		if fn == nil {
			return r.anchorFail(fmt.Errorf("anchor: %s not found", name))
		}
		r.count("binary_visitors", 1)
		toks := []string{""}
		if m, ok := operatorNodeMap[name]; ok {
			toks = sortedKeys(m)
		}
		cloneOK, cloneBad, leftCloned := false, "", false
		fieldsSeen := map[string]string{} // field key -> "" (ok) or problem
		nodes := 0
		for _, tok := range toks {
			vr := env.run(fn, tok, tok != "")
			for _, o := range vr.visits {
				switch {
				case o.arg == op1 && o.recv == "visitor:clone":
					cloneOK = true
				case o.arg == op1:
					cloneBad = "the right operand is visited by " + o.recv
				case o.arg == op0 && o.recv == "visitor:clone":
					leftCloned = true
				}
			}
			for _, ret := range vr.rets {
				if !ret.isVR || ret.err.k != kNil || ret.node.dyn == nil {
					continue
				}
				nodes++
				node := ret.node
				nt := nodeTypeName(node)
				check := func(field string, v aval, want string) {
					key := fmt.Sprintf("%s|*expr.%s.%s", name, nt, field)
					child, _ := visitedTag(v)
					if child == want {
						if _, seen := fieldsSeen[key]; !seen {
							fieldsSeen[key] = ""
						}
					} else {
						fieldsSeen[key] = fmt.Sprintf("%s of %s is %s, not the result of visiting %s (operator %q)", field, nt, v, want, tok)
					}
				}
				if l, ok := nodeField(node, "Left"); ok {
					check("Left", l, op0)
				}
				if rt, ok := nodeField(node, "Right"); ok {
					check("Right", rt, op1)
				}
				if es, ok := nodeField(node, "Expressions"); ok {
					if es.k == kSlice && len(es.elems) == 2 {
						check("sequence[0]", es.elems[0], op0)
						second := es.elems[1]
						if ix, ok := nodeField(second, "Index"); ok {
							key := fmt.Sprintf("%s|*expr.%s.Index", name, nodeTypeName(second))
							if child, _ := visitedTag(ix); child == op1 {
								if _, seen := fieldsSeen[key]; !seen {
									fieldsSeen[key] = ""
								}
							} else {
								fieldsSeen[key] = fmt.Sprintf("Index is %s, not the result of visiting %s", ix, op1)
							}
						} else {
							fieldsSeen[name+"|sequence[1]"] = "the second element of the sequence is " + second.String() + ", not an index node"
						}
					} else {
						fieldsSeen[name+"|sequence"] = "the sequence is " + es.String()
					}
				}
			}
		}
		// PARSE3: right operand visited with a clone, left with the visitor itself
		switch {
		case cloneBad != "":
			r.bad(name+"|clone", name+": "+cloneBad, p.pos(fn.Pos()), "a resource type name at the start of the right operand is taken for a field name (root flag already set by the left operand)")
		case cloneOK:
			r.ok(name+"|clone", name+": the right operand is visited with v.clone()", p.pos(fn.Pos()), "the Visit of Expression(1) is observed with the clone as its receiver", true)
		default:
			r.undecided(name+"|shape", "no visit of ctx.Expression(1) observed", p.pos(fn.Pos()), "unsupported shape")
		}
		if leftCloned {
			r.note("%s: the left operand is also visited with a clone", name)
		}
		if nodes == 0 || len(fieldsSeen) == 0 {
			r.undecided(name+"|shape", "no node with operand fields is handed back", p.pos(fn.Pos()), "unsupported shape")
			continue
		}
		var keys []string
		for k := range fieldsSeen {
			keys = append(keys, k)
		}
		sort.Strings(keys)
		for _, k := range keys {
			if fieldsSeen[k] == "" {
				r.ok(k, name+": the operand field holds the result of visiting the matching child", p.pos(fn.Pos()), "provenance of the node field (tags carried by the modelled Visit results)", true)
			} else {
				r.bad(k, name+": "+fieldsSeen[k], p.pos(fn.Pos()), "operands swapped: a op b is compiled as b op a")
			}
		}
	}
	// invocation expression: [left, right] with ctx.Expression() and ctx.Invocation()
	if fn := vm["VisitInvocationExpression"]; fn != nil {
		vr := env.run(fn, "", false)
		var order []string
		for _, ret := range vr.rets {
			if !ret.isVR || ret.err.k != kNil {
				continue
			}
			if es, ok := nodeField(ret.node, "Expressions"); ok && es.k == kSlice {
				for i, e := range es.elems {
					child, _ := visitedTag(e)
					order = append(order, fmt.Sprintf("%d=%s", i, strings.TrimSuffix(strings.TrimPrefix(child, "operand:"), "()")))
				}
			}
		}
		if strings.Join(order, ",") == "0=Expression,1=Invocation" {
			r.ok("VisitInvocationExpression|sequence", "a.b compiles to the sequence [a, b]", p.pos(fn.Pos()), "provenance of the slice elements", true)
		} else {
			r.bad("VisitInvocationExpression|sequence", "a.b compiles to "+strings.Join(order, ","), p.pos(fn.Pos()), "the invocation chain is evaluated in the wrong order")
		}
	}
	r.floor("binary_visitors", 8)
	return r
}

// PARSE4: operator → node map.
type nodeSpec struct {
	node string
	op   string // Op function / operator constant / Not flag
}

var operatorNodeMap = map[string]map[string]nodeSpec{
	"VisitAdditiveExpression":       {"+": {"ArithmeticExpression", "EvaluateAdd"}, "-": {"ArithmeticExpression", "EvaluateSub"}, "&": {"ConcatExpression", ""}},
	"VisitMultiplicativeExpression": {"*": {"ArithmeticExpression", "EvaluateMul"}, "/": {"ArithmeticExpression", "EvaluateDiv"}, "div": {"ArithmeticExpression", "EvaluateFloorDiv"}, "mod": {"ArithmeticExpression", "EvaluateMod"}},
	"VisitEqualityExpression":       {"=": {"EqualityExpression", "Not=false"}, "!=": {"EqualityExpression", "Not=true"}, "~": {"error", ""}, "!~": {"error", ""}},
	"VisitInequalityExpression":     {"<": {"ComparisonExpression", "<"}, "<=": {"ComparisonExpression", "<="}, ">": {"ComparisonExpression", ">"}, ">=": {"ComparisonExpression", ">="}},
	"VisitTypeExpression":           {"is": {"IsExpression", ""}, "as": {"AsExpression", ""}},
	"VisitOrExpression":             {"or": {"BooleanExpression", "or"}, "xor": {"BooleanExpression", "xor"}},
	"VisitAndExpression":            {"": {"BooleanExpression", "and"}},
	"VisitImpliesExpression":        {"": {"BooleanExpression", "implies"}},
	"VisitPolarityExpression":       {"-": {"NegationExpression", ""}, "+": {"passthrough", ""}},
}

func rulePARSE4(p *Program) *RuleResult {
	r := newResult("PARSE4")
	vm, err := visitorMethods(p)
	if err != nil {
		return r.anchorFail(err)
	}
	var names []string
	for n := range operatorNodeMap {
		names = append(names, n)
	}
	sort.Strings(names)
	env, err := newVisitorEnv(p)
	if err != nil {
		return r.anchorFail(err)
	}
	for _, name := range names {
		fn := vm[name]
		if fn == nil {
			return r.anchorFail(fmt.Errorf("anchor: %s not found", name))
		}
		for _, tok := range sortedKeys(operatorNodeMap[name]) {
			want := operatorNodeMap[name][tok]
			r.count("operator_tokens", 1)
			vr := env.run(fn, tok, tok != "")
			key := fmt.Sprintf("%s|%q", name, tok)
			if tok != "" && vr.tokReads == 0 {
				r.undecided(name+"|"+tok, "operator token read not found", p.pos(fn.Pos()), "unsupported shape")
				continue
			}
			// the node handed back
			got := nodeSpec{node: "error"}
			var others []string
			for _, ret := range vr.rets {
				switch {
				case !ret.isVR:
					others = append(others, "?"+ret.raw.String())
				case ret.err.k != kNil:
					// error result
				case ret.node.dyn != nil:
					g := nodeSpec{node: nodeTypeName(ret.node), op: opOfNode(ret.node)}
					if got.node != "error" && got != g {
						others = append(others, g.node+" "+g.op)
					}
					got = g
				default:
					if child, _ := visitedTag(ret.node); child != "" {
						got = nodeSpec{node: "passthrough"}
					} else {
						got = nodeSpec{node: "?" + ret.node.String()}
					}
				}
			}
			desc := fmt.Sprintf("%s %q → %s %s (want %s %s)", strings.TrimPrefix(name, "Visit"), tok, got.node, got.op, want.node, want.op)
			if got == want && len(others) == 0 {
				r.ok(key, desc, p.pos(fn.Pos()), "SCCP with the operator token pinned; node type and operator read from the node handed back", true)
			} else {
				if len(others) > 0 {
					desc += fmt.Sprintf("; also %v", others)
				}
				r.bad(key, desc, p.pos(fn.Pos()), "the operator is compiled to the wrong node / operation")
			}
		}
	}
	// EvaluateX dispatches to method X on every operand type
	for _, pair := range [][2]string{{"EvaluateAdd", "Add"}, {"EvaluateSub", "Sub"}, {"EvaluateMul", "Mul"}, {"EvaluateDiv", "Div"}, {"EvaluateFloorDiv", "FloorDiv"}, {"EvaluateMod", "Mod"}} {
		fn, err := p.Func("fhirpath/internal/expr", pair[0])
		if err != nil {
			return r.anchorFail(err)
		}
		var wrong []string
		n := 0
		for _, b := range fn.Blocks {
			for _, ins := range b.Instrs {
				c, ok := ins.(*ssa.Call)
				if !ok {
					continue
				}
				sc := c.Common().StaticCallee()
				if sc == nil || !strings.HasSuffix(fnPkgPath(sc), "/fhirpath/system") || sc.Signature.Recv() == nil {
					continue
				}
				if sc.Name() == "IsZero" {
					continue
				}
				n++
				if sc.Name() != pair[1] {
					wrong = append(wrong, short(sc))
				}
			}
		}
		r.count("dispatch_functions", 1)
		if n > 0 && len(wrong) == 0 {
			r.ok(pair[0]+"|dispatch", fmt.Sprintf("%s calls only the %s methods (%d operand types)", pair[0], pair[1], n), p.pos(fn.Pos()), "name agreement", true)
		} else {
			r.bad(pair[0]+"|dispatch", fmt.Sprintf("%s calls %v", pair[0], wrong), p.pos(fn.Pos()), "the operator dispatches to a different operation for some operand type")
		}
	}
	r.floor("operator_tokens", 20)
	return r
}

// nodeOp reads the operator configuration stored into the freshly built node.
func nodeOp(fn *ssa.Function, res *result, nodeType string) string {
	for _, b := range fn.Blocks {
		if !res.execBlock[b.Index] {
			continue
		}
		for _, ins := range b.Instrs {
			st, ok := ins.(*ssa.Store)
			if !ok {
				continue
			}
			fa, ok := st.Addr.(*ssa.FieldAddr)
			if !ok || fa.X.Type().String() != nodeType {
				continue
			}
			switch fieldName(fa) {
			case "Op":
				v := res.val(st.Val)
				if v.fn != nil {
					return v.fn.Name()
				}
				if v.k == kConst && v.c.Kind() == constant.String {
					return constant.StringVal(v.c)
				}
				return "?" + v.String()
			case "Not":
				v := res.val(st.Val)
				if v.k == kConst && v.c.Kind() == constant.Bool {
					return fmt.Sprintf("Not=%v", constant.BoolVal(v.c))
				}
			}
		}
	}
	if strings.HasSuffix(nodeType, "EqualityExpression") {
		return "Not=false"
	}
	return ""
}

// PARSE5 + PARSE6
func rulePARSE56(p *Program) *RuleResult {
	r := newResult("PARSE5")
	g, err := readG4(p)
	if err != nil {
		return r.anchorFail(err)
	}
	// prog: expression EOF
	prog := g.Rules["prog"]
	if len(prog.Alts) == 1 && strings.Join(prog.Alts[0].Elems, " ") == "expression EOF" {
		r.ok("g4|prog", "prog: expression EOF", "fhirpath/internal/grammar/fhirpath.g4", "the start rule requires end of input", false)
	} else {
		r.bad("g4|prog", "prog is not `expression EOF`", "fhirpath/internal/grammar/fhirpath.g4", "trailing text after a complete expression would be accepted")
	}
	// hidden-channel rules
	for _, n := range []string{"WS", "COMMENT", "LINE_COMMENT"} {
		rule := g.Rules[n]
		if rule != nil && rule.Hidden {
			r.ok("g4|hidden|"+n, n+" is routed to the hidden channel", "fhirpath/internal/grammar/fhirpath.g4", "grammar lexer command", false)
		} else {
			r.bad("g4|hidden|"+n, n+" is not routed to the hidden channel", "fhirpath/internal/grammar/fhirpath.g4", "whitespace/comments between tokens would change the parse")
		}
	}
	// generated Prog(): expression(0) then Match(EOF)
	gp := p.ByPath[mod+"/fhirpath/internal/grammar"]
	fd := findFuncDecl(gp, "fhirpathParser", "Prog")
	if fd == nil {
		return r.anchorFail(fmt.Errorf("anchor: (*fhirpathParser).Prog not found"))
	}
	var seq []string
	ast.Inspect(fd.Body, func(n ast.Node) bool {
		if c, ok := n.(*ast.CallExpr); ok {
			if sel, ok := c.Fun.(*ast.SelectorExpr); ok {
				switch sel.Sel.Name {
				case "expression":
					seq = append(seq, "expression")
				case "Match":
					if len(c.Args) == 1 {
						if id, ok := c.Args[0].(*ast.Ident); ok {
							seq = append(seq, "Match("+id.Name+")")
						}
					}
				}
			}
		}
		return true
	})
	if strings.Join(seq, ",") == "expression,Match(fhirpathParserEOF)" {
		r.ok("gen|Prog", "generated Prog(): expression then Match(EOF)", p.pos(fd.Pos()), "AST of the generated parser", true)
	} else {
		r.bad("gen|Prog", "generated Prog() is "+strings.Join(seq, ","), p.pos(fd.Pos()), "the generated start rule does not require end of input")
	}
	// compile.Tree
	tree, err := p.Func("fhirpath/internal/compile", "Tree")
	if err != nil {
		return r.anchorFail(err)
	}
	var calls []string
	var listenerAlloc *ssa.Alloc
	var progCall, errCall *ssa.Call
	removed := map[string]bool{}
	added := map[string]ssa.Value{}
	for _, b := range tree.Blocks {
		for _, ins := range b.Instrs {
			switch x := ins.(type) {
			case *ssa.Alloc:
				if strings.HasSuffix(typeShort(x.Type()), "FHIRPathErrorListener") {
					listenerAlloc = x
				}
			case *ssa.Call:
				cc := x.Common()
				var name, recvT string
				if cc.IsInvoke() {
					name, recvT = cc.Method.Name(), typeShort(cc.Value.Type())
				} else if sc := cc.StaticCallee(); sc != nil {
					name = sc.Name()
					if len(cc.Args) > 0 {
						recvT = typeShort(cc.Args[0].Type())
					}
				}
				calls = append(calls, name)
				side := ""
				switch {
				case strings.Contains(recvT, "Lexer"):
					side = "lexer"
				case strings.Contains(recvT, "Parser"):
					side = "parser"
				}
				if side == "" && !cc.IsInvoke() && len(cc.Args) > 0 {
					// promoted method: trace the receiver back to the constructor call
					root := cc.Args[0]
					for i := 0; i < 6; i++ {
						switch y := root.(type) {
						case *ssa.FieldAddr:
							root = y.X
							continue
						case *ssa.UnOp:
							root = y.X
							continue
						}
						break
					}
					if rc, ok := root.(*ssa.Call); ok && rc.Common().StaticCallee() != nil {
						cn := rc.Common().StaticCallee().Name()
						switch {
						case strings.Contains(cn, "Lexer"):
							side = "lexer"
						case strings.Contains(cn, "Parser"):
							side = "parser"
						}
					}
				}
				switch name {
				case "RemoveErrorListeners":
					removed[side] = true
				case "AddErrorListener":
					if len(cc.Args) > 0 {
						added[side] = stripIface(cc.Args[len(cc.Args)-1])
					}
				case "Prog":
					progCall = x
				case "Error":
					if strings.Contains(recvT, "FHIRPathErrorListener") {
						errCall = x
					}
				}
			}
		}
	}
	for _, side := range []string{"lexer", "parser"} {
		key := "compile.Tree|listener|" + side
		if removed[side] && listenerAlloc != nil && added[side] == ssa.Value(listenerAlloc) {
			r.ok(key, "the "+side+"'s default listeners are removed and the collecting listener installed", p.pos(tree.Pos()), "call inventory of compile.Tree", true)
		} else {
			r.bad(key, fmt.Sprintf("the %s error listener set-up is incomplete (removed=%v, installed=%v)", side, removed[side], added[side] != nil), p.pos(tree.Pos()), "syntax errors of the "+side+" are printed/ignored instead of failing Compile")
		}
	}
	if progCall == nil {
		r.bad("compile.Tree|start-rule", "compile.Tree does not parse with Prog()", p.pos(tree.Pos()), "parsing with another rule does not require end of input")
	} else {
		r.ok("compile.Tree|start-rule", "compile.Tree parses with Prog()", p.instrPos(progCall), "start rule", true)
	}
	// the error is tested on every path to the success return
	if errCall == nil || progCall == nil {
		r.bad("compile.Tree|error-checked", "the listener's Error() is not consulted", p.pos(tree.Pos()), "syntax errors are lost")
	} else {
		okAll := dominatesInstr(progCall, errCall)
		for _, b := range tree.Blocks {
			ret, ok := b.Instrs[len(b.Instrs)-1].(*ssa.Return)
			if !ok {
				continue
			}
			// success return: error result is nil constant
			if c, ok := ret.Results[1].(*ssa.Const); ok && c.IsNil() {
				if !nilGuardedErr(tree, errCall, ret) {
					okAll = false
				}
			}
		}
		if okAll {
			r.ok("compile.Tree|error-checked", "the success return is dominated by Error() == nil, consulted after Prog()", p.instrPos(errCall), "dominance", true)
		} else {
			r.bad("compile.Tree|error-checked", "a success return is reachable without the listener's error being nil", p.instrPos(errCall), "a source with syntax errors compiles")
		}
	}
	// PARSE6: String() returns the field Compile stores from its parameter
	for _, pkg := range []string{"fhirpath", "fhirpath/patch"} {
		comp, err := p.Func(pkg, "Compile")
		if err != nil {
			return r.anchorFail(err)
		}
		str, err := p.Method(pkg, "Expression", "String")
		if err != nil {
			return r.anchorFail(err)
		}
		// Compile is analysed on a marked source text with configuration, parsing and
		// visiting answering success; String() is then analysed on the Expression handed back
		env, err := newVisitorEnv(p)
		if err != nil {
			return r.anchorFail(err)
		}
		const marker = "«the source text»"
		an := newAnalyzer()
		an.maxBlocks = 300
		an.snapshots = true
		an.fnModel = func(sc *ssa.Function, args []aval) (aval, bool) {
			switch {
			case sc.Name() == "PopulateConfig" && inRepoFn(sc):
				return aval{k: kTuple, tup: []aval{nonnil("config"), {k: kNil}}}, true
			case sc.Name() == "Tree" && strings.HasSuffix(fnPkgPath(sc), "/internal/compile"):
				return aval{k: kTuple, tup: []aval{nonnil("tree"), {k: kNil}}}, true
			case sc.Name() == "Visit" && sc.Signature.Recv() != nil && namedName(sc.Signature.Recv().Type()) == "FHIRPathVisitor":
				st := aval{k: kStruct, elems: make([]aval, env.vrType.Underlying().(*types.Struct).NumFields())}
				for i := range st.elems {
					st.elems[i] = top
				}
				st.elems[env.resIdx] = nonnil("compiled-node")
				st.elems[env.errIdx] = aval{k: kNil}
				out := ptrTo(st)
				out.dyn = env.vrPtr
				return out, true
			}
			return aval{}, false
		}
		res := an.analyze(comp, []aval{cStr(marker), top})
		key := pkg + "|String"
		var exprs []aval
		for _, ri := range res.rets {
			if len(ri.vals) == 2 && ri.vals[1].k == kNil {
				exprs = append(exprs, ri.vals[0])
			}
		}
		if len(exprs) == 0 {
			r.undecided(key, pkg+": no successful return of Compile could be analysed", p.pos(comp.Pos()), "unsupported shape")
			continue
		}
		okAll := true
		got := ""
		for _, e := range exprs {
			an2 := newAnalyzer()
			an2.maxBlocks = 100
			v, isStr := constStr(an2.analyze(str, []aval{e}).joinedReturn())
			if !isStr || v != marker {
				okAll = false
				got = fmt.Sprintf("%v", an2.analyze(str, []aval{e}).joinedReturn())
			}
		}
		if okAll {
			r.ok(key, pkg+": String() of the Expression that Compile hands back is the source text it was given", p.pos(str.Pos()), "constant propagation through Compile and String() on a marked source text", true)
		} else {
			r.bad(key, fmt.Sprintf("%s: String() of a compiled expression yields %s, not the source text", pkg, got), p.pos(str.Pos()), "String() does not return the source text verbatim")
		}
	}
	return r
}

// nilGuardedErr: `at` is only reachable when the result of errCall is nil.
func nilGuardedErr(fn *ssa.Function, errCall *ssa.Call, at ssa.Instruction) bool {
	for _, b := range fn.Blocks {
		ifi, ok := b.Instrs[len(b.Instrs)-1].(*ssa.If)
		if !ok {
			continue
		}
		bo, ok := ifi.Cond.(*ssa.BinOp)
		if !ok || (bo.Op != token.NEQ && bo.Op != token.EQL) || bo.X != ssa.Value(errCall) {
			continue
		}
		nilEdge := 1
		if bo.Op == token.EQL {
			nilEdge = 0
		}
		if edgeDominates(b, nilEdge, at.Block()) {
			return true
		}
	}
	return false
}

// PARSE7: the lexer reads the source text itself: the argument of
// antlr.NewInputStream in compile.Tree is the function's parameter, not a
// transformed copy (token boundaries — line ends terminating `//` comments,
// characters inside string literals — depend on every character).
func rulePARSE7(p *Program) *RuleResult {
	r := newResult("PARSE7")
	fn, err := p.Func("fhirpath/internal/compile", "Tree")
	if err != nil {
		return r.anchorFail(err)
	}
	n := 0
	for _, b := range fn.Blocks {
		for _, ins := range b.Instrs {
			c, ok := ins.(*ssa.Call)
			if !ok || c.Common().StaticCallee() == nil {
				continue
			}
			name := c.Common().StaticCallee().RelString(nil)
			if !strings.HasSuffix(name, "antlr/v4.NewInputStream") && !strings.HasSuffix(name, "antlr/v4.NewIoStream") && !strings.HasSuffix(name, "antlr/v4.NewFileStream") {
				continue
			}
			n++
			arg := c.Common().Args[0]
			okSrc := false
			if pr, ok := arg.(*ssa.Parameter); ok && len(fn.Params) > 0 && pr == fn.Params[0] {
				okSrc = true
			}
			if ld, ok := arg.(*ssa.UnOp); ok {
				// spilled parameter: a local cell written once with the parameter
				if al, ok := ld.X.(*ssa.Alloc); ok && storesTo(al) == 1 {
					for _, ref := range *al.Referrers() {
						if st, ok := ref.(*ssa.Store); ok && st.Addr == ssa.Value(al) {
							if pr, ok := st.Val.(*ssa.Parameter); ok && pr == fn.Params[0] {
								okSrc = true
							}
						}
					}
				}
			}
			if okSrc {
				r.ok("compile.Tree|input stream", "the ANTLR input stream is built from the source parameter itself", p.instrPos(ins), "argument provenance", true)
			} else {
				r.bad("compile.Tree|input stream", "the ANTLR input stream is built from "+valDescr(arg)+", not from the source text as given", p.instrPos(ins),
					"a rewritten source changes token boundaries (line comments end at the line break, string literals keep their characters): two renderings of one tree no longer compile alike")
			}
		}
	}
	if n != 1 {
		r.undecided("compile.Tree|input stream", fmt.Sprintf("%d ANTLR input streams are created in compile.Tree (1 expected)", n), p.pos(fn.Pos()), "shape changed")
	}
	return r
}

// PARSE8: the root-tracking state of the visitor is reset (clone()) exactly for
// the second operand `Expression(1)` of a binary or indexer alternative; every
// other child — in particular the inside of a parenthesised term — is visited
// with the visitor itself, so that redundant parentheses cannot change how an
// identifier resolves.
func rulePARSE8(p *Program) *RuleResult {
	r := newResult("PARSE8")
	sp, err := p.Pkg("fhirpath/internal/parser")
	if err != nil {
		return r.anchorFail(err)
	}
	vm, err := visitorMethods(p)
	if err != nil {
		return r.anchorFail(err)
	}
	env, err := newVisitorEnv(p)
	if err != nil {
		return r.anchorFail(err)
	}
	clone, err := p.Method("fhirpath/internal/parser", "FHIRPathVisitor", "clone")
	if err != nil {
		return r.anchorFail(err)
	}
	binary := map[string]bool{}
	for _, n := range binaryVisitors {
		binary[n] = true
	}
	var names []string
	for n := range vm {
		names = append(names, n)
	}
	sort.Strings(names)
	// functions the harness covers: the visitor methods and what they call directly
	covered := map[*ssa.Function]bool{}
	var cover func(fn *ssa.Function, depth int)
	cover = func(fn *ssa.Function, depth int) {
		if covered[fn] || depth > 6 {
			return
		}
		covered[fn] = true
		for _, b := range fn.Blocks {
			for _, ins := range b.Instrs {
				if c, ok := ins.(ssa.CallInstruction); ok {
					if sc := c.Common().StaticCallee(); sc != nil && sc.Pkg == sp {
						cover(sc, depth+1)
					}
				}
			}
		}
		for _, a := range fn.AnonFuncs {
			cover(a, depth+1)
		}
	}
	for _, name := range names {
		fn := vm[name]
		if fn.Pkg != sp || len(fn.Blocks) == 0 {
			continue
		}
		cover(fn, 0)
		vr := env.run(fn, "", false)
		for _, o := range vr.visits {
			if o.recv != "visitor:clone" {
				continue
			}
			r.count("clone_sites", 1)
			key := fmt.Sprintf("%s|clone→%s", name, strings.TrimPrefix(o.arg, "operand:"))
			if binary[name] && o.arg == "operand:Expression(1)" {
				r.ok(key, name+" resets the visitor only for its second operand Expression(1)", p.pos(fn.Pos()), "the only Visit observed with the clone as receiver is that of ctx.Expression(1)", true)
			} else {
				r.bad(key, name+" visits a child other than the second operand of a binary/indexer alternative with a reset visitor", p.pos(fn.Pos()),
					"the child is compiled as if it started a new expression: parentheses or term boundaries change how identifiers resolve, so two renderings of one tree evaluate differently")
			}
		}
	}
	// every use of clone() lies in code the harness analysed, as the receiver of a Visit
	for _, fn := range p.RepoFuncs() {
		if fn.Pkg != sp {
			continue
		}
		for _, b := range fn.Blocks {
			for _, ins := range b.Instrs {
				c, ok := ins.(*ssa.Call)
				if !ok || c.Common().StaticCallee() != clone {
					continue
				}
				r.count("clone_calls", 1)
				key := short(fn) + "|clone-call"
				okUse := covered[fn] && c.Referrers() != nil
				if okUse {
					for _, ref := range *c.Referrers() {
						if _, dbg := ref.(*ssa.DebugRef); dbg {
							continue
						}
						vc, isCall := ref.(*ssa.Call)
						if !isCall || vc.Common().StaticCallee() == nil || vc.Common().StaticCallee().Name() != "Visit" || len(vc.Common().Args) != 2 || vc.Common().Args[0] != ssa.Value(c) {
							okUse = false
						}
					}
				}
				if okUse {
					r.ok(key, "the clone made in "+short(fn)+" is only the receiver of a Visit, in code reached from the visitor methods", p.instrPos(ins), "use of the clone() result", true)
				} else {
					r.bad(key, "a clone made in "+short(fn)+" is used otherwise than as the receiver of a Visit in a visitor method", p.instrPos(ins), "a reset visitor outside the binary-operand protocol")
				}
			}
		}
	}
	r.floor("clone_sites", 4)
	return r
}
