package main

// EN-LOAD / EN-CG: loading of /repo's current working tree, SSA construction,
// call graph and entry sets.  Nothing under /repo is executed.

import (
	"fmt"
	"go/ast"
	"go/token"
	"go/types"
	"os"
	"path/filepath"
	"sort"
	"strings"
	"time"

	"golang.org/x/tools/go/callgraph"
	"golang.org/x/tools/go/callgraph/cha"
	"golang.org/x/tools/go/callgraph/vta"
	"golang.org/x/tools/go/packages"
	"golang.org/x/tools/go/ssa"
	"golang.org/x/tools/go/ssa/ssautil"
)

const mod = "github.com/verily-src/fhirpath-go"

// Program is the loaded, type-checked and SSA-converted repository.
type Program struct {
	RepoDir string
	Arch    string
	Fset    *token.FileSet
	Pkgs    []*packages.Package          // root (repo) packages
	ByPath  map[string]*packages.Package // every package in the import closure
	Prog    *ssa.Program
	SSAPkg  map[string]*ssa.Package
	AllFns  map[*ssa.Function]bool

	cg           *callgraph.Graph
	reachMem     map[string]map[*ssa.Function]bool
	callSites    map[*ssa.Function][]*ssa.Call // direct call sites by callee (directCallSites)
	usedAsValue  map[*ssa.Function]bool
	constMaps    map[string]map[string]aval // allConstMaps
	anchors      *anchorDB                  // fingerprints.go
	aliasMap     map[string][]string        // keyAliases
	constGlobals map[*ssa.Global]*aval      // constGlobalValue
	LoadS        float64
}

func repoDir() string {
	if d := os.Getenv("FPSA_REPO"); d != "" {
		return d
	}
	return "/repo"
}

// Load loads ./... of the repository for the given GOARCH ("" = amd64).
// theProgram: the program being analysed (for helpers that follow a value to its call sites).
var theProgram *Program

func Load(arch string) (*Program, error) {
	t0 := time.Now()
	if arch == "" {
		arch = "amd64"
	}
	env := append(os.Environ(),
		"GOFLAGS=-mod=mod", "GOPROXY=off", "GOSUMDB=off", "GOTOOLCHAIN=local",
		"GOWORK=off", "GOARCH="+arch, "CGO_ENABLED=0")
	cfg := &packages.Config{
		Mode:  packages.LoadAllSyntax,
		Dir:   repoDir(),
		Tests: false,
		Env:   env,
		// synthetic, in-memory only: reference every instantiation of the generic
		// narrowing helpers so that go/ssa builds their bodies (LIT4). Nothing is
		// written to the repository and nothing here is ever executed.
		Overlay: instantiationOverlay(repoDir()),
	}
	pkgs, err := packages.Load(cfg, "./...")
	if err != nil {
		return nil, fmt.Errorf("load: %w", err)
	}
	if len(pkgs) < 30 {
		return nil, fmt.Errorf("load: only %d packages loaded (expected >= 30)", len(pkgs))
	}
	var errs []string
	packages.Visit(pkgs, nil, func(p *packages.Package) {
		for _, e := range p.Errors {
			errs = append(errs, e.Error())
		}
	})
	if len(errs) > 0 {
		sort.Strings(errs)
		if len(errs) > 10 {
			errs = errs[:10]
		}
		return nil, fmt.Errorf("load: package errors:\n  %s", strings.Join(errs, "\n  "))
	}
	p := &Program{RepoDir: repoDir(), Arch: arch, Pkgs: pkgs, ByPath: map[string]*packages.Package{},
		SSAPkg: map[string]*ssa.Package{}, reachMem: map[string]map[*ssa.Function]bool{}}
	packages.Visit(pkgs, nil, func(pk *packages.Package) { p.ByPath[pk.PkgPath] = pk })
	p.Fset = pkgs[0].Fset
	prog, _ := ssautil.AllPackages(pkgs, ssa.InstantiateGenerics)
	prog.Build()
	p.Prog = prog
	for _, sp := range prog.AllPackages() {
		p.SSAPkg[sp.Pkg.Path()] = sp
	}
	p.AllFns = ssautil.AllFunctions(prog)
	p.LoadS = time.Since(t0).Seconds()
	theProgram = p
	return p, nil
}

// fnPkgPath returns the package path of fn (through Origin for instances and
// through Parent for anonymous functions).
func fnPkgPath(fn *ssa.Function) string {
	for f := fn; f != nil; f = f.Parent() {
		if f.Pkg != nil {
			return f.Pkg.Pkg.Path()
		}
		if o := f.Origin(); o != nil && o.Pkg != nil {
			return o.Pkg.Pkg.Path()
		}
	}
	if fn.Object() != nil && fn.Object().Pkg() != nil {
		return fn.Object().Pkg().Path()
	}
	return ""
}

func inRepoPath(path string) bool {
	return path == mod || strings.HasPrefix(path, mod+"/")
}

// isTestSupport marks packages that are not part of what a user evaluates
// through the API (test helpers, generated grammar).
func isTestSupportPath(p string) bool {
	return strings.HasSuffix(p, "/fhirtest") || strings.HasSuffix(p, "/stablerand") ||
		strings.HasSuffix(p, "/exprtest") || strings.HasSuffix(p, "/fhirpathtest") ||
		strings.HasSuffix(p, "/funcs/impl/impltest")
}

func isGrammarPath(p string) bool { return strings.HasSuffix(p, "/fhirpath/internal/grammar") }

// inRepoFn: a repository function that is neither generated grammar code.
func inRepoFn(fn *ssa.Function) bool {
	p := fnPkgPath(fn)
	return inRepoPath(p) && !isGrammarPath(p)
}

// short renders a function name without the module prefix.
func short(fn *ssa.Function) string {
	return strings.ReplaceAll(fn.RelString(nil), mod+"/", "")
}

func (p *Program) pos(pos token.Pos) string {
	if !pos.IsValid() {
		return "-"
	}
	ps := p.Fset.Position(pos)
	f := strings.TrimPrefix(ps.Filename, p.RepoDir+"/")
	return fmt.Sprintf("%s:%d", f, ps.Line)
}

// instrPos finds a usable position for an instruction (falls back to the
// nearest instruction with a position in the same block, then the function).
func (p *Program) instrPos(ins ssa.Instruction) string {
	if ins.Pos().IsValid() {
		return p.pos(ins.Pos())
	}
	for _, op := range ins.Operands(nil) {
		if *op != nil && (*op).Pos().IsValid() {
			if _, isFn := (*op).(*ssa.Function); !isFn {
				return p.pos((*op).Pos())
			}
		}
	}
	b := ins.Block()
	if b != nil {
		for _, i := range b.Instrs {
			if i.Pos().IsValid() {
				return p.pos(i.Pos())
			}
		}
		return p.pos(b.Parent().Pos())
	}
	return "-"
}

// Pkg returns the ssa package with a path relative to the module
// (e.g. "fhirpath/internal/expr"); error if it does not resolve.
func (p *Program) Pkg(rel string) (*ssa.Package, error) {
	path := mod
	if rel != "" {
		path = mod + "/" + rel
	}
	sp := p.SSAPkg[path]
	if sp == nil {
		return nil, fmt.Errorf("anchor: package %s not found", path)
	}
	return sp, nil
}

// Func resolves a package-level function "rel/pkg.Name".
func (p *Program) Func(rel, name string) (*ssa.Function, error) {
	sp, err := p.Pkg(rel)
	if err != nil {
		return nil, err
	}
	f := sp.Func(name)
	if f == nil {
		if !token.IsExported(name) {
			if g := p.resolveFuncByFingerprint(rel, "", name); g != nil {
				return g, nil
			}
		}
		return nil, fmt.Errorf("anchor: func %s.%s not found", rel, name)
	}
	return f, nil
}

// Method resolves a method on named type T (value or pointer receiver).
func (p *Program) Method(rel, typ, name string) (*ssa.Function, error) {
	sp, err := p.Pkg(rel)
	if err != nil {
		return nil, err
	}
	t := sp.Type(typ)
	if t == nil {
		return nil, fmt.Errorf("anchor: type %s.%s not found", rel, typ)
	}
	for _, rt := range []types.Type{t.Type(), types.NewPointer(t.Type())} {
		ms := p.Prog.MethodSets.MethodSet(rt)
		for i := 0; i < ms.Len(); i++ {
			if ms.At(i).Obj().Name() == name {
				if f := p.Prog.MethodValue(ms.At(i)); f != nil {
					// unwrap promoted/wrapper methods to the declared one when in repo
					return f, nil
				}
			}
		}
	}
	if !token.IsExported(name) {
		if g := p.resolveFuncByFingerprint(rel, typ, name); g != nil {
			return g, nil
		}
	}
	return nil, fmt.Errorf("anchor: method %s.%s.%s not found", rel, typ, name)
}

// Global resolves a package-level variable.
func (p *Program) Global(rel, name string) (*ssa.Global, error) {
	sp, err := p.Pkg(rel)
	if err != nil {
		return nil, err
	}
	g, _ := sp.Members[name].(*ssa.Global)
	if g == nil && !token.IsExported(name) {
		if nn := p.resolveVarByFingerprint(rel, name); nn != "" {
			g, _ = sp.Members[nn].(*ssa.Global)
		}
	}
	if g == nil {
		return nil, fmt.Errorf("anchor: var %s.%s not found", rel, name)
	}
	return g, nil
}

// RepoFuncs lists every function (incl. methods, closures, instances) whose
// package is a repository package, deterministic order.
func (p *Program) RepoFuncs() []*ssa.Function {
	var out []*ssa.Function
	for fn := range p.AllFns {
		if inRepoFn(fn) && len(fn.Blocks) > 0 {
			out = append(out, fn)
		}
	}
	sort.Slice(out, func(i, j int) bool { return fnKey(out[i]) < fnKey(out[j]) })
	return out
}

func fnKey(fn *ssa.Function) string { return fn.RelString(nil) + "#" + fmt.Sprint(fn.Pos()) }

// CG builds (once) the VTA call graph seeded by CHA.
func (p *Program) CG() *callgraph.Graph {
	if p.cg == nil {
		p.cg = vta.CallGraph(p.AllFns, cha.CallGraph(p.Prog))
	}
	return p.cg
}

// exportedFuncsAndClosures returns exported package-level functions of the
// package plus their anonymous functions (option constructors return closures
// that run inside Compile/Evaluate but are created by the user beforehand).
func (p *Program) exportedFuncsAndClosures(rel string) []*ssa.Function {
	sp := p.SSAPkg[mod+"/"+rel]
	if sp == nil {
		return nil
	}
	var out []*ssa.Function
	var names []string
	for n := range sp.Members {
		names = append(names, n)
	}
	sort.Strings(names)
	var addAnon func(f *ssa.Function)
	addAnon = func(f *ssa.Function) {
		for _, a := range f.AnonFuncs {
			out = append(out, a)
			addAnon(a)
		}
	}
	for _, n := range names {
		if f, ok := sp.Members[n].(*ssa.Function); ok && token.IsExported(n) {
			out = append(out, f)
			addAnon(f)
		}
	}
	return out
}

// exportedMethods returns the exported methods of named type T and *T.
func (p *Program) exportedMethods(rel, typ string) []*ssa.Function {
	sp := p.SSAPkg[mod+"/"+rel]
	if sp == nil {
		return nil
	}
	t := sp.Type(typ)
	if t == nil {
		return nil
	}
	var out []*ssa.Function
	seen := map[*ssa.Function]bool{}
	for _, rt := range []types.Type{t.Type(), types.NewPointer(t.Type())} {
		ms := p.Prog.MethodSets.MethodSet(rt)
		for i := 0; i < ms.Len(); i++ {
			if !ms.At(i).Obj().Exported() {
				continue
			}
			if f := p.Prog.MethodValue(ms.At(i)); f != nil && !seen[f] {
				seen[f] = true
				out = append(out, f)
			}
		}
	}
	return out
}

// Entry sets.
func (p *Program) Roots(set string) ([]*ssa.Function, error) {
	var out []*ssa.Function
	add := func(f *ssa.Function, err error) error {
		if err != nil {
			return err
		}
		out = append(out, f)
		return nil
	}
	switch set {
	case "compile":
		if err := add(p.Func("fhirpath", "Compile")); err != nil {
			return nil, err
		}
		if err := add(p.Func("fhirpath", "MustCompile")); err != nil {
			return nil, err
		}
		if err := add(p.Func("fhirpath/patch", "Compile")); err != nil {
			return nil, err
		}
		out = append(out, p.exportedFuncsAndClosures("fhirpath/compopts")...)
	case "eval":
		ms := p.exportedMethods("fhirpath", "Expression")
		if len(ms) < 5 {
			return nil, fmt.Errorf("anchor: fhirpath.Expression has %d exported methods (<5)", len(ms))
		}
		out = append(out, ms...)
		out = append(out, p.exportedFuncsAndClosures("fhirpath/evalopts")...)
		// methods reached only through reflection (system/cmp.go looks up
		// "TryEqual"/"Equal" with MethodByName): invisible to the call graph
		if sp := p.SSAPkg[mod+"/fhirpath/system"]; sp != nil {
			var names []string
			for n := range sp.Members {
				names = append(names, n)
			}
			sort.Strings(names)
			for _, n := range names {
				if _, ok := sp.Members[n].(*ssa.Type); !ok {
					continue
				}
				for _, m := range p.exportedMethods("fhirpath/system", n) {
					if m.Name() == "TryEqual" || m.Name() == "Equal" {
						out = append(out, m)
					}
				}
			}
		}
	case "patch":
		ms := p.exportedMethods("fhirpath/patch", "Expression")
		if len(ms) < 5 {
			return nil, fmt.Errorf("anchor: patch.Expression has %d exported methods (<5)", len(ms))
		}
		out = append(out, ms...)
		for _, n := range []string{"Add", "Insert", "Delete", "Replace", "Move"} {
			if err := add(p.Func("fhirpath/patch", n)); err != nil {
				return nil, err
			}
		}
	case "api":
		for _, s := range []string{"compile", "eval", "patch"} {
			r, err := p.Roots(s)
			if err != nil {
				return nil, err
			}
			out = append(out, r...)
		}
	default:
		return nil, fmt.Errorf("unknown root set %s", set)
	}
	return out, nil
}

// Reach returns the functions reachable in the VTA call graph from the set.
func (p *Program) Reach(set string) (map[*ssa.Function]bool, error) {
	if r, ok := p.reachMem[set]; ok {
		return r, nil
	}
	roots, err := p.Roots(set)
	if err != nil {
		return nil, err
	}
	r := p.ReachFrom(roots)
	p.reachMem[set] = r
	return r, nil
}

func (p *Program) ReachFrom(roots []*ssa.Function) map[*ssa.Function]bool {
	cg := p.CG()
	reach := map[*ssa.Function]bool{}
	var stack []*callgraph.Node
	for _, r := range roots {
		if n := cg.Nodes[r]; n != nil {
			stack = append(stack, n)
		}
	}
	for len(stack) > 0 {
		n := stack[len(stack)-1]
		stack = stack[:len(stack)-1]
		if reach[n.Func] {
			continue
		}
		reach[n.Func] = true
		for _, e := range n.Out {
			if !reach[e.Callee.Func] {
				stack = append(stack, e.Callee)
			}
		}
		// closures created by a reachable function are reachable values
		for _, a := range n.Func.AnonFuncs {
			if an := cg.Nodes[a]; an != nil && !reach[a] {
				stack = append(stack, an)
			}
		}
	}
	return reach
}

// RepoReach filters a reach set to repository functions with bodies, sorted.
func RepoReach(r map[*ssa.Function]bool) []*ssa.Function {
	var out []*ssa.Function
	for fn := range r {
		if inRepoFn(fn) && len(fn.Blocks) > 0 && !isTestSupportPath(fnPkgPath(fn)) {
			out = append(out, fn)
		}
	}
	sort.Slice(out, func(i, j int) bool { return fnKey(out[i]) < fnKey(out[j]) })
	return out
}

// FileOf returns the parsed file of a repo package by base name.
func (p *Program) FileOf(rel, base string) (*ast.File, *packages.Package, error) {
	pk := p.ByPath[mod+"/"+rel]
	if pk == nil {
		return nil, nil, fmt.Errorf("anchor: package %s not loaded", rel)
	}
	for i, f := range pk.CompiledGoFiles {
		if strings.HasSuffix(f, "/"+base) && i < len(pk.Syntax) {
			return pk.Syntax[i], pk, nil
		}
	}
	return nil, nil, fmt.Errorf("anchor: file %s/%s not found", rel, base)
}

var overlayIntTypes = []string{"int", "int8", "int16", "int32", "int64", "uint", "uint8", "uint16", "uint32", "uint64", "uintptr"}

func instantiationOverlay(repo string) map[string][]byte {
	var a, b strings.Builder
	a.WriteString("package narrow\n\nvar fpsaInstances = [...]any{\n")
	for _, to := range overlayIntTypes {
		for _, from := range overlayIntTypes {
			fmt.Fprintf(&a, "\tToInteger[%s, %s],\n", to, from)
		}
	}
	a.WriteString("}\n")
	b.WriteString("package fhirconv\n\nimport fpsadtpb \"github.com/google/fhir/go/proto/google/fhir/proto/r4/core/datatypes_go_proto\"\n\nvar fpsaInstances = [...]any{\n")
	for _, to := range overlayIntTypes {
		for _, from := range []string{"Integer", "UnsignedInt", "PositiveInt"} {
			fmt.Fprintf(&b, "\tToInteger[%s, *fpsadtpb.%s],\n", to, from)
		}
	}
	b.WriteString("}\n")
	c := "package extension\n\nimport fpsadtpb \"github.com/google/fhir/go/proto/google/fhir/proto/r4/core/datatypes_go_proto\"\n\nvar fpsaInstances = [...]any{SetByURL[*fpsadtpb.String]}\n"
	return map[string][]byte{
		filepath.Join(repo, "internal", "element", "extension", "zz_fpsa_instances.go"): []byte(c),
		filepath.Join(repo, "internal", "narrow", "zz_fpsa_instances.go"):               []byte(a.String()),
		filepath.Join(repo, "internal", "fhirconv", "zz_fpsa_instances.go"):             []byte(b.String()),
	}
}

func setWordBits(arch string) {
	wordBits = 64
	if arch == "386" || arch == "arm" {
		wordBits = 32
	}
}

// directCallSites: the call sites of an unexported in-repo function or method
// that is never used as a value (so these are all its callers). ok is false
// for exported functions, functions used as values (including go/defer and
// interface method sets: methods are refused unless unexported on an
// unexported-or-not type but never bound), and functions without any call.
func (p *Program) directCallSites(fn *ssa.Function) ([]*ssa.Call, bool) {
	if p.callSites == nil {
		p.callSites = map[*ssa.Function][]*ssa.Call{}
		p.usedAsValue = map[*ssa.Function]bool{}
		for _, g := range p.RepoFuncs() {
			fns := []*ssa.Function{g}
			fns = append(fns, g.AnonFuncs...)
			for k := 0; k < len(fns); k++ {
				h := fns[k]
				if k > 0 {
					fns = append(fns, h.AnonFuncs...)
				}
				for _, b := range h.Blocks {
					for _, ins := range b.Instrs {
						var ops [24]*ssa.Value
						for _, op := range ins.Operands(ops[:0]) {
							if op == nil || *op == nil {
								continue
							}
							callee, isFn := (*op).(*ssa.Function)
							if !isFn {
								continue
							}
							if c, isCall := ins.(*ssa.Call); isCall && c.Common().Value == ssa.Value(callee) && !c.Common().IsInvoke() {
								// the function in call position; it may also appear among the arguments
								n := 0
								for _, a := range c.Common().Args {
									if a == ssa.Value(callee) {
										n++
									}
								}
								if n > 0 {
									p.usedAsValue[callee] = true
								}
								p.callSites[callee] = append(p.callSites[callee], c)
								continue
							}
							p.usedAsValue[callee] = true
						}
					}
				}
			}
		}
	}
	if fn == nil {
		return nil, false
	}
	obj := fn.Object()
	if obj == nil && fn.Origin() != nil {
		obj = fn.Origin().Object() // an instance of a generic function
	}
	if fn == nil || obj == nil || obj.Exported() || p.usedAsValue[fn] || (fn.Origin() != nil && p.usedAsValue[fn.Origin()]) {
		return nil, false
	}
	if recv := fn.Signature.Recv(); recv != nil {
		// a method can be reached through an interface: only when its name is unexported
		// and no interface of the repository declares it do direct calls cover all callers;
		// keep it simple and sound: refuse methods
		return nil, false
	}
	cs := p.callSites[fn]
	// a call site may be recorded once per operand occurrence: dedupe
	var out []*ssa.Call
	seen := map[*ssa.Call]bool{}
	for _, c := range cs {
		if !seen[c] {
			seen[c] = true
			out = append(out, c)
		}
	}
	return out, len(out) > 0
}
