package main

// C01 (part b) — PAN3 bounds: every index / slice instruction on a non-fresh
// operand in API-reachable repository functions.

import (
	"fmt"
	"go/constant"
	"go/token"
	"go/types"
	"regexp/syntax"
	"sort"
	"strings"

	"golang.org/x/tools/go/ssa"
)

// regexGlobals: package-level *regexp.Regexp variables initialised with a
// constant pattern → pattern.
func regexGlobals(p *Program) map[*ssa.Global]string {
	out := map[*ssa.Global]string{}
	for path, sp := range p.SSAPkg {
		if !inRepoPath(path) {
			continue
		}
		init := sp.Func("init")
		if init == nil {
			continue
		}
		for _, b := range init.Blocks {
			for _, ins := range b.Instrs {
				st, ok := ins.(*ssa.Store)
				if !ok {
					continue
				}
				g, ok := st.Addr.(*ssa.Global)
				if !ok {
					continue
				}
				call, ok := st.Val.(*ssa.Call)
				if !ok || call.Common().StaticCallee() == nil || call.Common().StaticCallee().RelString(nil) != "regexp.MustCompile" {
					continue
				}
				if s, ok := constString(call.Common().Args[0]); ok {
					out[g] = s
				}
			}
		}
	}
	return out
}

func regexOfValue(v ssa.Value, rg map[*ssa.Global]string) (string, bool) {
	if ld, ok := v.(*ssa.UnOp); ok && ld.Op == token.MUL {
		if g, ok := ld.X.(*ssa.Global); ok {
			s, ok := rg[g]
			return s, ok
		}
	}
	if call, ok := v.(*ssa.Call); ok {
		if sc := call.Common().StaticCallee(); sc != nil && sc.RelString(nil) == "regexp.MustCompile" {
			return constString(call.Common().Args[0])
		}
	}
	return "", false
}

type boundSite struct {
	fn   *ssa.Function
	ins  ssa.Instruction
	base ssa.Value
	idx  ssa.Value // nil for Slice
	lo   ssa.Value
	hi   ssa.Value
	kind string
	at   *ssa.BasicBlock // when set: the block at whose end the bounds must hold (a phi edge's predecessor)
}

func (s boundSite) blk() *ssa.BasicBlock {
	if s.at != nil {
		return s.at
	}
	return s.ins.Block()
}

func boundSites(fn *ssa.Function) []boundSite {
	var out []boundSite
	for _, b := range fn.Blocks {
		for _, ins := range b.Instrs {
			switch x := ins.(type) {
			case *ssa.IndexAddr:
				out = append(out, boundSite{fn: fn, ins: ins, base: x.X, idx: x.Index, kind: "index"})
			case *ssa.Index:
				out = append(out, boundSite{fn: fn, ins: ins, base: x.X, idx: x.Index, kind: "index"})
			case *ssa.Lookup:
				if bt, ok := x.X.Type().Underlying().(*types.Basic); ok && bt.Info()&types.IsString != 0 {
					out = append(out, boundSite{fn: fn, ins: ins, base: x.X, idx: x.Index, kind: "index"})
				}
			case *ssa.Slice:
				if x.Low == nil && x.High == nil && x.Max == nil {
					continue
				}
				out = append(out, boundSite{fn: fn, ins: ins, base: x.X, lo: x.Low, hi: x.High, kind: "slice"})
			}
		}
	}
	return out
}

// isFreshArrayBase: pointer to an array (local composite literal or global
// array): the compiler checks constant indices; length is static.
func arrayLenOfBase(v ssa.Value) (int64, bool) {
	t := v.Type().Underlying()
	if pt, ok := t.(*types.Pointer); ok {
		if at, ok := pt.Elem().Underlying().(*types.Array); ok {
			return at.Len(), true
		}
	}
	if at, ok := t.(*types.Array); ok {
		return at.Len(), true
	}
	return 0, false
}

// rangeLowered: idx is the induction value of a lowered range loop over base.
func rangeLowered(s boundSite) bool {
	bo, ok := s.idx.(*ssa.BinOp)
	if !ok || bo.Op != token.ADD {
		return false
	}
	if _, isPhi := bo.X.(*ssa.Phi); !isPhi {
		return false
	}
	if c, ok := bo.Y.(*ssa.Const); !ok || c.Value == nil || c.Value.ExactString() != "1" {
		return false
	}
	// the loop header tests idx < len(base)
	hb := bo.Block()
	ifi, ok := hb.Instrs[len(hb.Instrs)-1].(*ssa.If)
	if !ok {
		return false
	}
	cmp, ok := ifi.Cond.(*ssa.BinOp)
	if !ok || cmp.Op != token.LSS || cmp.X != ssa.Value(bo) {
		return false
	}
	lc, ok := cmp.Y.(*ssa.Call)
	if !ok {
		return false
	}
	if b, ok := lc.Common().Value.(*ssa.Builtin); !ok || b.Name() != "len" {
		return false
	}
	if lc.Common().Args[0] != s.base {
		return false
	}
	// the site is inside the loop body (dominated by the true edge)
	return edgeDominates(hb, 0, s.ins.Block())
}

// submatchRange: base = R.FindStringSubmatch(x), index = induction value of the
// lowered range over R.SubexpNames() (same R), and the site is dominated by the
// non-nil edge of a test of base against nil.
func submatchRange(s boundSite) bool {
	bc, ok := s.base.(*ssa.Call)
	if !ok || bc.Common().StaticCallee() == nil || bc.Common().StaticCallee().RelString(nil) != "(*regexp.Regexp).FindStringSubmatch" {
		return false
	}
	bo, ok := s.idx.(*ssa.BinOp)
	if !ok || bo.Op != token.ADD {
		return false
	}
	if _, isPhi := bo.X.(*ssa.Phi); !isPhi {
		return false
	}
	if c, ok := bo.Y.(*ssa.Const); !ok || c.Value == nil || c.Value.ExactString() != "1" {
		return false
	}
	hb := bo.Block()
	ifi, ok := hb.Instrs[len(hb.Instrs)-1].(*ssa.If)
	if !ok {
		return false
	}
	cmp, ok := ifi.Cond.(*ssa.BinOp)
	if !ok || cmp.Op != token.LSS || cmp.X != ssa.Value(bo) {
		return false
	}
	lc, ok := cmp.Y.(*ssa.Call)
	if !ok {
		return false
	}
	if b, ok := lc.Common().Value.(*ssa.Builtin); !ok || b.Name() != "len" {
		return false
	}
	nc, ok := lc.Common().Args[0].(*ssa.Call)
	if !ok || nc.Common().StaticCallee() == nil || nc.Common().StaticCallee().RelString(nil) != "(*regexp.Regexp).SubexpNames" {
		return false
	}
	if !sameAccess(nc.Common().Args[0], bc.Common().Args[0]) {
		return false
	}
	if !edgeDominates(hb, 0, s.ins.Block()) {
		return false
	}
	// nil test of the match
	for _, b := range s.fn.Blocks {
		ifn, ok := b.Instrs[len(b.Instrs)-1].(*ssa.If)
		if !ok {
			continue
		}
		c, ok := ifn.Cond.(*ssa.BinOp)
		if !ok || (c.Op != token.EQL && c.Op != token.NEQ) {
			continue
		}
		var other ssa.Value
		if c.X == s.base {
			other = c.Y
		} else if c.Y == s.base {
			other = c.X
		} else {
			continue
		}
		if k, ok := other.(*ssa.Const); !ok || !k.IsNil() {
			continue
		}
		nonNilEdge := 1
		if c.Op == token.NEQ {
			nonNilEdge = 0
		}
		if edgeDominates(b, nonNilEdge, s.ins.Block()) {
			return true
		}
	}
	return false
}

// rootsOf collects the root slice/string values the base derives from.
func rootsOf(v ssa.Value, seen map[ssa.Value]bool, out *[]ssa.Value) {
	if seen[v] {
		return
	}
	seen[v] = true
	switch x := v.(type) {
	case *ssa.Phi:
		for _, e := range x.Edges {
			rootsOf(e, seen, out)
		}
	case *ssa.Slice:
		rootsOf(x.X, seen, out)
	case *ssa.ChangeType:
		rootsOf(x.X, seen, out)
	case *ssa.Const, *ssa.Alloc, *ssa.MakeSlice:
	case *ssa.Call:
		if b, ok := x.Common().Value.(*ssa.Builtin); ok && b.Name() == "append" {
			for _, a := range x.Common().Args {
				rootsOf(a, seen, out)
			}
			return
		}
		if inlinableRepoCall(x) && resultFromParams(x.Common().StaticCallee(), 0, 0) {
			// the engine analyses the callee in context: its own length-relevant
			// operands are the roots
			for _, a := range x.Common().Args {
				if isSliceOrString(a.Type()) {
					rootsOf(a, seen, out)
				}
			}
			return
		}
		*out = append(*out, v)
	case *ssa.Extract:
		if c, ok := x.Tuple.(*ssa.Call); ok && inlinableRepoCall(c) && resultFromParams(c.Common().StaticCallee(), x.Index, 0) {
			for _, a := range c.Common().Args {
				if isSliceOrString(a.Type()) {
					rootsOf(a, seen, out)
				}
			}
			return
		}
		*out = append(*out, v)
	default:
		*out = append(*out, v)
	}
}

// resultFromParams: the idx-th result of sc is built from its own parameters,
// constants and fresh allocations only (so its length follows from the
// arguments); otherwise the result itself is a root whose length is unknown.
func resultFromParams(sc *ssa.Function, idx int, depth int) bool {
	if depth > 3 {
		return false
	}
	for _, b := range sc.Blocks {
		ret, ok := b.Instrs[len(b.Instrs)-1].(*ssa.Return)
		if !ok || idx >= len(ret.Results) {
			continue
		}
		var roots []ssa.Value
		rootsOf(ret.Results[idx], map[ssa.Value]bool{}, &roots)
		for _, rt := range roots {
			if _, isParam := rt.(*ssa.Parameter); !isParam {
				return false
			}
		}
	}
	return true
}

func inlinableRepoCall(c *ssa.Call) bool {
	sc := c.Common().StaticCallee()
	return sc != nil && inRepoFn(sc) && len(sc.Blocks) > 0 && len(sc.Blocks) <= 200
}

func isSliceOrString(t types.Type) bool {
	switch u := t.Underlying().(type) {
	case *types.Slice:
		return true
	case *types.Basic:
		return u.Info()&types.IsString != 0
	}
	return false
}

// lengthClasses: the abstract values a root is pinned to.
func lengthClasses(root ssa.Value, rg map[*ssa.Global]string) ([]aval, string) {
	callOf := func(v ssa.Value) *ssa.Call {
		switch x := v.(type) {
		case *ssa.Call:
			return x
		case *ssa.Extract:
			if c, ok := x.Tuple.(*ssa.Call); ok {
				return c
			}
		}
		return nil
	}
	if c := callOf(root); c != nil {
		if sc := c.Common().StaticCallee(); sc != nil {
			switch sc.RelString(nil) {
			case "strings.Split", "strings.SplitN", "strings.SplitAfter", "strings.SplitAfterN":
				// len >= 1 (for a non-empty separator; SplitN with n==0 gives nil — n is checked below)
				if sc.Name() == "SplitN" || sc.Name() == "SplitAfterN" {
					if n, ok := c.Common().Args[2].(*ssa.Const); ok && n.Value != nil {
						if k, _ := constant.Int64Val(n.Value); k >= 1 {
							var cl []aval
							for i := int64(1); i <= k && i <= 3; i++ {
								cl = append(cl, sliceLen(int(i)))
							}
							return cl, fmt.Sprintf("strings.SplitN(…, %d) has 1..%d elements", k, k)
						}
					}
					return []aval{{k: kNil}, sliceLen(1), sliceLen(2), sliceLen(3)}, "strings.SplitN with non-constant n"
				}
				if how := splitAtLeastTwo(c, rg); how != "" {
					return []aval{sliceLen(2), sliceLen(3), sliceLen(4), sliceLen(5)}, how
				}
				return []aval{sliceLen(1), sliceLen(2), sliceLen(3)}, "strings.Split has at least 1 element"
			case "(*regexp.Regexp).FindStringSubmatch", "(*regexp.Regexp).SubexpNames", "(*regexp.Regexp).FindStringSubmatchIndex":
				if pat, ok := regexOfValue(c.Common().Args[0], rg); ok {
					if re, err := syntax.Parse(pat, syntax.Perl); err == nil {
						g := re.MaxCap() + 1
						switch sc.Name() {
						case "FindStringSubmatch":
							return []aval{{k: kNil}, sliceLen(g)}, fmt.Sprintf("FindStringSubmatch is nil or has %d elements", g)
						case "FindStringSubmatchIndex":
							return []aval{{k: kNil}, sliceLen(2 * g)}, fmt.Sprintf("FindStringSubmatchIndex is nil or has %d elements", 2*g)
						default:
							return []aval{sliceLen(g)}, fmt.Sprintf("SubexpNames has %d elements", g)
						}
					}
				}
			}
		}
	}
	if bt, ok := root.Type().Underlying().(*types.Basic); ok && bt.Info()&types.IsString != 0 {
		// length-only abstraction: contents stay unknown so that no comparison on the text is folded
		return []aval{sliceLen(0), sliceLen(1), sliceLen(2), sliceLen(3)}, "string lengths 0..3"
	}
	return []aval{{k: kNil}, sliceLen(0), sliceLen(1), sliceLen(2), sliceLen(3)}, "length classes nil,0,1,2,3"
}

// resolveParam: a parameter of an unexported function with exactly one direct
// call site stands for the argument passed there (followed through such calls).
func resolveParam(v ssa.Value) ssa.Value {
	for i := 0; i < 4; i++ {
		prm, ok := v.(*ssa.Parameter)
		if !ok || theProgram == nil {
			return v
		}
		fn := prm.Parent()
		sites, ok := theProgram.directCallSites(fn)
		if !ok || len(sites) != 1 {
			return v
		}
		a := argFor(fn, sites[0], prm)
		if a == nil {
			return v
		}
		v = a
	}
	return v
}

// splitAtLeastTwo: strings.Split(s[m[2k]:], sep) where m is the (non-nil)
// FindStringSubmatchIndex of s under a constant pattern in which capture k is
// mandatory and the text from its start to the end of the match always
// contains sep: the split has at least two parts.
func splitAtLeastTwo(c *ssa.Call, rg map[*ssa.Global]string) string {
	args := c.Common().Args
	if len(args) != 2 {
		return ""
	}
	sepC, ok := args[1].(*ssa.Const)
	if !ok || sepC.Value == nil || sepC.Value.Kind() != constant.String {
		return ""
	}
	sep := constant.StringVal(sepC.Value)
	if len([]rune(sep)) != 1 {
		return ""
	}
	sl, ok := args[0].(*ssa.Slice)
	if !ok || sl.Low == nil || sl.High != nil {
		return ""
	}
	ld, ok := stripIntConv(resolveParam(stripIntConv(sl.Low))).(*ssa.UnOp)
	if !ok || ld.Op != token.MUL {
		return ""
	}
	ia, ok := ld.X.(*ssa.IndexAddr)
	if !ok {
		return ""
	}
	k, ok := ia.Index.(*ssa.Const)
	if !ok || k.Value == nil {
		return ""
	}
	m, ok := ia.X.(*ssa.Call)
	if !ok || m.Common().StaticCallee() == nil || m.Common().StaticCallee().RelString(nil) != "(*regexp.Regexp).FindStringSubmatchIndex" {
		return ""
	}
	pat, ok := regexOfValue(m.Common().Args[0], rg)
	if !ok || !sameStringValue(m.Common().Args[1], resolveParam(sl.X)) {
		return ""
	}
	kv, _ := constant.Int64Val(k.Value)
	if kv%2 != 0 {
		return ""
	}
	if !suffixFromGroupMustContain(pat, int(kv)/2, []rune(sep)[0]) {
		return ""
	}
	return fmt.Sprintf("strings.Split of the text from capture %d of the constant pattern to the end: every match contains %q after that point, so there are at least 2 parts", kv/2, sep)
}

// mustContain: every string matched by r contains ch.
func mustContain(r *syntax.Regexp, ch rune) bool {
	switch r.Op {
	case syntax.OpLiteral:
		if r.Flags&syntax.FoldCase != 0 {
			return false
		}
		for _, x := range r.Rune {
			if x == ch {
				return true
			}
		}
	case syntax.OpCharClass:
		return len(r.Rune) == 2 && r.Rune[0] == ch && r.Rune[1] == ch
	case syntax.OpCapture, syntax.OpPlus:
		return mustContain(r.Sub[0], ch)
	case syntax.OpRepeat:
		return r.Min >= 1 && mustContain(r.Sub[0], ch)
	case syntax.OpConcat:
		for _, s := range r.Sub {
			if mustContain(s, ch) {
				return true
			}
		}
	case syntax.OpAlternate:
		for _, s := range r.Sub {
			if !mustContain(s, ch) {
				return false
			}
		}
		return len(r.Sub) > 0
	}
	return false
}

// suffixFromGroupMustContain: capture n is mandatory in pat and, in every match,
// the text from the start of capture n to the end of the match contains ch.
func suffixFromGroupMustContain(pat string, n int, ch rune) bool {
	re, err := syntax.Parse(pat, syntax.Perl)
	if err != nil {
		return false
	}
	// found: the capture lies (mandatorily) in r; contains: and ch surely follows its start within r
	var walk func(r *syntax.Regexp) (found, contains bool)
	walk = func(r *syntax.Regexp) (bool, bool) {
		switch r.Op {
		case syntax.OpCapture:
			if r.Cap == n {
				return true, mustContain(r.Sub[0], ch)
			}
			return walk(r.Sub[0])
		case syntax.OpConcat:
			for i, s := range r.Sub {
				f, c := walk(s)
				if !f {
					continue
				}
				for _, t := range r.Sub[i+1:] {
					if mustContain(t, ch) {
						c = true
					}
				}
				return true, c
			}
		}
		return false, false
	}
	f, c := walk(re)
	return f && c
}

// paramClasses: the length classes of a slice parameter of an unexported
// function that is only ever called directly: the union of the classes of the
// arguments at its call sites.
func paramClasses(p *Program, prm *ssa.Parameter, rg map[*ssa.Global]string) ([]aval, string, bool) {
	fn := prm.Parent()
	if fn == nil {
		return nil, "", false
	}
	sites, ok := p.directCallSites(fn)
	if !ok {
		return nil, "", false
	}
	pi := -1
	for i, q := range fn.Params {
		if q == prm {
			pi = i
		}
	}
	if pi < 0 {
		return nil, "", false
	}
	var out []aval
	var notes []string
	for _, ci := range sites {
		if pi >= len(ci.Common().Args) {
			return nil, "", false
		}
		arg := ci.Common().Args[pi]
		var roots []ssa.Value
		rootsOf(arg, map[ssa.Value]bool{}, &roots)
		var cl []aval
		var note string
		switch {
		case len(roots) == 0:
			// built from fresh allocations only: its length is static
			n, ok := staticLenOf(ci.Parent(), arg, 0)
			if !ok {
				return nil, "", false
			}
			cl, note = []aval{sliceLen(n)}, fmt.Sprintf("static length %d", n)
		case len(roots) == 1:
			cl, note = lengthClasses(roots[0], rg)
		default:
			return nil, "", false
		}
		notes = append(notes, note)
		for _, c := range cl {
			dup := false
			for _, o := range out {
				if eq(o, c) {
					dup = true
				}
			}
			if !dup {
				out = append(out, c)
			}
		}
	}
	return out, fmt.Sprintf("parameter of an unexported function with %d direct call site(s): %s", len(sites), strings.Join(notes, "; ")), true
}

// pan3Model: summaries of regexp methods whose results are constants of the pattern.
func pan3Model(rg map[*ssa.Global]string) func(c *ssa.CallCommon, args []aval) (aval, bool) {
	return func(c *ssa.CallCommon, args []aval) (aval, bool) {
		sc := c.StaticCallee()
		if sc == nil {
			return aval{}, false
		}
		switch sc.RelString(nil) {
		case "(*regexp.Regexp).SubexpIndex":
			pat, ok := regexOfValue(c.Args[0], rg)
			if !ok || len(args) < 2 || args[1].k != kConst {
				return aval{}, false
			}
			re, err := syntax.Parse(pat, syntax.Perl)
			if err != nil {
				return aval{}, false
			}
			name := constant.StringVal(args[1].c)
			for i, n := range re.CapNames() {
				if n == name && name != "" {
					return cInt(int64(i)), true
				}
			}
			return cInt(-1), true
		}
		return aval{}, false
	}
}

// indexWithin: a dominating guard proves lo <= idx < len(base) for a
// non-constant index (induction variable or explicitly tested value).
func indexWithin(s boundSite) (bool, string) {
	fn := s.fn
	idx := stripIntConv(s.idx)
	upper, lower := false, false
	// lower bound: induction from a non-negative constant with positive step,
	// a len()/unsigned value, or a dominating `idx < 0` / `idx >= 0` test
	if lowerBoundNonNeg(idx, 0) {
		lower = true
	}
	for _, b := range fn.Blocks {
		ifi, ok := b.Instrs[len(b.Instrs)-1].(*ssa.If)
		if !ok {
			continue
		}
		for _, cmp := range condAtoms(ifi.Cond) {
			x, y := stripIntConv(cmp.X), stripIntConv(cmp.Y)
			op := cmp.Op
			// normalise to idx OP other
			if sameAccess(y, idx) && !sameAccess(x, idx) {
				x, y = y, x
				op = flipOp(op)
			}
			if !sameModuloIntConv(x, idx) {
				continue
			}
			isLen := isLenOf(y, s.base)
			switch {
			case isLen && op == token.LSS:
				if trueEdgeDominates(ifi, cmp, s.ins.Block()) {
					upper = true
				}
			case isLen && op == token.GEQ:
				if falseEdgeDominates(ifi, cmp, s.ins.Block()) {
					upper = true
				}
			case isConstZero(y) && (op == token.LSS || op == token.LEQ):
				if falseEdgeDominates(ifi, cmp, s.ins.Block()) {
					lower = true
				}
			case isConstZero(y) && (op == token.GEQ || op == token.GTR):
				if trueEdgeDominates(ifi, cmp, s.ins.Block()) {
					lower = true
				}
			case isConstMinusOne(y) && op == token.GTR:
				if trueEdgeDominates(ifi, cmp, s.ins.Block()) {
					lower = true
				}
			}
		}
	}
	// range induction over another slice proved to have the same length
	if !upper {
		if y, ok := rangeInductionOver(s.idx); ok && sameLenProved(fn, y, s.base, s.ins) {
			upper, lower = true, true
		}
	}
	if upper && lower {
		return true, "dominating guards prove 0 <= index < len(operand)"
	}
	return false, fmt.Sprintf("upper bound proved=%v, lower bound proved=%v", upper, lower)
}

func stripIntConv(v ssa.Value) ssa.Value {
	for {
		switch x := v.(type) {
		case *ssa.Convert:
			if isIntegerType(x.X.Type()) && isIntegerType(x.Type()) {
				v = x.X
				continue
			}
			return v
		case *ssa.ChangeType:
			v = x.X
		default:
			return v
		}
	}
}

func flipOp(op token.Token) token.Token {
	switch op {
	case token.LSS:
		return token.GTR
	case token.GTR:
		return token.LSS
	case token.LEQ:
		return token.GEQ
	case token.GEQ:
		return token.LEQ
	}
	return op
}

// condAtoms: the comparison atoms of a branch condition (a single BinOp; the
// short-circuit forms are separate Ifs in SSA).
func condAtoms(c ssa.Value) []*ssa.BinOp {
	if bo, ok := c.(*ssa.BinOp); ok {
		return []*ssa.BinOp{bo}
	}
	return nil
}

func trueEdgeDominates(ifi *ssa.If, _ *ssa.BinOp, b *ssa.BasicBlock) bool {
	return edgeDominates(ifi.Block(), 0, b)
}
func falseEdgeDominates(ifi *ssa.If, _ *ssa.BinOp, b *ssa.BasicBlock) bool {
	return edgeDominates(ifi.Block(), 1, b)
}

func isLenOf(v ssa.Value, base ssa.Value) bool {
	v = stripIntConv(v)
	call, ok := v.(*ssa.Call)
	if !ok {
		return false
	}
	if b, ok := call.Common().Value.(*ssa.Builtin); ok && b.Name() == "len" {
		return sameAccess(call.Common().Args[0], base) || sameAccess(stripSliceFull(call.Common().Args[0]), stripSliceFull(base))
	}
	return false
}

func stripSliceFull(v ssa.Value) ssa.Value {
	if ct, ok := v.(*ssa.ChangeType); ok {
		return stripSliceFull(ct.X)
	}
	return v
}

func lowerBoundNonNeg(v ssa.Value, depth int) bool {
	if depth > 4 {
		return false
	}
	v = stripIntConv(v)
	switch x := v.(type) {
	case *ssa.Const:
		return x.Value != nil && x.Value.Kind() == constant.Int && constant.Sign(x.Value) >= 0
	case *ssa.Phi:
		// induction: every edge is a non-negative constant or phi + positive constant
		for _, e := range x.Edges {
			e = stripIntConv(e)
			if bo, ok := e.(*ssa.BinOp); ok && bo.Op == token.ADD && stripIntConv(bo.X) == ssa.Value(x) {
				if c, ok := bo.Y.(*ssa.Const); ok && c.Value != nil && constant.Sign(c.Value) > 0 {
					continue
				}
				return false
			}
			if !lowerBoundNonNeg(e, depth+1) {
				return false
			}
		}
		return true
	case *ssa.BinOp:
		if x.Op == token.ADD {
			// the lowered range index: phi(-1, this) + 1
			if ph, ok := stripIntConv(x.X).(*ssa.Phi); ok {
				if c, ok := x.Y.(*ssa.Const); ok && c.Value != nil && c.Value.Kind() == constant.Int && constant.Sign(c.Value) > 0 {
					step, _ := constant.Int64Val(c.Value)
					okAll := true
					for _, e := range ph.Edges {
						e = stripIntConv(e)
						if e == ssa.Value(x) {
							continue
						}
						if k, ok := e.(*ssa.Const); ok && k.Value != nil && k.Value.Kind() == constant.Int {
							if v, exact := constant.Int64Val(k.Value); exact && v >= -step {
								continue
							}
						}
						okAll = false
					}
					if okAll {
						return true
					}
				}
			}
			return lowerBoundNonNeg(x.X, depth+1) && lowerBoundNonNeg(x.Y, depth+1)
		}
	case *ssa.Call:
		if b, ok := x.Common().Value.(*ssa.Builtin); ok && (b.Name() == "len" || b.Name() == "cap") {
			return true
		}
		if calleeResultsNonNeg(x, 0, depth) {
			return true
		}
	case *ssa.Extract:
		if c, ok := x.Tuple.(*ssa.Call); ok && calleeResultsNonNeg(c, x.Index, depth) {
			return true
		}
	}
	if bt, ok := v.Type().Underlying().(*types.Basic); ok && bt.Info()&types.IsUnsigned != 0 {
		return true
	}
	return false
}

// calleeResultsNonNeg: every return of the in-repo callee yields a non-negative idx-th result.
func calleeResultsNonNeg(c *ssa.Call, idx int, depth int) bool {
	sc := c.Common().StaticCallee()
	if sc == nil || !inRepoFn(sc) || len(sc.Blocks) == 0 || depth > 4 {
		return false
	}
	found := false
	for _, b := range sc.Blocks {
		ret, ok := b.Instrs[len(b.Instrs)-1].(*ssa.Return)
		if !ok || idx >= len(ret.Results) {
			continue
		}
		if !lowerBoundNonNeg(ret.Results[idx], depth+1) {
			return false
		}
		found = true
	}
	return found
}

// upperBoundAt: a constant that v cannot exceed when control is in block at of
// fn: a dominating `v <= Y` / `v < Y` test with a bounded Y, a bounded value
// (constant, table lookup, min, parameter bounded at every call site), or the
// result of an in-repo function bounded at each of its returns.
func upperBoundAt(fn *ssa.Function, v ssa.Value, at *ssa.BasicBlock, depth int) (int64, bool) {
	if depth > 5 {
		return 0, false
	}
	idx := stripIntConv(v)
	if ub, ok := smallUpperBound(idx, 0); ok {
		return ub, true
	}
	best, found := int64(0), false
	for _, b := range fn.Blocks {
		ifi, ok := b.Instrs[len(b.Instrs)-1].(*ssa.If)
		if !ok {
			continue
		}
		cmp, ok := ifi.Cond.(*ssa.BinOp)
		if !ok {
			continue
		}
		x, y, op := cmp.X, cmp.Y, cmp.Op
		if !sameAccess(stripIntConv(x), idx) {
			if !sameAccess(stripIntConv(y), idx) {
				continue
			}
			x, y, op = y, x, flipOp(op)
		}
		ub, ok := smallUpperBound(y, 0)
		if !ok {
			continue
		}
		var maxV int64
		edge := 0
		switch op {
		case token.LEQ:
			maxV = ub
		case token.LSS:
			maxV = ub - 1
		case token.GTR: // !(v > y): v <= y on the false edge
			maxV, edge = ub, 1
		case token.GEQ:
			maxV, edge = ub-1, 1
		default:
			continue
		}
		if edgeDominates(b, edge, at) && (!found || maxV < best) {
			best, found = maxV, true
		}
	}
	if found {
		return best, true
	}
	var call *ssa.Call
	ri := 0
	switch x := idx.(type) {
	case *ssa.Call:
		call = x
	case *ssa.Extract:
		if c, ok := x.Tuple.(*ssa.Call); ok {
			call, ri = c, x.Index
		}
	}
	if call != nil {
		sc := call.Common().StaticCallee()
		if sc == nil || !inRepoFn(sc) || len(sc.Blocks) == 0 {
			return 0, false
		}
		if prev, had := siteRestrict[sc]; had {
			defer func() { siteRestrict[sc] = prev }()
		} else {
			defer delete(siteRestrict, sc)
		}
		siteRestrict[sc] = call
		worst, any := int64(0), false
		for _, b := range sc.Blocks {
			ret, ok := b.Instrs[len(b.Instrs)-1].(*ssa.Return)
			if !ok || ri >= len(ret.Results) {
				continue
			}
			ub, ok := upperBoundAt(sc, ret.Results[ri], b, depth+1)
			if !ok {
				return 0, false
			}
			if !any || ub > worst {
				worst, any = ub, true
			}
		}
		return worst, any
	}
	return 0, false
}

// staticLenOf: the statically known length of a slice value in fn (constant
// propagation with the callees analysed in context), or — for a parameter of an
// unexported function that is only called directly — the smallest such length
// among the arguments at its call sites.
func staticLenOf(fn *ssa.Function, v ssa.Value, depth int) (int, bool) {
	if depth > 3 {
		return 0, false
	}
	an := newAnalyzer()
	an.maxBlocks = 200
	res := an.analyze(fn, nil)
	if n, ok := lenOf(res.val(v)); ok {
		return n, true
	}
	prm, ok := v.(*ssa.Parameter)
	if !ok || theProgram == nil {
		return 0, false
	}
	sites, ok := theProgram.directCallSites(fn)
	if only := siteRestrict[fn]; only != nil {
		sites, ok = []*ssa.Call{only}, true
	}
	if !ok {
		return 0, false
	}
	pi := -1
	for i, q := range fn.Params {
		if q == prm {
			pi = i
		}
	}
	if pi < 0 {
		return 0, false
	}
	least, any := 0, false
	for _, c := range sites {
		if pi >= len(c.Common().Args) {
			return 0, false
		}
		n, ok := staticLenOf(c.Parent(), c.Common().Args[pi], depth+1)
		if !ok {
			return 0, false
		}
		if !any || n < least {
			least, any = n, true
		}
	}
	return least, any
}

func rulePAN3(p *Program) *RuleResult {
	r := newResult("PAN3")
	fns := apiRepoFuncs(p, r)
	rg := regexGlobals(p)
	pan3Regex = rg
	r.count("functions", len(fns))
	r.count("regex_globals", len(rg))
	for _, fn := range fns {
		for _, s := range boundSites(fn) {
			r.count("sites", 1)
			pan3Site(p, r, s, rg)
		}
	}
	r.floor("functions", 250)
	r.floor("sites", 200)
	return r
}

// pan3Scoped: the PAN3 obligations of the functions declared in the given
// files / directories (path prefixes relative to the repository), whether or
// not they are reachable from the FHIRPath API.
func pan3Scoped(p *Program, prefixes []string, minSites int) *RuleResult {
	r := newResult("PAN3")
	rg := regexGlobals(p)
	pan3Regex = rg
	for _, fn := range p.RepoFuncs() {
		if len(fn.Blocks) == 0 {
			continue
		}
		pos := p.pos(fn.Pos())
		in := false
		for _, pre := range prefixes {
			if strings.HasPrefix(pos, pre) {
				in = true
			}
		}
		if !in {
			continue
		}
		r.count("functions", 1)
		for _, s := range boundSites(fn) {
			r.count("sites", 1)
			pan3Site(p, r, s, rg)
		}
	}
	r.floor("sites", minSites)
	return r
}

func rulePAN3Strings(p *Program) *RuleResult {
	return pan3Scoped(p, []string{"fhirpath/internal/funcs/impl/strings.go"}, 10)
}

func rulePAN3Refs(p *Program) *RuleResult {
	return pan3Scoped(p, []string{"internal/element/reference/", "internal/element/canonical/", "internal/resource/identity.go", "internal/resource/canonical_identity.go"}, 5)
}

// capturedCell: the local cell of the enclosing function a free variable is bound to.
func capturedCell(fv *ssa.FreeVar) *ssa.Alloc {
	fn := fv.Parent()
	par := fn.Parent()
	if par == nil {
		return nil
	}
	idx := -1
	for i, f := range fn.FreeVars {
		if f == fv {
			idx = i
		}
	}
	for _, b := range par.Blocks {
		for _, ins := range b.Instrs {
			if mc, ok := ins.(*ssa.MakeClosure); ok && mc.Fn == ssa.Value(fn) && idx >= 0 && idx < len(mc.Bindings) {
				al, _ := mc.Bindings[idx].(*ssa.Alloc)
				return al
			}
		}
	}
	return nil
}

func storesTo(al *ssa.Alloc) int {
	n := 0
	if al.Referrers() == nil {
		return 0
	}
	for _, ref := range *al.Referrers() {
		if st, ok := ref.(*ssa.Store); ok && st.Addr == ssa.Value(al) {
			n++
		}
	}
	return n
}

// cellFrozenAtCapture: the variable captured as fv is only read by the closure,
// captured by no other closure, and the enclosing function neither stores to
// it nor lets its address escape once the closure exists: every activation of
// the closure sees the one value it had when the closure was made.
func cellFrozenAtCapture(fv *ssa.FreeVar) bool {
	al := capturedCell(fv)
	if al == nil || al.Referrers() == nil || fv.Referrers() == nil {
		return false
	}
	for _, ref := range *fv.Referrers() {
		switch x := ref.(type) {
		case *ssa.UnOp:
			if x.Op != token.MUL {
				return false
			}
		case *ssa.DebugRef:
		default:
			return false
		}
	}
	var mc *ssa.MakeClosure
	var stores []*ssa.Store
	for _, ref := range *al.Referrers() {
		switch x := ref.(type) {
		case *ssa.MakeClosure:
			if mc != nil || x.Fn != ssa.Value(fv.Parent()) {
				return false
			}
			mc = x
		case *ssa.Store:
			if x.Addr != ssa.Value(al) {
				return false
			}
			stores = append(stores, x)
		case *ssa.UnOp, *ssa.DebugRef:
		default:
			return false
		}
	}
	if mc == nil {
		return false
	}
	after := reachableFrom(mc.Block())
	for _, st := range stores {
		if after[st.Block()] {
			return false
		}
		if st.Block() == mc.Block() && instrIndex(st) > instrIndex(mc) {
			return false
		}
	}
	return true
}

// capturedLengths: the other captured variables of the closure that hold
// len(v) of the captured slice variable loaded by root (both frozen when the
// closure is made, the length taken after the last store to the slice).
func capturedLengths(fn *ssa.Function, root ssa.Value) []ssa.Value {
	ld, ok := root.(*ssa.UnOp)
	if !ok || ld.Op != token.MUL {
		return nil
	}
	fvJ, ok := ld.X.(*ssa.FreeVar)
	if !ok || !cellFrozenAtCapture(fvJ) {
		return nil
	}
	alJ := capturedCell(fvJ)
	var out []ssa.Value
	for _, fvI := range fn.FreeVars {
		if fvI == fvJ || !cellFrozenAtCapture(fvI) {
			continue
		}
		alI := capturedCell(fvI)
		if storesTo(alI) != 1 {
			continue
		}
		var stv ssa.Value
		for _, ref := range *alI.Referrers() {
			if st, ok := ref.(*ssa.Store); ok {
				stv = st.Val
			}
		}
		call, ok := stripIntConv(stv).(*ssa.Call)
		if !ok {
			continue
		}
		if bi, ok := call.Common().Value.(*ssa.Builtin); !ok || bi.Name() != "len" {
			continue
		}
		src, ok := call.Common().Args[0].(*ssa.UnOp)
		if !ok || src.X != ssa.Value(alJ) {
			continue
		}
		// no store to the slice variable after its length was taken
		later := reachableFrom(src.Block())
		stale := false
		for _, ref := range *alJ.Referrers() {
			if st, ok := ref.(*ssa.Store); ok {
				if later[st.Block()] || (st.Block() == src.Block() && instrIndex(st) > instrIndex(src)) {
					stale = true
				}
			}
		}
		if stale {
			continue
		}
		for _, ref := range *fvI.Referrers() {
			if l, ok := ref.(*ssa.UnOp); ok && l.Op == token.MUL {
				out = append(out, l)
			}
		}
	}
	return out
}

// pan3Regex: constant patterns of the package-level regexps (set by the PAN3 entry points).
var pan3Regex map[*ssa.Global]string

// sameStringValue: two SSA values denote the same string (same access path, or
// loads of one local cell that is written exactly once).
func sameStringValue(a, b ssa.Value) bool {
	if sameAccess(a, b) {
		return true
	}
	la, ok1 := a.(*ssa.UnOp)
	lb, ok2 := b.(*ssa.UnOp)
	if !ok1 || !ok2 || la.X != lb.X {
		return false
	}
	if _, ok := la.X.(*ssa.Alloc); !ok {
		return false
	}
	for _, v := range sameLoads(la.Parent(), la) {
		if v == ssa.Value(lb) {
			return true
		}
	}
	return false
}

// captureMandatory: capture group n takes part in every match of the pattern
// (it is not below an optional, starred, alternative or {0,…} node).
func captureMandatory(pat string, n int) bool {
	re, err := syntax.Parse(pat, syntax.Perl)
	if err != nil {
		return false
	}
	if n == 0 {
		return true
	}
	var walk func(r *syntax.Regexp) bool
	walk = func(r *syntax.Regexp) bool {
		switch r.Op {
		case syntax.OpCapture:
			if r.Cap == n {
				return true
			}
			return walk(r.Sub[0])
		case syntax.OpConcat:
			for _, s := range r.Sub {
				if walk(s) {
					return true
				}
			}
		case syntax.OpPlus:
			return walk(r.Sub[0])
		case syntax.OpRepeat:
			if r.Min >= 1 {
				return walk(r.Sub[0])
			}
		}
		return false
	}
	return walk(re)
}

func siteDescr(s boundSite) string {
	if s.kind == "slice" {
		lo, hi := "", ""
		if s.lo != nil {
			lo = valDescr(s.lo)
		}
		if s.hi != nil {
			hi = valDescr(s.hi)
		}
		return originDescr(s.base) + "[" + lo + ":" + hi + "]"
	}
	return originDescr(s.base) + "[" + valDescr(s.idx) + "]"
}

func valDescr(v ssa.Value) string {
	if c, ok := v.(*ssa.Const); ok && c.Value != nil {
		return c.Value.ExactString()
	}
	v2 := stripIntConv(v)
	switch x := v2.(type) {
	case *ssa.BinOp:
		return valDescr(x.X) + x.Op.String() + valDescr(x.Y)
	case *ssa.Call:
		if b, ok := x.Common().Value.(*ssa.Builtin); ok {
			return b.Name() + "(" + originDescr(x.Common().Args[0]) + ")"
		}
	case *ssa.Phi:
		return "φ" + x.Comment
	}
	return originDescr(v2)
}

// callerAlias: for a function with exactly one direct call site, the caller and that site.
func callerAlias(p *Program, fn *ssa.Function) (*ssa.Function, *ssa.Call, bool) {
	sites, ok := p.directCallSites(fn)
	if !ok || len(sites) != 1 {
		return nil, nil, false
	}
	return sites[0].Parent(), sites[0], true
}

// argFor: the argument the single call site binds to parameter prm of fn.
func argFor(fn *ssa.Function, site *ssa.Call, prm ssa.Value) ssa.Value {
	for i, q := range fn.Params {
		if ssa.Value(q) == prm && i < len(site.Common().Args) {
			return site.Common().Args[i]
		}
	}
	return nil
}

// pan3Alias: the key the site would have had in the single caller of its function.
func pan3Alias(p *Program, s boundSite) string {
	caller, site, ok := callerAlias(p, s.fn)
	if !ok {
		return ""
	}
	s2 := s
	if a := argFor(s.fn, site, s.base); a != nil {
		s2.base = a
	}
	return short(caller) + "|" + siteDescr(s2)
}

func pan3Site(p *Program, r0 *RuleResult, s boundSite, rg map[*ssa.Global]string) {
	// obligations that are not discharged also carry the caller's key (see Obligation.Alias)
	n0 := len(r0.Obs)
	defer func() {
		if len(r0.Obs) > n0 && r0.Obs[len(r0.Obs)-1].Status != Discharged {
			r0.alias(pan3Alias(p, s))
		}
	}()
	r := r0
	fn := s.fn
	key := short(fn) + "|" + siteDescr(s)
	desc := s.kind + " " + siteDescr(s)
	pos := p.instrPos(s.ins)
	// D1: static array with constant index
	if n, ok := arrayLenOfBase(s.base); ok && s.kind == "index" {
		if c, ok := s.idx.(*ssa.Const); ok && c.Value != nil {
			if k, _ := constant.Int64Val(c.Value); k >= 0 && k < n {
				r.count("trivial_array", 1)
				r.ok(key, desc, pos, "constant index into a fixed-size array (checked by the compiler)", false)
				return
			}
		}
	}
	if _, ok := arrayLenOfBase(s.base); ok && s.kind == "slice" {
		if (s.lo == nil || isConstVal(s.lo)) && (s.hi == nil || isConstVal(s.hi)) {
			r.count("trivial_array", 1)
			r.ok(key, desc, pos, "constant bounds on a fixed-size array (checked by the compiler)", false)
			return
		}
	}
	// D2b: index into a fixed-size array under a dominating constant bound within its length
	if n, ok := arrayLenOfBase(s.base); ok && s.kind == "index" && lowerBoundNonNeg(s.idx, 0) {
		if ub, ok := constUpperBound(s); ok && ub <= n {
			r.count("trivial_array", 1)
			r.ok(key, desc, pos, fmt.Sprintf("non-negative index below the constant bound %d (dominating test) into an array of %d elements", ub, n), true)
			return
		}
	}
	// D3: lowered range loop
	if s.kind == "index" && rangeLowered(s) {
		r.count("range_lowered", 1)
		r.ok(key, desc, pos, "induction value of the lowered range loop over the same operand", false)
		return
	}
	// D3b: submatches of a regexp indexed by the range index over the same regexp's
	// SubexpNames(), under a dominating nil test of the match
	if s.kind == "index" && submatchRange(s) {
		r.count("submatch_range", 1)
		r.ok(key, desc, pos, "index ranges over SubexpNames() of the regexp whose non-nil submatch slice (same length) is indexed; the nil match is excluded by a dominating test", true)
		return
	}
	// D4/D5: hypothesis-driven SCCP over the length classes of the root values
	var roots []ssa.Value
	rootsOf(s.base, map[ssa.Value]bool{}, &roots)
	// D4c: a site whose operand is a parameter of an unexported, only directly called
	// function is first decided in the context of each call site: the caller is
	// analysed under the length classes of *its* roots (its guards then apply)
	// and the evaluations of this instruction inside the inlined callee are read off
	if len(roots) > 0 {
		allParams := true
		for _, rt := range roots {
			if _, ok := rt.(*ssa.Parameter); ok {
				continue
			}
			// a captured variable of a function literal
			if ld, ok := rt.(*ssa.UnOp); ok && fn.Parent() != nil {
				if _, isFV := ld.X.(*ssa.FreeVar); isFV {
					continue
				}
			}
			allParams = false
		}
		if allParams {
			if w, decided, n := pan3InCallers(p, s, rg); w != "" {
				r.bad(key, desc, pos, "out-of-range access is reachable "+w)
				return
			} else if decided {
				r.count("sccp_discharged", 1)
				r.ok(key, desc, pos, fmt.Sprintf("SCCP of each of the %d call sites' functions under every length class of their root operands: the access, evaluated inside the inlined callee, is unreachable or in range", n), true)
				return
			}
		}
	}
	// other slice-typed parameters take part in length relations (len(a) != len(b))
	for _, prm := range fn.Params {
		if _, ok := prm.Type().Underlying().(*types.Slice); ok && len(roots) < 3 {
			dup := false
			for _, rt := range roots {
				if rt == ssa.Value(prm) {
					dup = true
				}
			}
			if !dup {
				roots = append(roots, prm)
			}
		}
	}
	if len(roots) > 3 {
		r.bad(key, desc, pos, fmt.Sprintf("operand derives from %d root values: too many to enumerate", len(roots)))
		return
	}
	classes := make([][]aval, len(roots))
	var classNotes []string
	for i, rt := range roots {
		cl, note := lengthClasses(rt, rg)
		if prm, ok := rt.(*ssa.Parameter); ok {
			if pc, pnote, ok := paramClasses(p, prm, rg); ok {
				cl, note = pc, pnote
			}
		}
		classes[i] = cl
		classNotes = append(classNotes, note)
	}
	// enumerate joint assignments
	var witness string
	decidedAll := true
	total := 1
	for _, c := range classes {
		total *= len(c)
	}
	assign := make([]int, len(roots))
	for n := 0; n < total; n++ {
		k := n
		for i := range roots {
			assign[i] = k % len(classes[i])
			k /= len(classes[i])
		}
		an := newAnalyzer()
		an.maxBlocks = 200
		an.callModel = pan3Model(rg)
		var hyp []string
		for i, rt := range roots {
			an.pin[rt] = classes[i][assign[i]]
			// load forwarding: other loads of the same location (go/ssa has no
			// CSE) denote the same value when the location is not stored to
			for _, alias := range sameLoads(fn, rt) {
				an.pin[alias] = classes[i][assign[i]]
			}
			// captured variables that hold the length of this captured slice
			if n, ok := lenOf(classes[i][assign[i]]); ok || classes[i][assign[i]].k == kNil {
				for _, l := range capturedLengths(fn, rt) {
					an.pin[l] = cInt(int64(n))
				}
			}
			hyp = append(hyp, classes[i][assign[i]].String())
		}
		res := an.analyze(fn, nil)
		r.count("hypotheses", 1)
		if res.nonconverged {
			decidedAll = false
			continue
		}
		if !res.executable(s.ins) {
			continue
		}
		hz := false
		for _, h := range res.hazards {
			if h.leaf == s.ins {
				if strings.Contains(h.what, "index ?") {
					// unknown index on an empty operand: left to the guard patterns
					decidedAll = false
					continue
				}
				hz = true
				witness = fmt.Sprintf("with operand lengths %s: %s", strings.Join(hyp, ","), h.what)
			}
		}
		if hz {
			break
		}
		// executable without hazard: decided only if the index/bounds were constant
		if !boundsKnown(res, s) {
			decidedAll = false
		}
	}
	if witness != "" {
		r.bad(key, desc, pos, "out-of-range access is reachable "+witness)
		return
	}
	if decidedAll {
		r.count("sccp_discharged", 1)
		r.ok(key, desc, pos, "SCCP under every length class of the root operand(s) ("+strings.Join(classNotes, "; ")+"): the access is unreachable or in range", true)
		return
	}
	// D9: comparison callback of sort.Slice / sort.SliceStable indexing the sorted slice
	if s.kind == "index" && sortCallbackIndex(s) {
		r.count("guard_discharged", 1)
		r.ok(key, desc, pos, "less-callback of sort.Slice on the same captured slice: indices are in range by the sort contract", true)
		return
	}
	// D8: bounded induction variable against an operand of statically known length
	if s.kind == "index" {
		if ok, how := boundedAgainstKnownLen(s); ok {
			r.count("guard_discharged", 1)
			r.ok(key, desc, pos, how, true)
			return
		}
	}
	// D6: non-constant index with dominating guards
	if s.kind == "index" {
		if ok, how := indexWithin(s); ok {
			r.count("guard_discharged", 1)
			r.ok(key, desc, pos, how, true)
			return
		} else {
			r.bad(key, desc, pos, "non-constant index without a recognised dominating guard ("+how+")")
			return
		}
	}
	// D7: slices with non-constant bounds
	if ok, how := sliceWithin(s); ok {
		r.count("guard_discharged", 1)
		r.ok(key, desc, pos, how, true)
		return
	} else {
		r.bad(key, desc, pos, "slice bounds not proved within the operand ("+how+")")
	}
}

// pan3InCallers: see D4c. witness != "" when some call site reaches the access
// out of range; decided when every evaluation of the site in every caller
// hypothesis had known bounds and none was out of range.
func pan3InCallers(p *Program, s boundSite, rg map[*ssa.Global]string) (witness string, decided bool, nsites int) {
	sites, ok := p.directCallSites(s.fn)
	if !ok && s.fn.Parent() != nil {
		// a closure that its enclosing function only calls: decided in that function
		return pan3InEnclosing(p, s, rg)
	}
	if !ok {
		return "", false, 0
	}
	// the call sites of one caller are decided together (the callee is inlined at each of them)
	var callers []*ssa.Function
	byCaller := map[*ssa.Function][]*ssa.Call{}
	for _, c := range sites {
		F := c.Parent()
		if F == nil || F == s.fn {
			return "", false, 0
		}
		if byCaller[F] == nil {
			callers = append(callers, F)
		}
		byCaller[F] = append(byCaller[F], c)
	}
	for _, F := range callers {
		var roots []ssa.Value
		seen := map[ssa.Value]bool{}
		for _, c := range byCaller[F] {
			for _, a := range c.Common().Args {
				if isSliceOrString(a.Type()) {
					rootsOf(a, seen, &roots)
				}
			}
		}
		if len(roots) > 4 {
			return "", false, 0
		}
		classes := make([][]aval, len(roots))
		total := 1
		for i, rt := range roots {
			cl, _ := lengthClasses(rt, rg)
			if prm, ok := rt.(*ssa.Parameter); ok {
				if pc, _, ok := paramClasses(p, prm, rg); ok {
					cl = pc
				}
			}
			classes[i] = cl
			total *= len(cl)
		}
		assign := make([]int, len(roots))
		for n := 0; n < total; n++ {
			k := n
			for i := range roots {
				assign[i] = k % len(classes[i])
				k /= len(classes[i])
			}
			an := newAnalyzer()
			an.maxBlocks = 200
			an.callModel = pan3Model(rg)
			var hyp []string
			for i, rt := range roots {
				an.pin[rt] = classes[i][assign[i]]
				for _, alias := range sameLoads(F, rt) {
					an.pin[alias] = classes[i][assign[i]]
				}
				hyp = append(hyp, classes[i][assign[i]].String())
			}
			res := an.analyze(F, nil)
			if res.nonconverged {
				return "", false, 0
			}
			for _, h := range res.hazards {
				if h.leaf == s.ins {
					if strings.Contains(h.what, "index ?") {
						return "", false, 0
					}
					return fmt.Sprintf("from %s with operand lengths %s: %s", short(F), strings.Join(hyp, ","), h.what), false, 0
				}
			}
			if res.siteUndecided[s.ins] > 0 {
				return "", false, 0
			}
		}
	}
	return "", true, len(sites)
}

// pan3InEnclosing: the site lies in a function literal whose value is only called
// by the enclosing function: that function is analysed under the length classes
// of the slices the literal captures (as stored into the captured variables)
// and of its own slice roots, the literal being analysed at each of its calls.
func pan3InEnclosing(p *Program, s boundSite, rg map[*ssa.Global]string) (string, bool, int) {
	F := s.fn.Parent()
	var mc *ssa.MakeClosure
	for _, b := range F.Blocks {
		for _, ins := range b.Instrs {
			if m, ok := ins.(*ssa.MakeClosure); ok && m.Fn == ssa.Value(s.fn) {
				if mc != nil {
					return "", false, 0
				}
				mc = m
			}
		}
	}
	if mc == nil || mc.Referrers() == nil {
		return "", false, 0
	}
	ncalls := 0
	for _, ref := range *mc.Referrers() {
		switch x := ref.(type) {
		case *ssa.Call:
			if x.Common().Value != ssa.Value(mc) {
				return "", false, 0
			}
			ncalls++
		case *ssa.DebugRef:
		default:
			return "", false, 0
		}
	}
	if ncalls == 0 {
		return "", false, 0
	}
	// roots: what the enclosing function stores into the captured slice variables
	var roots []ssa.Value
	seen := map[ssa.Value]bool{}
	for _, bnd := range mc.Bindings {
		al, ok := bnd.(*ssa.Alloc)
		if !ok || al.Referrers() == nil {
			continue
		}
		if !isSliceOrString(al.Type().(*types.Pointer).Elem()) {
			continue
		}
		for _, ref := range *al.Referrers() {
			if st, ok := ref.(*ssa.Store); ok && st.Addr == ssa.Value(al) {
				rootsOf(st.Val, seen, &roots)
			}
		}
	}
	if len(roots) == 0 || len(roots) > 3 {
		return "", false, 0
	}
	classes := make([][]aval, len(roots))
	total := 1
	for i, rt := range roots {
		cl, _ := lengthClasses(rt, rg)
		classes[i] = cl
		total *= len(cl)
	}
	assign := make([]int, len(roots))
	for n := 0; n < total; n++ {
		k := n
		for i := range roots {
			assign[i] = k % len(classes[i])
			k /= len(classes[i])
		}
		an := newAnalyzer()
		an.maxBlocks = 200
		an.callModel = pan3Model(rg)
		var hyp []string
		for i, rt := range roots {
			an.pin[rt] = classes[i][assign[i]]
			hyp = append(hyp, classes[i][assign[i]].String())
		}
		res := an.analyze(F, nil)
		if res.nonconverged {
			return "", false, 0
		}
		for _, h := range res.hazards {
			if h.leaf == s.ins {
				if strings.Contains(h.what, "index ?") {
					return "", false, 0
				}
				return fmt.Sprintf("from %s with operand lengths %s: %s", short(F), strings.Join(hyp, ","), h.what), false, 0
			}
		}
		if res.siteUndecided[s.ins] > 0 {
			return "", false, 0
		}
	}
	return "", true, ncalls
}

func isConstVal(v ssa.Value) bool {
	c, ok := v.(*ssa.Const)
	return ok && c.Value != nil
}

// boundsKnown: under this run the index (or both slice bounds) folded to
// constants and the operand length was known — then "no hazard" is a proof.
func boundsKnown(res *result, s boundSite) bool {
	get := func(v ssa.Value) aval {
		if v == nil {
			return cInt(0)
		}
		return res.val(v)
	}
	base := res.val(s.base)
	if _, ok := lenOf(base); !ok {
		return false
	}
	if s.kind == "index" {
		if _, ok := constInt(get(s.idx)); ok {
			return true
		}
		// a different constant in each analysed iteration of the enclosing loop (each
		// checked against the operand's length when it was evaluated)
		if res.versionedConst[s.idx] || res.versionedConst[stripIntConv(s.idx)] {
			return true
		}
		// a non-negative index below a constant bound (dominating `idx < c`) that the
		// operand's length in this class reaches
		if n, ok := lenOf(base); ok && lowerBoundNonNeg(s.idx, 0) {
			if ub, ok := constUpperBound(s); ok && ub <= int64(n) {
				return true
			}
		}
		return false
	}
	_, ok1 := constInt(get(s.lo))
	ok2 := true
	if s.hi != nil {
		_, ok2 = constInt(get(s.hi))
	}
	return ok1 && ok2
}

// constUpperBound: the index is (strictly) below a constant c on every path to
// the site (dominating `idx < c` / `idx <= c-1`); returns c.
func constUpperBound(s boundSite) (int64, bool) {
	idx := stripIntConv(s.idx)
	for _, b := range s.fn.Blocks {
		ifi, ok := b.Instrs[len(b.Instrs)-1].(*ssa.If)
		if !ok {
			continue
		}
		cmp, ok := ifi.Cond.(*ssa.BinOp)
		if !ok || !sameAccess(stripIntConv(cmp.X), idx) {
			continue
		}
		k, ok := stripIntConv(cmp.Y).(*ssa.Const)
		if !ok || k.Value == nil || k.Value.Kind() != constant.Int {
			continue
		}
		c, exact := constant.Int64Val(k.Value)
		if !exact {
			continue
		}
		switch cmp.Op {
		case token.LSS:
		case token.LEQ:
			c++
		default:
			continue
		}
		if edgeDominates(b, 0, s.ins.Block()) {
			return c, true
		}
	}
	return 0, false
}

// sliceWithin: x[lo:hi] with non-constant bounds: lo proved in [0,len] and hi
// (if any) in [lo,len] by dominating guards on the same values.
func sliceWithin(s boundSite) (bool, string) {
	var notes []string
	okAll := true
	check := func(name string, v ssa.Value, needUpper bool) {
		if v == nil || isConstVal(v) {
			return
		}
		up, lowb := valueWithinLen(s, v)
		if !(up || !needUpper) || !lowb {
			okAll = false
		}
		notes = append(notes, fmt.Sprintf("%s: <=len proved=%v, >=0 proved=%v", name, up, lowb))
	}
	check("low", s.lo, true)
	// a high bound chosen among alternatives (phi): each alternative is proved at the
	// end of the block it comes from
	if s.hi != nil && s.lo != nil && !isConstVal(s.lo) {
		if ph, ok := stripIntConv(s.hi).(*ssa.Phi); ok && len(ph.Edges) == len(ph.Block().Preds) {
			upLo, _ := valueWithinLen(s, s.lo)
			for i, e := range ph.Edges {
				se := s
				se.at = ph.Block().Preds[i]
				se.hi = e
				if isLenOf(stripIntConv(e), s.base) {
					if !upLo {
						okAll = false
						notes = append(notes, fmt.Sprintf("high alternative %d = len: low <= len not proved", i))
					}
					continue
				}
				if isConstVal(e) {
					okAll = false
					notes = append(notes, fmt.Sprintf("high alternative %d constant", i))
					continue
				}
				up, lowb := valueWithinLen(se, e)
				if !up || !lowb || !leqProved(se, s.lo, e) {
					okAll = false
					notes = append(notes, fmt.Sprintf("high alternative %d: <=len proved=%v, >=0 proved=%v, low<=high proved=%v", i, up, lowb, leqProved(se, s.lo, e)))
				}
			}
			return okAll, strings.Join(notes, "; ")
		}
	}
	check("high", s.hi, true)
	// constant bounds mixed with variable ones need the SCCP result too; be conservative
	if s.lo != nil && isConstVal(s.lo) && !isConstZero(s.lo) {
		okAll = false
		notes = append(notes, "constant non-zero low bound with variable operand length")
	}
	if s.hi != nil && isConstVal(s.hi) {
		okAll = false
		notes = append(notes, "constant high bound with variable operand length")
	}
	// lo <= hi when both variable: require hi = lo + nonneg or a dominating lo <= hi test
	if s.lo != nil && s.hi != nil && !isConstVal(s.lo) && !isConstVal(s.hi) {
		if !leqProved(s, s.lo, s.hi) {
			okAll = false
			notes = append(notes, "low <= high not proved")
		}
	}
	return okAll, strings.Join(notes, "; ")
}

// valueWithinLen: dominating guards prove v <= len(base) (upper) and v >= 0 (lower).
func valueWithinLen(s boundSite, v ssa.Value) (upper, lower bool) {
	fn := s.fn
	idx := stripIntConv(v)
	lower = lowerBoundNonNeg(idx, 0)
	// v = len(base) - k  (k >= 0 constant): upper holds; lower needs len >= k: not proved here
	if bo, ok := idx.(*ssa.BinOp); ok && bo.Op == token.SUB && isLenOf(bo.X, s.base) {
		upper = true
	}
	if isLenOf(idx, s.base) {
		return true, true
	}
	// re.FindStringSubmatchIndex(base)[2k], [2k+1] for a capture group that takes part
	// in every match of the (constant) pattern: a byte offset within base
	if ld, ok := stripIntConv(resolveParam(idx)).(*ssa.UnOp); ok && ld.Op == token.MUL {
		if ia, ok := ld.X.(*ssa.IndexAddr); ok {
			if k, ok := ia.Index.(*ssa.Const); ok && k.Value != nil {
				if c, ok := ia.X.(*ssa.Call); ok && c.Common().StaticCallee() != nil && c.Common().StaticCallee().RelString(nil) == "(*regexp.Regexp).FindStringSubmatchIndex" {
					kv, _ := constant.Int64Val(k.Value)
					if pat, ok := regexOfValue(c.Common().Args[0], pan3Regex); ok && sameStringValue(c.Common().Args[1], resolveParam(s.base)) && captureMandatory(pat, int(kv)/2) {
						return true, true
					}
				}
			}
		}
	}
	// strings.Index*(base, …) is -1 or a byte offset within base
	if c, ok := idx.(*ssa.Call); ok {
		if sc := c.Common().StaticCallee(); sc != nil && strings.HasPrefix(sc.RelString(nil), "strings.") && strings.Contains(sc.Name(), "Index") &&
			len(c.Common().Args) > 0 && sameAccess(c.Common().Args[0], s.base) {
			upper = true
		}
	}
	for _, b := range fn.Blocks {
		ifi, ok := b.Instrs[len(b.Instrs)-1].(*ssa.If)
		if !ok {
			continue
		}
		for _, cmp := range condAtoms(ifi.Cond) {
			x, y := stripIntConv(cmp.X), stripIntConv(cmp.Y)
			op := cmp.Op
			if sameModuloIntConv(y, idx) && !sameModuloIntConv(x, idx) {
				x, y = y, x
				op = flipOp(op)
			}
			if !sameModuloIntConv(x, idx) {
				continue
			}
			isLen := isLenOf(y, s.base)
			switch {
			case isLen && (op == token.LSS || op == token.LEQ):
				if edgeDominates(b, 0, s.blk()) {
					upper = true
				}
			case isLen && (op == token.GEQ || op == token.GTR):
				if edgeDominates(b, 1, s.blk()) {
					upper = true
				}
			case isConstZero(y) && (op == token.LSS || op == token.LEQ):
				if edgeDominates(b, 1, s.blk()) {
					lower = true
				}
			case isConstZero(y) && (op == token.GEQ || op == token.GTR):
				if edgeDominates(b, 0, s.blk()) {
					lower = true
				}
			case isConstMinusOne(y) && op == token.GTR:
				if edgeDominates(b, 0, s.blk()) {
					lower = true
				}
			}
		}
	}
	// a sum of values each proved non-negative
	if !lower {
		if bo, ok := idx.(*ssa.BinOp); ok && bo.Op == token.ADD {
			_, l1 := valueWithinLen(s, bo.X)
			_, l2 := valueWithinLen(s, bo.Y)
			lower = l1 && l2
		}
	}
	return
}

// sameModuloIntConv(guard, site): the two values are the same expression up to
// integer conversions of its leaves, the guard being computed in a type at
// least as wide as the site's (it then bounds the narrower computation once it
// is below the operand's length).
func sameModuloIntConv(a, b ssa.Value) bool {
	a, b = stripIntConv(a), stripIntConv(b)
	if sameAccess(a, b) {
		return true
	}
	x, ok1 := a.(*ssa.BinOp)
	y, ok2 := b.(*ssa.BinOp)
	if ok1 && ok2 && x.Op == y.Op && (x.Op == token.ADD || x.Op == token.SUB) {
		// the guard (a) must be computed at least as wide as the guarded expression (b):
		// a narrower guard could wrap and pass while the wider site is out of range
		ba, _, oka := intBits(x.Type())
		bb, _, okb := intBits(y.Type())
		if !oka || !okb || ba < bb {
			return false
		}
		return sameModuloIntConv(x.X, y.X) && sameModuloIntConv(x.Y, y.Y)
	}
	return false
}

func isConstMinusOne(v ssa.Value) bool {
	c, ok := v.(*ssa.Const)
	return ok && c.Value != nil && c.Value.Kind() == constant.Int && c.Value.ExactString() == "-1"
}

// rangeInductionOver: idx is the induction value of a lowered range loop; returns the ranged operand.
func rangeInductionOver(idx ssa.Value) (ssa.Value, bool) {
	bo, ok := idx.(*ssa.BinOp)
	if !ok || bo.Op != token.ADD {
		return nil, false
	}
	if _, isPhi := bo.X.(*ssa.Phi); !isPhi {
		return nil, false
	}
	hb := bo.Block()
	ifi, ok := hb.Instrs[len(hb.Instrs)-1].(*ssa.If)
	if !ok {
		return nil, false
	}
	cmp, ok := ifi.Cond.(*ssa.BinOp)
	if !ok || cmp.Op != token.LSS || cmp.X != ssa.Value(bo) {
		return nil, false
	}
	lc, ok := cmp.Y.(*ssa.Call)
	if !ok {
		return nil, false
	}
	if b, ok := lc.Common().Value.(*ssa.Builtin); !ok || b.Name() != "len" {
		return nil, false
	}
	return lc.Common().Args[0], true
}

// sameLenProved: a dominating `len(a) != len(b)` test leaves on its true edge,
// so len(a) == len(b) holds at `at`.
func sameLenProved(fn *ssa.Function, a, b ssa.Value, at ssa.Instruction) bool {
	for _, blk := range fn.Blocks {
		ifi, ok := blk.Instrs[len(blk.Instrs)-1].(*ssa.If)
		if !ok {
			continue
		}
		cmp, ok := ifi.Cond.(*ssa.BinOp)
		if !ok || (cmp.Op != token.NEQ && cmp.Op != token.EQL) {
			continue
		}
		if !((isLenOf(cmp.X, a) && isLenOf(cmp.Y, b)) || (isLenOf(cmp.X, b) && isLenOf(cmp.Y, a))) {
			continue
		}
		eqEdge := 1
		if cmp.Op == token.EQL {
			eqEdge = 0
		}
		if edgeDominates(blk, eqEdge, at.Block()) {
			return true
		}
	}
	return false
}

// sortCallbackIndex: the site is in an anonymous function passed as the
// less-callback to sort.Slice/SliceStable(x, less), indexes the captured x
// with one of the callback's parameters.
func sortCallbackIndex(s boundSite) bool {
	fn := s.fn
	parent := fn.Parent()
	if parent == nil || len(fn.Params) != 2 {
		return false
	}
	idx := stripIntConv(s.idx)
	if idx != ssa.Value(fn.Params[0]) && idx != ssa.Value(fn.Params[1]) {
		return false
	}
	ld, ok := s.base.(*ssa.UnOp)
	var fv *ssa.FreeVar
	if ok {
		fv, _ = ld.X.(*ssa.FreeVar)
	} else {
		fv, _ = s.base.(*ssa.FreeVar)
	}
	if fv == nil {
		return false
	}
	fvIdx := -1
	for i, f := range fn.FreeVars {
		if f == fv {
			fvIdx = i
		}
	}
	for _, b := range parent.Blocks {
		for _, ins := range b.Instrs {
			call, ok := ins.(*ssa.Call)
			if !ok {
				continue
			}
			sc := call.Common().StaticCallee()
			if sc == nil || (sc.RelString(nil) != "sort.Slice" && sc.RelString(nil) != "sort.SliceStable") {
				continue
			}
			mc, ok := call.Common().Args[1].(*ssa.MakeClosure)
			if !ok || mc.Fn != ssa.Value(fn) || fvIdx < 0 || fvIdx >= len(mc.Bindings) {
				continue
			}
			// the sorted operand is the captured variable (by value or through its cell)
			sorted := call.Common().Args[0]
			if mi, ok := sorted.(*ssa.MakeInterface); ok {
				sorted = mi.X
			}
			bind := mc.Bindings[fvIdx]
			if sorted == bind {
				return true
			}
			if l2, ok := sorted.(*ssa.UnOp); ok && l2.X == bind {
				return true
			}
		}
	}
	return false
}

// boundedAgainstKnownLen: index is an induction variable with a dominating
// `i <= B` / `i < B` test where B has a small constant upper bound, and the
// operand's length is statically known (SCCP without hypotheses) and larger.
func boundedAgainstKnownLen(s boundSite) (bool, string) {
	idx := stripIntConv(s.idx)
	if !lowerBoundNonNeg(idx, 0) {
		return false, ""
	}
	// a site in an unexported function that is only called directly is decided once
	// per call site, the parameters standing for that site's arguments
	if theProgram != nil && siteRestrict[s.fn] == nil {
		if sites, ok := theProgram.directCallSites(s.fn); ok {
			if _, isPrm := s.base.(*ssa.Parameter); isPrm {
				var hows []string
				for _, c := range sites {
					siteRestrict[s.fn] = c
					ok, how := boundedAgainstKnownLen(s)
					delete(siteRestrict, s.fn)
					if !ok {
						return false, ""
					}
					hows = append(hows, how)
				}
				sort.Strings(hows)
				return true, fmt.Sprintf("for each of the %d call sites: %s", len(sites), strings.Join(hows, "; "))
			}
		}
	}
	n, ok := staticLenOf(s.fn, s.base, 0)
	if !ok {
		return false, ""
	}
	ub, ok := upperBoundAt(s.fn, idx, s.ins.Block(), 0)
	if !ok || ub >= int64(n) {
		return false, ""
	}
	return true, fmt.Sprintf("index bounded by %d (dominating test against a constant table / bounded results and arguments) and the operand has static length %d", ub, n)
}

func leqProved(s boundSite, lo, hi ssa.Value) bool {
	l, h := stripIntConv(lo), stripIntConv(hi)
	// hi = lo + nonneg
	if bo, ok := h.(*ssa.BinOp); ok && bo.Op == token.ADD {
		nonneg := func(v ssa.Value) bool {
			if lowerBoundNonNeg(v, 0) {
				return true
			}
			_, lw := valueWithinLen(s, v)
			return lw
		}
		if sameAccess(stripIntConv(bo.X), l) && nonneg(bo.Y) {
			return true
		}
		if sameAccess(stripIntConv(bo.Y), l) && nonneg(bo.X) {
			return true
		}
	}
	return false
}

var _ = sort.Strings

// sameLoads: other loads in fn of the location root loads from, provided the
// location is never stored to in fn.
func sameLoads(fn *ssa.Function, root ssa.Value) []ssa.Value {
	ld, ok := root.(*ssa.UnOp)
	if !ok || ld.Op != token.MUL {
		return nil
	}
	switch cell := ld.X.(type) {
	case *ssa.FieldAddr, *ssa.IndexAddr:
	case *ssa.Alloc:
		// a local cell written exactly once (a spilled parameter or variable whose
		// address only flows into fresh allocations): every load reads that value
		if cell.Referrers() == nil || !onlyFreshEscapes(cell, 0) {
			return nil
		}
		nst := 0
		var loads []ssa.Value
		for _, ref := range *cell.Referrers() {
			switch x := ref.(type) {
			case *ssa.Store:
				if x.Addr == ssa.Value(cell) {
					nst++
				}
			case *ssa.UnOp:
				if x != ld && x.Op == token.MUL {
					loads = append(loads, x)
				}
			}
		}
		if nst != 1 {
			return nil
		}
		return loads
	case *ssa.FreeVar:
		// a captured variable the closure only reads: loads within one activation of
		// the closure see one value when the enclosing function writes the cell once
		if cell.Referrers() == nil {
			return nil
		}
		var loads []ssa.Value
		for _, ref := range *cell.Referrers() {
			switch x := ref.(type) {
			case *ssa.UnOp:
				if x != ld && x.Op == token.MUL {
					loads = append(loads, x)
				}
			case *ssa.DebugRef:
			default:
				return nil
			}
		}
		if al := capturedCell(cell); al == nil || storesTo(al) != 1 || !onlyFreshEscapes(al, 0) {
			return nil
		}
		return loads
	default:
		return nil
	}
	var out []ssa.Value
	for _, b := range fn.Blocks {
		for _, ins := range b.Instrs {
			switch x := ins.(type) {
			case *ssa.Store:
				if sameAccess(x.Addr, ld.X) {
					return nil
				}
			case *ssa.UnOp:
				if x != ld && x.Op == token.MUL && sameAccess(x.X, ld.X) {
					out = append(out, x)
				}
			}
		}
	}
	return out
}
