package main

// C12 — is / as and the type hierarchies.  TYP2 the parent table against the
// frozen R4 hierarchy (includes TYP1: only resources derive from
// DomainResource), TYP4 resolution order and rejection, TYP6 `is` respects
// namespaces and walks the parent chain, TYP5 choice look-through.

import (
	"fmt"
	"go/ast"
	"go/constant"
	"go/types"
	"sort"
	"strings"

	"golang.org/x/tools/go/ssa"
)

// registryNames: the message type names listed in protofields.dummyResources / dummyElements.
func registryNames(p *Program, varName string) ([]string, error) {
	pk := p.ByPath[mod+"/internal/protofields"]
	if pk == nil {
		return nil, fmt.Errorf("anchor: package protofields not loaded")
	}
	init, _ := findVarDecl(pk, varName)
	cl, ok := init.(*ast.CompositeLit)
	if !ok {
		return nil, fmt.Errorf("anchor: protofields.%s is not a composite literal", varName)
	}
	var out []string
	for _, e := range cl.Elts {
		tv, ok := pk.TypesInfo.Types[e]
		if !ok {
			return nil, fmt.Errorf("protofields.%s: untyped element", varName)
		}
		n := namedName(tv.Type)
		if n == "" {
			return nil, fmt.Errorf("protofields.%s: element of type %s", varName, tv.Type)
		}
		out = append(out, n)
	}
	sort.Strings(out)
	return out, nil
}

// R4 hierarchy (frozen excerpt of http://hl7.org/fhir/R4/datatypes.html and resourcelist)
var r4PrimitiveParent = map[string]string{
	"code": "string", "markdown": "string", "id": "string",
	"unsignedInt": "integer", "positiveInt": "integer",
	"url": "uri", "canonical": "uri", "uuid": "uri", "oid": "uri",
}
var r4Primitives = []string{"instant", "time", "date", "dateTime", "base64Binary", "decimal", "boolean", "url", "code", "string",
	"integer", "uri", "canonical", "markdown", "id", "oid", "uuid", "unsignedInt", "positiveInt"}
var r4QuantityProfiles = []string{"Duration", "MoneyQuantity", "Age", "Count", "Distance", "SimpleQuantity"}
var r4BackboneTypes = []string{"Dosage", "ElementDefinition", "MarketingStatus", "Population", "ProdCharacteristic", "ProductShelfLife", "SubstanceAmount", "Timing"}
var r4ResourceRoots = []string{"Bundle", "Binary", "Parameters", "DomainResource"}

type typeWorld struct {
	elements  map[string]bool // registry datatype names (proto names, e.g. "String", "HumanName")
	resources map[string]bool
}

func loadTypeWorld(p *Program) (*typeWorld, error) {
	el, err := registryNames(p, "dummyElements")
	if err != nil {
		return nil, err
	}
	rs, err := registryNames(p, "dummyResources")
	if err != nil {
		return nil, err
	}
	w := &typeWorld{elements: map[string]bool{}, resources: map[string]bool{}}
	for _, n := range el {
		w.elements[n] = true
	}
	for _, n := range rs {
		w.resources[n] = true
	}
	if len(w.elements) < 40 || len(w.resources) < 100 {
		return nil, fmt.Errorf("registries too small: %d elements, %d resources", len(w.elements), len(w.resources))
	}
	return w, nil
}

// model of the registry lookups (runtime maps built from the dummy lists at init)
func (w *typeWorld) model() func(c *ssa.CallCommon, args []aval) (aval, bool) {
	return func(c *ssa.CallCommon, args []aval) (aval, bool) {
		sc := c.StaticCallee()
		if sc == nil {
			return stringLibModel(c, args)
		}
		str := func(i int) (string, bool) {
			if i < len(args) && args[i].k == kConst && args[i].c.Kind() == constant.String {
				return constant.StringVal(args[i].c), true
			}
			return "", false
		}
		switch short(sc) {
		case "internal/protofields.IsValidElementType":
			if s, ok := str(0); ok {
				return cBool(w.elements[s]), true
			}
		case "internal/protofields.IsValidResourceType", "internal/resource.IsType":
			if s, ok := str(0); ok {
				return cBool(w.resources[s]), true
			}
		}
		return stringLibModel(c, args)
	}
}

func tsVal(ns, name string) aval {
	return aval{k: kStruct, elems: []aval{cStr(ns), cStr(name)}}
}

func readTS(v aval) (string, string, bool) {
	if v.k == kStruct && len(v.elems) == 2 && v.elems[0].k == kConst && v.elems[1].k == kConst {
		return constant.StringVal(v.elems[0].c), constant.StringVal(v.elems[1].c), true
	}
	return "", "", false
}

// expectedParent per the frozen R4 hierarchy.
func (w *typeWorld) expectedParent(name string, nested bool) (string, string) {
	in := func(list []string) bool {
		for _, x := range list {
			if x == name {
				return true
			}
		}
		return false
	}
	switch {
	case name == "Element" || name == "Resource":
		return "FHIR", name
	case r4PrimitiveParent[name] != "":
		return "FHIR", r4PrimitiveParent[name]
	case in(r4QuantityProfiles):
		return "FHIR", "Quantity"
	case in(r4BackboneTypes):
		return "FHIR", "BackboneElement"
	case in(r4ResourceRoots):
		return "FHIR", "Resource"
	case in(r4Primitives), name == "BackboneElement":
		return "FHIR", "Element"
	case w.resources[name]:
		return "FHIR", "DomainResource"
	case w.elements[name]:
		return "FHIR", "Element"
	case nested:
		return "FHIR", "BackboneElement"
	}
	return "", ""
}

func ruleTYP2(p *Program) *RuleResult {
	r := newResult("TYP2")
	w, err := loadTypeWorld(p)
	if err != nil {
		return r.anchorFail(err)
	}
	parent, err := p.Method("fhirpath/internal/reflection", "TypeSpecifier", "parent")
	if err != nil {
		return r.anchorFail(err)
	}
	// nested backbone component names of the schema (Patient_Contact → Contact)
	nestedNames := map[string]bool{}
	fields, err := schemaFields(p)
	if err != nil {
		return r.anchorFail(err)
	}
	cw, _ := choiceWrappers(p)
	isChoice := map[string]bool{}
	for _, c := range cw {
		isChoice[c.Name] = true
	}
	// nested messages that wrap an enum (code-valued elements) are typed "code" by TypeOf, not by name
	enumWrapper := map[string]bool{}
	for _, f := range fields {
		if f.GoField == "Value" && !f.IsMessage {
			enumWrapper[f.Msg] = true
		}
	}
	for _, f := range fields {
		if strings.Contains(f.Msg, "_") && !isChoice[f.Msg] && !enumWrapper[f.Msg] {
			n := protoMessageName(f.Msg)
			if !w.resources[n] && !w.elements[n] && n != "ReferenceId" {
				nestedNames[n] = true
			}
		}
	}
	var names []string
	add := func(n string) { names = append(names, n) }
	for _, n := range r4Primitives {
		add(n)
	}
	for n := range w.elements {
		// registry names are proto names; FHIR type names of primitives are lower-case (covered above)
		lower := strings.ToLower(n[:1]) + n[1:]
		isPrim := false
		for _, pn := range r4Primitives {
			if pn == lower {
				isPrim = true
			}
		}
		if !isPrim {
			add(n)
		}
	}
	for n := range w.resources {
		add(n)
	}
	for _, n := range []string{"Element", "BackboneElement", "Resource", "DomainResource"} {
		add(n)
	}
	sort.Strings(names)
	var nested []string
	for n := range nestedNames {
		nested = append(nested, n)
	}
	sort.Strings(nested)
	check := func(name string, isNested bool) {
		r.count("type_names", 1)
		an := newAnalyzer()
		an.maxBlocks = 200
		an.callModel = w.model()
		res := an.analyze(parent, []aval{tsVal("FHIR", name)})
		wns, wname := w.expectedParent(name, isNested)
		gns, gname, ok := "", "", false
		if len(res.rets) == 1 && len(res.hazards) == 0 {
			gns, gname, ok = readTS(res.rets[0].vals[0])
		}
		key := "parent|" + name
		if isNested {
			key = "parent|nested|" + name
		}
		desc := fmt.Sprintf("parent(FHIR.%s) = %s.%s (R4: %s.%s)", name, gns, gname, wns, wname)
		switch {
		case !ok:
			r.undecided(key, "parent(FHIR."+name+") could not be evaluated", p.pos(parent.Pos()), "SCCP did not yield a constant type specifier")
		case gns == wns && gname == wname:
			r.ok(key, desc, p.pos(parent.Pos()), "SCCP with the type name pinned and the registries modelled from the dummy lists", true)
		default:
			r.bad(key, desc, p.pos(parent.Pos()), "the parent table differs from the R4 type hierarchy")
		}
	}
	for _, n := range names {
		check(n, false)
	}
	for _, n := range nested {
		check(n, true)
	}
	// System namespace: every type derives from System.Any
	for _, n := range []string{"String", "Boolean", "Integer", "Decimal", "Date", "DateTime", "Time", "Quantity"} {
		an := newAnalyzer()
		an.callModel = w.model()
		res := an.analyze(parent, []aval{tsVal("System", n)})
		if len(res.rets) == 1 {
			if gns, gname, ok := readTS(res.rets[0].vals[0]); ok && gns == "System" && gname == "Any" {
				r.ok("parent|System."+n, "parent(System."+n+") = System.Any", p.pos(parent.Pos()), "SCCP", false)
				continue
			}
		}
		r.bad("parent|System."+n, "parent(System."+n+") is not System.Any", p.pos(parent.Pos()), "System types must derive from System.Any only")
	}
	r.floor("type_names", 250)
	return r
}

func ruleTYP6(p *Program) *RuleResult {
	r := newResult("TYP6")
	w, err := loadTypeWorld(p)
	if err != nil {
		return r.anchorFail(err)
	}
	is, err := p.Method("fhirpath/internal/reflection", "TypeSpecifier", "Is")
	if err != nil {
		return r.anchorFail(err)
	}
	type tc struct {
		ns1, n1, ns2, n2 string
		want             bool
	}
	cases := []tc{
		{"FHIR", "Quantity", "System", "Quantity", false},
		{"System", "Quantity", "FHIR", "Quantity", false},
		{"System", "String", "FHIR", "string", false},
		{"FHIR", "boolean", "System", "Boolean", false},
		{"FHIR", "Quantity", "FHIR", "Quantity", true},
		{"System", "Integer", "System", "Integer", true},
		{"System", "Integer", "System", "Any", true},
		{"System", "Integer", "System", "Decimal", false},
		{"FHIR", "code", "FHIR", "string", true},
		{"FHIR", "code", "FHIR", "Element", true},
		{"FHIR", "string", "FHIR", "code", false},
		{"FHIR", "positiveInt", "FHIR", "integer", true},
		{"FHIR", "canonical", "FHIR", "uri", true},
		{"FHIR", "uri", "FHIR", "string", false},
		{"FHIR", "Age", "FHIR", "Quantity", true},
		{"FHIR", "Quantity", "FHIR", "Age", false},
		{"FHIR", "HumanName", "FHIR", "Element", true},
		{"FHIR", "HumanName", "FHIR", "BackboneElement", false},
		{"FHIR", "Timing", "FHIR", "BackboneElement", true},
		{"FHIR", "Timing", "FHIR", "Element", true},
		{"FHIR", "Patient", "FHIR", "DomainResource", true},
		{"FHIR", "Patient", "FHIR", "Resource", true},
		{"FHIR", "Patient", "FHIR", "Element", false},
		{"FHIR", "Bundle", "FHIR", "DomainResource", false},
		{"FHIR", "Bundle", "FHIR", "Resource", true},
		{"FHIR", "Patient", "FHIR", "Observation", false},
		{"FHIR", "Element", "FHIR", "Resource", false},
		{"FHIR", "Resource", "FHIR", "Element", false},
	}
	for _, c := range cases {
		r.count("cases", 1)
		an := newAnalyzer()
		an.maxBlocks = 200
		an.maxDepth = 12
		an.allowRecursion = true
		an.callModel = w.model()
		res := an.analyze(is, []aval{tsVal(c.ns1, c.n1), tsVal(c.ns2, c.n2)})
		got := "?"
		if len(res.rets) >= 1 && len(res.hazards) == 0 {
			all := true
			var g0 string
			for i, ri := range res.rets {
				v := ri.vals[0]
				if v.k != kConst || v.c.Kind() != constant.Bool {
					all = false
					break
				}
				s := fmt.Sprint(constant.BoolVal(v.c))
				if i == 0 {
					g0 = s
				} else if s != g0 {
					all = false
				}
			}
			if all {
				got = g0
			}
		}
		key := fmt.Sprintf("Is|%s.%s is %s.%s", c.ns1, c.n1, c.ns2, c.n2)
		desc := fmt.Sprintf("%s.%s is %s.%s = %s (want %v)", c.ns1, c.n1, c.ns2, c.n2, got, c.want)
		if got == fmt.Sprint(c.want) {
			r.ok(key, desc, p.pos(is.Pos()), "SCCP through Is and parent (bounded recursion along the parent chain)", true)
		} else {
			r.bad(key, desc, p.pos(is.Pos()), "`is` must hold exactly for the type itself and its ancestors within the same namespace")
		}
	}
	r.floor("cases", 25)
	return r
}

func ruleTYP4(p *Program) *RuleResult {
	r := newResult("TYP4")
	w, err := loadTypeWorld(p)
	if err != nil {
		return r.anchorFail(err)
	}
	nts, err := p.Func("fhirpath/internal/reflection", "NewTypeSpecifier")
	if err != nil {
		return r.anchorFail(err)
	}
	nq, err := p.Func("fhirpath/internal/reflection", "NewQualifiedTypeSpecifier")
	if err != nil {
		return r.anchorFail(err)
	}
	outcome := func(res *result) string {
		if len(res.rets) != 1 || len(res.hazards) > 0 {
			return "?"
		}
		ri := res.rets[0]
		if ri.vals[1].k == kNonNil {
			return "error"
		}
		if ri.vals[1].k != kNil {
			return "?"
		}
		if ns, n, ok := readTS(ri.vals[0]); ok {
			return ns + "." + n
		}
		return "?"
	}
	for _, c := range []struct{ name, want string }{
		{"Quantity", "FHIR.Quantity"}, {"Patient", "FHIR.Patient"}, {"string", "FHIR.string"}, {"String", "System.String"},
		{"Integer", "System.Integer"}, {"integer", "FHIR.integer"}, {"Boolean", "System.Boolean"}, {"boolean", "FHIR.boolean"},
		{"Decimal", "System.Decimal"}, {"DateTime", "System.DateTime"}, {"dateTime", "FHIR.dateTime"}, {"Any", "System.Any"},
		{"Element", "FHIR.Element"}, {"DomainResource", "FHIR.DomainResource"}, {"BackboneElement", "FHIR.BackboneElement"},
		{"HumanName", "FHIR.HumanName"}, {"humanName", "error"}, {"patient", "error"}, {"Foo", "error"}, {"", "error"}, {"STRING", "error"},
	} {
		r.count("cases", 1)
		an := newAnalyzer()
		an.maxBlocks = 200
		an.callModel = w.model()
		res := an.analyze(nts, []aval{cStr(c.name)})
		got := outcome(res)
		key := "NewTypeSpecifier|" + c.name
		desc := fmt.Sprintf("type name %q resolves to %s (want %s)", c.name, got, c.want)
		if got == c.want {
			r.ok(key, desc, p.pos(nts.Pos()), "SCCP with the registries modelled: FHIR first, then System, case-sensitively, else an error", true)
		} else {
			r.bad(key, desc, p.pos(nts.Pos()), "unqualified names must resolve FHIR first, then System, case-sensitively; unknown names must be rejected")
		}
	}
	for _, c := range []struct{ ns, name, want string }{
		{"FHIR", "Patient", "FHIR.Patient"}, {"FHIR", "Quantity", "FHIR.Quantity"}, {"System", "Quantity", "System.Quantity"},
		{"System", "Patient", "error"}, {"FHIR", "Integer", "error"}, {"System", "integer", "error"}, {"Foo", "Patient", "error"},
		{"fhir", "Patient", "error"}, {"", "Patient", "error"}, {"FHIR", "Foo", "error"},
	} {
		r.count("cases", 1)
		an := newAnalyzer()
		an.maxBlocks = 200
		an.callModel = w.model()
		res := an.analyze(nq, []aval{cStr(c.ns), cStr(c.name)})
		got := outcome(res)
		key := "NewQualifiedTypeSpecifier|" + c.ns + "." + c.name
		desc := fmt.Sprintf("%s.%s resolves to %s (want %s)", c.ns, c.name, got, c.want)
		if got == c.want {
			r.ok(key, desc, p.pos(nq.Pos()), "SCCP", true)
		} else {
			r.bad(key, desc, p.pos(nq.Pos()), "a qualified name must exist in its namespace; unknown namespaces and names must be rejected")
		}
	}
	// the visitor returns the constructor's error
	vm, err := visitorMethods(p)
	if err != nil {
		return r.anchorFail(err)
	}
	if fn := vm["VisitTypeExpression"]; fn != nil {
		// with the visit of the type specifier answering an error, no node may be handed back
		env, err := newVisitorEnv(p)
		if err != nil {
			return r.anchorFail(err)
		}
		env.typeSpecFails = true
		var leaks []string
		nret := 0
		for _, tok := range []string{"is", "as"} {
			vr := env.run(fn, tok, true)
			for _, ret := range vr.rets {
				nret++
				if !ret.isVR || ret.err.k != kNonNil {
					leaks = append(leaks, fmt.Sprintf("%q: return at %s with error %s", tok, p.instrPos(ret.at), ret.err))
				}
			}
		}
		switch {
		case nret == 0:
			r.undecided("VisitTypeExpression|error", "the type expression visitor could not be analysed", p.pos(fn.Pos()), "unsupported shape")
		case len(leaks) == 0:
			r.ok("VisitTypeExpression|error", "when the type specifier is rejected, every return of the visitor carries an error", p.pos(fn.Pos()), "visitor analysed with the type-specifier visit answering an error", true)
		default:
			r.bad("VisitTypeExpression|error", "the type specifier's error is not tested: "+strings.Join(leaks, "; "), p.pos(fn.Pos()), "unknown type names would compile")
		}
	}
	r.floor("cases", 28)
	return r
}

// TYP5: TypeOf and AsExpression look through the oneof named like the schema's choice oneof.
// withPackageCallees: fn and the functions of its own package it calls
// statically, transitively up to depth (helpers a function was split into).
func withPackageCallees(fn *ssa.Function, depth int) []*ssa.Function {
	seen := map[*ssa.Function]bool{}
	var out []*ssa.Function
	var walk func(f *ssa.Function, d int)
	walk = func(f *ssa.Function, d int) {
		if seen[f] || d > depth {
			return
		}
		seen[f] = true
		out = append(out, f)
		for _, b := range f.Blocks {
			for _, ins := range b.Instrs {
				if c, ok := ins.(ssa.CallInstruction); ok {
					// (instances of generic functions have no package of their own: compare paths)
					if sc := c.Common().StaticCallee(); sc != nil && fnPkgPath(sc) != "" && fnPkgPath(sc) == fnPkgPath(fn) && len(sc.Blocks) > 0 {
						walk(sc, d+1)
					}
				}
			}
		}
		for _, a := range f.AnonFuncs {
			walk(a, d+1)
		}
	}
	walk(fn, 0)
	return out
}

func ruleTYP5(p *Program) *RuleResult {
	r := newResult("TYP5")
	for _, loc := range [][3]string{{"fhirpath/internal/reflection", "", "TypeOf"}, {"fhirpath/internal/expr", "AsExpression", "Evaluate"}} {
		var fn *ssa.Function
		var err error
		if loc[1] == "" {
			fn, err = p.Func(loc[0], loc[2])
		} else {
			fn, err = p.Method(loc[0], loc[1], loc[2])
		}
		if err != nil {
			return r.anchorFail(err)
		}
		found := ""
		for _, f := range withPackageCallees(fn, 3) {
			for _, b := range f.Blocks {
				for _, ins := range b.Instrs {
					if c, ok := ins.(*ssa.Call); ok {
						if sc := c.Common().StaticCallee(); sc != nil && sc.Name() == "UnwrapOneofField" && len(c.Common().Args) == 2 {
							if s, ok := constString(c.Common().Args[1]); ok {
								found = s
							}
						}
					}
				}
			}
		}
		r.count("sites", 1)
		key := short(fn) + "|choice look-through"
		if found == "choice" {
			r.ok(key, short(fn)+" unwraps the oneof \"choice\"", p.pos(fn.Pos()), "constant equals the schema's choice oneof name", true)
		} else {
			r.bad(key, fmt.Sprintf("%s unwraps oneof %q", short(fn), found), p.pos(fn.Pos()), "the type of / cast to a choice element would be that of its wrapper")
		}
	}
	// As: SCCP — not Is → empty; Is → the item
	as, err := p.Method("fhirpath/internal/expr", "AsExpression", "Evaluate")
	if err != nil {
		return r.anchorFail(err)
	}
	{
		st, _ := systemTypes(p)
		item := st.strItem("x")
		for _, isv := range []bool{false, true} {
			an := newAnalyzer()
			an.maxBlocks = 200
			oe := newOperandEnv()
			oe.results["field:Expr"] = okTuple(coll(item))
			nIs := 0
			oe.next = func(c *ssa.CallCommon, args []aval) (aval, bool) {
				if sc := c.StaticCallee(); sc != nil {
					switch sc.Name() {
					case "TypeOf":
						return okTuple(tsVal("System", "String")), true
					case "Is":
						if strings.HasSuffix(fnPkgPath(sc), "/fhirpath/internal/reflection") {
							nIs++
							return cBool(isv), true
						}
					}
				}
				return aval{}, false
			}
			an.callModel = oe.model()
			res := an.analyze(as, []aval{nodeReceiver(as, nil), nonnil("ctx"), top})
			if !oe.evaluated["field:Expr"] || nIs == 0 {
				r.undecided("AsExpression|shape", "the operand is not evaluated or no Is test is reached", p.pos(as.Pos()), "unsupported shape")
				break
			}
			got := "?"
			if len(res.rets) >= 1 && len(res.hazards) == 0 {
				ok := true
				for _, ri := range res.rets {
					if !retIsOK(ri) {
						ok = false
					}
				}
				if ok {
					v := res.rets[0].vals[0]
					if isEmptyColl(v) {
						got = "{}"
					} else if v.k == kSlice && v.n == 1 {
						got = "item"
					}
				}
			}
			want := map[bool]string{false: "{}", true: "item"}[isv]
			key := fmt.Sprintf("AsExpression|is=%v", isv)
			if got == want {
				r.ok(key, fmt.Sprintf("x as T with (x is T)=%v → %s", isv, got), p.pos(as.Pos()), "SCCP with the Is result pinned", true)
			} else {
				r.bad(key, fmt.Sprintf("x as T with (x is T)=%v → %s (want %s)", isv, got, want), p.pos(as.Pos()), "`as` must return the item exactly when `is` holds, else empty")
			}
		}
	}
	r.floor("sites", 1)
	return r
}

var _ = types.Typ
