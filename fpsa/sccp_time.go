package main

// Models of package time on known values (kTime) and of constant package-level
// maps. Like the other library models they only fold constants: a time value
// that is not known is ⊤.

import (
	"fmt"
	"go/constant"
	"go/types"
	"strings"
	"time"

	"golang.org/x/tools/go/ssa"
)

func cTime(t time.Time) aval { return aval{k: kTime, tm: t} }

func (an *analyzer) globalMapLookup(m, key aval, x *ssa.Lookup) (aval, bool) {
	if an.globalMaps == nil || key.k != kConst || (key.c.Kind() != constant.String && key.c.Kind() != constant.Int) {
		return aval{}, false
	}
	for _, n := range m.notes {
		if !strings.HasPrefix(n, "global:") {
			continue
		}
		tab, ok := an.globalMaps[strings.TrimPrefix(n, "global:")]
		if !ok {
			continue
		}
		v, found := tab[constKey(key.c)]
		if !found {
			v = zeroOf(x.X.Type().Underlying().(*types.Map).Elem())
		}
		if x.CommaOk {
			return aval{k: kTuple, tup: []aval{v, cBool(found)}}, true
		}
		return v, true
	}
	return aval{}, false
}

func isUTCLocation(v ssa.Value) bool {
	ld, ok := v.(*ssa.UnOp)
	if !ok {
		return false
	}
	g, ok := ld.X.(*ssa.Global)
	return ok && g.Pkg.Pkg.Path() == "time" && g.Name() == "UTC"
}

func timeModel(sc *ssa.Function, c *ssa.CallCommon, args []aval) (aval, bool) {
	full := sc.RelString(nil)
	if !strings.HasPrefix(full, "time.") && !strings.HasPrefix(full, "(time.") {
		return aval{}, false
	}
	i64 := func(i int) (int64, bool) {
		if i < len(args) {
			return constInt(args[i])
		}
		return 0, false
	}
	str := func(i int) (string, bool) {
		if i < len(args) && args[i].k == kConst && args[i].c.Kind() == constant.String {
			return constant.StringVal(args[i].c), true
		}
		return "", false
	}
	switch full {
	case "time.Parse":
		l, ok1 := str(0)
		v, ok2 := str(1)
		if ok1 && ok2 {
			t, err := time.Parse(l, v)
			if err != nil {
				return aval{k: kTuple, tup: []aval{top, nonnil("time.Parse")}}, true
			}
			return aval{k: kTuple, tup: []aval{cTime(t), {k: kNil}}}, true
		}
		return aval{}, false
	case "time.Date":
		if len(args) == 8 && isUTCLocation(c.Args[7]) {
			var v [7]int64
			for i := 0; i < 7; i++ {
				x, ok := i64(i)
				if !ok {
					return aval{}, false
				}
				v[i] = x
			}
			return cTime(time.Date(int(v[0]), time.Month(v[1]), int(v[2]), int(v[3]), int(v[4]), int(v[5]), int(v[6]), time.UTC)), true
		}
		return aval{}, false
	case "time.UnixMicro", "time.UnixMilli":
		if v, ok := i64(0); ok {
			t := time.UnixMicro(v)
			if full == "time.UnixMilli" {
				t = time.UnixMilli(v)
			}
			r := cTime(t.UTC())
			r.n = 1 // the real value is in the process-local zone: zone-dependent accessors are unknown until In()/UTC()
			return r, true
		}
		return aval{}, false
	case "time.Unix":
		sec, ok1 := i64(0)
		ns, ok2 := i64(1)
		if ok1 && ok2 {
			r := cTime(time.Unix(sec, ns).UTC())
			r.n = 1
			return r, true
		}
		return aval{}, false
	}
	if !strings.HasPrefix(full, "(time.Time).") || len(args) == 0 {
		if strings.HasPrefix(full, "(time.Duration).") && len(args) == 1 {
			if d, ok := i64(0); ok {
				switch sc.Name() {
				case "Microseconds":
					return cInt(time.Duration(d).Microseconds()), true
				case "Milliseconds":
					return cInt(time.Duration(d).Milliseconds()), true
				case "Nanoseconds":
					return cInt(time.Duration(d).Nanoseconds()), true
				}
			}
		}
		if strings.HasPrefix(full, "(time.Duration).") && len(args) == 2 {
			d, ok1 := i64(0)
			m, ok2 := i64(1)
			if ok1 && ok2 {
				switch sc.Name() {
				case "Truncate":
					return cInt(int64(time.Duration(d).Truncate(time.Duration(m)))), true
				case "Round":
					return cInt(int64(time.Duration(d).Round(time.Duration(m)))), true
				}
			}
		}
		if strings.HasPrefix(full, "(time.Duration).") && len(args) == 1 {
			if d, ok := i64(0); ok {
				switch sc.Name() {
				case "Abs":
					return cInt(int64(time.Duration(d).Abs())), true
				}
			}
		}
		return aval{}, false
	}
	if args[0].k == kBot {
		return bot, true
	}
	if args[0].k != kTime {
		return aval{}, false
	}
	t := args[0].tm
	if args[0].n == 1 {
		// instant known, zone = process-local: only zone-independent operations fold
		switch sc.Name() {
		case "Add", "Sub", "UTC", "In", "Unix", "UnixMilli", "UnixMicro", "UnixNano", "Equal", "Before", "After", "IsZero":
		default:
			return top, true
		}
	}
	keepLocal := func(r aval) aval {
		if args[0].n == 1 {
			r.n = 1
		}
		return r
	}
	switch sc.Name() {
	case "Location":
		name, off := t.Zone()
		return nonnil(fmt.Sprintf("tzloc:%s|%d", name, off)), true
	case "AddDate":
		y, ok1 := i64(1)
		m, ok2 := i64(2)
		d, ok3 := i64(3)
		if ok1 && ok2 && ok3 {
			return cTime(t.AddDate(int(y), int(m), int(d))), true
		}
	case "Add":
		if d, ok := i64(1); ok {
			return keepLocal(cTime(t.Add(time.Duration(d)))), true
		}
	case "Sub":
		if len(args) == 2 && args[1].k == kTime {
			return cInt(int64(t.Sub(args[1].tm))), true
		}
	case "Truncate":
		if d, ok := i64(1); ok {
			return cTime(t.Truncate(time.Duration(d))), true
		}
	case "Round":
		if d, ok := i64(1); ok {
			return cTime(t.Round(time.Duration(d))), true
		}
	case "UTC":
		return cTime(t.UTC()), true
	case "In":
		if len(c.Args) == 2 && isUTCLocation(c.Args[1]) {
			return cTime(t.In(time.UTC)), true
		}
		if len(args) == 2 {
			for _, n := range args[1].notes {
				if strings.HasPrefix(n, "tzloc:") {
					parts := strings.SplitN(strings.TrimPrefix(n, "tzloc:"), "|", 2)
					var off int
					fmt.Sscanf(parts[1], "%d", &off)
					if parts[0] == "UTC" && off == 0 {
						return cTime(t.In(time.UTC)), true
					}
					return cTime(t.In(time.FixedZone(parts[0], off))), true
				}
			}
		}
	case "Year":
		return cInt(int64(t.Year())), true
	case "Month":
		return cInt(int64(t.Month())), true
	case "Day":
		return cInt(int64(t.Day())), true
	case "Hour":
		return cInt(int64(t.Hour())), true
	case "Minute":
		return cInt(int64(t.Minute())), true
	case "Second":
		return cInt(int64(t.Second())), true
	case "Nanosecond":
		return cInt(int64(t.Nanosecond())), true
	case "YearDay":
		return cInt(int64(t.YearDay())), true
	case "Weekday":
		return cInt(int64(t.Weekday())), true
	case "Unix":
		return cInt(t.Unix()), true
	case "UnixMilli":
		return cInt(t.UnixMilli()), true
	case "UnixMicro":
		return cInt(t.UnixMicro()), true
	case "UnixNano":
		return cInt(t.UnixNano()), true
	case "IsZero":
		return cBool(t.IsZero()), true
	case "Equal", "Before", "After":
		if len(args) == 2 && args[1].k == kTime {
			switch sc.Name() {
			case "Equal":
				return cBool(t.Equal(args[1].tm)), true
			case "Before":
				return cBool(t.Before(args[1].tm)), true
			}
			return cBool(t.After(args[1].tm)), true
		}
	case "Format":
		if l, ok := str(1); ok {
			return cStr(t.Format(l)), true
		}
	case "Zone":
		n, off := t.Zone()
		return aval{k: kTuple, tup: []aval{cStr(n), cInt(int64(off))}}, true
	}
	return aval{}, false
}
