package main

// C10 — collection algebra.  SUB1 positional subsetting on symbolic
// collections, SET3 exists/empty/count, SET1 provenance of filtered items,
// SET4 no value whose error was dropped reaches a collection; ORD1 and MUT2
// are shared with C05 / C03.

import (
	"fmt"
	"go/constant"
	"strings"

	"golang.org/x/tools/go/ssa"
)

func symItem(name string) aval { return aval{k: kNonNil, notes: []string{name}} }

func symColl(n int) aval {
	var items []aval
	for i := 0; i < n; i++ {
		items = append(items, symItem(string(rune('A'+i))))
	}
	return coll(items...)
}

// readSym renders an abstract collection of symbolic items: "ABC", "" for empty, "?" if undetermined.
func readSym(v aval) string {
	if n, ok := lenOf(v); ok && n == 0 {
		return ""
	}
	if v.k != kSlice || v.elems == nil || len(v.elems) != v.n {
		return "?"
	}
	s := ""
	for _, e := range v.elems {
		if e.k != kNonNil || len(e.notes) != 1 {
			return "?"
		}
		s += e.notes[0]
	}
	return s
}

func outcomeSym(res *result) string {
	if len(res.hazards) > 0 {
		return "hazard:" + res.hazards[0].what
	}
	if len(res.rets) == 0 {
		return "?"
	}
	out := ""
	for i, ri := range res.rets {
		var s string
		switch {
		case retIsErr(ri):
			s = "error"
		case retIsOK(ri):
			s = "[" + readSym(ri.vals[0]) + "]"
		default:
			s = "?"
		}
		if i > 0 && s != out {
			return "?(" + out + "|" + s + ")"
		}
		out = s
	}
	return out
}

func ruleSUB1(p *Program) *RuleResult {
	r := newResult("SUB1")
	st, err := systemTypes(p)
	if err != nil {
		return r.anchorFail(err)
	}
	abc := "ABCDEFGH"
	for _, fnName := range []string{"First", "Last", "Tail", "Skip", "Take"} {
		fn, err := p.Func("fhirpath/internal/funcs/impl", fnName)
		if err != nil {
			return r.anchorFail(err)
		}
		needsArg := fnName == "Skip" || fnName == "Take"
		maxSize := 4
		if thoroughTier {
			maxSize = 7
		}
		for size := 0; size <= maxSize; size++ {
			in := abc[:size]
			ns := []int{0}
			if needsArg {
				ns = []int{-2147483648, -1, 0, 1, 2, 3, 4, 5, 2147483647}
			}
			for _, n := range ns {
				r.count("cells", 1)
				an := newAnalyzer()
				an.maxBlocks = 250
				nargs := 0
				oe := newOperandEnv()
				if needsArg {
					nargs = 1
					oe.results["args[0]"] = okTuple(coll(st.intItem(int64(n))))
				}
				an.callModel = oe.model()
				res := an.analyze(fn, []aval{nonnil("ctx"), symColl(size), argsValue(nargs)})
				var want string
				clamp := func(k int) int {
					if k < 0 {
						return 0
					}
					if k > size {
						return size
					}
					return k
				}
				switch fnName {
				case "First":
					want = in[:clamp(1)]
				case "Last":
					if size > 0 {
						want = in[size-1:]
					}
				case "Tail":
					want = in[clamp(1):]
				case "Skip":
					want = in[clamp(n):]
				case "Take":
					want = in[:clamp(n)]
				}
				got := outcomeSym(res)
				key := fmt.Sprintf("impl.%s|size=%d", fnName, size)
				desc := fmt.Sprintf("[%s].%s() = %s", in, strings.ToLower(fnName), got)
				if needsArg {
					key += fmt.Sprintf(",n=%d", n)
					desc = fmt.Sprintf("[%s].%s(%d) = %s", in, strings.ToLower(fnName), n, got)
				}
				if got == "["+want+"]" {
					r.ok(key, desc, p.pos(fn.Pos()), "SCCP on a symbolic collection (item identities tracked through slicing and indexing)", true)
				} else {
					r.bad(key, desc+" (want ["+want+"])", p.pos(fn.Pos()), "positional subsetting differs from the specification")
				}
			}
		}
	}
	// the indexer
	ie, err := p.Method("fhirpath/internal/expr", "IndexExpression", "Evaluate")
	if err != nil {
		return r.anchorFail(err)
	}
	{
		for size := 0; size <= 3; size++ {
			for _, n := range []int{-1, 0, 1, 2, 3, 2147483647} {
				r.count("cells", 1)
				an := newAnalyzer()
				an.maxBlocks = 250
				oe := newOperandEnv()
				oe.results["field:Index"] = okTuple(coll(st.intItem(int64(n))))
				an.callModel = oe.model()
				res := an.analyze(ie, []aval{nodeReceiver(ie, nil), nonnil("ctx"), symColl(size)})
				if !oe.evaluated["field:Index"] {
					r.undecided("IndexExpression|shape", "the index expression is not evaluated", p.pos(ie.Pos()), "unsupported shape")
					break
				}
				want := ""
				if n >= 0 && n < size {
					want = abc[n : n+1]
				}
				got := outcomeSym(res)
				key := fmt.Sprintf("IndexExpression|size=%d,n=%d", size, n)
				desc := fmt.Sprintf("[%s][%d] = %s", abc[:size], n, got)
				if got == "["+want+"]" {
					r.ok(key, desc, p.pos(ie.Pos()), "SCCP on a symbolic collection", true)
				} else {
					r.bad(key, desc+" (want ["+want+"])", p.pos(ie.Pos()), "the indexer must yield the item at the position, or empty when out of range")
				}
			}
		}
	}
	r.floor("cells", 100)
	return r
}

func ruleSET3(p *Program) *RuleResult {
	r := newResult("SET3")
	st, err := systemTypes(p)
	if err != nil {
		return r.anchorFail(err)
	}
	_ = st
	// exists()
	exists, err := p.Func("fhirpath/internal/funcs/impl", "Exists")
	if err != nil {
		return r.anchorFail(err)
	}
	where, err := p.Func("fhirpath/internal/funcs/impl", "Where")
	if err != nil {
		return r.anchorFail(err)
	}
	var whereCall *ssa.Call
	for _, b := range exists.Blocks {
		for _, ins := range b.Instrs {
			if c, ok := ins.(*ssa.Call); ok && c.Common().StaticCallee() == where {
				whereCall = c
			}
		}
	}
	truth := func(res *result) string {
		if len(res.rets) != 1 || len(res.hazards) > 0 {
			return "?"
		}
		if retIsErr(res.rets[0]) {
			return "error"
		}
		return tvName(collTruth(res.rets[0].vals[0]))
	}
	for _, size := range []int{0, 1, 3} {
		r.count("cells", 1)
		res := newAnalyzer().analyze(exists, []aval{nonnil("ctx"), symColl(size), sliceLen(0)})
		want := tvName(map[bool]int{true: 1, false: 0}[size > 0])
		key := fmt.Sprintf("impl.Exists|size=%d", size)
		if got := truth(res); got == want {
			r.ok(key, fmt.Sprintf("exists() on %d items = %s", size, got), p.pos(exists.Pos()), "SCCP", true)
		} else {
			r.bad(key, fmt.Sprintf("exists() on %d items = %s (want %s)", size, got, want), p.pos(exists.Pos()), "exists() must be count() > 0")
		}
	}
	if whereCall == nil {
		r.bad("impl.Exists|delegates", "exists(criteria) does not call Where", p.pos(exists.Pos()), "exists(p) must equal where(p).exists()")
	} else {
		// same input and criteria are handed to Where
		cc := whereCall.Common()
		if cc.Args[1] == ssa.Value(exists.Params[1]) && cc.Args[2] == ssa.Value(exists.Params[2]) {
			r.ok("impl.Exists|delegates", "exists(criteria) calls Where(ctx, input, args...)", p.instrPos(whereCall), "argument provenance", true)
		} else {
			r.bad("impl.Exists|delegates", "exists(criteria) calls Where on other operands", p.instrPos(whereCall), "exists(p) must equal where(p).exists() on the same collection and criterion")
		}
		for _, c := range []struct {
			name string
			v    aval
			want string
		}{{"non-empty", okTuple(symColl(2)), "true"}, {"empty", okTuple(coll()), "false"}, {"error", errTuple(), "error"}} {
			r.count("cells", 1)
			an := newAnalyzer()
			an.pin[whereCall] = c.v
			res := an.analyze(exists, []aval{nonnil("ctx"), symColl(3), sliceLen(1)})
			key := "impl.Exists|where→" + c.name
			if got := truth(res); got == c.want {
				r.ok(key, "exists(p) when where(p) is "+c.name+" = "+got, p.pos(exists.Pos()), "SCCP with the Where call pinned", true)
			} else {
				r.bad(key, "exists(p) when where(p) is "+c.name+" = "+got+" (want "+c.want+")", p.pos(exists.Pos()), "exists(p) must equal where(p).exists()")
			}
		}
	}
	// empty(), count()
	empty, err := p.Func("fhirpath/internal/funcs/impl", "Empty")
	if err != nil {
		return r.anchorFail(err)
	}
	count, err := p.Func("fhirpath/internal/funcs/impl", "Count")
	if err != nil {
		return r.anchorFail(err)
	}
	for _, size := range []int{0, 1, 2, 5} {
		r.count("cells", 2)
		res := newAnalyzer().analyze(empty, []aval{nonnil("ctx"), sliceLen(size), sliceLen(0)})
		want := tvName(map[bool]int{true: 1, false: 0}[size == 0])
		key := fmt.Sprintf("impl.Empty|size=%d", size)
		if got := truth(res); got == want {
			r.ok(key, fmt.Sprintf("empty() on %d items = %s", size, got), p.pos(empty.Pos()), "SCCP", true)
		} else {
			r.bad(key, fmt.Sprintf("empty() on %d items = %s (want %s)", size, got, want), p.pos(empty.Pos()), "empty() must equal count() = 0")
		}
		res = newAnalyzer().analyze(count, []aval{nonnil("ctx"), sliceLen(size), sliceLen(0)})
		got := "?"
		if len(res.rets) == 1 && retIsOK(res.rets[0]) {
			v := res.rets[0].vals[0]
			if v.k == kSlice && len(v.elems) == 1 && v.elems[0].k == kConst && v.elems[0].c.Kind() == constant.Int {
				got = v.elems[0].c.ExactString()
			}
		}
		key = fmt.Sprintf("impl.Count|size=%d", size)
		if got == fmt.Sprint(size) {
			r.ok(key, fmt.Sprintf("count() on %d items = %s", size, got), p.pos(count.Pos()), "SCCP", true)
		} else {
			r.bad(key, fmt.Sprintf("count() on %d items = %s", size, got), p.pos(count.Pos()), "count() must be the number of items")
		}
	}
	r.floor("cells", 12)
	return r
}

// SET1: items appended to the result of a filtering function are the range
// elements of the input collection, in one forward range over it.
var filterFunctions = []string{"Where", "Exclude", "Distinct"}

func isRangeElemOf(v ssa.Value, base ssa.Value) bool {
	ld, ok := v.(*ssa.UnOp)
	if !ok {
		return false
	}
	ia, ok := ld.X.(*ssa.IndexAddr)
	if !ok || ia.X != base {
		return false
	}
	return rangeLowered(boundSite{fn: ld.Parent(), ins: ia, base: ia.X, idx: ia.Index, kind: "index"})
}

// appendedDescr: what is appended, named by its role where that is recognisable:
// an item of the function's evaluated argument (the element of a collection
// that an Expression.Evaluate call produced, possibly through in-repo helpers).
func appendedDescr(x ssa.Value) string {
	if x == nil {
		return "spread"
	}
	if ld, ok := stripIface(x).(*ssa.UnOp); ok {
		if ia, ok := ld.X.(*ssa.IndexAddr); ok && fromEvaluate(ia.X, 0) {
			return "item of the evaluated argument"
		}
	}
	return originDescr(x)
}

// fromEvaluate: v is the collection result of an Expression.Evaluate invoke,
// directly or as the result handed back by in-repo helpers.
func fromEvaluate(v ssa.Value, depth int) bool {
	if depth > 4 {
		return false
	}
	switch x := v.(type) {
	case *ssa.Extract:
		return fromEvaluateCall(x.Tuple, x.Index, depth)
	case *ssa.Call:
		return fromEvaluateCall(x, 0, depth)
	case *ssa.ChangeType:
		return fromEvaluate(x.X, depth+1)
	case *ssa.Phi:
		for _, e := range x.Edges {
			if c, ok := e.(*ssa.Const); ok && c.IsNil() {
				continue
			}
			if !fromEvaluate(e, depth+1) {
				return false
			}
		}
		return len(x.Edges) > 0
	}
	return false
}

func fromEvaluateCall(t ssa.Value, idx int, depth int) bool {
	c, ok := t.(*ssa.Call)
	if !ok {
		return false
	}
	if c.Common().IsInvoke() {
		return c.Common().Method.Name() == "Evaluate" && idx == 0
	}
	sc := c.Common().StaticCallee()
	if sc == nil || !inRepoFn(sc) || len(sc.Blocks) == 0 {
		return false
	}
	found := false
	for _, b := range sc.Blocks {
		ret, ok := b.Instrs[len(b.Instrs)-1].(*ssa.Return)
		if !ok || idx >= len(ret.Results) {
			continue
		}
		if k, ok := ret.Results[idx].(*ssa.Const); ok && k.IsNil() {
			continue // error path
		}
		if !fromEvaluate(ret.Results[idx], depth+1) {
			return false
		}
		found = true
	}
	return found
}

func ruleSET1(p *Program) *RuleResult {
	r := newResult("SET1")
	for _, name := range filterFunctions {
		fn, err := p.Func("fhirpath/internal/funcs/impl", name)
		if err != nil {
			return r.anchorFail(err)
		}
		input := fn.Params[1]
		n := 0
		for _, b := range fn.Blocks {
			for _, ins := range b.Instrs {
				c, ok := ins.(*ssa.Call)
				if !ok {
					continue
				}
				bi, ok := c.Common().Value.(*ssa.Builtin)
				if !ok || bi.Name() != "append" || len(c.Common().Args) != 2 {
					continue
				}
				// appended operand: a one-element array slice holding x, or a spread
				x := appendedValue(c.Common().Args[1])
				n++
				r.count("appends", 1)
				key := "impl." + name + "|append(" + appendedDescr(x) + ")"
				if x != nil && isRangeElemOf(stripIface(x), input) {
					r.ok(key, name+" appends the current item of the range over its input", p.instrPos(ins), "value provenance: element of the lowered range loop over the input parameter", true)
				} else {
					r.bad(key, name+" appends a value that is not the current input item ("+originDescr(x)+")", p.instrPos(ins), "the result must consist of items of the input collection, in input order")
				}
			}
		}
		if n == 0 {
			r.bad("impl."+name+"|no-append", name+" never appends an input item", p.pos(fn.Pos()), "unexpected shape")
		}
	}
	// select(): the projection output of each item is spliced in input order
	sel, err := p.Func("fhirpath/internal/funcs/impl", "Select")
	if err != nil {
		return r.anchorFail(err)
	}
	okSel := false
	for _, b := range sel.Blocks {
		for _, ins := range b.Instrs {
			c, ok := ins.(*ssa.Call)
			if !ok {
				continue
			}
			if bi, ok := c.Common().Value.(*ssa.Builtin); ok && bi.Name() == "append" && len(c.Common().Args) == 2 {
				arg := c.Common().Args[1]
				if ct, ok := arg.(*ssa.ChangeType); ok {
					arg = ct.X
				}
				// the projection's result, directly or as handed back by an in-repo helper
				if fromEvaluate(arg, 0) {
					okSel = true
				}
			}
		}
	}
	r.count("appends", 1)
	if okSel {
		r.ok("impl.Select|append(output...)", "select() splices the projection result of each item", p.pos(sel.Pos()), "the spread operand is the Evaluate result", true)
	} else {
		r.bad("impl.Select|append(output...)", "select() does not splice the projection results", p.pos(sel.Pos()), "select(e) must be the in-order concatenation of e over the items")
	}
	r.floor("appends", 2)
	return r
}

// appendedValue: for append(s, x) the single element x (SSA builds a 1-element array); nil for spreads.
func appendedValue(arg ssa.Value) ssa.Value {
	sl, ok := arg.(*ssa.Slice)
	if !ok {
		return arg
	}
	al, ok := sl.X.(*ssa.Alloc)
	if !ok {
		return arg
	}
	var x ssa.Value
	n := 0
	for _, ref := range *al.Referrers() {
		if ia, ok := ref.(*ssa.IndexAddr); ok {
			for _, r2 := range *ia.Referrers() {
				if st, ok := r2.(*ssa.Store); ok {
					x = st.Val
					n++
				}
			}
		}
	}
	if n == 1 {
		return x
	}
	return arg
}

// SET4: the first result of a (T, error) call whose error is discarded must
// not flow into a collection (it is nil/zero when the call failed).
func ruleSET4(p *Program) *RuleResult {
	r := newResult("SET4")
	reach, err := p.Reach("eval")
	if err != nil {
		return r.anchorFail(err)
	}
	for _, fn := range RepoReach(reach) {
		pp := fnPkgPath(fn)
		if !(strings.HasSuffix(pp, "/funcs/impl") || strings.HasSuffix(pp, "/fhirpath/system") || strings.HasSuffix(pp, "/internal/expr")) {
			continue
		}
		for _, b := range fn.Blocks {
			for _, ins := range b.Instrs {
				call, ok := ins.(*ssa.Call)
				if !ok {
					continue
				}
				sig := call.Common().Signature()
				if sig.Results().Len() != 2 || !isErrorType(sig.Results().At(1).Type()) {
					continue
				}
				var val, errv *ssa.Extract
				for _, ref := range *call.Referrers() {
					if ex, ok := ref.(*ssa.Extract); ok {
						if ex.Index == 0 {
							val = ex
						} else {
							errv = ex
						}
					}
				}
				if val == nil {
					continue
				}
				if errv != nil && len(*errv.Referrers()) > 0 {
					continue // the error is looked at
				}
				if !isNilable(val.Type()) {
					continue
				}
				r.count("dropped_error_sites", 1)
				key := short(fn) + "|" + callDescr(call) + " error dropped"
				if sink := flowsToCollection(val, 0, map[ssa.Value]bool{}); sink != "" {
					r.bad(key, "the value of "+callDescr(call)+" is used although its error is discarded: "+sink, p.instrPos(ins), "a nil item enters a collection when the call fails")
				} else {
					r.ok(key, "the value of "+callDescr(call)+" with a discarded error only reaches nil-safe uses", p.instrPos(ins), "uses are comparisons / comma-ok assertions / type switches", true)
				}
			}
		}
	}
	r.floor("dropped_error_sites", 1)
	return r
}

func callDescr(c *ssa.Call) string {
	if sc := c.Common().StaticCallee(); sc != nil {
		return shortName(sc.RelString(nil))
	}
	return callName(c.Common())
}

// flowsToCollection: the value is appended / stored into a slice / returned.
func flowsToCollection(v ssa.Value, depth int, seen map[ssa.Value]bool) string {
	if depth > 6 || seen[v] {
		return ""
	}
	seen[v] = true
	refs := v.Referrers()
	if refs == nil {
		return ""
	}
	for _, ref := range *refs {
		switch x := ref.(type) {
		case *ssa.TypeAssert:
			if !x.CommaOk {
				continue // panics rather than leaking nil (PAN4)
			}
		case *ssa.BinOp, *ssa.If, *ssa.DebugRef:
		case *ssa.Store:
			if x.Val == v {
				if ia, ok := x.Addr.(*ssa.IndexAddr); ok {
					_ = ia
					return "stored as a collection element"
				}
				if _, ok := x.Addr.(*ssa.FieldAddr); ok {
					return "stored into a field"
				}
			}
		case *ssa.Return:
			return "returned"
		case *ssa.ChangeInterface, *ssa.MakeInterface, *ssa.ChangeType:
			if s := flowsToCollection(ref.(ssa.Value), depth+1, seen); s != "" {
				return s
			}
		case *ssa.Phi:
			if s := flowsToCollection(x, depth+1, seen); s != "" {
				return s
			}
		case *ssa.Call:
			if bi, ok := x.Common().Value.(*ssa.Builtin); ok && bi.Name() == "append" {
				return "appended to a collection"
			}
		}
	}
	return ""
}

// SET5: distinct() keeps one representative per class of equal items: every
// item is compared with *all* representatives kept so far, i.e. the receiver of
// the membership test is the accumulated result itself (the collection that is
// extended by the append and returned), not a partition of it.
func ruleSET5(p *Program) *RuleResult {
	r := newResult("SET5")
	fn, err := p.Func("fhirpath/internal/funcs/impl", "Distinct")
	if err != nil {
		return r.anchorFail(err)
	}
	// the returned accumulator
	returned := map[ssa.Value]bool{}
	for _, b := range fn.Blocks {
		if ret, ok := b.Instrs[len(b.Instrs)-1].(*ssa.Return); ok && len(ret.Results) == 2 {
			v := ret.Results[0]
			returned[v] = true
			if ph, ok := v.(*ssa.Phi); ok {
				for _, e := range ph.Edges {
					returned[e] = true
				}
			}
		}
	}
	n := 0
	for _, b := range fn.Blocks {
		for _, ins := range b.Instrs {
			c, ok := ins.(*ssa.Call)
			if !ok || c.Common().StaticCallee() == nil || c.Common().StaticCallee().Name() != "Contains" || !strings.HasSuffix(fnPkgPath(c.Common().StaticCallee()), "/fhirpath/system") {
				continue
			}
			n++
			r.count("membership_tests", 1)
			recv := c.Common().Args[0]
			okAcc := false
			if ph, ok := recv.(*ssa.Phi); ok && returned[ph] {
				for _, e := range ph.Edges {
					if ac, ok := e.(*ssa.Call); ok {
						if bi, ok := ac.Common().Value.(*ssa.Builtin); ok && bi.Name() == "append" && ac.Common().Args[0] == ssa.Value(ph) {
							okAcc = true
						}
					}
					// the append result may reach the phi through another phi (continue edge)
					if ph2, ok := e.(*ssa.Phi); ok {
						for _, e2 := range ph2.Edges {
							if ac, ok := e2.(*ssa.Call); ok {
								if bi, ok := ac.Common().Value.(*ssa.Builtin); ok && bi.Name() == "append" {
									okAcc = true
								}
							}
						}
					}
				}
			}
			key := fmt.Sprintf("impl.Distinct|Contains#%d", n)
			if okAcc {
				r.ok(key, "distinct() tests each item against the whole accumulated result", p.instrPos(ins), "receiver of Contains is the accumulator that is appended to and returned", true)
			} else {
				r.bad(key, "distinct() tests membership against "+valDescr(recv)+", not against the accumulated result", p.instrPos(ins),
					"items equal to a kept representative outside that subset are kept too (FHIRPath equality crosses types: 1 = 1.0): more than one representative per class")
			}
		}
	}
	if n == 0 {
		r.undecided("impl.Distinct|Contains", "no membership test found in Distinct", p.pos(fn.Pos()), "shape changed")
	}
	return r
}
