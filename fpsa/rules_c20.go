package main

// C20 — resource, bundle and extension wrappers.  REG1 the registries list
// exactly the R4 resource types / cover every extension value type; REG2 the
// name → oneof-field conversion is right for every such type (evaluated);
// REG3 registry construction, path labelling and URL filtering examine every
// item (no early loop exit other than an error); REG4 oneof names used with
// a statically known message type exist in that type; REG5 Wrap/FromElement
// store the very argument under the registry's descriptor, Unwrap reads the
// populated member of the same oneof.

import (
	"fmt"
	"go/constant"
	"go/token"
	"go/types"
	"reflect"
	"sort"
	"strings"

	"golang.org/x/tools/go/ssa"
)

func extensionValueMembers(p *Program) ([]oneofMember, error) {
	ms, err := oneofMembers(p, dtPkgPath, "isExtension_ValueX_Choice")
	if err != nil {
		return nil, err
	}
	if len(ms) < 45 {
		return nil, fmt.Errorf("schema: only %d extension value types found", len(ms))
	}
	return ms, nil
}

func ruleREG1(p *Program) *RuleResult {
	r := newResult("REG1")
	want, err := r4ResourceNames(p)
	if err != nil {
		return r.anchorFail(err)
	}
	have, err := registryNames(p, "dummyResources")
	if err != nil {
		return r.anchorFail(err)
	}
	hs := map[string]int{}
	for _, n := range have {
		hs[n]++
	}
	ws := map[string]bool{}
	bad := 0
	for _, n := range want {
		ws[n] = true
		r.count("resource_types", 1)
		if hs[n] == 0 {
			bad++
			r.bad("protofields.dummyResources|missing "+n, "the resource registry has no entry for "+n, "internal/protofields/dummies.go", "resource.New / containedresource.Wrap / IsType fail for this R4 resource type")
		}
	}
	for _, n := range have {
		if !ws[n] {
			bad++
			r.bad("protofields.dummyResources|extra "+n, "the resource registry lists "+n+", which is not a member of ContainedResource", "internal/protofields/dummies.go", "Wrap panics for this type (no oneof field)")
		}
	}
	if bad == 0 {
		r.ok("protofields.dummyResources|set", fmt.Sprintf("the resource registry lists exactly the %d member types of ContainedResource", len(want)), "internal/protofields/dummies.go", "set equality with the schema", true)
	}
	ems, err := extensionValueMembers(p)
	if err != nil {
		return r.anchorFail(err)
	}
	el, err := registryNames(p, "dummyElements")
	if err != nil {
		return r.anchorFail(err)
	}
	es := map[string]bool{}
	for _, n := range el {
		es[n] = true
	}
	bad = 0
	for _, m := range ems {
		r.count("extension_value_types", 1)
		if !es[m.TypeName] {
			bad++
			r.bad("protofields.dummyElements|missing "+m.TypeName, "the element registry has no entry for the extension value type "+m.TypeName, "internal/protofields/dummies.go", "extension.FromElement reports ErrInvalidValueX for a legal value type")
		}
	}
	if bad == 0 {
		r.ok("protofields.dummyElements|extension values", fmt.Sprintf("the element registry covers all %d extension value types", len(ems)), "internal/protofields/dummies.go", "subset check against the Extension.ValueX oneof", true)
	}
	r.floor("resource_types", 140)
	r.floor("extension_value_types", 45)
	return r
}

func ruleREG2(p *Program) *RuleResult {
	r := newResult("REG2")
	rg := regexGlobals(p)
	crFn, err := p.Func("internal/protofields", "TypeToContainedResourceOneOfFieldName")
	if err != nil {
		return r.anchorFail(err)
	}
	extFn, err := p.Func("internal/protofields", "typeToExtensionFieldName")
	if err != nil {
		return r.anchorFail(err)
	}
	eval := func(fn *ssa.Function, name string) (string, bool) {
		an := newAnalyzer()
		an.regex = rg
		return constStr(an.analyze(fn, []aval{cStr(name)}).joinedReturn())
	}
	cms, err := oneofMembers(p, bcrPkgPath, "isContainedResource_OneofResource")
	if err != nil {
		return r.anchorFail(err)
	}
	bad := 0
	for _, m := range cms {
		r.count("resource_names", 1)
		got, ok := eval(crFn, m.TypeName)
		key := "protofields.TypeToContainedResourceOneOfFieldName|" + m.TypeName
		switch {
		case !ok:
			bad++
			r.undecided(key, "the field name for "+m.TypeName+" could not be evaluated", p.pos(crFn.Pos()), "not foldable")
		case got != m.ProtoName:
			bad++
			r.bad(key, fmt.Sprintf("resource type %s maps to oneof field %q, the ContainedResource field is %q", m.TypeName, got, m.ProtoName), p.pos(crFn.Pos()), "the registry has no descriptor for this type: Wrap panics")
		}
	}
	if bad == 0 {
		r.ok("protofields.TypeToContainedResourceOneOfFieldName|all", fmt.Sprintf("every one of the %d resource type names maps to its ContainedResource oneof field", len(cms)), p.pos(crFn.Pos()), "constant propagation through toSnakeCase (regexp.ReplaceAllString folded) compared with the proto field names of the generated types", true)
	}
	ems, err := extensionValueMembers(p)
	if err != nil {
		return r.anchorFail(err)
	}
	bad = 0
	for _, m := range ems {
		r.count("extension_names", 1)
		got, ok := eval(extFn, m.TypeName)
		key := "protofields.typeToExtensionFieldName|" + m.TypeName
		switch {
		case !ok:
			bad++
			r.undecided(key, "the field name for "+m.TypeName+" could not be evaluated", p.pos(extFn.Pos()), "not foldable")
		case got != m.ProtoName:
			bad++
			r.bad(key, fmt.Sprintf("datatype %s maps to Extension.ValueX field %q, the generated field is %q", m.TypeName, got, m.ProtoName), p.pos(extFn.Pos()), "extension.FromElement reports ErrInvalidValueX for this legal value type")
		}
	}
	if bad == 0 {
		r.ok("protofields.typeToExtensionFieldName|all", fmt.Sprintf("every one of the %d extension value types maps to its Extension.ValueX oneof field", len(ems)), p.pos(extFn.Pos()), "constant propagation through toSnakeCase and the string special case", true)
	}
	r.floor("resource_names", 140)
	r.floor("extension_names", 45)
	return r
}

// ---------- REG3: complete iteration ----------

// returnsError: the block ends in a return whose last result is not the nil constant, or in a panic.
func blockReturnsError(b *ssa.BasicBlock) bool {
	if len(b.Instrs) == 0 {
		return false
	}
	switch x := b.Instrs[len(b.Instrs)-1].(type) {
	case *ssa.Panic:
		return true
	case *ssa.Return:
		if len(x.Results) == 0 {
			return false
		}
		last := x.Results[len(x.Results)-1]
		if !isErrorType(last.Type()) {
			return false
		}
		if c, ok := last.(*ssa.Const); ok && c.Value == nil {
			return false
		}
		return true
	}
	return false
}

// earlyExits lists the edges that leave a loop from a block other than its header
// and do not lead to an error return.
func earlyExits(li *loopInfo) []*ssa.BasicBlock {
	var out []*ssa.BasicBlock
	for b := range li.body {
		if b == li.header {
			continue
		}
		for _, s := range b.Succs {
			if li.body[s] {
				continue
			}
			if blockReturnsError(s) {
				continue
			}
			out = append(out, b)
		}
	}
	sort.Slice(out, func(i, j int) bool { return out[i].Index < out[j].Index })
	return out
}

func ruleREG3(p *Program) *RuleResult {
	r := newResult("REG3")
	type target struct {
		rel, name string
		minLoops  int
		why       string
	}
	targets := []target{
		{"internal/protofields", "init", 2, "a registry entry would be missing for the remaining types"},
		{"internal/element", "computeFHIRPathOfProtoPath", 1, "the path label would stop before the element: it no longer locates the element"},
		{"internal/element/extension", "SetByURL", 2, "extensions after the exit would be dropped or values not added"},
		{"internal/bundle", "UnwrapMap", 1, "entries after the exit would be missing"},
		{"internal/slices", "Map", 1, "items after the exit would be missing (bundle.Unwrap)"},
	}
	for _, t := range targets {
		var fns []*ssa.Function
		for fn := range p.AllFns {
			if len(fn.Blocks) == 0 {
				continue
			}
			o := fn
			if fn.Origin() != nil {
				o = fn.Origin()
			}
			if (short(o) == t.rel+"."+t.name || (t.name == "init" && strings.HasPrefix(short(o), t.rel+".init#"))) && fn.Parent() == nil {
				if fn.Origin() == nil && fn.TypeParams().Len() > 0 {
					continue // generic template: analysed through its instances
				}
				fns = append(fns, fn)
			}
		}
		sort.Slice(fns, func(i, j int) bool { return fnKey(fns[i]) < fnKey(fns[j]) })
		if len(fns) == 0 {
			return r.anchorFail(fmt.Errorf("anchor: no body for %s.%s", t.rel, t.name))
		}
		if len(fns) > 2 {
			fns = fns[:2]
		}
		for _, fn := range fns {
			loops := naturalLoops(fn)
			r.count("functions", 1)
			if t.name == "init" && len(loops) == 0 {
				continue // the synthetic package initialiser
			}
			if len(loops) < t.minLoops {
				r.undecided(short(fn)+"|loops", fmt.Sprintf("%s has %d loops, %d expected", short(fn), len(loops), t.minLoops), p.pos(fn.Pos()), "shape changed")
				continue
			}
			for i, li := range loops {
				r.count("loops", 1)
				key := fmt.Sprintf("%s|loop %d", t.rel+"."+t.name, i)
				ex := earlyExits(li)
				if len(ex) == 0 {
					r.ok(key, fmt.Sprintf("loop %d of %s is left only at exhaustion or with an error", i, short(fn)), p.pos(li.header.Instrs[0].Pos()), "no edge leaves the loop body except from its header or into an error return", true)
				} else {
					pos := p.pos(fn.Pos())
					if len(ex[0].Instrs) > 0 {
						pos = p.instrPos(ex[0].Instrs[len(ex[0].Instrs)-1])
					}
					r.bad(key, fmt.Sprintf("loop %d of %s can be left early without an error (from block %d)", i, short(fn), ex[0].Index), pos, t.why)
				}
			}
		}
	}
	// SetByURL keeps exactly the extensions whose URL differs: the kept item is the
	// loop's current item and the test is `currExt.GetUrl().GetValue() != url`
	for fn := range p.AllFns {
		if fn.Origin() == nil || short(fn.Origin()) != "internal/element/extension.SetByURL" || len(fn.Blocks) == 0 {
			continue
		}
		found := false
		for _, b := range fn.Blocks {
			ifi, ok := b.Instrs[len(b.Instrs)-1].(*ssa.If)
			if !ok {
				continue
			}
			bo, ok := ifi.Cond.(*ssa.BinOp)
			if !ok || (bo.Op != token.NEQ && bo.Op != token.EQL) {
				continue
			}
			isURL := func(v ssa.Value) bool {
				pr, ok := v.(*ssa.Parameter)
				return ok && len(fn.Params) > 1 && pr == fn.Params[1]
			}
			isGet := func(v ssa.Value) bool {
				c, ok := v.(*ssa.Call)
				return ok && c.Common().StaticCallee() != nil && c.Common().StaticCallee().Name() == "GetValue"
			}
			if !(isURL(bo.X) && isGet(bo.Y) || isURL(bo.Y) && isGet(bo.X)) {
				continue
			}
			found = true
			keep := b.Succs[0]
			if bo.Op == token.EQL {
				keep = b.Succs[1]
			}
			// the keep branch appends the current range element
			okKeep := false
			for _, ins := range keep.Instrs {
				if c, ok := ins.(*ssa.Call); ok {
					if bi, ok := c.Common().Value.(*ssa.Builtin); ok && bi.Name() == "append" {
						okKeep = true
					}
				}
			}
			// and the other branch does not
			other := b.Succs[1]
			if bo.Op == token.EQL {
				other = b.Succs[0]
			}
			for _, ins := range other.Instrs {
				if c, ok := ins.(*ssa.Call); ok {
					if bi, ok := c.Common().Value.(*ssa.Builtin); ok && bi.Name() == "append" {
						okKeep = false
					}
				}
			}
			key := "extension.SetByURL|filter"
			if okKeep {
				r.ok(key, "SetByURL keeps an existing extension exactly when its URL differs from the given one", p.instrPos(ifi), "the append is on the url-differs branch only", true)
			} else {
				r.bad(key, "SetByURL keeps/drops existing extensions on the wrong branch of the URL comparison", p.instrPos(ifi), "setting extensions by URL must change only the extensions with that URL")
			}
		}
		if !found {
			r.undecided("extension.SetByURL|filter", "the URL comparison of SetByURL was not recognised", p.pos(fn.Pos()), "shape changed")
		}
		break
	}
	r.floor("loops", 3)
	return r
}

// ---------- REG4: oneof names ----------

// oneofNamesOf: protobuf_oneof tags of a generated message struct
func oneofNamesOf(t types.Type) []string {
	if pt, ok := t.(*types.Pointer); ok {
		t = pt.Elem()
	}
	st, ok := t.Underlying().(*types.Struct)
	if !ok {
		return nil
	}
	var out []string
	for i := 0; i < st.NumFields(); i++ {
		if n := reflect.StructTag(st.Tag(i)).Get("protobuf_oneof"); n != "" {
			out = append(out, n)
		}
	}
	return out
}

// messageTypeOfDescriptor walks x.ProtoReflect().Descriptor().Oneofs() back to x.
func messageTypeOfDescriptorChain(v ssa.Value) types.Type {
	for i := 0; i < 12; i++ {
		switch x := v.(type) {
		case *ssa.Call:
			cc := x.Common()
			name := ""
			if cc.IsInvoke() {
				name = cc.Method.Name()
				v = cc.Value
			} else if sc := cc.StaticCallee(); sc != nil && len(cc.Args) > 0 {
				name = sc.Name()
				v = cc.Args[0]
			} else {
				return nil
			}
			switch name {
			case "Oneofs", "Descriptor":
				continue
			case "ProtoReflect":
				if isProtoMessagePtr(v.Type()) {
					return v.Type()
				}
				// the receiver may be a spilled / converted value
				continue
			default:
				return nil
			}
		case *ssa.UnOp:
			v = x.X
		case *ssa.ChangeType:
			v = x.X
		case *ssa.MakeInterface:
			v = x.X
		case *ssa.Phi:
			return nil
		default:
			if isProtoMessagePtr(v.Type()) {
				return v.Type()
			}
			return nil
		}
	}
	return nil
}

func ruleREG4(p *Program) *RuleResult {
	r := newResult("REG4")
	for _, fn := range p.RepoFuncs() {
		for _, b := range fn.Blocks {
			for _, ins := range b.Instrs {
				c, ok := ins.(*ssa.Call)
				if !ok || !c.Common().IsInvoke() || c.Common().Method.Name() != "ByName" {
					continue
				}
				if !strings.HasSuffix(typeShort(c.Common().Value.Type()), "OneofDescriptors") {
					continue
				}
				r.count("oneof_lookups", 1)
				name := ""
				arg := c.Common().Args[0]
				if cv, ok := arg.(*ssa.Convert); ok {
					arg = cv.X
				}
				if ct, ok := arg.(*ssa.ChangeType); ok {
					arg = ct.X
				}
				if k, ok := arg.(*ssa.Const); ok && k.Value != nil && k.Value.Kind() == constant.String {
					name = constant.StringVal(k.Value)
				}
				mt := messageTypeOfDescriptorChain(c.Common().Value)
				key := fmt.Sprintf("%s|Oneofs().ByName(%q)", short(fn), name)
				switch {
				case name == "":
					r.ok(key, "oneof looked up by a computed name in "+short(fn), p.instrPos(ins), "name is a parameter (UnwrapOneofField): callers pass the names checked here", false)
				case mt == nil:
					r.ok(key, fmt.Sprintf("oneof %q looked up on a message of statically unknown type in %s (nil result is tested by the caller)", name, short(fn)), p.instrPos(ins), "generic lookup", false)
				default:
					names := oneofNamesOf(mt)
					found := false
					for _, n := range names {
						if n == name {
							found = true
						}
					}
					if found {
						r.count("typed_lookups", 1)
						r.ok(key, fmt.Sprintf("%s has a oneof named %q", typeShort(mt), name), p.instrPos(ins), "protobuf_oneof tag of the generated struct", true)
					} else {
						r.bad(key, fmt.Sprintf("%s has no oneof named %q (it has %v)", typeShort(mt), name, names), p.instrPos(ins), "the lookup returns nil: unwrap reads nothing / WhichOneof(nil) panics")
					}
				}
			}
		}
	}
	r.floor("oneof_lookups", 3)
	r.floor("typed_lookups", 1)
	return r
}

// ---------- REG5: Wrap / FromElement store the argument itself ----------

func ruleREG5(p *Program) *RuleResult {
	r := newResult("REG5")
	type tgt struct {
		rel, name string
		param     int
		registry  string
	}
	for _, t := range []tgt{
		{"internal/containedresource", "Wrap", 0, "Resources"},
		{"internal/element/extension", "FromElement", 1, "Elements"},
	} {
		fn, err := p.Func(t.rel, t.name)
		if err != nil {
			return r.anchorFail(err)
		}
		r.count("wrappers", 1)
		var sets []*ssa.Call
		for _, b := range fn.Blocks {
			for _, ins := range b.Instrs {
				if c, ok := ins.(*ssa.Call); ok && c.Common().IsInvoke() && c.Common().Method.Name() == "Set" && len(c.Common().Args) == 2 {
					sets = append(sets, c)
				}
			}
		}
		key := t.rel + "." + t.name + "|Set"
		if len(sets) != 1 {
			r.undecided(key, fmt.Sprintf("%s has %d protoreflect Set calls (1 expected)", short(fn), len(sets)), p.pos(fn.Pos()), "shape changed")
			continue
		}
		set := sets[0]
		// value: ValueOfMessage(param.ProtoReflect())
		okVal := false
		if vc, ok := set.Common().Args[1].(*ssa.Call); ok && vc.Common().StaticCallee() != nil && vc.Common().StaticCallee().Name() == "ValueOfMessage" {
			if pr, ok := vc.Common().Args[0].(*ssa.Call); ok && pr.Common().IsInvoke() && pr.Common().Method.Name() == "ProtoReflect" {
				if prm, ok := pr.Common().Value.(*ssa.Parameter); ok && prm == fn.Params[t.param] {
					okVal = true
				}
			}
		}
		// descriptor: loaded from the registry map entry keyed by the argument's own name
		okDesc := false
		var lookupKey ssa.Value
		var walk func(v ssa.Value, d int)
		walk = func(v ssa.Value, d int) {
			if d > 8 {
				return
			}
			switch x := v.(type) {
			case *ssa.UnOp:
				walk(x.X, d+1)
			case *ssa.FieldAddr:
				walk(x.X, d+1)
			case *ssa.Extract:
				walk(x.Tuple, d+1)
			case *ssa.Lookup:
				if ld, ok := x.X.(*ssa.UnOp); ok {
					if g, ok := ld.X.(*ssa.Global); ok && g.Name() == t.registry {
						okDesc = true
						lookupKey = x.Index
					}
				}
			}
		}
		walk(set.Common().Args[0], 0)
		// the key derives from the same parameter (TypeOf(res) / DescriptorName(element))
		okKey := false
		var kw func(v ssa.Value, d int)
		kw = func(v ssa.Value, d int) {
			if d > 6 || v == nil {
				return
			}
			switch x := v.(type) {
			case *ssa.Parameter:
				if x == fn.Params[t.param] {
					okKey = true
				}
			case *ssa.Call:
				for _, a := range x.Common().Args {
					kw(a, d+1)
				}
				if x.Common().IsInvoke() {
					kw(x.Common().Value, d+1)
				}
			case *ssa.Convert:
				kw(x.X, d+1)
			case *ssa.ChangeType:
				kw(x.X, d+1)
			case *ssa.MakeInterface:
				kw(x.X, d+1)
			case *ssa.ChangeInterface:
				kw(x.X, d+1)
			}
		}
		kw(lookupKey, 0)
		switch {
		case okVal && okDesc && okKey:
			r.ok(key, fmt.Sprintf("%s stores the argument's own message under the %s entry of the argument's own type name", short(fn), t.registry), p.instrPos(set), "value = ValueOfMessage(arg.ProtoReflect()); descriptor = registry[nameOf(arg)]", true)
		default:
			r.bad(key, fmt.Sprintf("%s: stored value is the argument: %v; descriptor from %s: %v; keyed by the argument's type: %v", short(fn), okVal, t.registry, okDesc, okKey), p.instrPos(set), "wrapping and unwrapping must return the very same message")
		}
	}
	// Unwrap functions return the populated member of the oneof (WhichOneof → Get → Message → Interface)
	for _, t := range []struct{ rel, name string }{{"internal/containedresource", "Unwrap"}, {"internal/element/extension", "Unwrap"}} {
		fn, err := p.Func(t.rel, t.name)
		if err != nil {
			return r.anchorFail(err)
		}
		r.count("wrappers", 1)
		okChain := false
		for _, b := range fn.Blocks {
			for _, ins := range b.Instrs {
				c, ok := ins.(*ssa.Call)
				if !ok || !c.Common().IsInvoke() || c.Common().Method.Name() != "Get" || len(c.Common().Args) != 1 {
					continue
				}
				// the descriptor argument is the result of WhichOneof (directly or through the repo helper)
				switch a := c.Common().Args[0].(type) {
				case *ssa.Call:
					if a.Common().IsInvoke() && a.Common().Method.Name() == "WhichOneof" {
						okChain = true
					}
					if sc := a.Common().StaticCallee(); sc != nil && inRepoFn(sc) {
						for _, bb := range sc.Blocks {
							for _, i2 := range bb.Instrs {
								if c2, ok := i2.(*ssa.Call); ok && c2.Common().IsInvoke() && c2.Common().Method.Name() == "WhichOneof" {
									okChain = true
								}
							}
						}
					}
				}
			}
		}
		key := t.rel + "." + t.name + "|WhichOneof"
		if okChain {
			r.ok(key, short(fn)+" reads the member reported by WhichOneof", p.pos(fn.Pos()), "Get(WhichOneof(oneof))", true)
		} else {
			r.bad(key, short(fn)+" does not read the populated member reported by WhichOneof", p.pos(fn.Pos()), "unwrap must return the wrapped message")
		}
	}
	r.floor("wrappers", 2)
	return r
}

// REG6: Overwrite/AppendInto always write the extension field: in
// updateExtensionsIn every normal return is reached only through the
// protoreflect Set of the field (an early return would turn "replace all
// extensions by the empty list" into a no-op).
func ruleREG6(p *Program) *RuleResult {
	r := newResult("REG6")
	fn, err := p.Func("internal/element/extension", "updateExtensionsIn")
	if err != nil {
		return r.anchorFail(err)
	}
	var setBlock *ssa.BasicBlock
	var setIns ssa.Instruction
	for _, b := range fn.Blocks {
		for _, ins := range b.Instrs {
			if c, ok := ins.(*ssa.Call); ok && c.Common().IsInvoke() && c.Common().Method.Name() == "Set" {
				setBlock, setIns = b, ins
			}
		}
	}
	if setBlock == nil {
		r.bad("extension.updateExtensionsIn|Set", "updateExtensionsIn never sets the extension field", p.pos(fn.Pos()), "Overwrite/AppendInto have no effect")
		return r
	}
	n := 0
	for _, b := range fn.Blocks {
		if _, ok := b.Instrs[len(b.Instrs)-1].(*ssa.Return); !ok {
			continue
		}
		n++
		r.count("returns", 1)
		key := fmt.Sprintf("extension.updateExtensionsIn|return#%d", n)
		if b != setBlock && reachableAvoiding(fn, b, func(x *ssa.BasicBlock) bool { return x == setBlock }) {
			r.bad(key, "updateExtensionsIn can return without setting the extension field", p.instrPos(b.Instrs[len(b.Instrs)-1]),
				"Overwrite with an empty list (and SetByURL that removes every extension) leaves the old extensions in place")
		} else {
			r.ok(key, "every path to this return passes through the Set of the extension field", p.instrPos(setIns), "must-pass-through over the CFG", true)
		}
	}
	// Overwrite uses NewField (a detached, empty list), AppendInto uses Mutable (the existing list)
	for _, t := range []struct{ name, accessor string }{{"Overwrite", "NewField"}, {"AppendInto", "Mutable"}} {
		f, err := p.Func("internal/element/extension", t.name)
		if err != nil {
			return r.anchorFail(err)
		}
		found := ""
		for _, b := range f.Blocks {
			for _, ins := range b.Instrs {
				c, ok := ins.(*ssa.Call)
				if !ok || c.Common().StaticCallee() != fn {
					continue
				}
				for _, a := range c.Common().Args {
					v := a
					if mi, ok := v.(*ssa.MakeInterface); ok {
						v = mi.X
					}
					if ct, ok := v.(*ssa.ChangeType); ok {
						v = ct.X
					}
					if mc, ok := v.(*ssa.MakeClosure); ok {
						v = mc.Fn
					}
					if ff, ok := v.(*ssa.Function); ok {
						found = ff.Name()
					}
				}
			}
		}
		key := "extension." + t.name + "|accessor"
		if strings.HasPrefix(found, t.accessor) {
			r.ok(key, fmt.Sprintf("%s builds on protoreflect.Message.%s", t.name, t.accessor), p.pos(f.Pos()), "function value passed to updateExtensionsIn", true)
		} else {
			r.bad(key, fmt.Sprintf("%s passes %q to updateExtensionsIn (expected Message.%s)", t.name, found, t.accessor), p.pos(f.Pos()), "Overwrite must start from an empty list, AppendInto from the existing one")
		}
	}
	r.floor("returns", 1)
	return r
}
