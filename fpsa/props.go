package main

func properties() []*propDef {
	return []*propDef{
		{
			ID: "C16", Title: "Every built-in function is callable under its specification name and arity",
			Rules: []ruleFn{ruleTAB1, ruleTAB2, ruleTAB3, ruleTAB4},
			Explanation: "Exhaustive over both function tables as they stand in the working tree: TAB1 compares every key with the implementation bound to it (name agreement) and every exported implementation with its registration; TAB2 decides, for every entry and n=0..5, by conditional constant propagation under len(args)=n whether the implementation itself rejects the arity, and compares with the table bounds and the frozen FHIRPath N1 arities; TAB3 shows the placeholder errors on all paths; TAB4 shows VisitFunction constructs the call node iff the name was found and Min<=n<=Max.",
			NotDecided: []string{"well-typedness of arguments per specification signature", "behaviour of the bound implementation beyond its arity handling"},
			Assumptions: []string{"FHIRPath N1 arities as frozen in rules_c16.go", "implementations signal arity rejection through impl.ErrWrongArity"},
		},
	}
}
