package main

func properties() []*propDef {
	return []*propDef{
		{
			ID: "C01", Title: "Compile, Evaluate and Patch are total: never panic or hang on any input",
			Rules: []ruleFn{rulePAN1, rulePAN2, rulePAN3, rulePAN3b, rulePAN4, rulePAN5, rulePAN6, rulePAN7, rulePAN8, rulePAN9, rulePAN10, ruleTER1},
			Explanation: "Inventory of every instruction of a recognised crash class, and of every loop, in the repository functions reachable (VTA call graph) from the public API; each becomes an obligation that must be discharged by a guard that holds on every path.",
			NotDecided: []string{"nil dereferences in general", "panics inside third-party code other than the summarised entry points", "stack exhaustion on adversarially deep expressions", "behaviour behind reflect"},
			Assumptions: []string{"years are in 0..9999", "collections contain only System values and FHIR messages"},
		},
		{
			ID: "C02", Title: "Path navigation returns exactly the elements of the resource's FHIR JSON tree",
			Rules: []ruleFn{ruleNAV1, ruleNAV2, ruleNAV4, ruleNAV6, ruleORD5},
			Explanation: "Structural necessary conditions of navigation, decided against the R4 schema as present in the generated google/fhir Go types.",
			NotDecided: []string{"equality of navigation results with the JSON tree (run-time values)", "document order", "date/time rendering"},
			Assumptions: []string{"generated Go struct tags carry the proto and JSON field names"},
		},
		{
			ID: "C03", Title: "Evaluation never mutates its inputs",
			Rules: []ruleFn{ruleMUT1, ruleMUT2, ruleMUT3, ruleMUT4},
			Explanation: "Effect analysis over every repository function reachable (VTA call graph) from the Evaluate entry points: MUT1 no protoreflect/proto mutator or generated-struct field store on a non-fresh message; MUT2 every append / element store / copy / in-place helper writes through a slice allocated in the same activation (EN-PROV freshness, through phis, local cells, closures and in-repo callees); MUT3 no store to a field of a compiled expression node; MUT4 evaluation Context fields are written only by the frozen writer table. Positive controls: the same scans from the patch API and from Compile must find the mutators / construction stores that exist there.",
			NotDecided: []string{"mutation through reflect (user functions)", "mutation inside third-party library code other than the summarised entry points"},
			Assumptions: []string{"protoreflect/proto mutator table as frozen in rules_c03.go", "VTA call graph over-approximates dynamic dispatch"},
		},
		{
			ID: "C04", Title: "Compiled expressions are immutable, deterministic and goroutine-safe",
			Rules: []ruleFn{ruleGLB1, ruleGLB2, ruleGLB3, ruleGLB4, ruleGLB5, ruleMUT2Compile, ruleMUT3},
			Explanation: "Decided in the form 'there is no write to state that two evaluations or two compilations can share': GLB1 no store to a package-level variable and no escaping/writing use of a package-level map or slice in code reachable from the API; GLB2 every map update on a non-fresh function/variable table is dominated by the absent edge of a comma-ok lookup of the same map and key; GLB3 the only clock read is time.Now in InitializeContext, normalised by UTC(), and now()/today()/timeOfDay() read Context.Now only, no zone/env/random source is called; GLB4 Context.Clone carries Now/ExternalConstants/LastResult into a new struct; GLB5 the root Evaluate receives the Context built in the same call; MUT2c no write through a caller-owned slice on the Compile paths; MUT3 no store to a compiled node at evaluation time.",
			NotDecided: []string{"data races inside third-party libraries (protobuf lazy init, ANTLR caches, regexp)", "equality of results across runs (follows from absence of shared writes and of clock/zone/random reads, not checked on values)"},
			Assumptions: []string{"VTA call graph over-approximates dynamic dispatch", "generated grammar package initialises its tables under sync.Once (trusted)"},
		},
		{
			ID: "C05", Title: "Equality and ordering operators form one consistent partial order",
			Rules: []ruleFn{ruleORD1, ruleORD2, ruleORD3, ruleORD5, ruleORD6, ruleORD7},
			Explanation: "Structural clauses of the comparison machinery: ORD1 every quantifier loop (collection equality, all/allTrue/anyTrue/…, contains) returns its all-items verdict outside the loop; ORD2 `=`/`!=` share one comparison whose no-value outcome is empty and differ by exactly one negation (SCCP with the comparison result pinned, 8 cells); ORD3 the four inequalities are oriented L<R / R<L / not(R<L) / not(L<R) over normalised operands and precision/unit mismatches give empty (SCCP with both Less results pinned, 28 cells); ORD5 IsPrimitive and From handle the same types and cover every R4 primitive datatype of the schema; ORD7 the Equal/TryEqual method shapes that the reflective dispatch of system/cmp.go relies on.",
			NotDecided: []string{"agreement of the per-type Less/TryEqual methods with a reference comparison model (values of eight types)", "transitivity / trichotomy on values", "unit handling inside Quantity comparison"},
			Assumptions: []string{"operator semantics table frozen in rules_c05.go"},
		},
		{
			ID: "C06", Title: "Boolean operators follow FHIRPath three-valued logic for every operand form",
			Rules: []ruleFn{ruleBOOL1, ruleBOOL2, ruleBOOL3},
			Explanation: "Exhaustive abstract evaluation (conditional constant propagation with exact domain) of the branch-only Boolean machinery: BOOL1 ToSingletonBoolean/ToBool under every operand form and length class; BOOL3 the four table functions on {true,false,empty}^2, the whole BooleanExpression node for 4 operators x 5x5 operand forms (true, false, empty, non-Boolean singleton, multi-item) with the operand evaluations pinned, operand-error propagation, unknown operator, and not(); BOOL2 where/all/iif/EvaluateAsBool under every criterion form. Results are compared with the FHIRPath N1 truth tables frozen in the checker. Commutativity, De Morgan and `a implies b = a.not() or b` follow from the tables.",
			NotDecided: []string{"operand forms whose value is only known at run time (FHIR boolean elements: only their error-freeness, not their value)", "that every producer of operands (literal, variable, function) hands the same collection to the operator (C17/C07 cover the producers)"},
			Assumptions: []string{"FHIRPath N1 §6.5 truth tables as frozen in rules_c06.go"},
		},
		{
			ID: "C07", Title: "Empty collections propagate through operators and functions",
			Rules: []ruleFn{ruleEMP1, ruleEMP2},
			Explanation: "EMP1: for every name in the base and experimental tables that is not a documented aggregate and every admitted arity n, conditional constant propagation under len(input)=0 ∧ len(args)=n shows that every executable return is (Empty, nil) or an error that depends on an argument, and that no crash site is executable. EMP2: the same for every operator node (equality, comparison, arithmetic, is, as, polarity, indexer) with each operand position pinned to the empty collection, and `&` yields the documented string. Exhaustive over the tables and operator nodes as they are in the working tree.",
			NotDecided: []string{"how the empty collection was produced (literal {}, absent path, empty variable): the nodes only see the collection", "the indexer's input-empty case is discharged by PAN3's bounds guard (C01)"},
			Assumptions: []string{"documented aggregate list of the property statement"},
		},
		{
			ID: "C08", Title: "Integer/Decimal arithmetic is exact; overflow and division by zero give empty",
			Rules: []ruleFn{ruleARIINT, ruleARI5, ruleARI2, ruleARI3, ruleARI4, rulePAN2},
			Explanation: "ARI-INT: exhaustive abstract evaluation (constant propagation with Go's fixed-width integer semantics) of Integer.Add/Sub/Mul and of EvaluateAdd/Sub/Mul/FloorDiv/Mod/Div on Integer operands over the 15x15 boundary pool, compared with math/big: exact result, ErrIntOverflow outside int32, ErrDivideByZero for a zero divisor; Decimal zero divisors via the IsZero guard. ARI5: ArithmeticExpression maps exactly those two sentinels to empty, reports other errors and passes operands in order; unary minus over the pool. ARI2: no raw int32 arithmetic outside the checked helpers in the value layer. ARI3: every float→integer conversion is dominated by a range check. ARI4: the exact numeric functions and operators do not detour through float64. PAN2: every division has a zero-tested divisor.",
			NotDecided: []string{"exactness of Decimal results (inside shopspring/decimal, trusted)", "16-digit division precision", "random (non-boundary) Integer pairs — the helpers are branch-only functions of comparisons with the boundary structure, evaluated on the pool the property names"},
			Assumptions: []string{"shopspring/decimal arithmetic is exact"},
		},
		{
			ID: "C10", Title: "Filtering, projection, subsetting and set functions obey the collection algebra",
			Rules: []ruleFn{ruleSUB1, ruleSET3, ruleSET1, ruleSET4, ruleORD1, ruleBOOL2, ruleMUT2},
			Explanation: "SUB1: first/last/tail/skip(n)/take(n) and the indexer are evaluated by SCCP on symbolic collections of 0..4 distinct items for n in {MinInt32,-1..5,MaxInt32} and compared with the positional specification (item identities are tracked through slicing). SET3: exists() = count()>0, exists(p) delegates to Where on the same operands and tests its emptiness, empty() and count() read the length. SET1: where/exclude/distinct append only the current item of one forward range over the input; select splices each projection result. SET4: no value whose error was discarded reaches a collection (null items). ORD1: all/allTrue/anyTrue/… return their all-items verdict after the loop. BOOL2: where/all keep/reject by the singleton-evaluated criterion. MUT2: no in-place filtering of a caller-owned collection.",
			NotDecided: []string{"equality-based membership on values (distinct/exclude/intersect use system.TryEqual / proto.Equal on run-time values)", "extension(url) = extension.where(url = u) on values"},
			Assumptions: []string{"positional specification frozen in rules_c10.go"},
		},
		{
			ID: "C11", Title: "Parsing respects FHIRPath precedence, associativity and token boundaries",
			Rules: []ruleFn{rulePARSE1, rulePARSE23, rulePARSE4, rulePARSE56, rulePAN6, ruleNAV2},
			Explanation: "PARSE1: the grammar's alternative order and operator sets equal the frozen N1 precedence table; the generated parser's Precpred level per alternative equals the position-derived level, the right operand of every binary alternative is parsed at level+1 (left associativity), token-set bit masks equal the grammar's operator sets, LiteralNames equal the grammar literals (.g4 ↔ generated code sync). PARSE2/3: in every binary visitor Left/Right come from Expression(0)/Expression(1) and the right operand is visited with a reset clone. PARSE4: per operator token the constructed node kind and operation (SCCP with the token pinned) equal the frozen map, and EvaluateX dispatches to method X on every operand type. PARSE5: start rule requires EOF, listeners replace the defaults on lexer and parser, the collected error dominates the success return. PARSE6: String() returns the stored source parameter.",
			NotDecided: []string{"identical evaluation of two renderings of a tree (behavioural)", "lexer channel routing inside the serialized ATN (opaque without the ANTLR tool); only the grammar's channel commands are read", "consistency of the serialized ATN with the hand-readable parser code"},
			Assumptions: []string{"ANTLR's precedence-climbing scheme: level = number of alternatives - index"},
		},
		{
			ID: "C12", Title: "`is` and `as` agree with the FHIR and System type hierarchies",
			Rules: []ruleFn{ruleTYP2, ruleTYP4, ruleTYP5, ruleTYP6, ruleNAV1},
			Explanation: "TYP2: parent() is evaluated by SCCP for every primitive, every datatype and resource of the registries, the base types and every nested backbone component name of the schema (registries modelled from the dummy lists), and compared with the frozen R4 hierarchy — in particular only resources derive from DomainResource. TYP6: `is` over 28 specifier pairs (same/different namespace, ancestors, siblings) through the recursive parent walk. TYP4: unqualified names resolve FHIR first then System, case-sensitively; unknown names/namespaces are errors that the visitor tests. TYP5: TypeOf/As look through the oneof named \"choice\"; As returns the item iff Is. NAV1: the choice discriminator covers every choice wrapper.",
			NotDecided: []string{"the type of every element of every resource (TypeOf reads the proto descriptor name at run time)", "name collisions between nested components and resources (Patient.communication vs Communication): the type name alone cannot distinguish them"},
			Assumptions: []string{"R4 hierarchy excerpt frozen in rules_c12.go"},
		},
		{
			ID: "C13", Title: "Conversion functions are mutually consistent and round-trip through strings",
			Rules: []ruleFn{ruleCNV1, ruleCNV34, ruleTAB1},
			Explanation: "CNV1: each convertsToT calls exactly toT on its own input and (SCCP with that call pinned) is true iff the result is non-empty and never an error. CNV3/CNV4: for each of the 8 targets x 11 input item forms (every System type, a FHIR primitive, a complex element) SCCP with the item's dynamic type pinned shows that toT never returns an error for a single item and that every non-empty result holds a value of dynamic type T; multi-item input is an error. TAB1: the table binds toT/convertsToT to the implementation of that name.",
			NotDecided: []string{"which string texts convert (round trips through strings are run-time values)", "idempotence of toT on values", "the conversion table for values of convertible types"},
			Assumptions: []string{"collections contain System values and FHIR messages"},
		},
		{
			ID: "C16", Title: "Every built-in function is callable under its specification name and arity",
			Rules: []ruleFn{ruleTAB1, ruleTAB2, ruleTAB3, ruleTAB4, ruleGLB1, ruleGLB2},
			Explanation: "Exhaustive over both function tables as they stand in the working tree: TAB1 compares every key with the implementation bound to it (name agreement) and every exported implementation with its registration; TAB2 decides, for every entry and n=0..5, by conditional constant propagation under len(args)=n whether the implementation itself rejects the arity, and compares with the table bounds and the frozen FHIRPath N1 arities; TAB3 shows the placeholder errors on all paths; TAB4 shows VisitFunction constructs the call node iff the name was found and Min<=n<=Max.",
			NotDecided: []string{"well-typedness of arguments per specification signature", "behaviour of the bound implementation beyond its arity handling"},
			Assumptions: []string{"FHIRPath N1 arities as frozen in rules_c16.go", "implementations signal arity rejection through impl.ErrWrongArity"},
		},
	}
}
