package main

// C19 — reference and identity parsing / formatting.  REF1 the REST URL regexp
// names exactly the R4 resource types; REF2 the `<type>_id` oneof field name
// is turned into the resource type for every strong reference member, in both
// places that do it; REF3 format → parse round trip of literal references by
// constant propagation (URIString ∘ LiteralInfoFromURI, Identity formatting ∘
// NewIdentityFromURL) over all resource types x id/version/base pools, and the
// rejection pool; REF5 canonical url|version#fragment writer/reader agreement.

import (
	"fmt"
	"go/ast"
	"go/constant"
	"go/token"
	"go/types"
	"os"
	"regexp"
	"regexp/syntax"
	"sort"
	"strings"

	"golang.org/x/tools/go/ssa"
)

func ptrTo(v aval) aval { return aval{k: kNonNil, ptrOf: &v} }

// language of a (finite) regexp node, nil when not finite / too large
func finiteLanguage(re *syntax.Regexp) []string {
	switch re.Op {
	case syntax.OpLiteral:
		return []string{string(re.Rune)}
	case syntax.OpEmptyMatch:
		return []string{""}
	case syntax.OpCapture:
		return finiteLanguage(re.Sub[0])
	case syntax.OpCharClass:
		var out []string
		n := 0
		for i := 0; i+1 < len(re.Rune); i += 2 {
			for r := re.Rune[i]; r <= re.Rune[i+1]; r++ {
				out = append(out, string(r))
				n++
				if n > 64 {
					return nil
				}
			}
		}
		return out
	case syntax.OpAlternate:
		var out []string
		for _, s := range re.Sub {
			l := finiteLanguage(s)
			if l == nil {
				return nil
			}
			out = append(out, l...)
		}
		return out
	case syntax.OpConcat:
		out := []string{""}
		for _, s := range re.Sub {
			l := finiteLanguage(s)
			if l == nil {
				return nil
			}
			var next []string
			for _, a := range out {
				for _, b := range l {
					next = append(next, a+b)
				}
			}
			if len(next) > 5000 {
				return nil
			}
			out = next
		}
		return out
	case syntax.OpQuest:
		l := finiteLanguage(re.Sub[0])
		if l == nil {
			return nil
		}
		return append([]string{""}, l...)
	}
	return nil
}

func findCapture(re *syntax.Regexp, n int) *syntax.Regexp {
	if re.Op == syntax.OpCapture && re.Cap == n {
		return re
	}
	for _, s := range re.Sub {
		if f := findCapture(s, n); f != nil {
			return f
		}
	}
	return nil
}

func r4ResourceNames(p *Program) ([]string, error) {
	ms, err := oneofMembers(p, bcrPkgPath, "isContainedResource_OneofResource")
	if err != nil {
		return nil, err
	}
	var out []string
	for _, m := range ms {
		out = append(out, m.TypeName)
	}
	sort.Strings(out)
	if len(out) < 140 {
		return nil, fmt.Errorf("schema: only %d resource types found in ContainedResource", len(out))
	}
	return out, nil
}

func globalByName(p *Program, pkgRel, name string) *ssa.Global {
	sp, err := p.Pkg(pkgRel)
	if err != nil {
		return nil
	}
	g, _ := sp.Members[name].(*ssa.Global)
	if g == nil {
		// renamed? (fingerprints.go)
		if nn := p.resolveVarByFingerprint(pkgRel, name); nn != "" {
			g, _ = sp.Members[nn].(*ssa.Global)
		}
	}
	return g
}

func ruleREF1(p *Program) *RuleResult {
	r := newResult("REF1")
	rg := regexGlobals(p)
	g := globalByName(p, "internal/element/reference", "restFHIRServiceResourceURLRegex")
	if g == nil || rg[g] == "" {
		return r.anchorFail(fmt.Errorf("anchor: reference.restFHIRServiceResourceURLRegex with a constant pattern not found"))
	}
	pos := p.pos(g.Pos())
	re, err := syntax.Parse(rg[g], syntax.Perl)
	if err != nil {
		return r.anchorFail(fmt.Errorf("anchor: REST URL regexp does not parse: %v", err))
	}
	// the capture group whose language is a finite set of names with > 100 members
	var names []string
	capIdx := 0
	for i := 1; i <= re.MaxCap(); i++ {
		if c := findCapture(re, i); c != nil {
			if l := finiteLanguage(c); len(l) > 100 {
				names, capIdx = l, i
			}
		}
	}
	if names == nil {
		return r.anchorFail(fmt.Errorf("anchor: no resource-type alternation found in the REST URL regexp"))
	}
	want, err := r4ResourceNames(p)
	if err != nil {
		return r.anchorFail(err)
	}
	have := map[string]bool{}
	for _, n := range names {
		have[n] = true
	}
	wantSet := map[string]bool{}
	for _, n := range want {
		wantSet[n] = true
		r.count("resource_types", 1)
		if have[n] {
			continue
		}
		r.bad("reference.restFHIRServiceResourceURLRegex|missing "+n, fmt.Sprintf("the REST URL regexp does not list resource type %s", n), pos,
			fmt.Sprintf("LiteralInfoFromURI(%q) is not recognised as a REST reference: format → parse is not the identity for this type", n+"/123"))
	}
	var extra []string
	for n := range have {
		if !wantSet[n] {
			extra = append(extra, n)
		}
	}
	sort.Strings(extra)
	for _, n := range extra {
		r.bad("reference.restFHIRServiceResourceURLRegex|extra "+n, fmt.Sprintf("the REST URL regexp lists %s, which is not an R4 resource type", n), pos, "regexp / schema disagreement")
	}
	if len(r.Obs) == 0 {
		r.ok("reference.restFHIRServiceResourceURLRegex|resource set", fmt.Sprintf("capture group %d of the REST URL regexp lists exactly the %d R4 resource types of ContainedResource", capIdx, len(want)), pos, "finite language of the alternation compared with the schema", true)
	}
	// the index used to cut the relative part is the start of that capture group
	fn, err := p.Func("internal/element/reference", "LiteralInfoFromURI")
	if err != nil {
		return r.anchorFail(err)
	}
	found := false
	for _, b := range fn.Blocks {
		for _, ins := range b.Instrs {
			ia, ok := ins.(*ssa.IndexAddr)
			if !ok {
				continue
			}
			c, ok := ia.X.(*ssa.Call)
			if !ok || c.Common().StaticCallee() == nil || c.Common().StaticCallee().Name() != "FindStringSubmatchIndex" {
				continue
			}
			if k, ok := ia.Index.(*ssa.Const); ok {
				found = true
				if v, _ := constant.Int64Val(k.Value); int(v) == 2*capIdx {
					r.ok("reference.LiteralInfoFromURI|submatch index", fmt.Sprintf("the relative part starts at submatch index %d = start of capture group %d (the resource type)", v, capIdx), p.instrPos(ins), "index ↔ group agreement", true)
				} else {
					r.bad("reference.LiteralInfoFromURI|submatch index", fmt.Sprintf("the relative part is cut at submatch index %d, the resource type is capture group %d (index %d)", v, capIdx, 2*capIdx), p.instrPos(ins), "base URL / relative part split at the wrong group")
				}
			}
		}
	}
	if !found {
		r.undecided("reference.LiteralInfoFromURI|submatch index", "the use of the submatch indexes was not recognised", p.pos(fn.Pos()), "shape changed")
	}
	r.floor("resource_types", 140)
	return r
}

// ---------- REF2 ----------

func ruleREF2(p *Program) *RuleResult {
	r := newResult("REF2")
	ms, err := oneofMembers(p, dtPkgPath, "isReference_Reference")
	if err != nil {
		return r.anchorFail(err)
	}
	resNames, err := r4ResourceNames(p)
	if err != nil {
		return r.anchorFail(err)
	}
	isRes := map[string]bool{}
	for _, n := range resNames {
		isRes[n] = true
	}
	ios, err := p.Func("internal/element/reference", "identityOfStrong")
	if err != nil {
		return r.anchorFail(err)
	}
	unw, err := p.Method("fhirpath/internal/expr", "FieldExpression", "unwrapReference")
	if err != nil {
		return r.anchorFail(err)
	}
	w, err := loadTypeWorld(p)
	if err != nil {
		return r.anchorFail(err)
	}
	base := w.model()
	nStrong := 0
	for _, m := range ms {
		if !strings.HasSuffix(m.ProtoName, "_id") {
			continue
		}
		nStrong++
		wantType := strings.TrimSuffix(m.Field, "Id")
		r.count("strong_members", 1)
		if !isRes[wantType] {
			// abstract members (Resource, DomainResource, MetadataResource): no concrete type to derive
			r.count("abstract_members", 1)
			continue
		}
		model := func(c *ssa.CallCommon, args []aval) (aval, bool) {
			if c.IsInvoke() && c.Method.Name() == "Name" {
				return cStr(m.ProtoName), true
			}
			return base(c, args)
		}
		// identityOfStrong: argument 0 of resource.NewIdentity
		{
			an := newAnalyzer()
			an.maxBlocks = 200
			an.callModel = func(c *ssa.CallCommon, args []aval) (aval, bool) {
				if sc := c.StaticCallee(); sc != nil && short(sc) == "internal/resource.NewIdentity" {
					return aval{k: kTuple, tup: []aval{nonnil("identity"), {k: kNil}}}, true
				}
				return model(c, args)
			}
			res := an.analyze(ios, []aval{nonnil("ref")})
			got := []string{}
			for _, co := range res.calls {
				if co.callee != nil && short(co.callee) == "internal/resource.NewIdentity" && len(co.args) == 3 {
					if cs, ok := constStr(co.args[0]); ok {
						got = append(got, cs)
					} else {
						got = append(got, co.args[0].String())
					}
				}
			}
			key := "reference.identityOfStrong|" + m.ProtoName
			if len(got) == 1 && got[0] == wantType {
				r.ok(key, fmt.Sprintf("identityOfStrong turns oneof field %s into resource type %s", m.ProtoName, wantType), p.pos(ios.Pos()), "SCCP with the field descriptor's name pinned; argument of resource.NewIdentity", true)
			} else {
				r.bad(key, fmt.Sprintf("identityOfStrong turns oneof field %s into %v (the member's resource type is %s)", m.ProtoName, got, wantType), p.pos(ios.Pos()), "a strong reference to this type parses to another (or an invalid) resource type: strong and weak forms of the same reference differ")
			}
		}
		// unwrapReference: first operand of the Sprintf that renders the reference
		{
			an := newAnalyzer()
			an.maxBlocks = 200
			an.callModel = model
			// the type switch takes the default arm: a strong member
			wt := typeByName(p, dtPkgPath, m.Wrapper)
			if wt == nil {
				return r.anchorFail(fmt.Errorf("anchor: type %s not found", m.Wrapper))
			}
			for _, b := range unw.Blocks {
				for _, ins := range b.Instrs {
					if c, ok := ins.(*ssa.Call); ok && c.Common().StaticCallee() != nil && c.Common().StaticCallee().Name() == "GetReference" {
						an.pin[c] = aval{k: kNonNil, dyn: types.NewPointer(wt)}
					}
				}
			}
			res := an.analyze(unw, []aval{nonnil("e"), nonnil("ref")})
			got := map[string]bool{}
			n := 0
			for _, co := range res.calls {
				if co.callee != nil && co.callee.RelString(nil) == "fmt.Sprintf" && len(co.args) == 2 && co.args[1].k == kSlice && len(co.args[1].elems) >= 2 {
					n++
					if cs, ok := constStr(co.args[1].elems[0]); ok {
						got[cs] = true
					} else {
						got[co.args[1].elems[0].String()] = true
					}
				}
			}
			key := "expr.unwrapReference|" + m.ProtoName
			if n >= 2 && len(got) == 1 && got[wantType] {
				r.ok(key, fmt.Sprintf("FieldExpression.unwrapReference renders oneof field %s as %s/…", m.ProtoName, wantType), p.pos(unw.Pos()), "SCCP with the field name pinned; first operand of both Sprintf renderings", true)
			} else {
				var gs []string
				for g := range got {
					gs = append(gs, g)
				}
				sort.Strings(gs)
				r.bad(key, fmt.Sprintf("FieldExpression.unwrapReference renders oneof field %s as %v (%d renderings; the member's resource type is %s)", m.ProtoName, gs, n, wantType), p.pos(unw.Pos()), "x.reference of a strong reference is not the string the weak form carries")
			}
		}
	}
	r.floor("strong_members", 140)
	return r
}

func typeByName(p *Program, pkgPath, name string) types.Type {
	tp, err := p.typesPkg(pkgPath)
	if err != nil {
		return nil
	}
	if tn, ok := tp.Scope().Lookup(name).(*types.TypeName); ok {
		return tn.Type()
	}
	return nil
}

// ---------- REF3 ----------

func structFieldIndex(t types.Type, name string) int {
	st, ok := t.Underlying().(*types.Struct)
	if !ok {
		return -1
	}
	for i := 0; i < st.NumFields(); i++ {
		if st.Field(i).Name() == name {
			return i
		}
	}
	return -1
}

func constStr(v aval) (string, bool) {
	if v.k == kConst && v.c.Kind() == constant.String {
		return constant.StringVal(v.c), true
	}
	return "", false
}

func ruleREF3(p *Program) *RuleResult {
	r := newResult("REF3")
	resNames, err := r4ResourceNames(p)
	if err != nil {
		return r.anchorFail(err)
	}
	w, err := loadTypeWorld(p)
	if err != nil {
		return r.anchorFail(err)
	}
	rg := regexGlobals(p)
	uriString, err := p.Method("internal/element/reference", "LiteralInfo", "URIString")
	if err != nil {
		return r.anchorFail(err)
	}
	fromURI, err := p.Func("internal/element/reference", "LiteralInfoFromURI")
	if err != nil {
		return r.anchorFail(err)
	}
	litT := typeByName(p, mod+"/internal/element/reference", "LiteralInfo")
	idT := typeByName(p, mod+"/internal/resource", "Identity")
	if litT == nil || idT == nil {
		return r.anchorFail(fmt.Errorf("anchor: LiteralInfo / Identity types not found"))
	}
	fi := func(t types.Type, n string) int { return structFieldIndex(t, n) }
	iRes, iFrag, iIdent, iBase, iNon := fi(litT, "resType"), fi(litT, "fragmentID"), fi(litT, "identity"), fi(litT, "serviceBaseURL"), fi(litT, "nonRESTURI")
	iT, iID, iVer := fi(idT, "typeName"), fi(idT, "id"), fi(idT, "version")
	for _, x := range []int{iRes, iFrag, iIdent, iBase, iNon, iT, iID, iVer} {
		if x < 0 {
			return r.anchorFail(fmt.Errorf("anchor: LiteralInfo / Identity fields changed"))
		}
	}
	mkIdentity := func(t, id, ver string) aval {
		e := make([]aval, 3)
		e[iT], e[iID], e[iVer] = cStr(t), cStr(id), cStr(ver)
		return ptrTo(aval{k: kStruct, elems: e})
	}
	mkLit := func(identity, frag aval, base string) aval {
		e := make([]aval, 5)
		e[iRes], e[iFrag], e[iIdent], e[iBase], e[iNon] = aval{k: kNil}, frag, identity, cStr(base), aval{k: kNil}
		return ptrTo(aval{k: kStruct, elems: e})
	}
	newAn := func() *analyzer {
		an := newAnalyzer()
		an.maxBlocks = 300
		an.maxDepth = 7
		an.snapshots = true
		an.regex = rg
		an.callModel = w.model()
		return an
	}
	format := func(lit aval) (string, bool) {
		an := newAn()
		res := an.analyze(uriString, []aval{lit})
		return constStr(res.joinedReturn())
	}
	type parsed struct {
		err                bool
		typ, id, ver, base string
		frag               *string
		ok                 bool
		raw                string
		hazards            []string
	}
	parse := func(s string) parsed {
		an := newAn()
		res := an.analyze(fromURI, []aval{cStr(s)})
		out := parsed{}
		for _, h := range res.hazards {
			out.hazards = append(out.hazards, h.what)
		}
		j := res.joinedReturn()
		out.raw = j.String()
		if os.Getenv("FPSA_DEBUG") != "" {
			for _, ri := range res.rets {
				fmt.Fprintf(os.Stderr, "parse %q: ret@%s %s\n", s, p.instrPos(ri.instr), aval{k: kTuple, tup: ri.vals}.String())
			}
			fmt.Fprintf(os.Stderr, "  nonconverged=%v unknownIfs=%d\n", res.nonconverged, res.unknownIfs)
		}
		if j.k != kTuple || len(j.tup) != 2 {
			return out
		}
		if j.tup[1].k == kNonNil && j.tup[0].k == kNil {
			out.err, out.ok = true, true
			return out
		}
		if j.tup[1].k != kNil || j.tup[0].ptrOf == nil || j.tup[0].ptrOf.k != kStruct {
			return out
		}
		e := j.tup[0].ptrOf.elems
		if e[iFrag].ptrOf != nil {
			if f, ok := constStr(*e[iFrag].ptrOf); ok {
				out.frag = &f
				out.ok = true
			}
			return out
		}
		if e[iIdent].ptrOf == nil || e[iIdent].ptrOf.k != kStruct {
			return out
		}
		ie := e[iIdent].ptrOf.elems
		var ok1, ok2, ok3, ok4 bool
		out.typ, ok1 = constStr(ie[iT])
		out.id, ok2 = constStr(ie[iID])
		out.ver, ok3 = constStr(ie[iVer])
		out.base, ok4 = constStr(e[iBase])
		out.ok = ok1 && ok2 && ok3 && ok4
		return out
	}
	ids := []string{"1", "a-b.C9", strings.Repeat("x", 64)}
	vers := []string{"", "v2.0"}
	bases := []string{"", "http://a.b/c", "https://host:8080/x/y_z/fhir"}
	bad := 0
	n := 0
	report := func(key, desc, how string, undecided bool) {
		bad++
		if bad > 8 {
			return
		}
		if undecided {
			r.undecided(key, desc, p.pos(fromURI.Pos()), how)
		} else {
			r.bad(key, desc, p.pos(fromURI.Pos()), how)
		}
	}
	for ti, t := range resNames {
		for ii, id := range ids {
			for _, ver := range vers {
				for bi, base := range bases {
					// the full product for the first and last types, a diagonal for the rest
					if !thoroughTier && ti != 0 && ti != len(resNames)-1 && (ii+bi+ti)%3 != 0 {
						continue
					}
					n++
					r.count("round_trips", 1)
					want := t + "/" + id
					if ver != "" {
						want += "/_history/" + ver
					}
					if base != "" {
						want = base + "/" + want
					}
					key := fmt.Sprintf("reference.URIString∘LiteralInfoFromURI|%s", want)
					s, ok := format(mkLit(mkIdentity(t, id, ver), aval{k: kNil}, base))
					if !ok {
						report(key, fmt.Sprintf("URIString of (%s, %s, %q, base %q) could not be evaluated", t, id, ver, base), "not foldable", true)
						continue
					}
					if s != want {
						report(key, fmt.Sprintf("URIString of (%s, %s, %q, base %q) = %q, the FHIR literal form is %q", t, id, ver, base, s, want), "formatting does not yield [base/]Type/id[/_history/version]", false)
						continue
					}
					pr := parse(s)
					switch {
					case !pr.ok:
						report(key, fmt.Sprintf("LiteralInfoFromURI(%q) could not be evaluated: %s", s, pr.raw), "not foldable", true)
					case pr.err:
						report(key, fmt.Sprintf("LiteralInfoFromURI(%q) is an error: the formatted reference does not parse back", s), "parse after format must return the same components", false)
					case pr.typ != t || pr.id != id || pr.ver != ver || pr.base != base:
						report(key, fmt.Sprintf("LiteralInfoFromURI(%q) = (%s, %s, %q, base %q), formatted from (%s, %s, %q, base %q)", s, pr.typ, pr.id, pr.ver, pr.base, t, id, ver, base), "parse after format must return the same components", false)
					case len(pr.hazards) > 0:
						report(key, fmt.Sprintf("LiteralInfoFromURI(%q): %v", s, pr.hazards), "crash site executable", false)
					}
				}
			}
		}
	}
	if bad == 0 {
		r.ok("reference.URIString∘LiteralInfoFromURI|pool", fmt.Sprintf("format → parse returns the same (type, id, version, base) on %d literal references over all %d resource types", n, len(resNames)), p.pos(fromURI.Pos()), "constant propagation through URIString and LiteralInfoFromURI (regexp, strings, fmt folded on constants; registries modelled from the dummy lists; returned allocations as snapshots)", true)
	}
	// fragments
	for _, f := range []string{"", "abc", "a.b-1"} {
		r.count("round_trips", 1)
		key := "reference.URIString∘LiteralInfoFromURI|#" + f
		s, ok := format(mkLit(aval{k: kNil}, ptrTo(cStr(f)), ""))
		pr := parsed{}
		if ok {
			pr = parse(s)
		}
		switch {
		case !ok || !pr.ok:
			r.undecided(key, fmt.Sprintf("fragment %q round trip could not be evaluated (%q, %s)", f, s, pr.raw), p.pos(fromURI.Pos()), "not foldable")
		case s != "#"+f || pr.err || pr.frag == nil || *pr.frag != f:
			r.bad(key, fmt.Sprintf("fragment %q formats to %q and parses back to %v (error=%v)", f, s, pr.frag, pr.err), p.pos(fromURI.Pos()), "parse after format must return the same fragment")
		default:
			r.ok(key, fmt.Sprintf("fragment %q ↔ %q", f, s), p.pos(fromURI.Pos()), "constant propagation", true)
		}
	}
	// rejection pool: an error, never a crash, never a value
	long := strings.Repeat("x", 65)
	for _, s := range []string{"", "#bad id", "#" + long, "Patient/1#x", "Patient/1|2", "Patient/" + long, "Patient/1/_history/" + long,
		"Patient/1/_history/", "Patient/1/_history", "Patient/1/x/2", "Patient", "patient/1", "Foo/1", "Patient//1", "/Patient/1", "Patient/1/",
		"http://a.b/Patient/1/", "http://a.b/Foo/1x/2/3", "Patient/a_b", "ftp://a/Patient/1x/_history"} {
		r.count("rejections", 1)
		pr := parse(s)
		key := fmt.Sprintf("reference.LiteralInfoFromURI|reject %q", s)
		nonREST := false
		if u, ok := refNonREST(s); ok {
			nonREST = u
		}
		switch {
		case len(pr.hazards) > 0:
			r.bad(key, fmt.Sprintf("LiteralInfoFromURI(%q) reaches a crash site: %v", s, pr.hazards), p.pos(fromURI.Pos()), "rejected strings produce an error, never a crash")
		case nonREST:
			// a syntactically valid non-REST URI (scheme + path): accepted as such by design
			r.ok(key, fmt.Sprintf("LiteralInfoFromURI(%q): not a REST reference; outcome decided by net/url (non-REST URI)", s), p.pos(fromURI.Pos()), "no crash site executable", false)
		case !pr.ok:
			r.undecided(key, fmt.Sprintf("LiteralInfoFromURI(%q) could not be evaluated: %s", s, pr.raw), p.pos(fromURI.Pos()), "not foldable")
		case !pr.err:
			r.bad(key, fmt.Sprintf("LiteralInfoFromURI(%q) is accepted as (%s, %s, %q, base %q)", s, pr.typ, pr.id, pr.ver, pr.base), p.pos(fromURI.Pos()), "an ill-formed reference must be rejected with an error")
		default:
			r.ok(key, fmt.Sprintf("LiteralInfoFromURI(%q) is an error", s), p.pos(fromURI.Pos()), "constant propagation: every executable return carries an error", true)
		}
	}
	r.floor("round_trips", 300)
	r.floor("rejections", 15)
	return r
}

// refNonREST: does the string have a URI scheme and a path/opaque part (the
// non-REST acceptance criterion of the specification of LiteralInfoFromURI)?
func refNonREST(s string) (bool, bool) {
	i := strings.Index(s, ":")
	if i <= 0 {
		return false, true
	}
	for _, c := range s[:i] {
		if !(c >= 'a' && c <= 'z' || c >= 'A' && c <= 'Z' || c >= '0' && c <= '9' || c == '+' || c == '-' || c == '.') {
			return false, true
		}
	}
	return strings.Trim(s[i+1:], "/") != "", true
}

// ---------- REF4: Identity formatting ∘ NewIdentityFromURL ----------

func ruleREF4(p *Program) *RuleResult {
	r := newResult("REF4")
	w, err := loadTypeWorld(p)
	if err != nil {
		return r.anchorFail(err)
	}
	rg := regexGlobalsSprintf(p)
	rel, err := p.Method("internal/resource", "Identity", "RelativeURIString")
	if err != nil {
		return r.anchorFail(err)
	}
	relV, err := p.Method("internal/resource", "Identity", "PreferRelativeVersionedURIString")
	if err != nil {
		return r.anchorFail(err)
	}
	str, err := p.Method("internal/resource", "Identity", "String")
	if err != nil {
		return r.anchorFail(err)
	}
	fromURL, err := p.Func("internal/resource", "NewIdentityFromURL")
	if err != nil {
		return r.anchorFail(err)
	}
	fromHist, err := p.Func("internal/resource", "NewIdentityFromHistoryURL")
	if err != nil {
		return r.anchorFail(err)
	}
	idT := typeByName(p, mod+"/internal/resource", "Identity")
	iT, iID, iVer := structFieldIndex(idT, "typeName"), structFieldIndex(idT, "id"), structFieldIndex(idT, "version")
	if iT < 0 || iID < 0 || iVer < 0 {
		return r.anchorFail(fmt.Errorf("anchor: Identity fields changed"))
	}
	mk := func(t, id, ver string) aval {
		e := make([]aval, 3)
		e[iT], e[iID], e[iVer] = cStr(t), cStr(id), cStr(ver)
		return ptrTo(aval{k: kStruct, elems: e})
	}
	newAn := func() *analyzer {
		an := newAnalyzer()
		an.maxBlocks = 300
		an.maxDepth = 7
		an.snapshots = true
		an.regex = rg
		an.callModel = w.model()
		return an
	}
	evalStr := func(fn *ssa.Function, recv aval) (string, bool) {
		return constStr(newAn().analyze(fn, []aval{recv}).joinedReturn())
	}
	parse := func(fn *ssa.Function, s string) (t, id, ver string, isErr, ok bool) {
		j := newAn().analyze(fn, []aval{cStr(s)}).joinedReturn()
		if j.k != kTuple || len(j.tup) != 2 {
			return
		}
		if j.tup[0].k == kNil && j.tup[1].k == kNonNil {
			return "", "", "", true, true
		}
		if j.tup[1].k != kNil || j.tup[0].ptrOf == nil || j.tup[0].ptrOf.k != kStruct {
			return
		}
		e := j.tup[0].ptrOf.elems
		var o1, o2, o3 bool
		t, o1 = constStr(e[iT])
		id, o2 = constStr(e[iID])
		ver, o3 = constStr(e[iVer])
		return t, id, ver, false, o1 && o2 && o3
	}
	resNames, err := r4ResourceNames(p)
	if err != nil {
		return r.anchorFail(err)
	}
	bad := 0
	n := 0
	for ti, t := range resNames {
		for ii, id := range []string{"1", "a-b.C9", strings.Repeat("x", 64)} {
			if !thoroughTier && ti != 0 && (ti+ii)%3 != 0 {
				continue
			}
			for _, ver := range []string{"", "v2.0"} {
				n++
				r.count("identities", 1)
				key := fmt.Sprintf("resource.Identity|%s/%s/%s", t, id, ver)
				rep := func(desc, how string, und bool) {
					bad++
					if bad > 6 {
						return
					}
					if und {
						r.undecided(key, desc, p.pos(fromURL.Pos()), how)
					} else {
						r.bad(key, desc, p.pos(fromURL.Pos()), how)
					}
				}
				// unversioned rendering and NewIdentityFromURL, relative and absolute
				s, ok := evalStr(rel, mk(t, id, ver))
				if !ok {
					rep("RelativeURIString could not be evaluated", "not foldable", true)
					continue
				}
				if s != t+"/"+id {
					rep(fmt.Sprintf("RelativeURIString of (%s, %s) = %q", t, id, s), "the relative URI is Type/id", false)
					continue
				}
				for _, pre := range []string{"", "https://host:8080/x/fhir/"} {
					pt, pid, pver, isErr, ok := parse(fromURL, pre+s)
					switch {
					case !ok:
						rep(fmt.Sprintf("NewIdentityFromURL(%q) could not be evaluated", pre+s), "not foldable", true)
					case isErr || pt != t || pid != id || pver != "":
						rep(fmt.Sprintf("NewIdentityFromURL(%q) = (%s, %s, %q) error=%v, formatted from (%s, %s)", pre+s, pt, pid, pver, isErr, t, id), "parse after format must return the same components", false)
					}
				}
				// versioned rendering and String() agree; the history parser reads the absolute form back
				sv, ok1 := evalStr(relV, mk(t, id, ver))
				ss, ok2 := evalStr(str, mk(t, id, ver))
				wantV := t + "/" + id
				if ver != "" {
					wantV += "/_history/" + ver
				}
				switch {
				case !ok1 || !ok2:
					rep("PreferRelativeVersionedURIString / String could not be evaluated", "not foldable", true)
				case sv != wantV || ss != wantV:
					rep(fmt.Sprintf("PreferRelativeVersionedURIString = %q, String = %q, the FHIR form is %q", sv, ss, wantV), "formatting does not yield Type/id[/_history/version]", false)
				case ver != "":
					pt, pid, pver, isErr, ok := parse(fromHist, "https://host/fhir/"+sv)
					switch {
					case !ok:
						rep(fmt.Sprintf("NewIdentityFromHistoryURL(%q) could not be evaluated", "https://host/fhir/"+sv), "not foldable", true)
					case isErr || pt != t || pid != id || pver != ver:
						rep(fmt.Sprintf("NewIdentityFromHistoryURL(%q) = (%s, %s, %q) error=%v", "https://host/fhir/"+sv, pt, pid, pver, isErr), "parse after format must return the same components", false)
					}
				}
			}
		}
	}
	if bad == 0 {
		r.ok("resource.Identity|pool", fmt.Sprintf("Identity renderings are Type/id[/_history/version] and NewIdentityFromURL / NewIdentityFromHistoryURL read them back on %d identities", n), p.pos(fromURL.Pos()), "constant propagation through the Identity formatters and parsers", true)
	}
	r.floor("identities", 100)
	return r
}

// regexGlobalsSprintf: regexGlobals plus patterns built by fmt.Sprintf of constants.
func regexGlobalsSprintf(p *Program) map[*ssa.Global]string {
	out := regexGlobals(p)
	for path, sp := range p.SSAPkg {
		if !inRepoPath(path) {
			continue
		}
		init := sp.Func("init")
		if init == nil {
			continue
		}
		for _, b := range init.Blocks {
			for _, ins := range b.Instrs {
				st, ok := ins.(*ssa.Store)
				if !ok {
					continue
				}
				g, ok := st.Addr.(*ssa.Global)
				if !ok || out[g] != "" {
					continue
				}
				call, ok := st.Val.(*ssa.Call)
				if !ok || call.Common().StaticCallee() == nil || call.Common().StaticCallee().RelString(nil) != "regexp.MustCompile" {
					continue
				}
				sp2, ok := call.Common().Args[0].(*ssa.Call)
				if !ok || sp2.Common().StaticCallee() == nil || sp2.Common().StaticCallee().RelString(nil) != "fmt.Sprintf" {
					continue
				}
				f, ok := constString(sp2.Common().Args[0])
				if !ok {
					continue
				}
				sl, ok := sp2.Common().Args[1].(*ssa.Slice)
				if !ok {
					continue
				}
				al, ok := sl.X.(*ssa.Alloc)
				if !ok {
					continue
				}
				vals := map[int64]string{}
				good := true
				for _, ref := range *al.Referrers() {
					ia, ok := ref.(*ssa.IndexAddr)
					if !ok {
						continue
					}
					k, ok := ia.Index.(*ssa.Const)
					if !ok {
						good = false
						continue
					}
					idx, _ := constant.Int64Val(k.Value)
					for _, r2 := range *ia.Referrers() {
						if s2, ok := r2.(*ssa.Store); ok {
							mi, ok := s2.Val.(*ssa.MakeInterface)
							if !ok {
								good = false
								continue
							}
							if cs, ok := constString(mi.X); ok {
								vals[idx] = cs
							} else {
								good = false
							}
						}
					}
				}
				if !good {
					continue
				}
				var args []any
				for i := int64(0); i < int64(len(vals)); i++ {
					args = append(args, vals[i])
				}
				pat := fmt.Sprintf(f, args...)
				if _, err := regexp.Compile(pat); err == nil && !strings.Contains(pat, "%!") {
					out[g] = pat
				}
			}
		}
	}
	return out
}

// ---------- REF5: canonical url|version#fragment ----------

func ruleREF5(p *Program) *RuleResult {
	r := newResult("REF5")
	rg := regexGlobals(p)
	g := globalByName(p, "internal/element/canonical", "canonicalRegExp")
	if g == nil || rg[g] == "" {
		return r.anchorFail(fmt.Errorf("anchor: canonical.canonicalRegExp with a constant pattern not found"))
	}
	re, err := regexp.Compile(rg[g])
	if err != nil {
		return r.anchorFail(err)
	}
	str, err := p.Method("internal/resource", "CanonicalIdentity", "String")
	if err != nil {
		return r.anchorFail(err)
	}
	ciT := typeByName(p, mod+"/internal/resource", "CanonicalIdentity")
	iV, iU, iF := structFieldIndex(ciT, "Version"), structFieldIndex(ciT, "Url"), structFieldIndex(ciT, "Fragment")
	if iV < 0 || iU < 0 || iF < 0 {
		return r.anchorFail(fmt.Errorf("anchor: CanonicalIdentity fields changed"))
	}
	// the reader passes the named groups positionally: NewCanonicalIdentity(result["url"], result["version"], result["fragment"])
	fd, pk, err := funcDeclOf(p, "internal/element/canonical", "IdentityFromReference")
	if err != nil {
		return r.anchorFail(err)
	}
	var keys []string
	ast.Inspect(fd, func(n ast.Node) bool {
		c, ok := n.(*ast.CallExpr)
		if !ok {
			return true
		}
		if se, ok := c.Fun.(*ast.SelectorExpr); !ok || se.Sel.Name != "NewCanonicalIdentity" {
			return true
		}
		for _, a := range c.Args {
			if ix, ok := a.(*ast.IndexExpr); ok {
				if tv, ok := pk.TypesInfo.Types[ix.Index]; ok && tv.Value != nil {
					keys = append(keys, constant.StringVal(tv.Value))
				}
			}
		}
		return true
	})
	// the same fact by evaluation, when the reader is written so that it folds: the
	// components handed to NewCanonicalIdentity for a marked canonical
	if strings.Join(keys, ",") != "url,version,fragment" {
		if ifr, err := p.Func("internal/element/canonical", "IdentityFromReference"); err == nil {
			if ct := typeByName(p, dtPkgPath, "Canonical"); ct != nil {
				st := ct.Underlying().(*types.Struct)
				e := aval{k: kStruct}
				for i := 0; i < st.NumFields(); i++ {
					if st.Field(i).Name() == "Value" {
						e.elems = append(e.elems, cStr("http://example.org/fhir/ValueSet/vs|1.2.3#frag-1"))
					} else {
						e.elems = append(e.elems, zeroOf(st.Field(i).Type()))
					}
				}
				an := newAnalyzer()
				an.maxBlocks = 200
				an.regex = rg
				an.callModel = pan3Model(rg)
				var got []string
				an.fnModel = func(sc *ssa.Function, args []aval) (aval, bool) {
					if sc.Name() == "NewCanonicalIdentity" && len(args) == 3 {
						got = nil
						for _, a := range args {
							if v, ok := constStr(a); ok {
								got = append(got, v)
							} else {
								got = append(got, "?")
							}
						}
					}
					return aval{}, false
				}
				an.analyze(ifr, []aval{ptrTo(e)})
				if strings.Join(got, ",") == "http://example.org/fhir/ValueSet/vs,1.2.3,frag-1" {
					keys = []string{"url", "version", "fragment"}
				} else if len(got) == 3 && !strings.Contains(strings.Join(got, ","), "?") {
					keys = got
				}
			}
		}
	}
	if strings.Join(keys, ",") == "url,version,fragment" {
		r.ok("canonical.IdentityFromReference|group order", "the named groups url, version, fragment are passed to NewCanonicalIdentity in that order", p.pos(fd.Pos()), "argument keys of the constructor call", true)
	} else {
		r.bad("canonical.IdentityFromReference|group order", fmt.Sprintf("NewCanonicalIdentity receives the groups %v (expected url, version, fragment)", keys), p.pos(fd.Pos()), "components are swapped when a canonical is parsed")
	}
	names := map[string]int{}
	for i, n := range re.SubexpNames() {
		if n != "" {
			names[n] = i
		}
	}
	for _, k := range []string{"url", "version", "fragment"} {
		if _, ok := names[k]; !ok {
			r.bad("canonical.canonicalRegExp|group "+k, "the canonical regexp has no group named "+k, p.pos(g.Pos()), "the reader looks the component up by this name")
		}
	}
	bad := 0
	n := 0
	for _, u := range []string{"http://hl7.org/fhir/ValueSet/x", "urn:oid:1.2.3", "https://a.b:80/c/d-e_f"} {
		for _, v := range []string{"", "1.0.0", "2024-01_a"} {
			for _, f := range []string{"", "frag.1", "A-b_c"} {
				n++
				r.count("canonicals", 1)
				e := make([]aval, 3)
				e[iV], e[iU], e[iF] = cStr(v), cStr(u), cStr(f)
				an := newAnalyzer()
				an.maxBlocks = 200
				s, ok := constStr(an.analyze(str, []aval{ptrTo(aval{k: kStruct, elems: e})}).joinedReturn())
				want := u
				if v != "" {
					want += "|" + v
				}
				if f != "" {
					want += "#" + f
				}
				key := "canonical|" + want
				if !ok {
					bad++
					r.undecided(key, "CanonicalIdentity.String could not be evaluated", p.pos(str.Pos()), "not foldable")
					continue
				}
				m := re.FindStringSubmatch(s)
				if s != want || m == nil || m[0] != s || m[names["url"]] != u || m[names["version"]] != v || m[names["fragment"]] != f {
					bad++
					if bad <= 4 {
						r.bad(key, fmt.Sprintf("(%s, %q, %q) renders as %q and the canonical regexp reads back %q", u, v, f, s, m), p.pos(str.Pos()), "well-formed canonical URLs split into url|version#fragment and reassemble unchanged")
					}
				}
			}
		}
	}
	if bad == 0 {
		r.ok("canonical|pool", fmt.Sprintf("CanonicalIdentity.String and the canonical regexp agree on %d url|version#fragment combinations", n), p.pos(str.Pos()), "constant propagation through String(); the repository's pattern applied to the rendering", true)
	}
	r.floor("canonicals", 27)
	return r
}

// ---------- REF6: the parsers are pure ----------

// No function of the reference / canonical / identity code writes package-level
// state or uses a package-level mutable container (cache): a parse result must
// depend on the parsed string only, and results handed to one caller must not
// be shared with (and later modified through) another.
func ruleREF6(p *Program) *RuleResult {
	return purityInventory(p, "REF6", "reference|pure", "reference/identity/canonical", 40,
		[]string{"internal/element/reference/", "internal/element/canonical/", "internal/resource/identity.go", "internal/resource/canonical_identity.go"})
}

// purityInventory: the functions declared under the given path prefixes use
// package-level state only by loading immutable values.
func purityInventory(p *Program, rule, okKey, what string, minFuncs int, prefixes []string) *RuleResult {
	return purityInventoryOf(p, rule, okKey, what, minFuncs, prefixes, p.RepoFuncs())
}

func purityInventoryOf(p *Program, rule, okKey, what string, minFuncs int, prefixes []string, fns []*ssa.Function) *RuleResult {
	r := newResult(rule)
	for _, fn := range fns {
		if len(fn.Blocks) == 0 || strings.HasPrefix(fn.Name(), "init") {
			continue
		}
		pos := p.pos(fn.Pos())
		in := false
		for _, pre := range prefixes {
			if strings.HasPrefix(pos, pre) {
				in = true
			}
		}
		if !in {
			continue
		}
		r.count("functions", 1)
		for _, b := range fn.Blocks {
			for _, ins := range b.Instrs {
				for _, op := range ins.Operands(nil) {
					g, ok := (*op).(*ssa.Global)
					if !ok || !inRepoPath(g.Pkg.Pkg.Path()) {
						continue
					}
					r.count("global_uses", 1)
					elem := g.Type().(*types.Pointer).Elem()
					// reads of immutable globals: loads of error sentinels, regexps, strings and other scalars
					if ld, isLoad := ins.(*ssa.UnOp); isLoad && ld.X == ssa.Value(g) {
						if isErrorType(elem) || typeShort(elem) == "*regexp.Regexp" || typeShort(elem) == "time.Time" {
							continue // immutable values (a time.Time is copied by the load)
						}
						if _, basic := elem.Underlying().(*types.Basic); basic {
							continue
						}
						// a table (slice) that is only indexed, ranged over or passed to a reader here
						if _, isSlice := elem.Underlying().(*types.Slice); isSlice && ld.Referrers() != nil {
							ro := true
							for _, ref := range *ld.Referrers() {
								switch y := ref.(type) {
								case *ssa.Range, *ssa.DebugRef, *ssa.Index:
								case *ssa.IndexAddr:
									for _, r3 := range *y.Referrers() {
										if st, ok := r3.(*ssa.Store); ok && st.Addr == ssa.Value(y) {
											ro = false
										}
									}
								case *ssa.Call:
									if bi, ok := y.Common().Value.(*ssa.Builtin); ok && bi.Name() == "len" {
										continue
									}
									if sc := y.Common().StaticCallee(); sc == nil || !(strings.HasSuffix(fnPkgPath(sc), "/internal/slices") || fnPkgPath(sc) == "slices") {
										// handed to an in-repo function that only reads that parameter
										okArg := sc != nil && inRepoFn(sc)
										if okArg {
											for ai, a := range y.Common().Args {
												if a == ssa.Value(ld) && !sliceParamReadOnly(sc, ai, 0) {
													okArg = false
												}
											}
										}
										if !okArg {
											ro = false
										}
									}
								default:
									ro = false
								}
							}
							if ro {
								continue
							}
						}
						// a registry map that is only looked up / ranged over here
						if _, isMap := elem.Underlying().(*types.Map); isMap && ld.Referrers() != nil {
							ro := true
							for _, ref := range *ld.Referrers() {
								switch y := ref.(type) {
								case *ssa.Lookup, *ssa.Range, *ssa.DebugRef:
								case *ssa.Call:
									// handed to an in-repo function that only looks up / ranges over that parameter
									sc := y.Common().StaticCallee()
									okArg := sc != nil && inRepoFn(sc)
									if okArg {
										for ai, a := range y.Common().Args {
											if a == ssa.Value(ld) && !mapParamReadOnly(sc, ai, 0) {
												okArg = false
											}
										}
									}
									if bi, isB := y.Common().Value.(*ssa.Builtin); isB && bi.Name() == "len" {
										okArg = true
									}
									if !okArg {
										ro = false
									}
								default:
									ro = false
								}
							}
							if ro {
								continue
							}
						}
					}
					key := short(fn) + "|" + g.Name()
					switch x := ins.(type) {
					case *ssa.Store:
						if x.Addr == ssa.Value(g) {
							r.bad(key, short(fn)+" stores to the package-level variable "+g.Name(), p.instrPos(ins), "parsing and formatting must not depend on earlier calls")
							continue
						}
					}
					r.bad(key, short(fn)+" uses the package-level "+typeShort(elem)+" "+g.Name()+" (address taken / mutable container)", p.instrPos(ins),
						"a cache or other shared container makes parse results depend on earlier calls and shares result objects between callers")
				}
			}
		}
	}
	if len(r.Obs) == 0 {
		r.ok(okKey, fmt.Sprintf("the %d %s functions use package-level state only by loading error sentinels, regexps, scalars and read-only tables", r.Analysed["functions"], what), prefixes[0], "operand inventory", true)
	}
	r.floor("functions", minFuncs)
	return r
}

// mapParamReadOnly: the idx-th parameter (a map) of fn is only looked up, ranged
// over, measured, or handed to functions that do the same.
func mapParamReadOnly(fn *ssa.Function, idx int, depth int) bool {
	if depth > 3 || idx >= len(fn.Params) || len(fn.Blocks) == 0 {
		return false
	}
	prm := fn.Params[idx]
	if prm.Referrers() == nil {
		return true
	}
	for _, ref := range *prm.Referrers() {
		switch y := ref.(type) {
		case *ssa.Lookup, *ssa.Range, *ssa.DebugRef:
		case *ssa.ChangeType:
			// a generic helper converts its ~map parameter to the core map type
			if y.Referrers() != nil {
				for _, r2 := range *y.Referrers() {
					switch r2.(type) {
					case *ssa.Lookup, *ssa.Range, *ssa.DebugRef:
					default:
						return false
					}
				}
			}
		case *ssa.Call:
			if bi, ok := y.Common().Value.(*ssa.Builtin); ok && bi.Name() == "len" {
				continue
			}
			sc := y.Common().StaticCallee()
			if sc == nil || !inRepoFn(sc) {
				return false
			}
			for ai, a := range y.Common().Args {
				if a == ssa.Value(prm) && !mapParamReadOnly(sc, ai, depth+1) {
					return false
				}
			}
		default:
			return false
		}
	}
	return true
}

// sliceParamReadOnly: the idx-th parameter (a slice) of fn is only indexed,
// ranged over, measured, or handed to functions that do the same; it is not
// written through, resliced, stored or returned.
func sliceParamReadOnly(fn *ssa.Function, idx int, depth int) bool {
	if depth > 3 || idx >= len(fn.Params) || len(fn.Blocks) == 0 {
		return false
	}
	prm := fn.Params[idx]
	if prm.Referrers() == nil {
		return true
	}
	for _, ref := range *prm.Referrers() {
		switch y := ref.(type) {
		case *ssa.Range, *ssa.DebugRef, *ssa.Index:
		case *ssa.IndexAddr:
			for _, r3 := range *y.Referrers() {
				switch z := r3.(type) {
				case *ssa.UnOp, *ssa.DebugRef:
				case *ssa.Store:
					if z.Addr == ssa.Value(y) {
						return false
					}
				default:
					return false
				}
			}
		case *ssa.Call:
			if bi, ok := y.Common().Value.(*ssa.Builtin); ok && bi.Name() == "len" {
				continue
			}
			sc := y.Common().StaticCallee()
			if sc == nil {
				return false
			}
			if strings.HasSuffix(fnPkgPath(sc), "/internal/slices") || fnPkgPath(sc) == "slices" {
				continue
			}
			if !inRepoFn(sc) {
				return false
			}
			for ai, a := range y.Common().Args {
				if a == ssa.Value(prm) && !sliceParamReadOnly(sc, ai, depth+1) {
					return false
				}
			}
		default:
			return false
		}
	}
	return true
}

// NAV8 / TYP7: navigation and the type hierarchy are pure functions of their
// arguments (no process-wide cache whose key could conflate two schema items).
func ruleNAV8(p *Program) *RuleResult {
	return purityInventory(p, "NAV8", "navigation|pure", "navigation (expr, protofields)", 40, []string{"fhirpath/internal/expr/", "internal/protofields/fields.go", "internal/protofields/strcase.go"})
}

func ruleTYP7(p *Program) *RuleResult {
	return purityInventory(p, "TYP7", "reflection|pure", "type-hierarchy (reflection)", 10, []string{"fhirpath/internal/reflection/"})
}

// ---------- REF7: identity comparison is component-wise equality ----------

// (*Identity).Equal is evaluated on all pairs of a pool of identities (type x id
// x version incl. the empty version): it is true exactly when the three
// components are equal, which makes it reflexive, symmetric and transitive and
// consistent with the string rendering.
func ruleREF7(p *Program) *RuleResult {
	r := newResult("REF7")
	fn, err := p.Method("internal/resource", "Identity", "Equal")
	if err != nil {
		return r.anchorFail(err)
	}
	idT := typeByName(p, mod+"/internal/resource", "Identity")
	iT, iID, iVer := structFieldIndex(idT, "typeName"), structFieldIndex(idT, "id"), structFieldIndex(idT, "version")
	if iT < 0 || iID < 0 || iVer < 0 {
		return r.anchorFail(fmt.Errorf("anchor: Identity fields changed"))
	}
	// the pointer-identity shortcut `i == other`
	var ptrEq []*ssa.BinOp
	for _, b := range fn.Blocks {
		for _, ins := range b.Instrs {
			if bo, ok := ins.(*ssa.BinOp); ok && (bo.Op == token.EQL || bo.Op == token.NEQ) {
				_, p1 := bo.X.(*ssa.Parameter)
				_, p2 := bo.Y.(*ssa.Parameter)
				if p1 && p2 {
					ptrEq = append(ptrEq, bo)
				}
			}
		}
	}
	type ident struct{ t, id, v string }
	var pool []ident
	for _, t := range []string{"Patient", "Observation"} {
		for _, id := range []string{"1", "2"} {
			for _, v := range []string{"", "v1", "v2"} {
				pool = append(pool, ident{t, id, v})
			}
		}
	}
	mk := func(x ident) aval {
		e := make([]aval, 3)
		e[iT], e[iID], e[iVer] = cStr(x.t), cStr(x.id), cStr(x.v)
		return ptrTo(aval{k: kStruct, elems: e})
	}
	bad := 0
	first := ""
	for _, a := range pool {
		for _, b := range pool {
			r.count("pairs", 1)
			an := newAnalyzer()
			for _, bo := range ptrEq {
				an.pin[bo] = cBool(bo.Op == token.NEQ) // two distinct objects
			}
			j := an.analyze(fn, []aval{mk(a), mk(b)}).joinedReturn()
			want := a == b
			if j.k != kConst || j.c.Kind() != constant.Bool || constant.BoolVal(j.c) != want {
				bad++
				if first == "" {
					first = fmt.Sprintf("Equal(%s/%s/%q, %s/%s/%q) = %s, want %v", a.t, a.id, a.v, b.t, b.id, b.v, j.String(), want)
				}
			}
		}
	}
	if bad == 0 {
		r.ok("resource.Identity.Equal|pool", fmt.Sprintf("Identity.Equal is component-wise equality on all %d pairs of the pool (an equivalence relation consistent with the rendering)", len(pool)*len(pool)), p.pos(fn.Pos()), "constant propagation with the pointer-identity shortcut pinned to 'distinct objects'", true)
	} else {
		r.bad("resource.Identity.Equal|pool", fmt.Sprintf("%d of %d pairs differ from component-wise equality; first: %s", bad, len(pool)*len(pool), first), p.pos(fn.Pos()),
			"reference comparison built on it is no longer an equivalence (e.g. an unversioned identity equal to two different versions) and equal identities render differently")
	}
	// nil operands are unequal to any identity; the same object equals itself
	for _, c := range []struct {
		name string
		a, b aval
		ptr  bool
		want bool
	}{{"nil receiver", aval{k: kNil}, mk(pool[0]), false, false}, {"nil argument", mk(pool[0]), aval{k: kNil}, false, false}, {"same object", mk(pool[1]), mk(pool[1]), true, true}} {
		r.count("pairs", 1)
		an := newAnalyzer()
		for _, bo := range ptrEq {
			an.pin[bo] = cBool((bo.Op == token.EQL) == c.ptr)
		}
		j := an.analyze(fn, []aval{c.a, c.b}).joinedReturn()
		key := "resource.Identity.Equal|" + c.name
		if j.k == kConst && j.c.Kind() == constant.Bool && constant.BoolVal(j.c) == c.want {
			r.ok(key, fmt.Sprintf("Identity.Equal with a %s is %v", c.name, c.want), p.pos(fn.Pos()), "constant propagation", true)
		} else {
			r.bad(key, fmt.Sprintf("Identity.Equal with a %s is %s, want %v", c.name, j.String(), c.want), p.pos(fn.Pos()), "comparison must be total and reflexive")
		}
	}
	r.floor("pairs", 100)
	return r
}

// ---------- REF8: LiteralInfo and Identity are immutable ----------

// Fields of *LiteralInfo / *Identity / *CanonicalIdentity are written only on
// objects allocated in the writing function or returned fresh by the callee
// that built them: no method updates its receiver or an object handed in, so a
// parsed or derived value never changes after the fact (format(parse(x)) cannot
// depend on call history).
func ruleREF8(p *Program) *RuleResult {
	r := newResult("REF8")
	fr := newFreshness(p)
	immutable := map[string]bool{"LiteralInfo": true, "Identity": true, "CanonicalIdentity": true}
	for _, fn := range p.RepoFuncs() {
		if len(fn.Blocks) == 0 {
			continue
		}
		for _, b := range fn.Blocks {
			for _, ins := range b.Instrs {
				st, ok := ins.(*ssa.Store)
				if !ok {
					continue
				}
				fa, ok := st.Addr.(*ssa.FieldAddr)
				if !ok {
					continue
				}
				pt, ok := fa.X.Type().(*types.Pointer)
				if !ok {
					continue
				}
				n := namedName(pt.Elem())
				pk := namedPkgPath(pt.Elem())
				if !immutable[n] || !(strings.HasSuffix(pk, "/internal/element/reference") || strings.HasSuffix(pk, "/internal/resource")) {
					continue
				}
				r.count("field_stores", 1)
				key := short(fn) + "|" + n + "." + fieldName(fa)
				if fr.isFresh(fa.X) {
					r.ok(key, "field of a "+n+" built in this function (or returned fresh by its constructor) is initialised", p.instrPos(ins), "freshness of the written object", true)
				} else {
					r.bad(key, short(fn)+" writes "+n+"."+fieldName(fa)+" of an object it did not build ("+fr.reason(fa.X)+")", p.instrPos(ins),
						n+" is documented immutable: a value updated in place (cache, lazily filled field) makes formatting and comparison depend on earlier calls and leaks through shallow copies")
				}
			}
		}
	}
	r.floor("field_stores", 6)
	return r
}
