package main

// EN-PROV / EN-PATH: value provenance (freshness, origins) and path queries
// on the SSA control-flow graph.

import (
	"go/token"
	"go/types"

	"golang.org/x/tools/go/ssa"
)

// ---- path queries ----

// reachableAvoiding: is block `to` reachable from the entry block without
// entering any block for which avoid() holds?  (must-pass-through = !reachable)
func reachableAvoiding(fn *ssa.Function, to *ssa.BasicBlock, avoid func(*ssa.BasicBlock) bool) bool {
	if len(fn.Blocks) == 0 {
		return false
	}
	seen := map[*ssa.BasicBlock]bool{}
	stack := []*ssa.BasicBlock{fn.Blocks[0]}
	for len(stack) > 0 {
		b := stack[len(stack)-1]
		stack = stack[:len(stack)-1]
		if seen[b] || avoid(b) {
			continue
		}
		seen[b] = true
		if b == to {
			return true
		}
		stack = append(stack, b.Succs...)
	}
	return false
}

// reachableFrom: blocks reachable from b (excluding b unless in a cycle).
func reachableFrom(b *ssa.BasicBlock) map[*ssa.BasicBlock]bool {
	seen := map[*ssa.BasicBlock]bool{}
	stack := append([]*ssa.BasicBlock{}, b.Succs...)
	for len(stack) > 0 {
		x := stack[len(stack)-1]
		stack = stack[:len(stack)-1]
		if seen[x] {
			continue
		}
		seen[x] = true
		stack = append(stack, x.Succs...)
	}
	return seen
}

// edgeDominates: does taking the edge (from -> succ[idx]) dominate block b,
// i.e. is b only reachable from entry through that edge?
func edgeDominates(from *ssa.BasicBlock, idx int, b *ssa.BasicBlock) bool {
	fn := from.Parent()
	target := from.Succs[idx]
	// b unreachable when the edge is removed
	seen := map[*ssa.BasicBlock]bool{}
	type edge struct{ f, t *ssa.BasicBlock }
	stack := []*ssa.BasicBlock{fn.Blocks[0]}
	for len(stack) > 0 {
		x := stack[len(stack)-1]
		stack = stack[:len(stack)-1]
		if seen[x] {
			continue
		}
		seen[x] = true
		if x == b {
			return false
		}
		for i, s := range x.Succs {
			if x == from && i == idx && s == target {
				// the removed edge; but if both successors are the same block the
				// edge does not discriminate
				continue
			}
			stack = append(stack, s)
		}
	}
	return true
}

// instrIndex returns the position of ins within its block.
func instrIndex(ins ssa.Instruction) int {
	for i, x := range ins.Block().Instrs {
		if x == ins {
			return i
		}
	}
	return -1
}

// dominatesInstr: a executes before b on every path reaching b.
func dominatesInstr(a, b ssa.Instruction) bool {
	if a.Block() == b.Block() {
		return instrIndex(a) < instrIndex(b)
	}
	return a.Block().Dominates(b.Block())
}

// ---- natural loops ----

type loopInfo struct {
	header *ssa.BasicBlock
	body   map[*ssa.BasicBlock]bool // natural loop (includes header)
	latch  []*ssa.BasicBlock
}

func naturalLoops(fn *ssa.Function) []*loopInfo {
	byHeader := map[*ssa.BasicBlock]*loopInfo{}
	var order []*ssa.BasicBlock
	for _, b := range fn.Blocks {
		for _, s := range b.Succs {
			if s.Dominates(b) { // back edge b -> s
				li := byHeader[s]
				if li == nil {
					li = &loopInfo{header: s, body: map[*ssa.BasicBlock]bool{s: true}}
					byHeader[s] = li
					order = append(order, s)
				}
				li.latch = append(li.latch, b)
				// collect body: nodes that reach b without passing through s
				stack := []*ssa.BasicBlock{b}
				for len(stack) > 0 {
					x := stack[len(stack)-1]
					stack = stack[:len(stack)-1]
					if li.body[x] {
						continue
					}
					li.body[x] = true
					stack = append(stack, x.Preds...)
				}
			}
		}
	}
	var out []*loopInfo
	for _, h := range order {
		out = append(out, byHeader[h])
	}
	return out
}

// ---- freshness ----

// freshness decides whether a slice/map/pointer value was allocated in the
// current activation (or by a callee that returns only fresh values) and has
// not been obtained from a parameter, field, global or unknown call.
type freshness struct {
	p     *Program
	memo  map[ssa.Value]int // 0 unknown, 1 fresh, 2 not fresh, 3 in progress
	fnRet map[*ssa.Function]int
	why   map[ssa.Value]string
}

func newFreshness(p *Program) *freshness {
	return &freshness{p: p, memo: map[ssa.Value]int{}, fnRet: map[*ssa.Function]int{}, why: map[ssa.Value]string{}}
}

// allocating library functions whose result is a fresh slice/map
var freshLibCalls = map[string]bool{
	"strings.Split": true, "strings.SplitN": true, "strings.Fields": true, "strings.SplitAfter": true,
	"regexp.(*Regexp).FindStringSubmatch": true, "regexp.(*Regexp).FindAllString": true,
	"sort.StringSlice": false,
	"maps.Keys": true, "golang.org/x/exp/maps.Keys": true, "golang.org/x/exp/maps.Values": true,
	"slices.Clone": true, "golang.org/x/exp/slices.Clone": true,
	"errors.Join": true, "fmt.Sprintf": true,
}

func (f *freshness) notFresh(v ssa.Value, why string) bool {
	f.memo[v] = 2
	f.why[v] = why
	return false
}

func (f *freshness) reason(v ssa.Value) string {
	seen := map[ssa.Value]bool{}
	for {
		if seen[v] {
			return "cycle"
		}
		seen[v] = true
		w := f.why[v]
		if w != "" {
			return w
		}
		return v.String()
	}
}

func (f *freshness) isFresh(v ssa.Value) bool {
	switch f.memo[v] {
	case 1:
		return true
	case 2:
		return false
	case 3:
		return true // optimistic on cycles (phi of append of itself)
	}
	f.memo[v] = 3
	ok := f.compute(v)
	if ok {
		f.memo[v] = 1
	} else if f.memo[v] != 2 {
		f.memo[v] = 2
	}
	return ok
}

func (f *freshness) compute(v ssa.Value) bool {
	switch x := v.(type) {
	case *ssa.Const:
		return true // nil slice / constant
	case *ssa.Alloc:
		return true
	case *ssa.MakeSlice, *ssa.MakeMap:
		return true
	case *ssa.Slice:
		if !f.isFresh(x.X) {
			return f.notFresh(v, "slice of "+f.reason(x.X))
		}
		return true
	case *ssa.Phi:
		for _, e := range x.Edges {
			if !f.isFresh(e) {
				return f.notFresh(v, f.reason(e))
			}
		}
		return true
	case *ssa.ChangeType:
		if !f.isFresh(x.X) {
			return f.notFresh(v, f.reason(x.X))
		}
		return true
	case *ssa.Convert:
		// []byte(string) / []rune(string) allocate
		if _, ok := x.X.Type().Underlying().(*types.Basic); ok {
			return true
		}
		if !f.isFresh(x.X) {
			return f.notFresh(v, f.reason(x.X))
		}
		return true
	case *ssa.Call:
		c := x.Common()
		if b, ok := c.Value.(*ssa.Builtin); ok {
			if b.Name() == "append" {
				if !f.isFresh(c.Args[0]) {
					return f.notFresh(v, "append to "+f.reason(c.Args[0]))
				}
				return true
			}
			return f.notFresh(v, "builtin "+b.Name())
		}
		sc := c.StaticCallee()
		if sc == nil {
			return f.notFresh(v, "result of dynamic call "+callName(c))
		}
		if freshLibCalls[sc.RelString(nil)] || (sc.Origin() != nil && freshLibCalls[sc.Origin().RelString(nil)]) {
			return true
		}
		if inRepoFn(sc) && len(sc.Blocks) > 0 && sc.Signature.Results().Len() == 1 {
			if f.fnReturnsFresh(sc) {
				return true
			}
			return f.notFresh(v, "result of "+short(sc)+" (may return a non-fresh value)")
		}
		return f.notFresh(v, "result of "+short(sc))
	case *ssa.Extract:
		if call, ok := x.Tuple.(*ssa.Call); ok {
			c := call.Common()
			if sc := c.StaticCallee(); sc != nil {
				if freshLibCalls[sc.RelString(nil)] {
					return true
				}
				if inRepoFn(sc) && len(sc.Blocks) > 0 && f.fnReturnsFreshAt(sc, x.Index) {
					return true
				}
				return f.notFresh(v, "result of "+short(sc))
			}
			return f.notFresh(v, "result of dynamic call "+callName(c))
		}
		return f.notFresh(v, "extract of "+x.Tuple.String())
	case *ssa.UnOp:
		if x.Op != token.MUL {
			return f.notFresh(v, "unop")
		}
		// load of a local cell: fresh iff every store into the cell is fresh
		// and the cell's address is not handed to unknown code
		if al, ok := x.X.(*ssa.Alloc); ok {
			return f.cellFresh(v, al)
		}
		if fv, ok := x.X.(*ssa.FreeVar); ok {
			return f.freeVarFresh(v, fv)
		}
		if fa, ok := x.X.(*ssa.FieldAddr); ok {
			return f.notFresh(v, "field "+fieldName(fa)+" of "+typeShort(fa.X.Type()))
		}
		if g, ok := x.X.(*ssa.Global); ok {
			return f.notFresh(v, "global "+g.Name())
		}
		return f.notFresh(v, "load of "+x.X.String())
	case *ssa.Parameter:
		// a parameter of an unexported function that is only ever called directly: fresh
		// when every call site passes a fresh value
		if fn := x.Parent(); fn != nil {
			if sites, ok := f.p.directCallSites(fn); ok {
				pi := -1
				for i, q := range fn.Params {
					if q == x {
						pi = i
					}
				}
				all := pi >= 0
				for _, c := range sites {
					if pi < 0 || pi >= len(c.Common().Args) || !f.isFresh(c.Common().Args[pi]) {
						all = false
						break
					}
				}
				if all {
					return true
				}
				return f.notFresh(v, "parameter "+x.Name()+" (a call site passes a value that is not fresh)")
			}
		}
		return f.notFresh(v, "parameter "+x.Name())
	case *ssa.FreeVar:
		return f.notFresh(v, "captured variable "+x.Name())
	case *ssa.Field:
		return f.notFresh(v, "field of "+typeShort(x.X.Type()))
	case *ssa.Lookup:
		// an entry of a map made in this activation that is only looked up and
		// updated here holds what this activation stored: fresh if every stored value is
		if mm, ok := x.X.(*ssa.MakeMap); ok && mm.Referrers() != nil {
			local := true
			for _, ref := range *mm.Referrers() {
				switch y := ref.(type) {
				case *ssa.Lookup, *ssa.DebugRef, *ssa.Range:
				case *ssa.MapUpdate:
					if y.Map != ssa.Value(mm) || !f.isFresh(y.Value) {
						local = false
					}
				default:
					local = false
				}
			}
			if local {
				return true
			}
		}
		return f.notFresh(v, "map lookup")
	case *ssa.TypeAssert:
		return f.notFresh(v, "type assertion of "+x.X.Name())
	case *ssa.MakeInterface:
		return f.isFresh(x.X)
	}
	return f.notFresh(v, "unrecognised origin "+v.String())
}

func callName(c *ssa.CallCommon) string {
	if c.IsInvoke() {
		return typeShort(c.Value.Type()) + "." + c.Method.Name()
	}
	return c.Value.Name()
}

func fieldName(fa *ssa.FieldAddr) string {
	st := fa.X.Type().Underlying().(*types.Pointer).Elem().Underlying().(*types.Struct)
	return st.Field(fa.Field).Name()
}

// cellFresh: all stores to the local cell (in this function and in closures
// capturing it) store fresh values.
func (f *freshness) cellFresh(v ssa.Value, al *ssa.Alloc) bool {
	refs := al.Referrers()
	if refs == nil {
		return f.notFresh(v, "cell without referrers")
	}
	for _, r := range *refs {
		switch x := r.(type) {
		case *ssa.Store:
			if x.Addr == al {
				if !f.isFresh(x.Val) {
					return f.notFresh(v, "cell "+al.Comment+" holds "+f.reason(x.Val))
				}
			} else {
				return f.notFresh(v, "address of cell stored")
			}
		case *ssa.UnOp, *ssa.DebugRef:
		case *ssa.MakeClosure:
			// captured by a closure: check the stores inside the closure
			fn := x.Fn.(*ssa.Function)
			for i, b := range x.Bindings {
				if b == al && i < len(fn.FreeVars) {
					if !f.freeVarStoresFresh(fn.FreeVars[i]) {
						return f.notFresh(v, "cell "+al.Comment+" is assigned a non-fresh value in closure "+fn.Name())
					}
				}
			}
		default:
			return f.notFresh(v, "address of cell "+al.Comment+" escapes")
		}
	}
	return true
}

func (f *freshness) freeVarStoresFresh(fv *ssa.FreeVar) bool {
	refs := fv.Referrers()
	if refs == nil {
		return true
	}
	for _, r := range *refs {
		switch x := r.(type) {
		case *ssa.Store:
			if x.Addr == fv {
				if !f.isFresh(x.Val) {
					return false
				}
			} else {
				return false
			}
		case *ssa.UnOp, *ssa.DebugRef:
		case *ssa.MakeClosure:
			fn := x.Fn.(*ssa.Function)
			for i, b := range x.Bindings {
				if b == fv && i < len(fn.FreeVars) {
					if !f.freeVarStoresFresh(fn.FreeVars[i]) {
						return false
					}
				}
			}
		default:
			return false
		}
	}
	return true
}

// freeVarFresh: a load of a captured cell inside a closure is fresh iff the
// cell in the enclosing function is fresh.
func (f *freshness) freeVarFresh(v ssa.Value, fv *ssa.FreeVar) bool {
	fn := fv.Parent()
	parent := fn.Parent()
	if parent == nil {
		return f.notFresh(v, "captured variable "+fv.Name())
	}
	idx := -1
	for i, x := range fn.FreeVars {
		if x == fv {
			idx = i
		}
	}
	// find the MakeClosure(s) in the parent
	found := false
	for _, b := range parent.Blocks {
		for _, ins := range b.Instrs {
			mc, ok := ins.(*ssa.MakeClosure)
			if !ok || mc.Fn != fn || idx >= len(mc.Bindings) {
				continue
			}
			found = true
			// a closure that outlives its creator (returned / stored) shares its
			// captured variables between all of its invocations: not fresh
			if closureEscapes(mc) {
				return f.notFresh(v, "variable "+fv.Name()+" captured by a closure that outlives "+short(parent)+" (shared by all its invocations)")
			}
			switch bind := mc.Bindings[idx].(type) {
			case *ssa.Alloc:
				if !f.cellFresh(v, bind) {
					return false
				}
			default:
				return f.notFresh(v, "captured variable "+fv.Name())
			}
		}
	}
	if !found {
		return f.notFresh(v, "captured variable "+fv.Name())
	}
	return true
}

func (f *freshness) fnReturnsFresh(fn *ssa.Function) bool { return f.fnReturnsFreshAt(fn, 0) }

func (f *freshness) fnReturnsFreshAt(fn *ssa.Function, idx int) bool {
	key := fn
	if idx == 0 {
		switch f.fnRet[key] {
		case 1:
			return true
		case 2, 3:
			return false
		}
		f.fnRet[key] = 3
	}
	ok := true
	for _, b := range fn.Blocks {
		if ret, isRet := b.Instrs[len(b.Instrs)-1].(*ssa.Return); isRet {
			if idx >= len(ret.Results) || !f.isFresh(ret.Results[idx]) {
				ok = false
			}
		}
	}
	if idx == 0 {
		if ok {
			f.fnRet[key] = 1
		} else {
			f.fnRet[key] = 2
		}
	}
	return ok
}

// ---- misc helpers shared by rules ----

// isProtoMessagePtr: pointer to a struct that implements proto.Message
// (ProtoReflect method), i.e. a generated message type.
func isProtoMessagePtr(t types.Type) bool {
	pt, ok := t.Underlying().(*types.Pointer)
	if !ok {
		return false
	}
	if _, ok := pt.Elem().Underlying().(*types.Struct); !ok {
		return false
	}
	ms := types.NewMethodSet(pt)
	for i := 0; i < ms.Len(); i++ {
		if ms.At(i).Obj().Name() == "ProtoReflect" {
			return true
		}
	}
	return false
}

func namedPkgPath(t types.Type) string {
	if pt, ok := t.(*types.Pointer); ok {
		t = pt.Elem()
	}
	if n, ok := t.(*types.Named); ok && n.Obj().Pkg() != nil {
		return n.Obj().Pkg().Path()
	}
	return ""
}

func namedName(t types.Type) string {
	if pt, ok := t.(*types.Pointer); ok {
		t = pt.Elem()
	}
	if n, ok := t.(*types.Named); ok {
		return n.Obj().Name()
	}
	return ""
}

// rootOfAddr walks FieldAddr/IndexAddr chains down to the base pointer.
func rootOfAddr(v ssa.Value) ssa.Value {
	for {
		switch x := v.(type) {
		case *ssa.FieldAddr:
			v = x.X
		case *ssa.IndexAddr:
			v = x.X
		default:
			return v
		}
	}
}

// funcDescriptor: stable descriptor of an instruction's enclosing function.
func funcDescriptor(fn *ssa.Function) string { return short(fn) }


// closureEscapes: the closure value is used other than by being called or
// handed to a callee as an argument (i.e. it is returned or stored).
func closureEscapes(mc *ssa.MakeClosure) bool {
	var walk func(v ssa.Value, depth int) bool
	walk = func(v ssa.Value, depth int) bool {
		refs := v.Referrers()
		if refs == nil || depth > 4 {
			return true
		}
		for _, ref := range *refs {
			switch x := ref.(type) {
			case *ssa.Call, *ssa.Defer, *ssa.Go:
				// callee position or an argument handed down
			case *ssa.DebugRef:
			case *ssa.ChangeType:
				if walk(x, depth+1) {
					return true
				}
			case *ssa.MakeInterface:
				if walk(x, depth+1) {
					return true
				}
			case *ssa.Store:
				if _, local := x.Addr.(*ssa.Alloc); local && x.Val == v {
					// stored in a local variable: follow its loads
					al := x.Addr.(*ssa.Alloc)
					for _, r2 := range *al.Referrers() {
						if ld, ok := r2.(*ssa.UnOp); ok {
							if walk(ld, depth+1) {
								return true
							}
						}
					}
					continue
				}
				return true
			default:
				return true
			}
		}
		return false
	}
	return walk(mc, 0)
}
