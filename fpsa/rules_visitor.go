package main

// A harness for the parse-tree visitor methods (VisitXExpression of
// *parser.FHIRPathVisitor): the method is analysed with
//   - the rule context answering Expression(i) / Expression() / Invocation() …
//     with tagged children ("operand:0", "operand:1", "operand:only", "operand:Invocation"),
//   - GetChild(k) answering a terminal node whose GetText() is the pinned
//     operator token,
//   - v.Visit(child) answering a *VisitResult whose Result is tagged with the
//     child it was computed from and with the visitor (v or v.clone()) it was
//     computed by,
//   - v.Transform(node) answering node.
// What the method hands back — the node, its type, its operand fields, its
// operator — is read off the returned value, wherever in the method or its
// helpers the pieces are computed.

import (
	"fmt"
	"go/constant"
	"go/token"
	"go/types"
	"sort"
	"strings"

	"golang.org/x/tools/go/ssa"
)

type visitObs struct{ recv, arg string }

type visitorRun struct {
	res      *result
	visits   []visitObs
	tokReads int
	rets     []visitRet
	hazards  []string
}

type visitRet struct {
	at   ssa.Instruction
	raw  aval
	node aval // the Result of the returned *VisitResult (bot when the return is not a VisitResult snapshot)
	err  aval
	isVR bool
}

type visitorEnv struct {
	p             *Program
	vrType        *types.Named
	vrPtr         types.Type
	resIdx        int
	errIdx        int
	termImpl      types.Type
	trPtr         types.Type // *parser.typeResult (what visiting a type specifier yields)
	trFields      int
	trErrIdx      int
	cloneFn       *ssa.Function              // (*FHIRPathVisitor).clone, resolved as an anchor (rename-tolerant)
	typeSpecFails bool                       // the visit of a type specifier answers an error
	maps          map[string]map[string]aval // constant package-level maps of package parser
	g4            *g4Grammar
	cache         map[*ssa.Function]*visitorRun // unpinned runs
}

func newVisitorEnv(p *Program) (*visitorEnv, error) {
	sp, err := p.Pkg("fhirpath/internal/parser")
	if err != nil {
		return nil, err
	}
	t := sp.Type("VisitResult")
	if t == nil {
		return nil, fmt.Errorf("anchor: parser.VisitResult not found")
	}
	named, _ := t.Type().(*types.Named)
	st, ok := t.Type().Underlying().(*types.Struct)
	if named == nil || !ok {
		return nil, fmt.Errorf("anchor: parser.VisitResult is not a struct")
	}
	env := &visitorEnv{p: p, vrType: named, vrPtr: types.NewPointer(named), resIdx: -1, errIdx: -1}
	for i := 0; i < st.NumFields(); i++ {
		switch st.Field(i).Name() {
		case "Result":
			env.resIdx = i
		case "Error":
			env.errIdx = i
		}
	}
	if env.resIdx < 0 || env.errIdx < 0 {
		return nil, fmt.Errorf("anchor: parser.VisitResult has no Result/Error fields")
	}
	// what visiting a type specifier yields: the struct type of the package that pairs
	// a reflection.TypeSpecifier with an error (found by its fields, not its name)
	var trNames []string
	for name, m := range sp.Members {
		if _, ok := m.(*ssa.Type); ok {
			trNames = append(trNames, name)
		}
	}
	sort.Strings(trNames)
	for _, name := range trNames {
		tr := sp.Members[name].(*ssa.Type)
		st, ok := tr.Type().Underlying().(*types.Struct)
		if !ok || st.NumFields() != 2 {
			continue
		}
		errIdx, tsIdx := -1, -1
		for i := 0; i < st.NumFields(); i++ {
			if isErrorType(st.Field(i).Type()) {
				errIdx = i
			}
			if namedName(st.Field(i).Type()) == "TypeSpecifier" {
				tsIdx = i
			}
		}
		if errIdx >= 0 && tsIdx >= 0 {
			env.trPtr = types.NewPointer(tr.Type())
			env.trFields = st.NumFields()
			env.trErrIdx = errIdx
		}
	}
	if m, err := p.Method("fhirpath/internal/parser", "FHIRPathVisitor", "clone"); err == nil {
		env.cloneFn = m
	}
	if env.maps, err = p.constGlobalMaps("fhirpath/internal/parser"); err != nil {
		return nil, err
	}
	if env.g4, err = readG4(p); err != nil {
		return nil, err
	}
	env.cache = map[*ssa.Function]*visitorRun{}
	ap, err := p.typesPkg("github.com/antlr4-go/antlr/v4")
	if err != nil {
		return nil, err
	}
	ti := ap.Scope().Lookup("TerminalNodeImpl")
	if ti == nil {
		return nil, fmt.Errorf("anchor: antlr.TerminalNodeImpl not found")
	}
	env.termImpl = types.NewPointer(ti.Type())
	return env, nil
}

func noteWithPrefix(v aval, prefix string) string {
	for _, n := range v.notes {
		if strings.HasPrefix(n, prefix) {
			return n
		}
	}
	return ""
}

// run analyses the visitor method fn with the operator token pinned to tok
// (pinTok false: the token is unknown).
func (env *visitorEnv) run(fn *ssa.Function, tok string, pinTok bool) *visitorRun {
	if !pinTok && !env.typeSpecFails {
		if c := env.cache[fn]; c != nil {
			return c
		}
	}
	vr := &visitorRun{}
	if !pinTok && !env.typeSpecFails {
		env.cache[fn] = vr
	}
	seenVisit := map[visitObs]bool{}
	an := newAnalyzer()
	an.maxBlocks = 300
	an.snapshots = true
	an.globalMaps = env.maps
	visitorValue := func(tag string) aval {
		v := nodeReceiver(fn, map[string]aval{"Transform": nonnil("transform")})
		v.notes = []string{tag}
		return v
	}
	isVisitorMethod := func(sc *ssa.Function, name string) bool {
		return sc != nil && sc.Name() == name && sc.Signature.Recv() != nil && namedName(sc.Signature.Recv().Type()) == "FHIRPathVisitor"
	}
	tagOf := func(v aval) string {
		if t := noteWithPrefix(v, "operand:"); t != "" {
			return t
		}
		return "?" + v.String()
	}
	an.fnModel = func(sc *ssa.Function, args []aval) (aval, bool) {
		switch {
		case isVisitorMethod(sc, "Visit") && len(args) == 2:
			o := visitObs{recv: noteWithPrefix(args[0], "visitor:"), arg: tagOf(args[1])}
			if o.recv == "" {
				o.recv = "?" + args[0].String()
			}
			if !seenVisit[o] {
				seenVisit[o] = true
				vr.visits = append(vr.visits, o)
			}
			if strings.Contains(o.arg, "TypeSpecifier") && env.trPtr != nil && env.trErrIdx >= 0 {
				st := aval{k: kStruct, elems: make([]aval, env.trFields)}
				for i := range st.elems {
					st.elems[i] = nonnil("visited-type:" + o.arg)
				}
				st.elems[env.trErrIdx] = aval{k: kNil}
				if env.typeSpecFails {
					st.elems[env.trErrIdx] = nonnil("type-specifier-error")
				}
				out := ptrTo(st)
				out.dyn = env.trPtr
				return out, true
			}
			st := aval{k: kStruct, elems: make([]aval, env.vrType.Underlying().(*types.Struct).NumFields())}
			for i := range st.elems {
				st.elems[i] = top
			}
			st.elems[env.resIdx] = nonnil("visited:" + o.arg + " by " + o.recv)
			st.elems[env.errIdx] = aval{k: kNil}
			out := ptrTo(st)
			out.dyn = env.vrPtr
			return out, true
		case (isVisitorMethod(sc, "clone") || (env.cloneFn != nil && sc == env.cloneFn)) && len(args) == 1:
			return visitorValue("visitor:clone"), true
		}
		return aval{}, false
	}
	an.callModel = func(c *ssa.CallCommon, args []aval) (aval, bool) {
		name := ""
		if c.IsInvoke() {
			name = c.Method.Name()
		} else if sc := c.StaticCallee(); sc != nil && sc.Signature.Recv() != nil {
			name = sc.Name()
		}
		if name == "" || len(args) == 0 {
			return aval{}, false
		}
		recv := args[0]
		// GetChild is promoted from the embedded antlr.BaseParserRuleContext: called on
		// the address of that embedded field, the only rule context in sight being ctx
		embedded := false
		if sc := c.StaticCallee(); sc != nil && sc.Signature.Recv() != nil && namedName(sc.Signature.Recv().Type()) == "BaseParserRuleContext" && recv.k == kNonNil {
			embedded = true
		}
		switch {
		case (hasNote(recv, "ctx") || embedded) && name == "GetChild" && len(args) == 2:
			if k, ok := constInt(args[1]); ok {
				// the grammar alternative this context is built for says what the k-th child is
				out := aval{k: kNonNil, notes: []string{fmt.Sprintf("child:%d", k)}}
				if len(fn.Params) > 1 {
					if alt := env.g4.altForContext(namedName(fn.Params[1].Type())); alt != nil {
						if kinds, ok := alt.childKinds(); ok && k >= 0 && int(k) < len(kinds) {
							if kinds[k] == "terminal" {
								out.dyn = env.termImpl
							} else {
								out.dyn = fn.Params[1].Type() // a rule context: not a terminal node
							}
						}
					}
				}
				return out, true
			}
			return aval{}, false
		case hasNote(recv, "ctx") && len(args) == 2:
			if k, ok := constInt(args[1]); ok {
				return nonnil(fmt.Sprintf("operand:%s(%d)", name, k)), true
			}
		case hasNote(recv, "ctx") && len(args) == 1 && name != "GetText" && name != "GetChildCount":
			return nonnil("operand:" + name + "()"), true
		case noteWithPrefix(recv, "child:") != "" && name == "GetText" && len(args) == 1:
			vr.tokReads++
			if pinTok {
				return cStr(tok), true
			}
			return top, true
		}
		return aval{}, false
	}
	an.dynModel = func(fv aval, args []aval) (aval, bool) {
		if hasNote(fv, "transform") && len(args) == 1 {
			return args[0], true
		}
		return aval{}, false
	}
	res := an.analyze(fn, []aval{visitorValue("visitor:v"), nonnil("ctx")})
	vr.res = res
	for _, h := range res.hazards {
		if strings.Contains(h.what, "store through a snapshot pointer") {
			continue // the visitor's own flags (visitedRoot): not part of what is handed back
		}
		vr.hazards = append(vr.hazards, h.what+" at "+env.p.instrPos(h.leaf))
	}
	for _, ri := range res.rets {
		r := visitRet{at: ri.instr, node: bot, err: bot}
		if len(ri.vals) == 1 {
			r.raw = ri.vals[0]
			if r.raw.dyn != nil && types.Identical(r.raw.dyn, env.vrPtr) && r.raw.ptrOf != nil && r.raw.ptrOf.k == kStruct {
				r.isVR = true
				r.node = r.raw.ptrOf.elems[env.resIdx]
				r.err = r.raw.ptrOf.elems[env.errIdx]
			}
		}
		vr.rets = append(vr.rets, r)
	}
	return vr
}

// nodeTypeName: "ArithmeticExpression" for a node value of dynamic type *expr.ArithmeticExpression.
func nodeTypeName(v aval) string {
	if v.dyn == nil {
		return ""
	}
	return strings.TrimPrefix(typeShort(v.dyn), "*expr.")
}

// nodeField: the value this function stored into field name of the node it built.
func nodeField(v aval, name string) (aval, bool) {
	if v.dyn == nil || v.ptrOf == nil || v.ptrOf.k != kStruct {
		return aval{}, false
	}
	pt, ok := v.dyn.(*types.Pointer)
	if !ok {
		return aval{}, false
	}
	st, ok := pt.Elem().Underlying().(*types.Struct)
	if !ok {
		return aval{}, false
	}
	for i := 0; i < st.NumFields() && i < len(v.ptrOf.elems); i++ {
		if st.Field(i).Name() == name {
			return v.ptrOf.elems[i], true
		}
	}
	return aval{}, false
}

// nodeFields: field names of the node in declaration order.
func nodeFields(v aval) []string {
	pt, ok := v.dyn.(*types.Pointer)
	if !ok {
		return nil
	}
	st, ok := pt.Elem().Underlying().(*types.Struct)
	if !ok {
		return nil
	}
	var out []string
	for i := 0; i < st.NumFields(); i++ {
		out = append(out, st.Field(i).Name())
	}
	return out
}

// visitedTag: "operand:Expression(0)" and the visitor tag for a value produced by the Visit model.
func visitedTag(v aval) (child, by string) {
	n := noteWithPrefix(v, "visited:")
	if n == "" {
		return "", ""
	}
	n = strings.TrimPrefix(n, "visited:")
	if i := strings.Index(n, " by "); i >= 0 {
		return n[:i], n[i+4:]
	}
	return n, ""
}

// opOfNode: the operator configuration of a built node (Op function name,
// operator string, or Not flag).
func opOfNode(v aval) string {
	if op, ok := nodeField(v, "Op"); ok {
		switch {
		case op.fn != nil:
			return op.fn.Name()
		case op.k == kConst && op.c.Kind() == constant.String:
			return constant.StringVal(op.c)
		case op.k == kNil:
			return "nil"
		}
		return "?" + op.String()
	}
	if nt, ok := nodeField(v, "Not"); ok {
		if nt.k == kConst && nt.c.Kind() == constant.Bool {
			return fmt.Sprintf("Not=%v", constant.BoolVal(nt.c))
		}
		return "Not=?" + nt.String()
	}
	return ""
}

func sortedKeys(m map[string]nodeSpec) []string {
	var out []string
	for k := range m {
		out = append(out, k)
	}
	sort.Strings(out)
	return out
}

// constGlobalMaps: the package-level maps of the package (string-kind keys)
// that are built once by the package initialiser from constant keys and never
// written afterwards: "pkg.name" -> key -> value (constants and function
// references; other values stay unknown).
func (p *Program) constGlobalMaps(rel string) (map[string]map[string]aval, error) {
	sp, err := p.Pkg(rel)
	if err != nil {
		return nil, err
	}
	out := map[string]map[string]aval{}
	initFn := sp.Func("init")
	if initFn == nil {
		return out, nil
	}
	// candidate globals: stored exactly once, in init, with a fresh map
	type cand struct {
		g  *ssa.Global
		mk *ssa.MakeMap
	}
	var cands []cand
	for _, b := range initFn.Blocks {
		for _, ins := range b.Instrs {
			st, ok := ins.(*ssa.Store)
			if !ok {
				continue
			}
			g, ok := st.Addr.(*ssa.Global)
			if !ok || g.Pkg != sp {
				continue
			}
			mk, ok := st.Val.(*ssa.MakeMap)
			if !ok {
				continue
			}
			mt, ok := g.Type().(*types.Pointer).Elem().Underlying().(*types.Map)
			if !ok {
				continue
			}
			if kb, ok := mt.Key().Underlying().(*types.Basic); !ok || kb.Info()&(types.IsString|types.IsInteger) == 0 {
				continue
			}
			cands = append(cands, cand{g, mk})
		}
	}
	if len(cands) == 0 {
		return out, nil
	}
	// any other write: a store to the global, or an update / delete on a value loaded from it
	written := map[*ssa.Global]bool{}
	for _, fn := range p.RepoFuncs() {
		fns := append([]*ssa.Function{fn}, fn.AnonFuncs...)
		for _, f := range fns {
			for _, b := range f.Blocks {
				for _, ins := range b.Instrs {
					switch x := ins.(type) {
					case *ssa.Store:
						if g, ok := x.Addr.(*ssa.Global); ok && f != initFn {
							written[g] = true
						}
					case *ssa.MapUpdate:
						if ld, ok := x.Map.(*ssa.UnOp); ok {
							if g, ok := ld.X.(*ssa.Global); ok {
								written[g] = true
							}
						}
					case *ssa.Call:
						if bi, ok := x.Common().Value.(*ssa.Builtin); ok && (bi.Name() == "delete" || bi.Name() == "clear") && len(x.Common().Args) > 0 {
							if ld, ok := x.Common().Args[0].(*ssa.UnOp); ok {
								if g, ok := ld.X.(*ssa.Global); ok {
									written[g] = true
								}
							}
						}
					}
				}
			}
		}
	}
	for _, c := range cands {
		if written[c.g] || c.mk.Referrers() == nil {
			continue
		}
		tab := map[string]aval{}
		okTab := true
		stores := 0
		for _, ref := range *c.mk.Referrers() {
			switch x := ref.(type) {
			case *ssa.MapUpdate:
				k, ok := x.Key.(*ssa.Const)
				if !ok || k.Value == nil || (k.Value.Kind() != constant.String && k.Value.Kind() != constant.Int) {
					okTab = false
					continue
				}
				var v aval = top
				switch y := x.Value.(type) {
				case *ssa.Const:
					if y.Value != nil {
						v = aval{k: kConst, c: y.Value}
					} else if y.IsNil() {
						v = aval{k: kNil}
					}
				case *ssa.Function:
					v = aval{k: kNonNil, fn: y}
				}
				tab[constKey(k.Value)] = v
			case *ssa.Store:
				stores++
			case *ssa.DebugRef:
			default:
				okTab = false
			}
		}
		if okTab && stores == 1 {
			out[sp.Pkg.Name()+"."+c.g.Name()] = tab
		}
	}
	return out, nil
}

// visitorCover: for every function of package parser, the visitor methods
// whose analysis includes it (the method itself or a static call chain from it).
func visitorCover(p *Program, vm map[string]*ssa.Function) map[*ssa.Function][]string {
	out := map[*ssa.Function][]string{}
	var names []string
	for n := range vm {
		names = append(names, n)
	}
	sort.Strings(names)
	for _, name := range names {
		root := vm[name]
		if len(root.Blocks) == 0 || !strings.HasSuffix(fnPkgPath(root), "/fhirpath/internal/parser") {
			continue
		}
		seen := map[*ssa.Function]bool{}
		var walk func(fn *ssa.Function, depth int)
		walk = func(fn *ssa.Function, depth int) {
			if seen[fn] || depth > 6 {
				return
			}
			seen[fn] = true
			out[fn] = append(out[fn], name)
			for _, b := range fn.Blocks {
				for _, ins := range b.Instrs {
					if c, ok := ins.(ssa.CallInstruction); ok {
						if sc := c.Common().StaticCallee(); sc != nil && sc.Pkg == root.Pkg {
							walk(sc, depth+1)
						}
					}
				}
			}
			for _, a := range fn.AnonFuncs {
				walk(a, depth+1)
			}
		}
		walk(root, 0)
	}
	return out
}

// getChildAssertionProved: x.(T) where x is GetChild(k) of a rule context, in a
// function of package parser: in every visitor method whose analysis includes
// the function, the grammar alternative of the method's context makes child k a
// value of the asserted kind (no assertion failure observed).
func getChildAssertionProved(p *Program, env *visitorEnv, vm map[string]*ssa.Function, cover map[*ssa.Function][]string, ta *ssa.TypeAssert) (bool, string) {
	c, ok := ta.X.(*ssa.Call)
	if !ok {
		return false, ""
	}
	name := ""
	if c.Common().IsInvoke() {
		name = c.Common().Method.Name()
	} else if sc := c.Common().StaticCallee(); sc != nil {
		name = sc.Name()
	}
	if name != "GetChild" {
		return false, ""
	}
	roots := cover[ta.Parent()]
	if len(roots) == 0 {
		return false, ""
	}
	for _, rn := range roots {
		vr := env.run(vm[rn], "", false)
		if vr.res == nil || vr.res.nonconverged {
			return false, ""
		}
		for _, h := range vr.res.hazards {
			if h.leaf == ssa.Instruction(ta) {
				return false, ""
			}
		}
		// the assertion must have been decided, not skipped: the alternative's children are known
		alt := env.g4.altForContext(namedName(vm[rn].Params[1].Type()))
		if alt == nil {
			return false, ""
		}
		if _, ok := alt.childKinds(); !ok {
			return false, ""
		}
	}
	return true, fmt.Sprintf("grammar fact, checked: in the alternative(s) of %v the child at the constant index is a token, so GetChild yields a terminal node (a parse tree reaches the visitor only when the listener recorded no syntax error: PARSE5)", roots)
}

// allConstMaps: constGlobalMaps of every repository package (computed once per program).
func (p *Program) allConstMaps() map[string]map[string]aval {
	if p.constMaps != nil {
		return p.constMaps
	}
	out := map[string]map[string]aval{}
	var rels []string
	for path := range p.SSAPkg {
		if strings.HasPrefix(path, mod+"/") {
			rels = append(rels, strings.TrimPrefix(path, mod+"/"))
		}
	}
	sort.Strings(rels)
	for _, rel := range rels {
		m, err := p.constGlobalMaps(rel)
		if err != nil {
			continue
		}
		for k, v := range m {
			out[k] = v
		}
	}
	p.constMaps = out
	return out
}

// constKey: the key under which a constant map key is filed in a constant-map table.
func constKey(c constant.Value) string {
	if c.Kind() == constant.String {
		return constant.StringVal(c)
	}
	return "\x00int:" + c.ExactString()
}

// constGlobalValue: the value of a package-level variable that the package
// initialiser builds once from constants (a slice / array literal of
// constants or of structs of constants) and that no repository function
// writes, re-slices into, or takes the address of: every load yields it.
func (p *Program) constGlobalValue(g *ssa.Global) (aval, bool) {
	if p.constGlobals == nil {
		p.constGlobals = map[*ssa.Global]*aval{}
	}
	if v, done := p.constGlobals[g]; done {
		if v == nil {
			return aval{}, false
		}
		return *v, true
	}
	p.constGlobals[g] = nil
	if g.Pkg == nil || !inRepoPath(g.Pkg.Pkg.Path()) {
		return aval{}, false
	}
	switch g.Type().(*types.Pointer).Elem().Underlying().(type) {
	case *types.Slice, *types.Array:
	default:
		return aval{}, false
	}
	init := g.Pkg.Func("init")
	if init == nil {
		return aval{}, false
	}
	var src ssa.Value
	n := 0
	for _, b := range init.Blocks {
		for _, ins := range b.Instrs {
			if st, ok := ins.(*ssa.Store); ok && st.Addr == ssa.Value(g) {
				src = st.Val
				n++
			}
		}
	}
	if n != 1 {
		return aval{}, false
	}
	// every other use in the repository is a plain load whose result is only read
	for _, fn := range p.RepoFuncs() {
		for _, b := range fn.Blocks {
			for _, ins := range b.Instrs {
				var ops [16]*ssa.Value
				for _, op := range ins.Operands(ops[:0]) {
					if op == nil || *op != ssa.Value(g) {
						continue
					}
					switch x := ins.(type) {
					case *ssa.Store:
						if fn != init {
							return aval{}, false
						}
					case *ssa.UnOp:
						if x.Op != token.MUL {
							return aval{}, false
						}
						if x.Referrers() != nil {
							for _, ref := range *x.Referrers() {
								if ia, ok := ref.(*ssa.IndexAddr); ok && ia.Referrers() != nil {
									for _, r3 := range *ia.Referrers() {
										if st, ok := r3.(*ssa.Store); ok && st.Addr == ssa.Value(ia) {
											return aval{}, false
										}
									}
								}
							}
						}
					default:
						return aval{}, false
					}
				}
			}
		}
	}
	v, ok := constComposite(src, 0)
	if !ok {
		return aval{}, false
	}
	p.constGlobals[g] = &v
	return v, true
}

// constComposite: the value of a composite literal of constants as the initialiser builds it.
func constComposite(v ssa.Value, depth int) (aval, bool) {
	if depth > 4 {
		return aval{}, false
	}
	switch x := v.(type) {
	case *ssa.Const:
		if x.Value != nil {
			return aval{k: kConst, c: x.Value}, true
		}
		if x.IsNil() {
			return aval{k: kNil}, true
		}
		return zeroOf(x.Type()), true
	case *ssa.Function:
		return aval{k: kNonNil, fn: x}, true
	case *ssa.ChangeType:
		return constComposite(x.X, depth+1)
	case *ssa.Convert:
		if c, ok := x.X.(*ssa.Const); ok && c.Value != nil {
			return convertConst(aval{k: kConst, c: c.Value}, x.Type()), true
		}
	case *ssa.MakeInterface:
		e, ok := constComposite(x.X, depth+1)
		if !ok {
			return aval{}, false
		}
		if e.k == kConst {
			e.dyn = x.X.Type()
		}
		return e, true
	case *ssa.Slice:
		if x.Low != nil || x.High != nil {
			return aval{}, false
		}
		al, ok := x.X.(*ssa.Alloc)
		if !ok {
			return aval{}, false
		}
		at, ok := al.Type().(*types.Pointer).Elem().Underlying().(*types.Array)
		if !ok || at.Len() > 256 {
			return aval{}, false
		}
		out := aval{k: kSlice, n: int(at.Len()), elems: make([]aval, at.Len())}
		st, isStruct := at.Elem().Underlying().(*types.Struct)
		for i := range out.elems {
			if isStruct {
				e := aval{k: kStruct, elems: make([]aval, st.NumFields())}
				for j := range e.elems {
					e.elems[j] = zeroOf(st.Field(j).Type())
				}
				out.elems[i] = e
			} else {
				out.elems[i] = zeroOf(at.Elem())
			}
		}
		if al.Referrers() == nil {
			return out, true
		}
		for _, ref := range *al.Referrers() {
			switch y := ref.(type) {
			case *ssa.Slice, *ssa.DebugRef:
			case *ssa.IndexAddr:
				k, ok := y.Index.(*ssa.Const)
				if !ok || k.Value == nil || y.Referrers() == nil {
					return aval{}, false
				}
				ki, _ := constant.Int64Val(k.Value)
				if ki < 0 || int(ki) >= len(out.elems) {
					return aval{}, false
				}
				for _, r2 := range *y.Referrers() {
					switch z := r2.(type) {
					case *ssa.Store:
						if z.Addr != ssa.Value(y) {
							return aval{}, false
						}
						e, ok := constComposite(z.Val, depth+1)
						if !ok {
							return aval{}, false
						}
						out.elems[ki] = e
					case *ssa.FieldAddr:
						if !isStruct || z.Referrers() == nil {
							return aval{}, false
						}
						for _, r3 := range *z.Referrers() {
							s3, ok := r3.(*ssa.Store)
							if !ok || s3.Addr != ssa.Value(z) {
								return aval{}, false
							}
							e, ok := constComposite(s3.Val, depth+1)
							if !ok {
								return aval{}, false
							}
							out.elems[ki].elems[z.Field] = e
						}
					case *ssa.DebugRef:
					default:
						return aval{}, false
					}
				}
			default:
				return aval{}, false
			}
		}
		return out, true
	}
	return aval{}, false
}
