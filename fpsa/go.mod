module fpsa

go 1.22.2

require (
	github.com/iancoleman/strcase v0.3.0
	golang.org/x/tools v0.29.0
)

require (
	golang.org/x/mod v0.22.0 // indirect
	golang.org/x/sync v0.10.0 // indirect
)
