package main

import (
	"encoding/json"
	"os"
	"os/exec"
	"sort"
	"strings"
)

// thoroughTier: set by runCheck; rules that decide a clause on a pool use a
// larger pool in the thorough tier.
var thoroughTier bool

// crossReference: thorough tier only, informational (never part of the
// verdict): diagnostics of the generic tools (go vet, staticcheck) that fall in
// the files the property's properties.jsonl entry anchors. They are listed in
// the evidence so that a reader can see whether an off-the-shelf lint says
// anything about the anchored code; no rule depends on them.
func crossReference(p *Program, pd *propDef) any {
	files := anchorFiles(pd.ID)
	if len(files) == 0 {
		return nil
	}
	out := map[string]any{"anchor_files": files}
	for _, tool := range [][]string{{"go", "vet", "./..."}, {"staticcheck", "./..."}} {
		if _, err := exec.LookPath(tool[0]); err != nil {
			out[tool[0]] = "not installed"
			continue
		}
		cmd := exec.Command(tool[0], tool[1:]...)
		cmd.Dir = p.RepoDir
		cmd.Env = append(os.Environ(), "GOFLAGS=-mod=mod", "GOPROXY=off", "GOSUMDB=off", "GOTOOLCHAIN=local", "GOWORK=off")
		b, _ := cmd.CombinedOutput()
		var hits []string
		for _, l := range strings.Split(string(b), "\n") {
			for _, f := range files {
				if strings.HasPrefix(l, f+":") || strings.Contains(l, "/"+f+":") {
					if !strings.Contains(l, "_test.go") {
						hits = append(hits, l)
					}
				}
			}
		}
		sort.Strings(hits)
		if len(hits) > 20 {
			hits = append(hits[:20], "…")
		}
		name := strings.Join(tool[:len(tool)-1], " ")
		if hits == nil {
			hits = []string{}
		}
		out[name] = hits
	}
	return out
}

func anchorFiles(id string) []string {
	f, err := os.Open(verifDir() + "/properties.jsonl")
	if err != nil {
		return nil
	}
	defer f.Close()
	dec := json.NewDecoder(f)
	for dec.More() {
		var pr struct {
			ID      string `json:"id"`
			Anchors struct {
				Files []string `json:"files"`
			} `json:"anchors"`
		}
		if err := dec.Decode(&pr); err != nil {
			return nil
		}
		if pr.ID == id {
			return pr.Anchors.Files
		}
	}
	return nil
}
