package main

// crossReference: thorough tier only, informational (never part of the
// verdict): diagnostics of generic tools that fall in the property's anchors.
func crossReference(p *Program, pd *propDef) any { return nil }
