package main

// C03 — evaluation never mutates its inputs (effect analysis over everything
// reachable from the Evaluate entry points): MUT1 proto mutators, MUT2
// fresh-origin writes only, MUT3 immutable expression nodes, MUT4 Context
// writers.

import (
	"fmt"
	"go/types"
	"sort"
	"strings"

	"golang.org/x/tools/go/ssa"
)

// protoreflect / proto mutator tables (confirmed against protobuf v1.34.1)
var invokeMutators = map[string]map[string]bool{
	"Message": {"Set": true, "Clear": true, "Mutable": true, "SetUnknown": true, "ClearOneof": false},
	"List":    {"Set": true, "Append": true, "AppendMutable": true, "Truncate": true},
	"Map":     {"Set": true, "Clear": true, "Mutable": true},
}

// static library calls that write to their first message/target argument
var staticMutators = map[string]int{
	"google.golang.org/protobuf/proto.Merge":                          0,
	"google.golang.org/protobuf/proto.Reset":                          0,
	"google.golang.org/protobuf/proto.Unmarshal":                      1,
	"(google.golang.org/protobuf/proto.UnmarshalOptions).Unmarshal":   2,
	"google.golang.org/protobuf/proto.SetExtension":                   0,
	"google.golang.org/protobuf/proto.ClearExtension":                 0,
	"(*google.golang.org/protobuf/types/known/anypb.Any).UnmarshalTo": 1,
	"google.golang.org/protobuf/types/known/anypb.UnmarshalTo":        1,
	"(*google.golang.org/protobuf/types/known/anypb.Any).MarshalFrom": 0,
	"google.golang.org/protobuf/types/known/anypb.MarshalFrom":        0,
	"(google.golang.org/protobuf/encoding/protojson.UnmarshalOptions).Unmarshal": 2,
	"google.golang.org/protobuf/encoding/protojson.Unmarshal":                    1,
	"(google.golang.org/protobuf/encoding/prototext.UnmarshalOptions).Unmarshal": 2,
	"google.golang.org/protobuf/encoding/prototext.Unmarshal":                    1,
	"github.com/google/fhir/go/jsonformat.NormalizeReference":                    0,
	"github.com/google/fhir/go/jsonformat.DenormalizeReference":                  0,
}

type mutSite struct {
	fn    *ssa.Function
	ins   ssa.Instruction
	what  string // descriptor (callee / store)
	fresh bool
	why   string
}

// protoMutatorSites lists proto-mutating instructions in fn.
func protoMutatorSites(p *Program, fr *freshness, fn *ssa.Function) []mutSite {
	var out []mutSite
	for _, b := range fn.Blocks {
		for _, ins := range b.Instrs {
			switch x := ins.(type) {
			case ssa.CallInstruction:
				c := x.Common()
				if c.IsInvoke() {
					tn := namedName(c.Value.Type())
					if namedPkgPath(c.Value.Type()) == "google.golang.org/protobuf/reflect/protoreflect" && invokeMutators[tn][c.Method.Name()] {
						out = append(out, mutSite{fn: fn, ins: ins, what: "protoreflect." + tn + "." + c.Method.Name()})
					}
					continue
				}
				sc := c.StaticCallee()
				if sc == nil {
					continue
				}
				name := sc.RelString(nil)
				if sc.Origin() != nil {
					name = sc.Origin().RelString(nil)
				}
				if argi, ok := staticMutators[name]; ok && argi < len(c.Args) {
					tgt := c.Args[argi]
					// look through MakeInterface
					if mi, ok := tgt.(*ssa.MakeInterface); ok {
						tgt = mi.X
					}
					fresh := fr.isFresh(tgt)
					out = append(out, mutSite{fn: fn, ins: ins, what: shortName(name) + "(target " + originClass(fr, tgt) + ")", fresh: fresh, why: fr.reason(tgt)})
				}
			case *ssa.Store:
				fa, ok := x.Addr.(*ssa.FieldAddr)
				if !ok {
					continue
				}
				if !isProtoMessagePtr(fa.X.Type()) {
					continue
				}
				root := rootOfAddr(fa)
				fresh := fr.isFresh(root)
				out = append(out, mutSite{fn: fn, ins: ins, what: "store to " + typeShort(fa.X.Type()) + "." + fieldName(fa) + " (" + originClass(fr, root) + ")", fresh: fresh, why: fr.reason(root)})
			}
		}
	}
	return out
}

func shortName(s string) string {
	s = strings.ReplaceAll(s, "google.golang.org/protobuf/", "")
	s = strings.ReplaceAll(s, "github.com/google/fhir/go/", "")
	s = strings.ReplaceAll(s, mod+"/", "")
	return s
}

// originClass gives a stable, non-positional class for a value's origin.
func originClass(fr *freshness, v ssa.Value) string {
	if fr.isFresh(v) {
		return "fresh"
	}
	return fr.reason(v)
}

func ruleMUT1(p *Program) *RuleResult {
	r := newResult("MUT1")
	reach, err := p.Reach("eval")
	if err != nil {
		return r.anchorFail(err)
	}
	fr := newFreshness(p)
	fns := RepoReach(reach)
	r.count("functions", len(fns))
	for _, fn := range fns {
		for _, s := range protoMutatorSites(p, fr, fn) {
			r.count("mutator_sites", 1)
			key := short(fn) + "|" + s.what
			if s.fresh {
				r.ok(key, s.what+" on a freshly allocated message", p.instrPos(s.ins), "EN-PROV: target allocated in this activation", true)
			} else {
				r.bad(key, s.what+" reachable from Evaluate", p.instrPos(s.ins), "a proto mutator on a non-fresh message is reachable from the Evaluate entry points (target: "+s.why+")")
			}
		}
	}
	// positive control: the same scan from the patch entry points must find
	// the mutators of patch.go
	preach, err := p.Reach("patch")
	if err != nil {
		return r.anchorFail(err)
	}
	n := 0
	for _, fn := range RepoReach(preach) {
		for _, s := range protoMutatorSites(p, fr, fn) {
			if !s.fresh {
				n++
			}
		}
	}
	r.count("positive_control_patch_mutators", n)
	r.floor("positive_control_patch_mutators", 4)
	r.floor("functions", 150)
	if n >= 6 {
		r.ok("positive-control", fmt.Sprintf("the same scan from the patch API finds %d non-fresh proto mutators", n), "fhirpath/patch/patch.go", "positive control", false)
	}
	return r
}

// in-place library helpers: index of the argument that is written
var inPlaceLib = map[string]int{
	"sort.Slice": 0, "sort.SliceStable": 0, "sort.Sort": 0, "sort.Stable": 0, "sort.Strings": 0, "sort.Ints": 0, "sort.Float64s": 0,
	"slices.Sort": 0, "slices.SortFunc": 0, "slices.SortStableFunc": 0, "slices.Reverse": 0,
	"golang.org/x/exp/slices.Sort": 0, "golang.org/x/exp/slices.SortFunc": 0, "golang.org/x/exp/slices.SortStableFunc": 0,
	"golang.org/x/exp/slices.Reverse": 0, "slices.Delete": 0, "slices.Insert": 0, "slices.Compact": 0, "slices.CompactFunc": 0,
	"golang.org/x/exp/slices.Delete": 0, "golang.org/x/exp/slices.Insert": 0, "golang.org/x/exp/slices.Compact": 0,
	"math/rand.Shuffle": -1,
}

type writeSite struct {
	ins   ssa.Instruction
	what  string
	base  ssa.Value
	kind  string // append, elemstore, copy, inplace, mapupdate
}

// sliceWriteSites lists instructions of fn that write through a slice or map.
func sliceWriteSites(fn *ssa.Function) []writeSite {
	var out []writeSite
	for _, b := range fn.Blocks {
		for _, ins := range b.Instrs {
			switch x := ins.(type) {
			case *ssa.Call:
				c := x.Common()
				if bi, ok := c.Value.(*ssa.Builtin); ok {
					switch bi.Name() {
					case "append":
						if len(c.Args) >= 1 {
							// a cap-clipped operand (x[a:b:c]) cannot be overwritten
							if sl, ok := c.Args[0].(*ssa.Slice); ok && sl.Max != nil {
								continue
							}
							out = append(out, writeSite{ins, "append", c.Args[0], "append"})
						}
					case "copy":
						out = append(out, writeSite{ins, "copy", c.Args[0], "copy"})
					case "clear":
						out = append(out, writeSite{ins, "clear", c.Args[0], "clear"})
					case "delete":
						out = append(out, writeSite{ins, "delete", c.Args[0], "mapupdate"})
					}
					continue
				}
				if sc := c.StaticCallee(); sc != nil {
					name := sc.RelString(nil)
					if sc.Origin() != nil {
						name = sc.Origin().RelString(nil)
					}
					if i, ok := inPlaceLib[name]; ok && i >= 0 && i < len(c.Args) {
						arg := c.Args[i]
						if mi, ok := arg.(*ssa.MakeInterface); ok {
							arg = mi.X
						}
						out = append(out, writeSite{ins, name, arg, "inplace"})
					}
				}
			case *ssa.Store:
				if ia, ok := x.Addr.(*ssa.IndexAddr); ok {
					if _, isSlice := ia.X.Type().Underlying().(*types.Slice); isSlice {
						out = append(out, writeSite{ins, "element store", ia.X, "elemstore"})
					}
				}
			case *ssa.MapUpdate:
				out = append(out, writeSite{ins, "map update", x.Map, "mapupdate"})
			}
		}
	}
	return out
}

// mut2Scan applies MUT2 to every repository function reachable from the set.
func mut2Scan(p *Program, r *RuleResult, set string, mapsToo bool) {
	reach, err := p.Reach(set)
	if err != nil {
		r.anchorFail(err)
		return
	}
	fr := newFreshness(p)
	fns := RepoReach(reach)
	r.count("functions_"+set, len(fns))
	for _, fn := range fns {
		for _, w := range sliceWriteSites(fn) {
			if w.kind == "mapupdate" && !mapsToo {
				continue
			}
			r.count("write_sites_"+set, 1)
			fresh := fr.isFresh(w.base)
			key := set + "|" + short(fn) + "|" + w.what + "(" + originClass(fr, w.base) + ")"
			if fresh {
				r.ok(key, w.what+" on a fresh value", p.instrPos(w.ins), "EN-PROV: origin allocated in this activation", false)
			} else {
				r.bad(key, w.what+" on "+fr.reason(w.base), p.instrPos(w.ins),
					"writes through a slice/map that was not allocated in this activation ("+fr.reason(w.base)+"): may overwrite a caller's backing store")
			}
		}
	}
}

func ruleMUT2(p *Program) *RuleResult {
	r := newResult("MUT2")
	mut2Scan(p, r, "eval", false)
	r.floor("functions_eval", 150)
	r.floor("write_sites_eval", 10)
	return r
}

// exprNodeTypes: struct types implementing expr.Expression plus the two
// public Expression wrappers.
func exprNodeTypes(p *Program) (map[string]bool, error) {
	sp, err := p.Pkg("fhirpath/internal/expr")
	if err != nil {
		return nil, err
	}
	it := sp.Type("Expression")
	if it == nil {
		return nil, fmt.Errorf("anchor: expr.Expression not found")
	}
	iface, ok := it.Type().Underlying().(*types.Interface)
	if !ok {
		return nil, fmt.Errorf("anchor: expr.Expression is not an interface")
	}
	out := map[string]bool{}
	for path, pk := range p.SSAPkg {
		if !inRepoPath(path) || isTestSupportPath(path) {
			continue
		}
		for _, m := range pk.Members {
			t, ok := m.(*ssa.Type)
			if !ok {
				continue
			}
			if _, isStruct := t.Type().Underlying().(*types.Struct); !isStruct {
				continue
			}
			if types.Implements(types.NewPointer(t.Type()), iface) || types.Implements(t.Type(), iface) {
				out[typeShort(t.Type())] = true
			}
		}
	}
	out["fhirpath.Expression"] = true
	out["patch.Expression"] = true
	return out, nil
}

func ruleMUT3(p *Program) *RuleResult {
	r := newResult("MUT3")
	nodes, err := exprNodeTypes(p)
	if err != nil {
		return r.anchorFail(err)
	}
	r.count("node_types", len(nodes))
	r.floor("node_types", 15)
	fr := newFreshness(p)
	for _, set := range []string{"eval", "patch"} {
		reach, err := p.Reach(set)
		if err != nil {
			return r.anchorFail(err)
		}
		fns := RepoReach(reach)
		r.count("functions", len(fns))
		for _, fn := range fns {
			for _, b := range fn.Blocks {
				for _, ins := range b.Instrs {
					st, ok := ins.(*ssa.Store)
					if !ok {
						continue
					}
					root := st.Addr
					var path []string
					isNode := false
					var nodeT string
					for {
						if fa, ok := root.(*ssa.FieldAddr); ok {
							path = append([]string{fieldName(fa)}, path...)
							pt := fa.X.Type().Underlying().(*types.Pointer).Elem()
							if nodes[typeShort(pt)] {
								isNode = true
								nodeT = typeShort(pt)
							}
							root = fa.X
							continue
						}
						if ia, ok := root.(*ssa.IndexAddr); ok {
							root = ia.X
							continue
						}
						break
					}
					if !isNode {
						continue
					}
					r.count("node_field_stores", 1)
					key := set + "|" + short(fn) + "|" + nodeT + "." + strings.Join(path, ".")
					if fr.isFresh(root) {
						r.ok(key, "store to "+nodeT+"."+strings.Join(path, ".")+" of a node built in this activation", p.instrPos(ins), "fresh node under construction", false)
					} else {
						r.bad(key, "store to "+nodeT+"."+strings.Join(path, ".")+" at evaluation time", p.instrPos(ins),
							"a field of a compiled expression node is written in code reachable from "+set+" entry points: compiled expressions must be immutable (shared across goroutines)")
					}
				}
			}
		}
	}
	// positive control: the parser package constructs nodes (stores exist there)
	creach, err := p.Reach("compile")
	if err != nil {
		return r.anchorFail(err)
	}
	n := 0
	for _, fn := range RepoReach(creach) {
		for _, b := range fn.Blocks {
			for _, ins := range b.Instrs {
				if st, ok := ins.(*ssa.Store); ok {
					if fa, ok := st.Addr.(*ssa.FieldAddr); ok {
						if nodes[typeShort(fa.X.Type().Underlying().(*types.Pointer).Elem())] {
							n++
						}
					}
				}
			}
		}
	}
	r.count("positive_control_construction_stores", n)
	r.floor("positive_control_construction_stores", 12)
	return r
}

// MUT4: who writes evaluation Context fields.
var contextWriters = map[string]map[string]bool{
	// function (short) -> fields it may write on a non-fresh Context
	"fhirpath/evalopts.OverrideTime$1":                        {"Now": true},
	"(*fhirpath/patch.storeLastExpression).Evaluate":          {"LastResult": true, "BeforeLastResult": true},
	"(fhirpath/patch.storeLastExpression).Evaluate":           {"LastResult": true, "BeforeLastResult": true},
}

func ruleMUT4(p *Program) *RuleResult {
	r := newResult("MUT4")
	fr := newFreshness(p)
	var fns []*ssa.Function
	seen := map[*ssa.Function]bool{}
	for _, set := range []string{"eval", "patch"} {
		reach, err := p.Reach(set)
		if err != nil {
			return r.anchorFail(err)
		}
		for _, fn := range RepoReach(reach) {
			if !seen[fn] {
				seen[fn] = true
				fns = append(fns, fn)
			}
		}
	}
	sort.Slice(fns, func(i, j int) bool { return fnKey(fns[i]) < fnKey(fns[j]) })
	r.count("functions", len(fns))
	isCtx := func(t types.Type) bool {
		return namedName(t) == "Context" && strings.HasSuffix(namedPkgPath(t), "/fhirpath/internal/expr")
	}
	for _, fn := range fns {
		for _, b := range fn.Blocks {
			for _, ins := range b.Instrs {
				switch x := ins.(type) {
				case *ssa.Store:
					fa, ok := x.Addr.(*ssa.FieldAddr)
					if !ok || !isCtx(fa.X.Type()) {
						continue
					}
					r.count("context_field_stores", 1)
					f := fieldName(fa)
					key := short(fn) + "|Context." + f
					if fr.isFresh(fa.X) {
						r.ok(key, "store to Context."+f+" of a context built in this activation", p.instrPos(ins), "fresh Context", false)
					} else if contextWriters[short(fn)][f] {
						r.ok(key, "store to Context."+f, p.instrPos(ins), "allowed writer (frozen who-may-write table)", true)
					} else {
						r.bad(key, "store to Context."+f+" in "+short(fn), p.instrPos(ins), "evaluation state is written outside the frozen writer table (OverrideTime: Now; patch.storeLastExpression: LastResult/BeforeLastResult)")
					}
				case *ssa.MapUpdate:
					// map loaded from Context.ExternalConstants
					if ld, ok := x.Map.(*ssa.UnOp); ok {
						if fa, ok := ld.X.(*ssa.FieldAddr); ok && isCtx(fa.X.Type()) {
							r.count("context_map_updates", 1)
							key := short(fn) + "|Context." + fieldName(fa) + "[k]="
							if short(fn) == "fhirpath/evalopts.EnvVariable$1" {
								r.ok(key, "insert into Context.ExternalConstants", p.instrPos(ins), "allowed writer (EnvVariable; insert-if-absent is checked by GLB2)", true)
							} else {
								r.bad(key, "update of Context.ExternalConstants in "+short(fn), p.instrPos(ins), "environment variables are written outside evalopts.EnvVariable")
							}
						}
					}
				}
			}
		}
	}
	r.floor("context_field_stores", 2)
	r.floor("context_map_updates", 1)
	return r
}
