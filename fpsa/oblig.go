package main

// Obligations, reviewed table, known findings, verdict and evidence.

import (
	"strings"
	"encoding/json"
	"fmt"
	"os"
	"path/filepath"
	"sort"
)

type Status string

const (
	Discharged Status = "discharged"
	Reviewed   Status = "reviewed"
	Known      Status = "known-finding"
	Violation  Status = "VIOLATION"
	Undecided  Status = "undecided"
)

// Obligation is one thing a rule had to establish about one construct.
type Obligation struct {
	Rule      string `json:"rule"`
	Key       string `json:"key"`       // semantic, never positional
	Construct string `json:"construct"` // human description
	Pos       string `json:"pos"`       // file:line, for the reader only
	Status    Status `json:"status"`
	How       string `json:"how"` // discharge rule or the reason for the violation
	// NonTrivial marks obligations that needed more than a syntactic/constant
	// argument (used for the evidence count distinct_nontrivial).
	NonTrivial bool `json:"nontrivial,omitempty"`
	// Alias: the key the same obligation had in the single caller of the
	// (unexported, directly called) helper it now lives in: a review or known
	// finding recorded against the caller still names this obligation.
	Alias []string `json:"alias,omitempty"`
}

// RuleResult is what a rule returns.
type RuleResult struct {
	Rule     string
	Obs      []Obligation
	Analysed map[string]int // named counters: functions, call sites, hypotheses...
	Notes    []string
	Floor    map[string]int // counter -> minimal value (vacuity guard)
}

func newResult(rule string) *RuleResult {
	return &RuleResult{Rule: rule, Analysed: map[string]int{}, Floor: map[string]int{}}
}

func (r *RuleResult) add(key, construct, pos string, st Status, how string, nontrivial bool) {
	r.Obs = append(r.Obs, Obligation{Rule: r.Rule, Key: r.Rule + "|" + key, Construct: construct, Pos: pos, Status: st, How: how, NonTrivial: nontrivial})
}
func (r *RuleResult) ok(key, construct, pos, how string, nontrivial bool) {
	r.add(key, construct, pos, Discharged, how, nontrivial)
}
func (r *RuleResult) bad(key, construct, pos, how string) {
	r.add(key, construct, pos, Violation, how, true)
}
func (r *RuleResult) undecided(key, construct, pos, how string) {
	r.add(key, construct, pos, Undecided, how, true)
}

// alias records, for the obligation added last, the key(s) it would have in the caller of a single-call-site helper.
func (r *RuleResult) alias(keys ...string) {
	if len(r.Obs) == 0 {
		return
	}
	o := &r.Obs[len(r.Obs)-1]
	for _, k := range keys {
		if k != "" {
			o.Alias = append(o.Alias, r.Rule+"|"+k)
		}
	}
}
func (r *RuleResult) count(name string, n int) { r.Analysed[name] += n }
func (r *RuleResult) floor(name string, n int) { r.Floor[name] = n }
func (r *RuleResult) note(f string, a ...any)  { r.Notes = append(r.Notes, fmt.Sprintf(f, a...)) }

// anchorFail records an unresolved anchor: that is a failure, not a skip.
func (r *RuleResult) anchorFail(err error) *RuleResult {
	r.add("anchor|"+err.Error(), "anchor resolution", "-", Undecided, err.Error(), true)
	return r
}

// ---- reviewed table & known findings ----

type reviewedEntry struct {
	Key    string `json:"key"`
	Reason string `json:"reason"`
}

type knownEntry struct {
	Property string `json:"property,omitempty"` // optional; empty = any property that runs the rule
	Key      string `json:"key"`
	Input    string `json:"failing_input"`
	What     string `json:"what"`
}

type fixedEntry struct {
	Property string `json:"property"`
	Commit   string `json:"commit"`
	What     string `json:"what"`
}

type knownFile struct {
	Comment string       `json:"_comment"`
	Known   []knownEntry `json:"known_findings"`
	Fixed   []fixedEntry `json:"fixed"`
}

func verifDir() string {
	if d := os.Getenv("FPSA_VERIF"); d != "" {
		return d
	}
	return "/verif"
}

// outBase: where evidence/ and out/ are written (redirected by the mutant
// self-test so that a scratch run never overwrites committed evidence).
func outBase() string {
	if d := os.Getenv("FPSA_OUT"); d != "" {
		return d
	}
	return verifDir()
}

func loadReviewed() (map[string]string, error) {
	b, err := os.ReadFile(filepath.Join(verifDir(), "fpsa", "reviewed.json"))
	if err != nil {
		return nil, err
	}
	var es []reviewedEntry
	if err := json.Unmarshal(b, &es); err != nil {
		return nil, fmt.Errorf("reviewed.json: %w", err)
	}
	m := map[string]string{}
	for _, e := range es {
		m[e.Key] = e.Reason
	}
	return m, nil
}

func loadKnown() (*knownFile, error) {
	b, err := os.ReadFile(filepath.Join(verifDir(), "known_findings.json"))
	if err != nil {
		return nil, err
	}
	var k knownFile
	if err := json.Unmarshal(b, &k); err != nil {
		return nil, fmt.Errorf("known_findings.json: %w", err)
	}
	return &k, nil
}

// ---- verdict ----

type Verdict struct {
	Property   string
	Tier       string
	Results    []*RuleResult
	Obs        []Obligation
	Violations []Obligation
	KnownHits  []knownEntry
	Stale      []string
	FloorFails []string
}

// resolve applies reviewed/known tables to raw obligations.
func resolve(prop string, results []*RuleResult) (*Verdict, error) {
	rev, err := loadReviewed()
	if err != nil {
		return nil, err
	}
	kf, err := loadKnown()
	if err != nil {
		return nil, err
	}
	known := map[string]knownEntry{}
	for _, k := range kf.Known {
		known[k.Key] = k
	}
	v := &Verdict{Property: prop, Results: results}
	seenKey := map[string]int{}
	usedKnown := map[string]bool{}
	usedAlias := map[string]bool{}
	for _, r := range results {
		for _, o := range r.Obs {
			// keys must be unique per run: add ordinal among identical keys
			seenKey[o.Key]++
			if n := seenKey[o.Key]; n > 1 {
				o.Key = fmt.Sprintf("%s#%d", o.Key, n)
			}
			if o.Status == Violation || o.Status == Undecided {
				matched := o.Key
				if _, ok := rev[o.Key]; !ok {
					if _, ok := known[o.Key]; !ok {
						// moved into a single-caller helper: the caller's entry (its n-th, for repeated constructs)
						// the function was renamed, or a helper was inlined into it, since the entry was recorded
						if theProgram != nil {
							parts := strings.SplitN(o.Key, "|", 3)
							if len(parts) == 3 {
								for _, oldFn := range theProgram.keyAliases()[parts[1]] {
									o.Alias = append(o.Alias, parts[0]+"|"+oldFn+"|"+parts[2])
								}
							}
						}
					alias:
						for _, a := range o.Alias {
							for n := 1; n <= 4; n++ {
								k := a
								if n > 1 {
									k = fmt.Sprintf("%s#%d", a, n)
								}
								_, inRev := rev[k]
								_, inKnown := known[k]
								if (inRev || inKnown) && !usedAlias[k] && seenKey[k] == 0 {
									usedAlias[k] = true
									matched = k
									break alias
								}
							}
						}
					}
				}
				if reason, ok := rev[matched]; ok {
					o.Status = Reviewed
					o.How = "reviewed: " + reason
					if matched != o.Key {
						o.How += " [entry " + matched + ": the construct now lives in a helper with that single caller]"
					}
				} else if k, ok := known[matched]; ok {
					o.Status = Known
					o.How = o.How + " [known finding: " + k.Input + "]"
					if !usedKnown[k.Key] {
						usedKnown[k.Key] = true
						v.KnownHits = append(v.KnownHits, k)
					}
				}
			}
			if o.Status == Violation || o.Status == Undecided {
				v.Violations = append(v.Violations, o)
			}
			v.Obs = append(v.Obs, o)
		}
		for name, min := range r.Floor {
			if r.Analysed[name] < min {
				v.FloorFails = append(v.FloorFails, fmt.Sprintf("%s: analysed %s=%d below floor %d (rule would pass vacuously)", r.Rule, name, r.Analysed[name], min))
			}
		}
	}
	sort.Strings(v.FloorFails)
	return v, nil
}

// ---- evidence ----

type evidence struct {
	PropertyID  string         `json:"property_id"`
	Tier        string         `json:"tier"`
	Seed        int            `json:"seed"`
	Level       string         `json:"level"`
	Coverage    map[string]any `json:"coverage"`
	Assumptions []string       `json:"assumptions"`
	WallS       float64        `json:"wall_s"`
	Violations  int            `json:"violations"`
}

func writeEvidence(p *Program, pd *propDef, v *Verdict, tier string, seed int, wall float64, extra map[string]any) error {
	byStatus := map[Status]int{}
	nontrivial := map[string]bool{}
	perRule := map[string]map[string]int{}
	for _, o := range v.Obs {
		byStatus[o.Status]++
		if o.NonTrivial {
			nontrivial[o.Key] = true
		}
		if perRule[o.Rule] == nil {
			perRule[o.Rule] = map[string]int{}
		}
		perRule[o.Rule][string(o.Status)]++
	}
	// samples: up to 3 obligations per rule, preferring non-trivial ones,
	// plus every violation / known finding.
	var samples []any
	perRuleN := map[string]int{}
	for pass := 0; pass < 2; pass++ {
		for _, o := range v.Obs {
			want := (pass == 0 && (o.NonTrivial || o.Status != Discharged)) || (pass == 1 && !o.NonTrivial && o.Status == Discharged)
			if !want {
				continue
			}
			lim := 3
			if o.Status == Violation || o.Status == Undecided || o.Status == Known {
				lim = 50
			}
			if perRuleN[o.Rule+string(o.Status)] >= lim {
				continue
			}
			perRuleN[o.Rule+string(o.Status)]++
			samples = append(samples, o)
		}
	}
	analysed := map[string]map[string]int{}
	var notes []string
	var rules []string
	for _, r := range v.Results {
		analysed[r.Rule] = r.Analysed
		rules = append(rules, r.Rule)
		for _, n := range r.Notes {
			notes = append(notes, r.Rule+": "+n)
		}
	}
	cov := map[string]any{
		"explanation":         pd.Explanation,
		"obligations":         len(v.Obs),
		"discharged":          byStatus[Discharged] + byStatus[Reviewed],
		"reviewed":            byStatus[Reviewed],
		"known_findings":      byStatus[Known],
		"violations":          byStatus[Violation],
		"undecided":           byStatus[Undecided],
		"evaluations":         len(v.Obs),
		"distinct_nontrivial": len(nontrivial),
		"rule":                "one obligation per construct a rule must decide (call site, instruction, table row, hypothesis); non-trivial = needed a dominance, constant-propagation, provenance or table-comparison argument rather than a syntactic match; distinct by semantic key",
		"samples":             samples,
		"rules":               rules,
		"per_rule_status":     perRule,
		"analysed":            analysed,
		"notes":               notes,
		"checker_cmd":         fmt.Sprintf("/verif/check.sh %s %s", pd.ID, tier),
		"trusted_base":        trustedBase,
		"not_decided":         pd.NotDecided,
		"packages_loaded":     len(p.Pkgs),
		"functions_in_program": len(p.AllFns),
		"goarch":              p.Arch,
		"load_s":              p.LoadS,
		"floor_failures":      v.FloorFails,
		"stale_table_entries": v.Stale,
		"exhaustive":          true,
	}
	for k, x := range extra {
		cov[k] = x
	}
	ev := evidence{PropertyID: pd.ID, Tier: tier, Seed: seed, Level: "other", Coverage: cov,
		Assumptions: pd.Assumptions, WallS: wall, Violations: len(v.Violations) + len(v.FloorFails)}
	b, err := json.MarshalIndent(ev, "", " ")
	if err != nil {
		return err
	}
	dir := filepath.Join(outBase(), "evidence")
	if err := os.MkdirAll(dir, 0o755); err != nil {
		return err
	}
	return os.WriteFile(filepath.Join(dir, pd.ID+".json"), b, 0o644)
}

var trustedBase = []string{
	"go/types, go/ssa, callgraph/cha+vta of golang.org/x/tools v0.29.0",
	"library summaries confirmed by reading the pinned versions (shopspring/decimal v1.4.0 panics, protoreflect mutators, strings/regexp length facts)",
	"frozen FHIRPath N1 / FHIR R4 excerpts embedded in the checker (one oracle per rule)",
	"/verif/fpsa/reviewed.json entries (each one key, one reason)",
}
