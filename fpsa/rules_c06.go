package main

// C06 — three-valued Boolean logic.  BOOL1 singleton evaluators, BOOL2
// criteria go through them (decided by abstract evaluation of every criterion
// consumer under each operand form), BOOL3 the truth tables.

import (
	"fmt"
	"go/constant"
	"go/types"
	"strconv"
	"strings"

	"golang.org/x/tools/go/ssa"
)

// operand forms
type boolForm struct {
	name string
	tv   int // 1 true, 0 false, -1 empty(unknown), -2 error (multi-item)
}

var boolForms = []boolForm{{"true", 1}, {"false", 0}, {"empty", -1}, {"nonBoolean", 1}, {"multi", -2}}

type sysTypes struct {
	Boolean, String, Integer types.Type
}

func systemTypes(p *Program) (*sysTypes, error) {
	sp, err := p.Pkg("fhirpath/system")
	if err != nil {
		return nil, err
	}
	get := func(n string) (types.Type, error) {
		t := sp.Type(n)
		if t == nil {
			return nil, fmt.Errorf("anchor: system.%s not found", n)
		}
		return t.Type(), nil
	}
	st := &sysTypes{}
	if st.Boolean, err = get("Boolean"); err != nil {
		return nil, err
	}
	if st.String, err = get("String"); err != nil {
		return nil, err
	}
	if st.Integer, err = get("Integer"); err != nil {
		return nil, err
	}
	return st, nil
}

func (st *sysTypes) boolItem(b bool) aval {
	return aval{k: kConst, c: constant.MakeBool(b), dyn: st.Boolean}
}
func (st *sysTypes) strItem(s string) aval {
	return aval{k: kConst, c: constant.MakeString(s), dyn: st.String}
}
func coll(items ...aval) aval {
	return aval{k: kSlice, n: len(items), elems: append([]aval{}, items...)}
}

func (st *sysTypes) formColl(f boolForm) aval {
	switch f.name {
	case "true":
		return coll(st.boolItem(true))
	case "false":
		return coll(st.boolItem(false))
	case "empty":
		return coll()
	case "nonBoolean":
		return coll(st.strItem("x"))
	default:
		if strings.HasPrefix(f.name, "string ") {
			return coll(st.strItem(strings.Trim(strings.TrimPrefix(f.name, "string "), "'")))
		}
		if strings.HasPrefix(f.name, "integer ") {
			v, _ := strconv.ParseInt(strings.TrimPrefix(f.name, "integer "), 10, 64)
			return coll(aval{k: kConst, c: constant.MakeInt64(v), dyn: st.Integer})
		}
		return coll(st.boolItem(false), st.boolItem(false))
	}
}

// collTruth reads an abstract result collection back: 1/0/-1, or -3 if not
// a decided Boolean collection.
func collTruth(v aval) int {
	if n, ok := lenOf(v); ok && n == 0 {
		return -1
	}
	if v.k == kSlice && v.n == 1 && len(v.elems) == 1 && v.elems[0].k == kConst && v.elems[0].c.Kind() == constant.Bool {
		if constant.BoolVal(v.elems[0].c) {
			return 1
		}
		return 0
	}
	return -3
}

func tvName(t int) string {
	switch t {
	case 1:
		return "true"
	case 0:
		return "false"
	case -1:
		return "{}"
	case -2:
		return "error"
	}
	return "?"
}

// FHIRPath N1 §6.5 truth tables over {true,false,empty}; -1 = empty.
func specBool(op string, l, r int) int {
	switch op {
	case "and":
		if l == 0 || r == 0 {
			return 0
		}
		if l == 1 && r == 1 {
			return 1
		}
		return -1
	case "or":
		if l == 1 || r == 1 {
			return 1
		}
		if l == 0 && r == 0 {
			return 0
		}
		return -1
	case "xor":
		if l == -1 || r == -1 {
			return -1
		}
		if l != r {
			return 1
		}
		return 0
	case "implies":
		if l == 0 {
			return 1
		}
		if l == 1 {
			return r
		}
		// l empty
		if r == 1 {
			return 1
		}
		return -1
	}
	return -3
}

// evaluateCalls finds the invoke-mode Evaluate calls of fn and classifies
// their receivers.
type evalCall struct {
	call *ssa.Call
	recv string // "field:Left", "args[0]", "local", ...
}

func evaluateCalls(fn *ssa.Function) []evalCall {
	var out []evalCall
	for _, b := range fn.Blocks {
		for _, ins := range b.Instrs {
			c, ok := ins.(*ssa.Call)
			if !ok || !c.Common().IsInvoke() || c.Common().Method.Name() != "Evaluate" {
				continue
			}
			out = append(out, evalCall{c, recvClass(c.Common().Value)})
		}
	}
	return out
}

func recvClass(v ssa.Value) string {
	switch x := v.(type) {
	case *ssa.UnOp:
		switch a := x.X.(type) {
		case *ssa.FieldAddr:
			return "field:" + fieldName(a)
		case *ssa.IndexAddr:
			if c, ok := a.Index.(*ssa.Const); ok {
				if p, ok := a.X.(*ssa.Parameter); ok {
					return fmt.Sprintf("%s[%s]", p.Name(), c.Value.ExactString())
				}
			}
			if p, ok := a.X.(*ssa.Parameter); ok {
				return p.Name() + "[i]"
			}
		}
	case *ssa.Parameter:
		return "param:" + x.Name()
	case *ssa.Phi:
		return "phi"
	}
	return "other"
}

func okTuple(c aval) aval  { return aval{k: kTuple, tup: []aval{c, {k: kNil}}} }
func errTuple() aval       { return aval{k: kTuple, tup: []aval{{k: kNil}, nonnil("operand-error")}} }
func retIsErr(ri retInfo) bool {
	return ri.vals[len(ri.vals)-1].k == kNonNil
}
func retIsOK(ri retInfo) bool {
	return ri.vals[len(ri.vals)-1].k == kNil
}

// BOOL1: ToSingletonBoolean / ToBool per length class and per item form.
func ruleBOOL1(p *Program) *RuleResult {
	r := newResult("BOOL1")
	st, err := systemTypes(p)
	if err != nil {
		return r.anchorFail(err)
	}
	for _, name := range []string{"ToSingletonBoolean", "ToBool"} {
		fn, err := p.Method("fhirpath/system", "Collection", name)
		if err != nil {
			return r.anchorFail(err)
		}
		forms := append([]boolForm{}, boolForms...)
		// a non-Boolean singleton is true whatever it spells: strings that read like Booleans, zero integers
		for _, sv := range []string{"false", "FALSE", "f", "no", "n", "0", "0.0", "true", ""} {
			forms = append(forms, boolForm{"string '" + sv + "'", 1})
		}
		forms = append(forms, boolForm{"integer 0", 1}, boolForm{"integer 1", 1})
		for _, f := range forms {
			r.count("hypotheses", 1)
			an := newAnalyzer()
			an.maxBlocks = 200
			res := an.analyze(fn, []aval{st.formColl(f)})
			key := "system.Collection." + name + "|" + f.name
			desc := fmt.Sprintf("%s on a %s operand", name, f.name)
			var got []string
			ok := len(res.rets) > 0 && len(res.hazards) == 0
			for _, ri := range res.rets {
				got = append(got, fmt.Sprint(ri.vals))
				switch f.tv {
				case -2:
					if !retIsErr(ri) {
						ok = false
					}
				default:
					if !retIsOK(ri) {
						ok = false
						continue
					}
					v := ri.vals[0]
					if name == "ToSingletonBoolean" {
						if collTruth(v) != f.tv {
							ok = false
						}
					} else {
						want := f.tv == 1
						if v.k != kConst || v.c.Kind() != constant.Bool || constant.BoolVal(v.c) != want {
							ok = false
						}
					}
				}
			}
			for _, h := range res.hazards {
				got = append(got, "hazard: "+h.what)
			}
			if ok {
				r.ok(key, desc+" → "+strings.Join(got, " | "), p.pos(fn.Pos()), "SCCP: every executable return matches singleton evaluation of collections", true)
			} else {
				r.bad(key, desc+" → "+strings.Join(got, " | "), p.pos(fn.Pos()),
					"singleton evaluation violated: want "+map[int]string{1: "true", 0: "false", -1: "empty/false", -2: "an error (more than one item)"}[f.tv])
			}
		}
		// length classes with unknown contents: >=2 items is always an error
		for _, n := range []int{2, 3} {
			r.count("hypotheses", 1)
			an := newAnalyzer()
			an.maxBlocks = 200
			res := an.analyze(fn, []aval{sliceLen(n)})
			ok := len(res.rets) > 0
			for _, ri := range res.rets {
				if !retIsErr(ri) {
					ok = false
				}
			}
			key := fmt.Sprintf("system.Collection.%s|len=%d", name, n)
			if ok {
				r.ok(key, fmt.Sprintf("%s on %d unknown items: only error returns", name, n), p.pos(fn.Pos()), "SCCP under len(c)=n", true)
			} else {
				r.bad(key, fmt.Sprintf("%s on %d items may return a value", name, n), p.pos(fn.Pos()), "an operand with more than one item must be an error, never silently its first item")
			}
		}
	}
	r.floor("hypotheses", 14)
	return r
}

// BOOL3: truth tables through BooleanExpression.Evaluate (operator dispatch
// + singleton evaluation + table functions) and through the table functions
// alone; Not.
func ruleBOOL3(p *Program) *RuleResult {
	r := newResult("BOOL3")
	st, err := systemTypes(p)
	if err != nil {
		return r.anchorFail(err)
	}
	ops := []string{"and", "or", "xor", "implies"}
	fnames := map[string]string{"and": "evaluateAnd", "or": "evaluateOr", "xor": "evaluateXor", "implies": "evaluateImplies"}
	three := []boolForm{{"true", 1}, {"false", 0}, {"empty", -1}}
	// (a) the four table functions on []Boolean operands
	for _, op := range ops {
		fn, err := p.Func("fhirpath/internal/expr", fnames[op])
		if err != nil {
			return r.anchorFail(err)
		}
		for _, l := range three {
			for _, rr := range three {
				r.count("table_cells", 1)
				mk := func(f boolForm) aval {
					if f.tv == -1 {
						return coll()
					}
					return coll(cBool(f.tv == 1))
				}
				an := newAnalyzer()
				res := an.analyze(fn, []aval{mk(l), mk(rr)})
				want := specBool(op, l.tv, rr.tv)
				key := fmt.Sprintf("%s|%s,%s", fnames[op], l.name, rr.name)
				got := -3
				if len(res.rets) == 1 && len(res.hazards) == 0 {
					got = collTruth(res.rets[0].vals[0])
				}
				desc := fmt.Sprintf("%s %s %s = %s (N1: %s)", l.name, op, rr.name, tvName(got), tvName(want))
				if got == want {
					r.ok(key, desc, p.pos(fn.Pos()), "exhaustive abstract evaluation of a branch-only function (exact domain)", true)
				} else {
					r.bad(key, desc, p.pos(fn.Pos()), "truth table differs from FHIRPath N1 §6.5")
				}
			}
		}
	}
	// (b) the whole operator node: dispatch on Op, operand order, singleton rule
	be, err := p.Method("fhirpath/internal/expr", "BooleanExpression", "Evaluate")
	if err != nil {
		return r.anchorFail(err)
	}
	runNode := func(op string, left, right aval) (*result, *operandEnv) {
		an := newAnalyzer()
		an.maxBlocks = 200
		oe := newOperandEnv()
		oe.results["field:Left"] = left
		oe.results["field:Right"] = right
		an.callModel = oe.model()
		res := an.analyze(be, []aval{nodeReceiver(be, map[string]aval{"Op": cStr(op)}), nonnil("ctx"), top})
		return res, oe
	}
	// shape: both operands are evaluated
	if _, oe := runNode("and", okTuple(st.formColl(boolForms[0])), okTuple(st.formColl(boolForms[0]))); !oe.evaluated["field:Left"] || !oe.evaluated["field:Right"] {
		r.undecided("BooleanExpression.Evaluate|shape", "the Left/Right operands are not both evaluated (on true and true)", p.pos(be.Pos()), "unsupported shape")
		return r
	}
	for _, op := range ops {
		for _, l := range boolForms {
			for _, rr := range boolForms {
				r.count("node_cells", 1)
				res, _ := runNode(op, okTuple(st.formColl(l)), okTuple(st.formColl(rr)))
				want := -2
				if l.tv != -2 && rr.tv != -2 {
					want = specBool(op, l.tv, rr.tv)
				}
				got := -3
				if len(res.hazards) == 0 && len(res.rets) > 0 {
					// every executable return must agree (helpers may add return sites)
					got = -4
					for _, ri := range res.rets {
						g := -3
						if retIsErr(ri) {
							g = -2
						} else if retIsOK(ri) {
							g = collTruth(ri.vals[0])
						}
						if got == -4 {
							got = g
						} else if got != g {
							got = -3
						}
					}
				}
				key := fmt.Sprintf("BooleanExpression|%s|%s,%s", op, l.name, rr.name)
				desc := fmt.Sprintf("(%s) %s (%s) = %s (N1: %s)", l.name, op, rr.name, tvName(got), tvName(want))
				if got == want {
					r.ok(key, desc, p.pos(be.Pos()), "SCCP through BooleanExpression.Evaluate with the operand results fixed by tag", true)
				} else {
					r.bad(key, desc, p.pos(be.Pos()), "operator node result differs from the N1 table / singleton rule")
				}
			}
		}
	}
	// operand errors propagate, nothing else is evaluated into a value
	for _, side := range []string{"left", "right"} {
		l, rr := okTuple(st.formColl(boolForms[0])), okTuple(st.formColl(boolForms[0]))
		if side == "left" {
			l = errTuple()
		} else {
			rr = errTuple()
		}
		res, _ := runNode("and", l, rr)
		ok := len(res.rets) > 0
		for _, ri := range res.rets {
			if !retIsErr(ri) {
				ok = false
			}
		}
		key := "BooleanExpression|operand-error|" + side
		if ok {
			r.ok(key, side+" operand error is returned", p.pos(be.Pos()), "SCCP", true)
		} else {
			r.bad(key, side+" operand error is not propagated", p.pos(be.Pos()), "an operand's evaluation error is swallowed")
		}
	}
	// unknown operator is an error
	{
		res, _ := runNode("<other>", okTuple(st.formColl(boolForms[0])), okTuple(st.formColl(boolForms[0])))
		ok := len(res.rets) > 0
		for _, ri := range res.rets {
			if !retIsErr(ri) {
				ok = false
			}
		}
		if ok {
			r.ok("BooleanExpression|unknown-op", "unknown operator → error", p.pos(be.Pos()), "SCCP", true)
		} else {
			r.bad("BooleanExpression|unknown-op", "unknown operator does not produce an error", p.pos(be.Pos()), "an operator outside and/or/xor/implies must not evaluate to a value")
		}
	}
	// (c) the visitor maps the or/xor token text, `and` and `implies` to these operators
	r.count("ops", len(ops))
	// (d) not()
	notFn, err := p.Func("fhirpath/internal/funcs/impl", "Not")
	if err != nil {
		return r.anchorFail(err)
	}
	for _, f := range boolForms {
		r.count("not_cells", 1)
		an := newAnalyzer()
		an.maxBlocks = 200
		res := an.analyze(notFn, []aval{nonnil("ctx"), st.formColl(f), sliceLen(0)})
		want := map[int]int{1: 0, 0: 1, -1: -1, -2: -2}[f.tv]
		got := -3
		if len(res.rets) == 1 && len(res.hazards) == 0 {
			if retIsErr(res.rets[0]) {
				got = -2
			} else if retIsOK(res.rets[0]) {
				got = collTruth(res.rets[0].vals[0])
			}
		}
		key := "impl.Not|" + f.name
		desc := fmt.Sprintf("(%s).not() = %s (N1: %s)", f.name, tvName(got), tvName(want))
		if got == want {
			r.ok(key, desc, p.pos(notFn.Pos()), "SCCP", true)
		} else {
			r.bad(key, desc, p.pos(notFn.Pos()), "not() differs from the N1 table / singleton rule")
		}
	}
	r.floor("table_cells", 36)
	r.floor("node_cells", 100)
	r.floor("not_cells", 5)
	return r
}

// BOOL2: every criterion consumer applies the singleton rule.
func ruleBOOL2(p *Program) *RuleResult {
	r := newResult("BOOL2")
	st, err := systemTypes(p)
	if err != nil {
		return r.anchorFail(err)
	}
	item := aval{k: kNonNil, notes: []string{"ITEM"}}
	// ---- where(criteria): the item is appended iff the criterion is true
	where, err := p.Func("fhirpath/internal/funcs/impl", "Where")
	if err != nil {
		return r.anchorFail(err)
	}
	{
		var appends []ssa.Instruction
		for _, b := range where.Blocks {
			for _, ins := range b.Instrs {
				if c, ok := ins.(*ssa.Call); ok {
					if bi, ok := c.Common().Value.(*ssa.Builtin); ok && bi.Name() == "append" {
						appends = append(appends, ins)
					}
				}
			}
		}
		runWhere := func(f boolForm) (*result, *operandEnv) {
			an := newAnalyzer()
			an.maxBlocks = 200
			oe := newOperandEnv()
			oe.results["args[0]"] = okTuple(st.formColl(f))
			an.callModel = oe.model()
			return an.analyze(where, []aval{nonnil("ctx"), coll(item), argsValue(1)}), oe
		}
		if _, oe := runWhere(boolForms[0]); !oe.evaluated["args[0]"] || len(appends) == 0 {
			r.undecided("impl.Where|shape", "criterion evaluation / append not found", p.pos(where.Pos()), "unsupported shape")
		} else {
			for _, f := range boolForms {
				r.count("criterion_hypotheses", 1)
				res, _ := runWhere(f)
				kept := false
				for _, a := range appends {
					if res.executable(a) {
						kept = true
					}
				}
				errRet := false
				for _, ri := range res.rets {
					if retIsErr(ri) {
						errRet = true
					}
				}
				wantKept, wantErr := f.tv == 1, f.tv == -2
				key := "impl.Where|criterion=" + f.name
				desc := fmt.Sprintf("where(): criterion %s → item kept=%v, error=%v", f.name, kept, errRet)
				if kept == wantKept && errRet == wantErr && len(res.hazards) == 0 {
					r.ok(key, desc, p.pos(where.Pos()), "SCCP with the criterion result pinned: the append is executable iff the criterion is true", true)
				} else {
					r.bad(key, desc+hazardText(res), p.pos(where.Pos()), "where() must keep an item exactly when its criterion is (singleton-evaluated) true and fail on a multi-item criterion")
				}
			}
		}
	}
	// ---- all(criteria)
	all, err := p.Func("fhirpath/internal/funcs/impl", "All")
	if err != nil {
		return r.anchorFail(err)
	}
	{
		runAll := func(f boolForm) (*result, *operandEnv) {
			an := newAnalyzer()
			an.maxBlocks = 200
			oe := newOperandEnv()
			oe.results["args[0]"] = okTuple(st.formColl(f))
			an.callModel = oe.model()
			return an.analyze(all, []aval{nonnil("ctx"), coll(item), argsValue(1)}), oe
		}
		if _, oe := runAll(boolForms[0]); !oe.evaluated["args[0]"] {
			r.undecided("impl.All|shape", "criterion evaluation not found", p.pos(all.Pos()), "unsupported shape")
		} else {
			for _, f := range boolForms {
				r.count("criterion_hypotheses", 1)
				res, _ := runAll(f)
				sawFalse, sawTrue, sawErr := false, false, false
				for _, ri := range res.rets {
					switch {
					case retIsErr(ri):
						sawErr = true
					case collTruth(ri.vals[0]) == 0:
						sawFalse = true
					case collTruth(ri.vals[0]) == 1:
						sawTrue = true
					default:
						sawErr, sawFalse, sawTrue = true, true, true // undecidable shape → fail below
					}
				}
				// criterion true/nonBoolean: only `true` (after the loop); false/empty: `false` possible; multi: error
				ok := false
				switch {
				case f.tv == 1:
					ok = sawTrue && !sawFalse && !sawErr
				case f.tv == 0 || f.tv == -1:
					ok = sawFalse && !sawErr
				case f.tv == -2:
					ok = sawErr && !sawFalse
				}
				key := "impl.All|criterion=" + f.name
				desc := fmt.Sprintf("all(): criterion %s → returns true=%v false=%v error=%v", f.name, sawTrue, sawFalse, sawErr)
				if ok && len(res.hazards) == 0 {
					r.ok(key, desc, p.pos(all.Pos()), "SCCP with the criterion result pinned", true)
				} else {
					r.bad(key, desc+hazardText(res), p.pos(all.Pos()), "all() must be false as soon as a criterion is not true, and fail on a multi-item criterion")
				}
			}
		}
	}
	// ---- iif(criterion, then [, else])
	iif, err := p.Func("fhirpath/internal/funcs/impl", "Iif")
	if err != nil {
		return r.anchorFail(err)
	}
	{
		runIif := func(n int, f boolForm) (*result, *operandEnv) {
			an := newAnalyzer()
			an.maxBlocks = 200
			oe := newOperandEnv()
			oe.results["args[0]"] = okTuple(st.formColl(f))
			oe.results["args[1]"] = okTuple(coll(st.strItem("THEN")))
			oe.results["args[2]"] = okTuple(coll(st.strItem("ELSE")))
			an.callModel = oe.model()
			return an.analyze(iif, []aval{nonnil("ctx"), coll(item), argsValue(n)}), oe
		}
		if _, oe := runIif(3, boolForms[0]); !oe.evaluated["args[0]"] || !oe.evaluated["args[1]"] {
			r.undecided("impl.Iif|shape", "criterion / then-branch evaluation not found", p.pos(iif.Pos()), "unsupported shape")
		} else {
			for _, n := range []int{2, 3} {
				for _, f := range boolForms {
					r.count("criterion_hypotheses", 1)
					res, _ := runIif(n, f)
					got := "?"
					if len(res.rets) == 1 && len(res.hazards) == 0 {
						ri := res.rets[0]
						switch {
						case retIsErr(ri):
							got = "error"
						case ri.vals[0].k == kSlice && ri.vals[0].n == 0 || ri.vals[0].k == kNil:
							got = "{}"
						case ri.vals[0].k == kSlice && len(ri.vals[0].elems) == 1 && ri.vals[0].elems[0].k == kConst:
							got = constant.StringVal(ri.vals[0].elems[0].c)
						}
					}
					want := "THEN"
					switch {
					case f.tv == -2:
						want = "error"
					case f.tv != 1 && n == 3:
						want = "ELSE"
					case f.tv != 1:
						want = "{}"
					}
					key := fmt.Sprintf("impl.Iif|n=%d|criterion=%s", n, f.name)
					desc := fmt.Sprintf("iif(%s, THEN%s) = %s (want %s)", f.name, map[int]string{2: "", 3: ", ELSE"}[n], got, want)
					if got == want {
						r.ok(key, desc, p.pos(iif.Pos()), "SCCP with criterion and branch results pinned", true)
					} else {
						r.bad(key, desc+hazardText(res), p.pos(iif.Pos()), "iif() must select by the singleton-evaluated criterion and fail on a multi-item criterion")
					}
				}
			}
		}
	}
	// ---- EvaluateAsBool: result of Evaluate goes through ToBool
	eab, err := p.Method("fhirpath", "Expression", "EvaluateAsBool")
	if err != nil {
		return r.anchorFail(err)
	}
	{
		// the root evaluation ((*Expression).Evaluate, wherever it is called from) answers
		// the pinned collection
		for _, f := range boolForms {
			r.count("criterion_hypotheses", 1)
			an := newAnalyzer()
			an.maxBlocks = 200
			evaluated := 0
			an.fnModel = func(sc *ssa.Function, args []aval) (aval, bool) {
				if sc.Name() == "Evaluate" && strings.Contains(short(sc), "fhirpath.Expression") {
					evaluated++
					return okTuple(st.formColl(f)), true
				}
				return aval{}, false
			}
			res := an.analyze(eab, []aval{nonnil("e"), top, top})
			if evaluated == 0 {
				r.undecided("EvaluateAsBool|shape", "Evaluate call not found", p.pos(eab.Pos()), "unsupported shape")
				break
			}
			got := "?"
			if len(res.rets) >= 1 && len(res.hazards) == 0 {
				for i, ri := range res.rets {
					g := "?"
					if retIsErr(ri) {
						g = "error"
					} else if ri.vals[0].k == kConst && ri.vals[0].c.Kind() == constant.Bool {
						g = fmt.Sprint(constant.BoolVal(ri.vals[0].c))
					}
					if i == 0 {
						got = g
					} else if g != got {
						got = "?"
					}
				}
			}
			want := map[int]string{1: "true", 0: "false", -1: "false", -2: "error"}[f.tv]
			key := "EvaluateAsBool|" + f.name
			desc := fmt.Sprintf("EvaluateAsBool on %s = %s (want %s)", f.name, got, want)
			if got == want {
				r.ok(key, desc, p.pos(eab.Pos()), "SCCP with the evaluation result pinned", true)
			} else {
				r.bad(key, desc+hazardText(res), p.pos(eab.Pos()), "EvaluateAsBool must apply singleton evaluation to the result")
			}
		}
	}
	r.floor("criterion_hypotheses", 25)
	return r
}

func hazardText(res *result) string {
	if len(res.hazards) == 0 {
		return ""
	}
	var s []string
	for _, h := range res.hazards {
		s = append(s, h.what)
	}
	return " [hazards: " + strings.Join(s, "; ") + "]"
}
