#!/bin/bash
# usage: check.sh <property-id|all> [quick|thorough] [-v]
# Static analysis of /repo's current working tree; nothing under /repo is executed.
set -u
cd "$(dirname "$0")"
export GOFLAGS=-mod=mod GOPROXY=off GOSUMDB=off GOTOOLCHAIN=local GOWORK=off
unset GOARCH GOOS
prop="${1:?property id}"; tier="${2:-${VERIF_TIER:-quick}}"; shift; shift 2>/dev/null || true
if [ ! -x bin/fpsa ] || [ -n "$(find fpsa -newer bin/fpsa -name '*.go' -print -quit 2>/dev/null)" ]; then
  ./setup.sh >/dev/null || { echo "VIOLATION property=$prop replay=/verif/out/setup-failed"; exit 1; }
fi
exec bin/fpsa check -property "$prop" -tier "$tier" "$@"
