#!/bin/bash
# Builds the analyser from files on disk only (module cache; no network).
set -eu
cd "$(dirname "$0")"
export GOFLAGS=-mod=mod GOPROXY=off GOSUMDB=off GOTOOLCHAIN=local GOWORK=off
unset GOARCH GOOS
mkdir -p bin out evidence
(cd fpsa && go build -o ../bin/fpsa .)
echo "fpsa built"
